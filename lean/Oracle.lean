/-
The line-protocol driver: one case per line, `<property> <op> <args…>`, binary data hex-encoded
(`-` = empty).  Core-only (nothing imported here touches Mathlib) so that it links as a `lean_exe`.
Anything it cannot parse is answered with `bad-op` — never a default.
-/
import LfsModel.Pointer
import LfsModel.FilterModel
import LfsModel.Sha256
import LfsModel.Creds
import LfsModel.Config
import LfsModel.RedirectModel
import LfsModel.Download
import LfsModel.DownloadAlt
import LfsModel.DownloadConc
import LfsModel.TQTrace
import LfsModel.TQConcat
import LfsModel.TQAbort
import LfsModel.Backoff
import LfsModel.Expiry
import LfsModel.FilterProcess
import LfsModel.CrashExec
import LfsModel.Hooks
import LfsModel.Track
import LfsModel.TrackSeq
import LfsModel.PushModel
import LfsModel.PrePush
import LfsModel.PushReport
import LfsModel.CredCache
import LfsModel.Gen
import LfsModel.GenApi
import LfsModel.ApiReq
import LfsModel.UrlEscape
import LfsModel.PathList
import LfsModel.Checkout
import LfsModel.LogScan
import LfsModel.Prune
import LfsModel.Fsck
import LfsModel.FsckScan
import LfsModel.AttrFilter
import LfsModel.AuthLoop
import LfsModel.SmudgeSkip
import LfsModel.TagRewrite
import LfsModel.Rewrite
import LfsModel.Locks
import LfsModel.PostCommit
open Lfs

namespace Oracle

def hexVal (c : Char) : Option Nat :=
  if '0' ≤ c ∧ c ≤ '9' then some (c.toNat - 48)
  else if 'a' ≤ c ∧ c ≤ 'f' then some (c.toNat - 87) else none

def unhexL : List Char → Option Bytes
  | [] => some []
  | a :: b :: rest => do
    let x ← hexVal a; let y ← hexVal b; let r ← unhexL rest
    pure (UInt8.ofNat (x*16+y) :: r)
  | _ => none

def unhex (s : String) : Option Bytes := if s == "-" then some [] else unhexL s.toList

def hexDigit (n : Nat) : Char := if n < 10 then Char.ofNat (48+n) else Char.ofNat (87+n)
def hex (b : Bytes) : String :=
  if b.isEmpty then "-" else
  String.ofList (b.flatMap fun c => [hexDigit (c.toNat / 16), hexDigit (c.toNat % 16)])

def showPtr (p : Ptr) : String :=
  s!"{hex p.oid} {p.size} [{String.intercalate "," (p.exts.map fun e => s!"{e.prio}:{hex e.name}:{hex e.oid}")}]"

def showDec : Except Err (Ptr × Bool) → String
  | .error .notPtr => "err notptr"
  | .error .badKey => "err badkey"
  | .error .other => "err other"
  | .ok (p, c) => s!"ok {showPtr p} canon={c} enc={hex (enc p)}"

def parseExt (s : String) : Option Ext :=
  match s.splitOn ":" with
  | [p, n, o] => do
    let p ← p.toNat?; let n ← unhex n; let o ← unhex o
    pure { name := n, prio := p, oid := o }
  | _ => none

def parseExts (s : String) : Option (List Ext) :=
  if s == "[]" then some [] else
  let inner := (s.drop 1).dropEnd 1 |>.toString
  (inner.splitOn ",").mapM parseExt

def c07 : List String → String
  | ["dec", h] => match unhex h with
    | some b => showDec (dec b)
    | none => "bad-op"
  | ["enc", o, sz, ex] => match unhex o, sz.toNat?, parseExts ex with
    | some o, some n, some es => s!"enc {hex (enc { oid := o, size := n, exts := es })}"
    | _, _, _ => "bad-op"
  | _ => "bad-op"

/-- split `data` into the chunks of the harness's chunk reader: sizes c1..ck, then the remainder -/
def chunkify : List Nat → Bytes → List Bytes
  | _, [] => []
  | [], d => [d]
  | c :: cs, d => d.take c :: chunkify cs (d.drop c)

def parseChunks (s : String) : Option (List Nat) :=
  if s == "-" then some [] else (s.splitOn ",").mapM String.toNat?

def shaOrDash (b : Bytes) : String := if b.isEmpty then "-" else hex (Sha256.hexDigest b) |> fun _ =>
  String.ofList ((Sha256.hexDigest b).map fun c => Char.ofNat c.toNat)

def flt : List String → String
  | [op, ch, eof, d, obj] =>
    match parseChunks ch, unhex d, unhex obj with
    | some cs, some data, some o =>
      let s : LfsA.Stream := ⟨chunkify cs data, eof == "1"⟩
      if op == "clean" then
        let r := (Flt.clean Sha256.hexDigest s []).1
        s!"out={shaOrDash r.out} err=nil"
      else if op == "smudge" then
        let st : Flt.Store := if obj == "-" then [] else [(Sha256.hexDigest o, o)]
        match Flt.smudge s st with
        | .bytes out np => s!"out={shaOrDash out} err={if np then "notptr" else "nil"}"
        | .needDownload p => s!"out={shaOrDash (enc p)} err=nil"   -- lfs.skipdownloaderrors: pointer text written instead
      else "bad-op"
    | _, _, _ => "bad-op"
  | _ => "bad-op"

/-- insertion sort on strings (canonical order of the helper's lines) -/
def insertStr (x : String) : List String → List String
  | [] => [x]
  | y :: ys => if x ≤ y then x :: y :: ys else y :: insertStr x ys
def sortStr (l : List String) : List String := l.foldr insertStr []

def parsePair (s : String) : Option (Bytes × Bytes) :=
  match s.splitOn ":" with
  | [k, v] => do let k ← unhex k; let v ← unhex v; pure (k, v)
  | _ => none

def c17 : List String → String
  | ["buffer", pr, ps] =>
    let pairs? := if ps == "-" then some [] else (ps.splitOn ",").mapM parsePair
    match pairs? with
    | none => "bad-op"
    | some pairs =>
      let c : Cr.Creds := pairs.map fun kv => (kv.1, [kv.2])
      match Cr.buffer (pr == "1") c with
      | none => "none"
      | some out =>
        -- canonical form: the LF-separated lines, hex-encoded, sorted
        if out.getLast? != some 10 then "unterminated:" ++ hex out else
        let ls := (Cr.splitLFAll out.dropLast)
        String.intercalate "," (sortStr (ls.map hex))
  | ["seq", dflt, steps] =>
    -- steps: `;`-separated, `g<d|t|f>` = GetCredentialHelper for a URL configured default/true/false,
    -- `f<pairs>` = a fill with these key=value pairs; answer: one `r`(efused) / `a`(ccepted) per fill
    let ops? : Option (List Cr.CtxOp) := (steps.splitOn ";").mapM fun st =>
      if st.startsWith "g" then
        some (Cr.CtxOp.get (if st == "gt" then some true else if st == "gf" then some false else none))
      else if st.startsWith "f" then
        let ps := (st.drop 1).toString
        (if ps == "-" then some [] else (ps.splitOn ",").mapM parsePair).map fun pairs =>
          Cr.CtxOp.fill (pairs.map fun kv => (kv.1, [kv.2]))
      else none
    match ops? with
    | none => "bad-op"
    | some ops =>
      String.intercalate "," ((Cr.ctxRun (dflt == "1") (dflt == "1") ops).map fun o => if o.isSome then "a" else "r")
  | _ => "bad-op"

def parseSource (s : String) : Option Cfg.Source :=
  match s.splitOn ":" with
  | [f, ls] => do
    let lines ← if ls == "-" then some [] else (ls.splitOn ",").mapM unhex
    pure { lines := lines, onlySafe := f == "1" }
  | _ => none

/-- per-key value lists in key order (the Go side sorts map keys), values in insertion order -/
def canonVals (vals : List (Bytes × Bytes)) : List String :=
  let keys := sortStr ((vals.map fun kv => hex kv.1).eraseDups)
  keys.flatMap fun k => (vals.filter fun kv => hex kv.1 == k).map fun kv => s!"{k}={hex kv.2}"

def c11 : List String → String
  | ["read", srcs] =>
    match (srcs.splitOn ";").mapM parseSource with
    | none => "bad-op"
    | some ss =>
      let st := Cfg.readGitConfig Gen.safeKeys ss
      s!"vals=[{String.intercalate "," (canonVals st.vals)}] exts=[{String.intercalate "," (sortStr (st.exts.map hex))}] remotes=[{String.intercalate "," (sortStr (st.remotes.map hex))}]"
  | ["get", srcs, key] =>
    -- the lookup the consumers use: the LAST value stored for the key, empty or not
    match (srcs.splitOn ";").mapM parseSource, unhex key with
    | some ss, some k =>
      (match Cfg.get (Cfg.readGitConfig Gen.safeKeys ss) k with
       | some v => "some:" ++ hex v
       | none => "none")
    | _, _ => "bad-op"
  | _ => "bad-op"

def parseLst (s : String) : Option Rd2.Lst :=
  match s.splitOn ":" with
  | [sc, name, port] =>
    let scheme? := if sc == "http" then some Rd2.Scheme.http else if sc == "https" then some Rd2.Scheme.https else none
    let port? : Option (Option Nat) := if port == "implicit" then some none else port.toNat?.map some
    match scheme?, port? with
    | some sc, some p => some { scheme := sc, name := name.hash.toNat, port := p }
    | _, _ => none
  | _ => none

def parseNode (s : String) : Option Rd2.Node :=
  match s.splitOn ":" with
  | [l, kind, _status, to, loc, thn] =>
    let kind? := if kind == "final" then some Rd2.Kind.final else if kind == "redirect" then some .redirect
      else if kind == "needauth" then some .needauth else none
    let loc? := if loc == "abs" || loc == "net" then some Rd2.Loc.abs else if loc == "rel" then some .rel else if loc == "bad" then some .bad else none
    match l.toNat?, kind?, to.toNat?, loc? with
    | some l, some k, some t, some lc => some { l := l, kind := k, to := t, loc := lc, thenRedirect := thn == "redirect" }
    | _, _, _, _ => none
  | _ => none

def showReq (r : Rd2.Req) : String :=
  s!"L{r.lst}/n{r.node}/" ++ (match r.auth with | none => "none" | some l => s!"L{l}")

def c10 : List String → String
  | ["run", entry, access, cr, nodes, lsts] =>
    match (nodes.splitOn ",").mapM parseNode, (lsts.splitOn ",").mapM parseLst with
    | some ns, some ls =>
      let w : Rd2.World := { lsts := ls, nodes := ns }
      let l0 := (ns.getD 0 ⟨0, .final, 0, .abs, false⟩).l
      let tr :=
        if entry == "header" then Rd2.runHeader w { node := 0, lst := l0, auth := some l0 }
        else
          -- cr: "0" nobody can fill, "1" the helper fills for every place, "u" only the LFS URL's userinfo (place l0)
          let fill : Nat → Bool := if cr == "1" then fun _ => true else if cr == "u" then fun l => l == l0 else fun _ => false
          Rd2.runAuth w fill 4 (access == "basic") { node := 0, lst := l0, auth := none, implicit := cr == "u" && entry == "api" }   -- only the API request is built from the LFS URL (with its userinfo)
      if tr.isEmpty then "-" else String.intercalate " " (tr.map showReq)
    | _, _ => "bad-op"
  | ["cache", ops] =>
    let key (p h pa : String) : Option CredCache.Key :=
      match unhex p, unhex h, unhex pa with
      | some a, some b, some c => some ⟨a, b, c⟩
      | _, _, _ => none
    let parseOp (t : String) : Option CredCache.Op :=
      match t.splitOn ":" with
      | ["F", p, h, pa] => (key p h pa).map .fill
      | ["R", p, h, pa] => (key p h pa).map .reject
      | ["A", p, h, pa, sec] => match key p h pa, sec.toNat? with
        | some k, some n => some (.approve ⟨k, n⟩)
        | _, _ => none
      | _ => none
    match (ops.splitOn ",").mapM parseOp with
    | some os =>
      let outs := (CredCache.run [] os).2
      String.intercalate "," ((os.zip outs).map fun (op, o) => match op, o with
        | .fill _, some v => s!"hit:{v.secret}"
        | .fill _, none => "miss"
        | _, _ => "-")
    | none => "bad-op"
  | _ => "bad-op"

def parseDlResp (s : String) : Option Dl.Resp :=
  match s.splitOn "/" with
  | [nr, st, rk, body, cut, ra] =>
    let range? : Option (Option (Option Nat)) :=
      if rk == "none" then some none else if rk == "bad" then some (some none) else rk.toNat?.map fun k => some (some k)
    match st.toNat?, range?, unhex body with
    | some st, some rg, some b => some { noResponse := nr == "1", status := st, rangeStart := rg, body := b, cutErr := cut == "1", retryAfterOk := ra == "1" }
    | _, _, _ => none
  | _ => none

def unhexOpt (s : String) : Option (Option Bytes) := if s == "none" then some none else (unhex s).map some

def shaOpt : Option Bytes → String
  | none => "none"
  | some [] => "empty"
  | some b => String.ofList ((Sha256.hexDigest b).map fun c => Char.ofNat c.toNat)

def c02 : List String → String
  | ["dl", oid, size, part, final, script] =>
    let script? := if script == "-" then some [] else (script.splitOn ",").mapM parseDlResp
    match size.toNat?, unhexOpt part, unhexOpt final, script? with
    | some sz, some p, some f, some sc =>
      let (res, fs) := Dl.doTransfer Sha256.hexDigest oid.toUTF8.toList sz { part := p, final := f } sc
      let o := match res with
        | .ok => "ok"
        | .fail true true => "fail-later"
        | .fail true false => "fail-retriable"
        | .fail false _ => "fail"
      s!"{o} part={shaOpt fs.part} final={shaOpt fs.final}"
    | _, _, _, _ => "bad-op"
  | ["custom", oid, final, msgs] =>
    let parseMsg (t : String) : Option DlAlt.Msg :=
      match t.splitOn "/" with
      | ["u"] => some .unreadable
      | ["o"] => some .other
      | ["p", ok] => some (.progress (ok == "1"))
      | ["c", ok, err, file] => (unhexOpt file).map fun f => .complete (ok == "1") (err == "1") f
      | _ => none
    let ms? := if msgs == "-" then some [] else (msgs.splitOn ",").mapM parseMsg
    match unhexOpt final, ms? with
    | some f, some ms =>
      let (res, fin) := DlAlt.customRun Sha256.hexDigest oid.toUTF8.toList ms f
      let o := match res with | .ok => "ok" | _ => "fail"
      s!"{o} final={shaOpt fin}"
    | _, _ => "bad-op"
  | ["ssh", oid, final, conn, status, sizes, data, rerr] =>
    let parseSize (t : String) : Option (Option Int) :=
      if t == "bad" then some none else t.toInt?.map some
    let sz? := if sizes == "-" then some [] else (sizes.splitOn ",").mapM parseSize
    match unhexOpt final, status.toNat?, sz?, unhex data with
    | some f, some st, some sz, some d =>
      let (res, fin) := DlAlt.sshRun Sha256.hexDigest oid.toUTF8.toList
        { connErr := conn == "1", status := st, sizeArgs := sz, data := d, readErr := rerr == "2" } f
      let o := match res with
        | .ok => "ok"
        | .fail true _ => "fail-retriable"
        | .fail false _ => "fail"
      s!"{o} final={shaOpt fin}"
    | _, _, _, _ => "bad-op"
  | _ => "bad-op"

def parseTW (w : String) : Option TQ.TW :=
  match w.splitOn ":" with
  | ["add", o] => o.toNat?.map .add
  | ["take", o] => o.toNat?.map .take
  | ["batch", os] => ((os.splitOn "+").mapM String.toNat?).map .batch
  | ["retry", o, c] => do let o ← o.toNat?; let c ← c.toNat?; pure (.retry o c)
  | ["cfdrop", o] => o.toNat?.map .cfdrop
  | ["reply", o, k] => o.toNat?.map fun o => .reply o k
  | ["replyunknown"] => some .replyUnknown
  | ["result", o, out, dec] => o.toNat?.map fun o => .result o out dec
  | ["requeue", o] => o.toNat?.map .requeue
  | ["abort"] => some .abort
  | ["wait"] => some .wait
  | ["waitret"] => some .waitret
  | _ => none

def showTerm : TQ.Status → String
  | .unknown => "unknown" | .incoming => "incoming" | .waiting => "waiting" | .inBatch => "inBatch"
  | .job => "job" | .retryOut => "retryOut"
  | .term .delivered => "delivered" | .term .noAction => "noaction" | .term .errored => "errored"

def tqTrace : List String → String
  | ["trace", n, bs, mr, ws] =>
    match n.toNat?, bs.toNat?, mr.toNat?, (if ws == "" then some [] else (ws.splitOn ",").mapM parseTW) with
    | some n, some bs, some mr, some words =>
      -- `cap` is not validated here (the trace point sits before the possibly blocking send): liveness of Add is the watchdog's
      let s0 : TQ.State := { cap := 1000000, batchSize := bs, maxRetries := mr }
      match TQ.vrun s0 words 0 with
      | .error e => s!"stuck {e}"
      | .ok s =>
        let counts := (List.range n).map fun o => toString (s.delivered.count o)
        let terms := (List.range n).map fun o => showTerm (s.st o)
        s!"ok delivered={String.intercalate "/" counts} term={String.intercalate "/" terms} counter={s.counter} aborted={s.aborted} reported={decide (0 < s.errors)}"
    | _, _, _, _ => "bad-op"
  | _ => "bad-op"

def c15 : List String → String
  | ["authsub", bits] =>
    -- bits: for the k-th answer, 1 = an authentication error that left the request without Authorization
    -- (the last bit repeats); the number of resubmissions allowed is the regenerated constant
    let bs := bits.toList.map (· == '1')
    let again : Nat → Bool := fun k => bs.getD k (bs.getLast?.getD false)
    s!"submissions {AuthLoop.submissions again Gen.defaultMaxAuthAttempts 0}"
  | ["delay", count, mx] =>
    match count.toNat?, mx.toNat? with
    | some c, some m => s!"delay {Backoff.delayMs 250 (1000 * m) c}"
    | _, _ => "bad-op"
  | ["expired", created, atS, ins, now, margin] =>
    -- instants in ms relative to some origin; `at` may be `none`; answer: is the action expired within the margin?
    let at? : Option (Option Int) := if atS == "none" then some none else atS.toInt?.map some
    (match created.toInt?, at?, ins.toInt?, now.toInt?, margin.toInt? with
     | some c, some a, some i, some n, some m =>
       if Expiry.expiredWithin ⟨c, a, i⟩ n m then "expired" else "usable"
     | _, _, _, _, _ => "bad-op")
  | _ => "bad-op"

def showStatus : FP.Status → String | .success => "success" | .delayed => "delayed" | .error => "error"
def showResp (marker : Bytes) (markerName : String) (r : FP.Resp) : String :=
  let c := if r.content == marker && !marker.isEmpty then markerName else shaOrDash r.content
  s!"status={showStatus r.status} content={c} final={match r.final with | some f => showStatus f | none => "-"}"

def c14 : List String → String
  | ["skipsmudge", cd, wanted, loc] =>
    -- which answer the smudge paths give for a well-formed pointer: cd = can-delay request, wanted / loc as 0|1
    let a := if cd == "1" then SmudgeSkip.delayed (wanted == "1") (loc == "1") else SmudgeSkip.oneShot (wanted == "1") (loc == "1")
    (match a with | .pointer => "pointer" | .content => "content" | .download => "download")
  | ["clean", d] => match unhex d with
    | some data => showResp [] "" (FP.answerClean Sha256.hexDigest ⟨[data], true⟩ []).1
    | none => "bad-op"
  | ["smudge", cd, wh, skip, objsha, d] =>
    let wh? : Option FP.Where := if wh == "local" then some .local else if wh == "server" then some .server
      else if wh == "missing" then some .missing else if wh == "failing" then some .failing else if wh == "stale" then some .stale else if wh == "none" then some .local else none
    match wh?, unhex d with
    | some w, some data =>
      let marker : Bytes := objsha.toUTF8.toList
      (match FP.answerSmudge (cd == "1") (skip == "1") w marker ⟨[data], true⟩ with
       | some r => showResp marker objsha r
       | none => "died")
    | _, _ => "bad-op"
  | _ => "bad-op"

def parseCrashWord (w : String) : Option CrashExec.Word :=
  match w.splitOn ":" with
  | ["have", a, n, sha] => some (.have_ a n sha)
  | ["create", a, n] => some (.create a n)
  | ["unlink", a, n] => some (.unlink a n)
  | ["rename", sa, sn, da, dn, sha] => some (.move false sa sn da dn sha)
  | ["link", sa, sn, da, dn, sha] => some (.move true sa sn da dn sha)
  | _ => none

def parseCrashWordI (w : String) : Option CrashExec.WordI :=
  match w.splitOn ":" with
  | ["write", a, n] => some (.write a n)
  | _ => (parseCrashWord w).map .w

def c09 : List String → String
  | ["exec", ws] =>
    -- both storage models: Crash (a link is a copy) and CrashI (a link is a second name of one inode)
    match (ws.splitOn ",").mapM parseCrashWordI with
    | none => "bad-op"
    | some words =>
      let plain := words.filterMap fun x => match x with | .w y => some y | _ => none
      match CrashExec.replay (fun _ => none) plain 0, CrashExec.replayI {} words 0 with
      | none, none => s!"ok {words.length}"
      | some i, _ => s!"refused at operation {i} (of the operations without write marks)"
      | none, some i => s!"refused at operation {i} by the inode model: {(ws.splitOn ",").getD i "?"}"
  | _ => "bad-op"

def c20Specs : List Hk.HookSpec := (Gen.hookCurrent.zip Gen.hookUpgradeables).map fun p => ⟨p.1, p.2⟩

def c20 : List String → String
  | ["all", op, force, fs] =>
    match (fs.splitOn ",").mapM unhexOpt with
    | none => "bad-op"
    | some files =>
      if files.length != c20Specs.length then "bad-op" else
      let inp := c20Specs.zip files
      let res := if op == "install" then (Hk.installAll Gen.hookReadWindow (force == "1") inp).1
                 else (Hk.uninstallAll Gen.hookReadWindow inp).1
      String.intercalate "," (res.map fun f => match f with | none => "none" | some b => shaOrDash b)
  | _ => "bad-op"

def c19 : List String → String
  | ["escglob", h] => (match unhex h with | some b => hex (Trk.escapeGlob b) | none => "bad-op")
  | ["escattr", h] => (match unhex h with | some b => hex (Trk.escapeAttr b) | none => "bad-op")
  | ["unesc", h] => (match unhex h with | some b => hex (Trk.unescapeAttr b) | none => "bad-op")
  | ["match", n, q] => (match unhex n, unhex q with
      | some n, some q => if Trk.matchLit (Trk.lex (Trk.escapeGlob n)) q then "1" else "0"
      | _, _ => "bad-op")
  | ["seq", lines, ops] =>
    -- lines: `<hex pat>:<hasFilter>:<lfs>:<lockable>` ; ops: `T<n|l|u>:<hex pat>` / `U:<hex pat>`
    let b := fun (s : String) => s == "1"
    let pl : Option (List TrkSeq.Line) :=
      if lines == "-" then some [] else
      ((lines.splitOn ",").zipIdx).mapM fun (x, i) => match x.splitOn ":" with
        | [p, hf, l, k] => (unhex p).map fun pb => (⟨pb, b hf, b l, b k, i + 1⟩ : TrkSeq.Line)
        | _ => none
    let po : Option (List TrkSeq.Op) :=
      if ops == "-" then some [] else
      (ops.splitOn ",").mapM fun x => match x.splitOn ":" with
        | ["Tn", p] => (unhex p).map fun pb => TrkSeq.Op.track pb .none
        | ["Tl", p] => (unhex p).map fun pb => TrkSeq.Op.track pb .lock
        | ["Tu", p] => (unhex p).map fun pb => TrkSeq.Op.track pb .unlock
        | ["U", p] => (unhex p).map fun pb => TrkSeq.Op.untrack pb
        | _ => none
    (match pl, po with
     | some ls, some os =>
       let r := TrkSeq.run ls os
       if r.isEmpty then "-" else
       String.intercalate "," (r.map fun l => s!"{hex l.pat}:{if l.lfs then 1 else 0}:{if l.lockable then 1 else 0}")
     | _, _ => "bad-op")
  | _ => "bad-op"

def parseRefs (s : String) : Option (List PushM.Ref) :=
  if s == "-" then some [] else
  (s.splitOn ",").mapM fun p => match p.splitOn ":" with
    | [n, i] => i.toNat?.map fun k => (n, k)
    | _ => none

def sortNat (l : List Nat) : List Nat := l.foldr (fun x acc => (acc.takeWhile (· ≤ x)) ++ [x] ++ (acc.dropWhile (· ≤ x))) []

def c03 : List String → String
  | ["report", m, a, e, u, v] =>
    let b := fun (x : String) => x == "1"
    if PushReport.ok ⟨b m, b a, b e, b u, b v⟩ then "ok" else "fail"
  | ["excl", c, a] => match parseRefs c, parseRefs a with
    | some cached, some actual =>
      String.intercalate "," (sortStr ((PushM.excluded cached actual).map toString))
    | _, _ => "bad-op"
  | ["prepush", inp] => match unhex inp with
    | some b =>
      -- bufio.ScanLines: split at LF, one trailing CR dropped (TrimSpace would drop it anyway)
      let lines := (b.splitOn 10)
      let us := PrePush.parse lines
      if us.isEmpty then "-" else
      String.intercalate ";" (us.map fun u => s!"{hex u.lref}/{hex u.lsha}/{hex u.rref}/{hex u.rsha}")
    | none => "bad-op"
  | _ => "bad-op"

/-! ### C18 -/
def strOfHex (h : String) : Option String := (unhex h).bind fun b => String.fromUTF8? (ByteArray.mk b.toArray)

/-- parser of the canonical JSON text (`Api.render`'s format): the harness sends captured bodies in it -/
partial def parseJ : List Char → Option (Api.J × List Char)
  | 'n' :: 'u' :: 'l' :: 'l' :: r => some (.null, r)
  | 't' :: 'r' :: 'u' :: 'e' :: r => some (.bool true, r)
  | 'f' :: 'a' :: 'l' :: 's' :: 'e' :: r => some (.bool false, r)
  | 's' :: r =>
    let h := r.takeWhile fun c => (hexVal c).isSome
    (strOfHex (if h.isEmpty then "-" else String.ofList h)).map fun v => (.str v, r.drop h.length)
  | '[' :: ']' :: r => some (.arr .nil, r)
  | '[' :: r =>
    let rec items (cs : List Char) (acc : List Api.J) : Option (List Api.J × List Char) :=
      match parseJ cs with
      | some (v, ',' :: r') => items r' (v :: acc)
      | some (v, ']' :: r') => some ((v :: acc).reverse, r')
      | _ => none
    (items r []).map fun (l, r') => (.arr (Api.JList.ofList l), r')
  | '{' :: '}' :: r => some (.obj .nil, r)
  | '{' :: r =>
    let rec members (cs : List Char) (acc : List (String × Api.J)) : Option (List (String × Api.J) × List Char) :=
      let h := cs.takeWhile fun c => (hexVal c).isSome
      match strOfHex (if h.isEmpty then "-" else String.ofList h), cs.drop h.length with
      | some k, ':' :: r1 =>
        (match parseJ r1 with
         | some (v, ',' :: r') => members r' ((k, v) :: acc)
         | some (v, '}' :: r') => some (((k, v) :: acc).reverse, r')
         | _ => none)
      | _, _ => none
    (members r []).map fun (l, r') => (.obj (Api.JObj.ofList l), r')
  | cs =>
    let neg := cs.head? == some '-'
    let ds := (if neg then cs.drop 1 else cs).takeWhile Char.isDigit
    if ds.isEmpty then none else
    let n : Int := (String.ofList ds).toNat!
    some (.num (if neg then -n else n), (if neg then cs.drop 1 else cs).drop ds.length)

def schemaByName : String → Option Api.Sch
  | "batch" => some Gen.batchRequestSchema
  | "lock-create" => some Gen.lockCreateRequestSchema
  | "lock-delete" => some Gen.lockDeleteRequestSchema
  | "lock-verify" => some ApiReq.lockVerifyRequestDoc
  | "verify" => some ApiReq.objectVerifyRequestDoc
  | _ => none

def parseObj (s : String) : Option ApiReq.Obj :=
  match s.splitOn ":" with
  | [o, n] => do let o ← strOfHex o; let n ← n.toInt?; pure ⟨o, n⟩
  | _ => none

def c18 : List String → String
  | ["batch", op, objs, ads, ref] =>
    (match strOfHex op, (if objs == "-" then some [] else (objs.splitOn ",").mapM parseObj),
           (if ads == "-" then some [] else (ads.splitOn ",").mapM strOfHex), strOfHex ref with
     | some op, some objs, some ads, some ref =>
       let r : ApiReq.BatchIn := ⟨op, objs, ads, ref⟩
       if ApiReq.batchSends r then Api.render (ApiReq.encBatch r) else "no-request"
     | _, _, _, _ => "bad-op")
  | ["lock", path, ref] => (match strOfHex path, strOfHex ref with
     | some p, some r => Api.render (ApiReq.encLock p r) | _, _ => "bad-op")
  | ["unlock", f, ref] => (match strOfHex ref with
     | some r => Api.render (ApiReq.encUnlock (f == "1") r) | _ => "bad-op")
  | ["lockverify", ref, cur, lim] => (match strOfHex ref, strOfHex cur, lim.toInt? with
     | some r, some c, some l => Api.render (ApiReq.encLockVerify r c l) | _, _, _ => "bad-op")
  | ["verify", o] => (match parseObj o with | some o => Api.render (ApiReq.encVerify o) | none => "bad-op")
  | ["unlockurl", id] => (match unhex id with
     | some b => hex (UrlEsc.unlockSuffix b) | none => "bad-op")
  | ["adapter", avail, answers] =>
    -- names are plain tokens here (basic, tus); `-` = an answer without a `transfer` member
    let av := avail.splitOn ","
    let an := (answers.splitOn ",").map fun a => if a == "-" then "" else a
    (match ApiReq.adapterAfter av none an with
     | some a => a | none => "none")
  | ["hashalgo", a] => (match strOfHex a with
     | some a => if ApiReq.acceptsHashAlgo a then "accept" else "reject" | none => "bad-op")
  | ["validate", sch, body] => (match schemaByName sch, parseJ body.toList with
     | some s, some (j, []) => if Api.validate s j then "valid" else "invalid"
     | _, _ => "bad-op")
  | _ => "bad-op"

/-! ### C04 -/
def bits (s : String) : List Bool := if s == "-" then [] else s.toList.map (· == '1')

def c04 : List String → String
  | ["paths", s] => (match unhex s with
     | some b => (match PathList.cleanPaths b 44 with
        | [] => "none"
        | ps => String.intercalate "," (ps.map hex))
     | none => "bad-op")
  | ["allows", d, inc, exc] =>
    -- pattern i matches the file iff bit i is set
    let ib := bits inc; let eb := bits exc
    let m : (Bool × Nat) → Bytes → Bool := fun p _ => if p.1 then ib.getD p.2 false else eb.getD p.2 false
    if Co.allows m ((List.range ib.length).map fun i => (true, i)) ((List.range eb.length).map fun i => (false, i)) (d == "1") [] then "1" else "0"
  | ["run", oid, size, loc, state] =>
    (match unhex oid, size.toNat? with
     | some o, some n =>
       let recorded : Ptr := { oid := o, size := n, exts := [] }
       let content : Bytes := [0xC0, 0xFF, 0xEE]
       let st : Co.Store := if loc == "1" then [(o, content)] else []
       let cur? : Option Co.WFile :=
         if state == "a0" then some (.absent false) else if state == "a1" then some (.absent true)
         else if state == "u" then some .unreadable
         else if state.startsWith "f" then (unhex (state.drop 1).toString).map Co.WFile.file else none
       (match cur? with
        | none => "bad-op"
        | some cur =>
          match Co.run recorded st cur, cur with
          | none, _ => "absent"
          | some out, .file b => if out == b then "keep" else if out == content then "content" else "pointer:" ++ hex out
          | some out, _ => if out == content then "content" else "pointer:" ++ hex out)
     | _, _ => "bad-op")
  | ["tofile", oid, size, content, state] =>
    (match unhex oid, size.toNat?, unhex content with
     | some o, some n, some cont =>
       let recorded : Ptr := { oid := o, size := n, exts := [] }
       let cur? : Option Co.WFile :=
         if state == "a0" then some (.absent false)
         else if state.startsWith "f" then (unhex (state.drop 1).toString).map Co.WFile.file else none
       (match cur? with
        | none => "bad-op"
        | some cur => hex (Co.smudgeToFile recorded [(o, cont)] cur))
     | _, _, _ => "bad-op")
  | ["tofetch", ps] =>
    -- ps: oid:size:localsize|n per pointer; answer: indices of the pointers requested
    let ptrs? := (if ps == "-" then some [] else (ps.splitOn ",").mapM fun t =>
      match t.splitOn ":" with
      | [o, n, l] => do
        let o ← unhex o; let n ← n.toNat?
        let l : Option Nat ← (if l == "n" then some none else l.toNat?.map some)
        pure (({ oid := o, size := n, exts := [] } : Ptr), l)
      | _ => none)
    (match ptrs? with
     | none => "bad-op"
     | some pl =>
       let sizeOf : Co.Store → Bytes → Option Nat := fun _ o => (pl.find? fun x => x.1.oid == o).bind (·.2)
       let want := Co.toFetch sizeOf [] (pl.map (·.1))
       String.intercalate "," (((List.range pl.length).zip pl).filterMap fun (i, x) =>
         if want.any (fun w => w.oid == x.1.oid && w.size == x.1.size) then some (toString i) else none))
  | _ => "bad-op"

/-! ### C05 -/
def natList (s : String) : Option (List Nat) := if s == "-" then some [] else (s.splitOn ",").mapM String.toNat?

def c05 : List String → String
  | ["logscan", d, log] =>
    (match unhex log with
     | some b =>
       let dir : UInt8 := if d == "-" then 45 else 43
       let res := LogScan.scanText dir b
       if res.isEmpty then "-" else
       String.intercalate "," (res.map fun (n, p) => hex n ++ ":" ++ hex p.oid ++ ":" ++ toString p.size)
     | none => "bad-op")
  | ["recent", now, rd, cd, od, refs] =>
    -- refs: `<h|r>:<tip>:<t>=<oid>+<oid>;<t>=…` separated by commas (`-` = none)
    let parseCommit (t : String) : Option (Int × List Nat) :=
      match t.splitOn "=" with
      | [tm, os] => do
        let tm ← tm.toInt?
        let os ← (if os == "" then some [] else (os.splitOn "+").mapM String.toNat?)
        pure (tm, os)
      | _ => none
    let parseRef (t : String) : Option Pr.RefT :=
      match t.splitOn ":" with
      | [h, tip, cs] => do
        let tip ← tip.toInt?
        let cs ← (if cs == "" then some [] else (cs.splitOn ";").mapM parseCommit)
        pure ⟨h == "h", tip, cs⟩
      | _ => none
    (match now.toInt?, rd.toNat?, cd.toNat?, od.toNat?, (if refs == "-" then some [] else (refs.splitOn ",").mapM parseRef) with
     | some now, some rd, some cd, some od, some rs =>
       let out := (Pr.retainedRecent now rd cd od rs).eraseDups
       if out.isEmpty then "-" else String.intercalate "," (sortStr (out.map toString))
     | _, _, _, _, _ => "bad-op")
  | ["prune", fl, lo, re, rc, ve] =>
    (match natList lo, natList re, natList rc, natList ve with
     | some lo, some re, some rc, some ve =>
       let b := fun (i : Nat) => (fl.toList.getD i '0') == '1'
       let o := Pr.prune ⟨b 0, b 1, b 2, b 3⟩ lo re rc ve
       (if o.halted then "halt " else "ok ") ++ (if o.deleted.isEmpty then "-" else String.intercalate "," (sortStr (o.deleted.map toString)))
     | _, _, _, _ => "bad-op")
  | _ => "bad-op"

/-! ### C13 -/
def c13 : List String → String
  | ["fsck", fl, refs, tracked] =>
    -- refs: `<oid>:<z|n>:<i|c|m>` ; tracked: `<id>:<c|n|r>`
    let b := fun (i : Nat) => (fl.toList.getD i '0') == '1'
    let refs? : Option (List Fs.Ref) := if refs == "-" then some [] else (refs.splitOn ",").mapM fun t =>
      match t.splitOn ":" with
      | [o, z, st] => do
        let o ← o.toNat?
        let st ← (if st == "i" then some Fs.ObjState.intact else if st == "c" then some .corrupt else if st == "m" then some .missing else none)
        pure ⟨o, z == "z", st⟩
      | _ => none
    let tr? : Option (List Fs.Tracked) := if tracked == "-" then some [] else (tracked.splitOn ",").mapM fun t =>
      match t.splitOn ":" with
      | [i, k] => do
        let i ← i.toNat?
        if k == "c" then some (Fs.Tracked.canonical i) else if k == "n" then some (.nonCanonical i) else if k == "r" then some (.notPointer i) else none
      | _ => none
    (match refs?, tr? with
     | some refs, some tr =>
       let o := Fs.fsck ⟨b 0, b 1, b 2⟩ refs tr
       let show_ := fun (l : List Nat) => if l.isEmpty then "-" else String.intercalate "," (sortStr (l.eraseDups.map toString))
       (if o.exitOk then "ok" else "fail") ++ " objects=" ++ show_ o.reportedObjects ++ " pointers=" ++ show_ o.reportedPointers ++ " moved=" ++ show_ o.moved
     | _, _ => "bad-op")
  | ["attr", lines] =>
    -- the attribute lines seen from one path, in order: three bits each — hit, mentions filter, filter=lfs
    let ls? : Option (List AttrFilter.Line) := if lines == "-" then some [] else (lines.splitOn ",").mapM fun t =>
      match t.toList with
      | [a, b, c] => some ⟨a == '1', b == '1', c == '1'⟩
      | _ => none
    (match ls? with
     | some ls => s!"fsck={if AttrFilter.fsckSays ls then 1 else 0} git={if AttrFilter.gitSays ls then 1 else 0}"
     | none => "bad-op")
  | ["scan", entries] =>
    -- entries in walk order: `<path>:<blob>:<excluded 0|1>`; answer: the blobs whose pointers are checked
    let es? : Option (List (Nat × Nat × Bool)) := if entries == "-" then some [] else (entries.splitOn ",").mapM fun t =>
      match t.splitOn ":" with
      | [p, b, e] => do pure ((← p.toNat?), (← b.toNat?), e == "1")
      | _ => none
    (match es? with
     | some es =>
       let ex := fun p => (es.find? (fun e => e.1 == p)).map (·.2.2) |>.getD false
       let r := FsScan.scanned ex (es.map fun e => (e.1, e.2.1))
       if r.isEmpty then "-" else String.intercalate "," (sortStr (r.map toString))
     | none => "bad-op")
  | _ => "bad-op"

/-! ### C12 -/
def showTarget : TagRw.Target → String
  | t => String.intercalate "," ((TagRw.metas t).map toString) ++ ":" ++ toString (TagRw.peel t)

def c12 : List String → String
  | ["tagrw", img, chain] =>
    -- img: `c>c'` or `-` (the commit was not rewritten); chain: `m1,m2:c` (tag objects outermost first; `:c` = none)
    let img? : Option (Nat → Option Nat) :=
      if img == "-" then some (fun _ => none) else
      match img.splitOn ">" with
      | [a, b] => (match a.toNat?, b.toNat? with
          | some x, some y => some (fun c => if c == x then some y else none) | _, _ => none)
      | _ => none
    let t? : Option TagRw.Target :=
      match chain.splitOn ":" with
      | [ms, c] =>
        (match c.toNat?, (if ms == "" then some [] else (ms.splitOn ",").mapM (·.toNat?)) with
         | some cn, some l => some (l.foldr (fun m acc => TagRw.Target.tag m acc) (TagRw.Target.commit cn))
         | _, _ => none)
      | _ => none
    (match img?, t? with
     | some f, some t => (match TagRw.rewrite f t with | some t' => showTarget t' | none => "none")
     | _, _ => "bad-op")
  | ["fixupattr", lines] =>
    -- lines: `<0|1>:<hex value|none>` in the order Git reads them; answer 1 = --fixup converts the path
    let ls? : Option (List Rw.AttrLine) := if lines == "-" then some [] else (lines.splitOn ",").mapM fun t =>
      match t.splitOn ":" with
      | [m, v] => if v == "none" then some (m == "1", none) else (unhex v).map fun b => (m == "1", some b)
      | _ => none
    (match ls? with
     | some ls => if Rw.fixupConverts ls then "1" else "0"
     | none => "bad-op")
  | ["rewrite", allow, conv, commits] =>
    -- allow: selected path indices; conv: `path:blob` pairs the blob function changes (to blob+1000);
    -- commits: `|`-separated trees of `path:mode:blob` entries, oldest first
    (match natList allow with
     | none => "bad-op"
     | some al =>
       let convs : List (Nat × Nat) := if conv == "-" then [] else (conv.splitOn ",").filterMap fun t =>
         match t.splitOn ":" with
         | [p, b] => (do let p ← p.toNat?; let b ← b.toNat?; pure (p, b))
         | _ => none
       let fn : Nat → Nat → Nat := fun p b => if convs.contains (p, b) then b + 1000 else b
       let trees? : Option (List (List Rw.Entry)) := (commits.splitOn "|").mapM fun ct =>
         if ct == "-" then some [] else (ct.splitOn ",").mapM fun t =>
           match t.splitOn ":" with
           | [p, m, b] => (do let p ← p.toNat?; let m ← m.toNat?; let b ← b.toNat?; pure (⟨p, m, b⟩ : Rw.Entry))
           | _ => none
       match trees? with
       | none => "bad-op"
       | some trees =>
         let cs : List Rw.Commit := (List.range trees.length).zip trees |>.map fun (i, t) => { id := i, parents := [], hdr := 0, tree := t }
         let st := Rw.rewrite (fun p => al.contains p) fn (fun c => c.tree.length) cs
         String.intercalate "|" (st.out.reverse.map fun c =>
           if c.tree.isEmpty then "-" else String.intercalate "," (c.tree.map fun e => s!"{e.path}:{e.mode}:{e.blob}")))
  | _ => "bad-op"

/-! ### C16 -/
def c16 : List String → String
  | ["run", ops] =>
    let srvOf := fun (x : String) => if x == "ok" then Lk.Srv.ok else Lk.Srv.refuse
    -- an op written with a leading `q` is a step INSIDE one command (git lfs lock a b c): no observation after it
    let quiet := (ops.splitOn ";").map fun o => o.startsWith "q"
    let ops? : Option (List Lk.Op) := (ops.splitOn ";").mapM fun o0 =>
      let o := if o0.startsWith "q" then (o0.drop 1).toString else o0
      match o.splitOn ":" with
      | ["L", p, sv] => p.toNat?.map fun p => Lk.Op.lock p (srvOf sv)
      | ["U", p, f, m, sv] => p.toNat?.map fun p => Lk.Op.unlockPath p (f == "1") (m == "1") (srvOf sv)
      | ["I", i, f, m, sv] => i.toNat?.map fun i => Lk.Op.unlockId i (f == "1") (m == "1") (srvOf sv)
      | ["V", sv] => some (Lk.Op.verify (srvOf sv))
      | ["O", p, w] => (do let p ← p.toNat?; let w ← w.toNat?; pure (Lk.Op.otherLock p w))
      | ["R", p] => p.toNat?.map Lk.Op.otherUnlock
      | _ => none
    (match ops? with
     | none => "bad-op"
     | some ops =>
       let showSt := fun (s : Lk.St) =>
         "t=" ++ String.intercalate "," (sortStr (s.table.map fun l => s!"{l.path}/{l.owner}")) ++
         " c=" ++ String.intercalate "," (sortStr (s.cache.map fun l => s!"{l.path}"))
       let rec go (s : Lk.St) : List Lk.Op → List String
         | [] => []
         | o :: os => let s' := Lk.step s o; showSt s' :: go s' os
       let outs := go { table := [], cache := [], nextId := 1 } ops
       String.intercalate ";" ((outs.zip quiet).filterMap fun (o, q) => if q then none else some o))
  | ["push", v, table, touched] =>
    (match natList touched with
     | none => "bad-op"
     | some tl =>
       let t : List Lk.Lock := if table == "-" then [] else (table.splitOn ",").filterMap fun x =>
         match x.splitOn "/" with
         | [p, o] => (do let p ← p.toNat?; let o ← o.toNat?; pure (⟨0, p, o⟩ : Lk.Lock))
         | _ => none
       if Lk.pushRejected (v == "1") t tl then "rejected" else "accepted")
  | ["changed", parents, tree] =>
    -- trees: `path:blob,…` (`-` = empty); parents separated by `;` (`none` = a root commit)
    let tr (x : String) : Option PostCommit.Tree :=
      if x == "-" then some [] else (x.splitOn ",").mapM fun e =>
        match e.splitOn ":" with
        | [p, b] => do pure ((← p.toNat?), (← b.toNat?))
        | _ => none
    let ps? : Option (List PostCommit.Tree) := if parents == "none" then some [] else (parents.splitOn ";").mapM tr
    (match ps?, tr tree with
     | some ps, some t =>
       let r := (PostCommit.changed ps t).eraseDups
       if r.isEmpty then "-" else String.intercalate "," (sortStr (r.map toString))
     | _, _ => "bad-op")
  | _ => "bad-op"

def answer (line : String) : String :=
  match line.splitOn " " with
  | "C07" :: rest => c07 rest
  | "FLT" :: rest => flt rest
  | "C17" :: rest => c17 rest
  | "C11" :: rest => c11 rest
  | "C10" :: rest => c10 rest
  | "C02" :: rest => c02 rest
  | "TQ" :: rest => tqTrace rest
  | "C14" :: rest => c14 rest
  | "C09" :: rest => c09 rest
  | "C20" :: rest => c20 rest
  | "C19" :: rest => c19 rest
  | "C03" :: rest => c03 rest
  | "C15" :: rest => c15 rest
  | ["C06", "awg", script] =>
    -- a = Add(1), A = Add(3), d = Done, x = Abort; answer: does Wait() return afterwards?
    let ops := script.toList.filterMap fun ch =>
      if ch == 'a' then some (TQAbort.Op.add 1) else if ch == 'A' then some (.add 3)
      else if ch == 'd' then some .done else if ch == 'x' then some .abort else none
    -- a WaitGroup that goes negative panics
    let states := ops.foldl (fun (acc : TQAbort.G × Bool) o => let g := TQAbort.step acc.1 o; (g, acc.2 || decide (g.wq < 0))) ({}, false)
    if states.2 then "panic" else if TQAbort.waitReturns states.1 then "returns" else "blocks"
  | ["C06", "concat", now, size, b, other] =>
    -- items `id:readyAtMs` separated by commas (`-` = none); answer `left|right` as id lists
    let items (t : String) : Option (List TQConcat.Item) :=
      if t == "-" then some [] else (t.splitOn ",").mapM fun x =>
        match x.splitOn ":" with
        | [i, r] => do let i ← i.toNat?; let r ← r.toInt?; pure (i, r)
        | _ => none
    (match now.toInt?, size.toNat?, items b, items other with
     | some now, some size, some b, some other =>
       let (l, r) := TQConcat.concat now b other size
       let sh (xs : List TQConcat.Item) := if xs.isEmpty then "-" else String.intercalate "," (xs.map fun x => toString x.1)
       sh l ++ "|" ++ sh r
     | _, _, _, _ => "bad-op")
  | "C18" :: rest => c18 rest
  | "C04" :: rest => c04 rest
  | "C05" :: rest => c05 rest
  | "C13" :: rest => c13 rest
  | "C12" :: rest => c12 rest
  | "C16" :: rest => c16 rest
  | ["C01", "mergeout", o, n] => (match unhex o, unhex n with
      | some o, some n => hex (Flt.mergeDriverOutput o n) | _, _ => "bad-op")
  | _ => "bad-op"

partial def loop (h : IO.FS.Stream) (out : IO.FS.Stream) : IO Unit := do
  let line ← h.getLine
  if line.isEmpty then return ()
  out.putStrLn (answer line.trimAscii.toString)
  loop h out

end Oracle

def main : IO Unit := do
  let out ← IO.getStdout
  Oracle.loop (← IO.getStdin) out
  out.flush
