/-
C13 — which paths `git lfs fsck --pointers` expects to hold a pointer (lfs/gitscanner_tree.go:
catFileBatchTreeForPointers builds an ordered list of rules from the attribute lines, attrRules.Allows lets the
last matching one decide), against Git's own rule (the LAST line that matches the path
and says something about `filter` decides).  The lines are seen from ONE path: `hit` says whether the line's
pattern matches that path (pattern matching itself is wildmatch's business; the correspondence check computes
`hit` for the harness's patterns and compares the outcome with what fsck names).  Core-only.
-/
namespace AttrFilter

structure Line where
  hit : Bool          -- the pattern matches the path
  hasFilter : Bool    -- the line sets or unsets `filter`
  lfs : Bool          -- … to `lfs`
  deriving Repr, DecidableEq

/-- Git: the last matching line that mentions `filter` decides; none: not tracked -/
def gitSays : List Line → Bool
  | [] => false
  | l :: rest => if l.hit && l.hasFilter then (if (rest.any fun m => m.hit && m.hasFilter) then gitSays rest else l.lfs) else gitSays rest

/-- fsck (since D21 was repaired): the rules are walked in order — the files higher up first, then line by line — and
    every matching line that mentions `filter` overrides what was decided so far.  A line without `filter`
    (`*.dat lockable`) is no rule at all (D71). -/
def fsckSays (ls : List Line) : Bool :=
  ls.foldl (fun acc l => if l.hit && l.hasFilter then l.lfs else acc) false

theorem gitSays_cons (l : Line) (rest : List Line) :
    gitSays (l :: rest) = if l.hit && l.hasFilter then (if (rest.any fun m => m.hit && m.hasFilter) then gitSays rest else l.lfs) else gitSays rest := by
  rw [gitSays]

theorem foldl_eq (ls : List Line) (acc : Bool) :
    ls.foldl (fun acc l => if l.hit && l.hasFilter then l.lfs else acc) acc
      = if (ls.any fun m => m.hit && m.hasFilter) then gitSays ls else acc := by
  induction ls generalizing acc with
  | nil => simp [gitSays]
  | cons l rest ih =>
    simp only [List.foldl_cons, List.any_cons]
    rw [ih, gitSays_cons]
    by_cases hl : (l.hit && l.hasFilter) = true
    · by_cases hr : (rest.any fun m => m.hit && m.hasFilter) = true
      · simp [hl, hr]
      · simp [hl, hr]
    · have hl' : (l.hit && l.hasFilter) = false := by simpa using hl
      by_cases hr : (rest.any fun m => m.hit && m.hasFilter) = true
      · simp [hl', hr]
      · have hr' : (rest.any fun m => m.hit && m.hasFilter) = false := by simpa using hr
        simp [hl', hr']

theorem gitSays_none (ls : List Line) (h : (ls.any fun m => m.hit && m.hasFilter) = false) : gitSays ls = false := by
  induction ls with
  | nil => rfl
  | cons l rest ih =>
    simp only [List.any_cons, Bool.or_eq_false_iff] at h
    rw [gitSays_cons]
    simp [h.1, ih h.2]

/-- THE FULL STATEMENT: fsck expects a pointer at a path exactly when Git tracks the path with LFS — for every list of
    attribute lines, in particular when a later line puts a path back into LFS after an earlier one took it out
    (the former known finding D21) -/
theorem fsck_eq_git (ls : List Line) : fsckSays ls = gitSays ls := by
  unfold fsckSays
  rw [foldl_eq]
  by_cases h : (ls.any fun m => m.hit && m.hasFilter) = true
  · simp [h]
  · have h' : (ls.any fun m => m.hit && m.hasFilter) = false := by simpa using h
    simp [h', gitSays_none ls h']

theorem fsck_implies_git (ls : List Line) (h : fsckSays ls = true) : gitSays ls = true := by
  rw [← fsck_eq_git]; exact h

theorem git_implies_fsck (ls : List Line) (h : gitSays ls = true) : fsckSays ls = true := by
  rw [fsck_eq_git]; exact h

/-- the input on which the full statement used to fail (D21): `-filter` then `filter=lfs` -/
theorem d21_repaired : gitSays [⟨true, true, false⟩, ⟨true, true, true⟩] = true ∧
    fsckSays [⟨true, true, false⟩, ⟨true, true, true⟩] = true := by decide

/-- lines that say nothing about `filter` (lockable-only lines) change neither verdict, wherever they stand -/
theorem filterless_line_irrelevant (pre post : List Line) (l : Line) (h : l.hasFilter = false) :
    fsckSays (pre ++ l :: post) = fsckSays (pre ++ post) ∧ gitSays (pre ++ l :: post) = gitSays (pre ++ post) := by
  have hg : gitSays (pre ++ l :: post) = gitSays (pre ++ post) := by
    induction pre with
    | nil => simp [gitSays_cons, h]
    | cons p pre ih =>
      simp only [List.cons_append]
      rw [gitSays_cons, gitSays_cons]
      simp [List.any_append, h, ih]
  exact ⟨by rw [fsck_eq_git, fsck_eq_git, hg], hg⟩

/-- lines whose pattern does not match the path change nothing either -/
theorem other_paths_lines_irrelevant (pre post : List Line) (l : Line) (h : l.hit = false) :
    fsckSays (pre ++ l :: post) = fsckSays (pre ++ post) ∧ gitSays (pre ++ l :: post) = gitSays (pre ++ post) := by
  have hg : gitSays (pre ++ l :: post) = gitSays (pre ++ post) := by
    induction pre with
    | nil => simp [gitSays_cons, h]
    | cons p pre ih =>
      simp only [List.cons_append]
      rw [gitSays_cons, gitSays_cons]
      simp [List.any_append, h, ih]
  exact ⟨by rw [fsck_eq_git, fsck_eq_git, hg], hg⟩

example : fsckSays [⟨true, true, true⟩, ⟨true, false, false⟩] = true ∧ gitSays [⟨true, true, true⟩, ⟨true, false, false⟩] = true := by decide

end AttrFilter
