/-
C13 — which paths `git lfs fsck --pointers` expects to hold a pointer (lfs/gitscanner_tree.go:
catFileBatchTreeForPointers builds an include list and an exclude list from the attribute lines and asks
filepathfilter.Filter.Allows with default false), against Git's own rule (the LAST line that matches the path
and says something about `filter` decides).  The lines are seen from ONE path: `hit` says whether the line's
pattern matches that path (pattern matching itself is wildmatch's business; the correspondence check computes
`hit` for the harness's patterns and compares the outcome with what fsck names).  Core-only.
-/
namespace AttrFilter

structure Line where
  hit : Bool          -- the pattern matches the path
  hasFilter : Bool    -- the line sets or unsets `filter`
  lfs : Bool          -- … to `lfs`
  deriving Repr, DecidableEq

/-- Git: the last matching line that mentions `filter` decides; none: not tracked -/
def gitSays : List Line → Bool
  | [] => false
  | l :: rest => if l.hit && l.hasFilter then (if (rest.any fun m => m.hit && m.hasFilter) then gitSays rest else l.lfs) else gitSays rest

/-- fsck: some matching line is filter=lfs, and no matching line sets another filter (or unsets it).
    A line without `filter` (e.g. `*.dat lockable`) is on neither list (D71). -/
def fsckSays (ls : List Line) : Bool :=
  (ls.any fun l => l.hit && l.hasFilter && l.lfs) && !(ls.any fun l => l.hit && l.hasFilter && !l.lfs)

/-- no false expectation: where fsck expects a pointer, Git tracks the path with LFS — for every list of lines -/
theorem fsck_implies_git (ls : List Line) (h : fsckSays ls = true) : gitSays ls = true := by
  induction ls with
  | nil => simp [fsckSays] at h
  | cons l rest ih =>
    simp only [fsckSays, List.any_cons, Bool.and_eq_true, Bool.or_eq_true, Bool.not_eq_true',
      Bool.or_eq_false_iff] at h
    obtain ⟨hany, hoff, hoffr⟩ := h
    unfold gitSays
    by_cases hl : (l.hit && l.hasFilter) = true
    · simp only [hl, if_true]
      by_cases hr : (rest.any fun m => m.hit && m.hasFilter) = true
      · simp only [hr, if_true]
        apply ih
        simp only [fsckSays, Bool.and_eq_true, Bool.not_eq_true']
        refine ⟨?_, hoffr⟩
        -- some later matching filter line exists and none of them is "off": it is lfs
        obtain ⟨m, hm, hmm⟩ := List.any_eq_true.mp hr
        apply List.any_eq_true.mpr
        refine ⟨m, hm, ?_⟩
        have := List.any_eq_false.mp hoffr m hm
        cases hl' : m.lfs <;> simp_all
      · simp only [hr]
        cases hlfs : l.lfs
        · simp_all
        · simp
    · simp only [hl]
      have hl' : (l.hit && l.hasFilter) = false := by simpa using hl
      apply ih
      simp only [fsckSays, Bool.and_eq_true, Bool.not_eq_true']
      refine ⟨?_, hoffr⟩
      rcases hany with h1 | h1
      · simp_all
      · exact h1

/-- and nothing is missed as long as no matching line takes the path out of LFS: then both agree -/
theorem git_implies_fsck_partial (ls : List Line) (hoff : (ls.any fun l => l.hit && l.hasFilter && !l.lfs) = false)
    (h : gitSays ls = true) : fsckSays ls = true := by
  induction ls with
  | nil => simp [gitSays] at h
  | cons l rest ih =>
    simp only [List.any_cons, Bool.or_eq_false_iff] at hoff
    obtain ⟨hl0, hr0⟩ := hoff
    simp only [fsckSays, List.any_cons, hl0, hr0, Bool.or_false, Bool.not_false, Bool.and_true, Bool.or_eq_true]
    unfold gitSays at h
    by_cases hl : (l.hit && l.hasFilter) = true
    · left
      cases hlfs : l.lfs
      · simp_all
      · simp_all
    · right
      simp only [hl] at h
      have := ih hr0 h
      simpa [fsckSays, hr0] using this

/-- D21 (known): a path taken out of LFS by one line and put back by a later one — Git tracks it, fsck does not
    expect a pointer there.  The full statement `gitSays ls = fsckSays ls` is false. -/
theorem d21_witness : gitSays [⟨true, true, false⟩, ⟨true, true, true⟩] = true ∧
    fsckSays [⟨true, true, false⟩, ⟨true, true, true⟩] = false := by decide

/-- lines that say nothing about `filter` (lockable-only lines) change neither verdict, wherever they stand -/
theorem filterless_line_irrelevant (pre post : List Line) (l : Line) (h : l.hasFilter = false) :
    fsckSays (pre ++ l :: post) = fsckSays (pre ++ post) ∧ gitSays (pre ++ l :: post) = gitSays (pre ++ post) := by
  constructor
  · simp [fsckSays, List.any_append, h]
  · induction pre with
    | nil => simp [gitSays, h]
    | cons p pre ih =>
      simp only [List.cons_append]
      unfold gitSays
      simp [List.any_append, h, ih]

/-- lines whose pattern does not match the path change nothing either -/
theorem other_paths_lines_irrelevant (pre post : List Line) (l : Line) (h : l.hit = false) :
    fsckSays (pre ++ l :: post) = fsckSays (pre ++ post) ∧ gitSays (pre ++ l :: post) = gitSays (pre ++ post) := by
  constructor
  · simp [fsckSays, List.any_append, h]
  · induction pre with
    | nil => simp [gitSays, h]
    | cons p pre ih =>
      simp only [List.cons_append]
      unfold gitSays
      simp [List.any_append, h, ih]

example : fsckSays [⟨true, true, true⟩, ⟨true, false, false⟩] = true ∧ gitSays [⟨true, true, true⟩, ⟨true, false, false⟩] = true := by decide

end AttrFilter
