/-
Probe: the set-level argument of C03 with every premise explicit.
-/
namespace Push

abbrev Commit := Nat
abbrev Oid := Nat

structure Repo where
  parents : Commit → List Commit
  objs : Commit → List Oid          -- LFS objects referenced by the commit's tree

/-- ancestors-or-self of a set of tips -/
inductive Reach (r : Repo) (tips : List Commit) : Commit → Prop
  | tip {c} : c ∈ tips → Reach r tips c
  | parent {c p} : Reach r tips c → p ∈ r.parents c → Reach r tips p

theorem reach_mono (r : Repo) {a b : List Commit} (h : ∀ c ∈ a, Reach r b c) {c : Commit}
    (hc : Reach r a c) : Reach r b c := by
  induction hc with
  | tip hm => exact h _ hm
  | parent _ hp ih => exact Reach.parent ih hp

/-- every LFS object of every commit reachable from the remote's refs is on the server -/
def ServerInv (r : Repo) (refs : List Commit) (S : Oid → Prop) : Prop :=
  ∀ c, Reach r refs c → ∀ o ∈ r.objs c, S o

/-- what `git rev-list --objects L ^E…` is assumed to guarantee (Spec/GitRevList, validated against
real git in every scenario): every object of a listed commit is listed unless it also belongs to a
commit reachable from the exclude side -/
def RevListLower (r : Repo) (L : Commit) (E : List Commit) (listed : Oid → Prop) : Prop :=
  ∀ c, Reach r [L] c → ¬ Reach r E c → ∀ o ∈ r.objs c,
    listed o ∨ ∃ c', Reach r E c' ∧ o ∈ r.objs c'

/-- **C03.push_preserves_server_inv**.  Premises, each to be *derived* from the model of the code:
`hE`  every excluded commit is reachable from the remote's refs as they are now (D23, D24 break it);
`hL`  the rev-list lower bound;
`hU`  every listed object is on the server after a push that exited 0 (D19 breaks it);
`hS`  the server only gains objects. -/
theorem push_preserves_server_inv (r : Repo) (R E : List Commit) (L : Commit)
    (S S' : Oid → Prop) (listed : Oid → Prop)
    (hinv : ServerInv r R S)
    (hE : ∀ e ∈ E, Reach r R e)
    (hL : RevListLower r L E listed)
    (hU : ∀ o, listed o → S' o)
    (hS : ∀ o, S o → S' o) :
    ServerInv r (L :: R) S' := by
  intro c hc o ho
  -- classical split: is c reachable from the old remote refs?
  by_cases hR : Reach r R c
  · exact hS o (hinv c hR o ho)
  · -- then c is reachable from L and not from E
    have hLc : Reach r [L] c := by
      -- a commit reachable from L :: R but not from R is reachable from L
      have : ∀ c, Reach r (L :: R) c → Reach r [L] c ∨ Reach r R c := by
        intro c hc
        induction hc with
        | tip hm =>
          cases hm with
          | head => exact Or.inl (Reach.tip List.mem_cons_self)
          | tail _ h => exact Or.inr (Reach.tip h)
        | parent _ hp ih =>
          rcases ih with h | h
          · exact Or.inl (Reach.parent h hp)
          · exact Or.inr (Reach.parent h hp)
      rcases this c hc with h | h
      · exact h
      · exact absurd h hR
    have hEc : ¬ Reach r E c := fun h => hR (reach_mono r hE h)
    rcases hL c hLc hEc o ho with h | ⟨c', hc', ho'⟩
    · exact hU o h
    · exact hS o (hinv c' (reach_mono r hE hc') o ho')

#print axioms push_preserves_server_inv
end Push
