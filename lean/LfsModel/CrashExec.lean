import LfsModel.Crash
/-
Executable replay of an observed file-system operation list in the storage model of Crash.lean
(used by the C09 correspondence: the traced operations of a real run must RUN under `Crash.step`,
i.e. satisfy the storage discipline that `prefix_intact` presupposes).
Names are mapped to numbers by `String.hash`; content is represented by the bytes of its SHA-256 hex
string and `H` maps those bytes to the same number space, so `H content = oid` iff the file's hash
equals the object's name.
-/
namespace CrashExec
open Crash

def nameId (s : String) : Nat := s.hash.toNat
def H (c : Bytes) : Oid := nameId (String.ofList (c.map fun b => Char.ofNat b.toNat))
def contentOf (sha : String) : Bytes := sha.toUTF8.toList

def pathOf (area name : String) : Path :=
  if area == "objects" then .obj (nameId name)
  else if area == "bad" then .bad (nameId name)
  else if area == "incomplete" && name.endsWith ".part" then .part (nameId name)
  else .tmp (nameId (area ++ "/" ++ name))

inductive Word
  | have_ (area name sha : String)           -- pre-existing file (initial state, not an operation)
  | create (area name : String)
  | move (isLink : Bool) (sa sn da dn sha : String)   -- rename/link; sha = hash of the file that arrives at dst
  | unlink (area name : String)

/-- returns the index of the first operation the model refuses, if any -/
def replay : Fs → List Word → Nat → Option Nat
  | _, [], _ => none
  | fs, w :: ws, i =>
    match w with
    | .have_ a n sha => replay (upd fs (pathOf a n) (some (contentOf sha))) ws (i + 1)
    | .create a n => (match step H fs (.create (pathOf a n)) with
        | some fs' => replay fs' ws (i + 1) | none => some i)
    | .unlink a n => (match step H fs (.unlink (pathOf a n)) with
        | some fs' => replay fs' ws (i + 1) | none => some i)
    | .move isLink sa sn da dn sha =>
      let src := pathOf sa sn
      let dst := pathOf da dn
      -- the write bursts are not traced: a temp/part source receives its content just before the move
      let fs1 : Fs := if isObj src then fs else upd fs src (some (contentOf sha))
      -- a rename replaces an existing target; the model's `link` requires the target to be absent
      let fs2 : Fs := if isLink then fs1 else fs1
      (match step H fs2 (if isLink then .link src dst else .rename src dst) with
        | some fs' => replay fs' ws (i + 1) | none => some i)

end CrashExec
