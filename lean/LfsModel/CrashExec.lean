import LfsModel.Crash
import LfsModel.CrashIno
/-
Executable replay of an observed file-system operation list in the storage model of Crash.lean
(used by the C09 correspondence: the traced operations of a real run must RUN under `Crash.step`,
i.e. satisfy the storage discipline that `prefix_intact` presupposes).
Names are mapped to numbers by `String.hash`; content is represented by the bytes of its SHA-256 hex
string and `H` maps those bytes to the same number space, so `H content = oid` iff the file's hash
equals the object's name.
-/
namespace CrashExec
open Crash

def nameId (s : String) : Nat := s.hash.toNat
def H (c : Bytes) : Oid := nameId (String.ofList (c.map fun b => Char.ofNat b.toNat))
def contentOf (sha : String) : Bytes := sha.toUTF8.toList

def pathOf (area name : String) : Path :=
  if area == "objects" then .obj (nameId name)
  else if area == "bad" then .bad (nameId name)
  else if area == "incomplete" && name.endsWith ".part" then .part (nameId name)
  else .tmp (nameId (area ++ "/" ++ name))

inductive Word
  | have_ (area name sha : String)           -- pre-existing file (initial state, not an operation)
  | create (area name : String)
  | move (isLink : Bool) (sa sn da dn sha : String)   -- rename/link; sha = hash of the file that arrives at dst
  | unlink (area name : String)

/-- returns the index of the first operation the model refuses, if any -/
def replay : Fs → List Word → Nat → Option Nat
  | _, [], _ => none
  | fs, w :: ws, i =>
    match w with
    | .have_ a n sha => replay (upd fs (pathOf a n) (some (contentOf sha))) ws (i + 1)
    | .create a n => (match step H fs (.create (pathOf a n)) with
        | some fs' => replay fs' ws (i + 1) | none => some i)
    | .unlink a n => (match step H fs (.unlink (pathOf a n)) with
        | some fs' => replay fs' ws (i + 1) | none => some i)
    | .move isLink sa sn da dn sha =>
      let src := pathOf sa sn
      let dst := pathOf da dn
      -- the write bursts are not traced: a temp/part source receives its content just before the move
      let fs1 : Fs := if isObj src then fs else upd fs src (some (contentOf sha))
      -- a rename replaces an existing target; the model's `link` requires the target to be absent
      let fs2 : Fs := if isLink then fs1 else fs1
      (match step H fs2 (if isLink then .link src dst else .rename src dst) with
        | some fs' => replay fs' ws (i + 1) | none => some i)

/-! ### the same replay in the model with hard links (CrashIno.lean) -/

inductive WordI
  | w (x : Word)
  | write (area name : String)      -- an EXISTING file is opened for writing (resume: truncate and/or append)

/-- index of the first operation the inode model refuses, if any -/
def replayI : CrashI.Fs → List WordI → Nat → Option Nat
  | _, [], _ => none
  | fs, x :: ws, i =>
    match x with
    | .write a n => (match CrashI.step H fs (.truncate (pathOf a n)) with
        | some fs' => replayI fs' ws (i + 1) | none => some i)
    | .w (.have_ a n sha) =>
      let fs1 : CrashI.Fs := { (CrashI.setName (CrashI.setData fs fs.next (contentOf sha)) (pathOf a n) fs.next) with next := fs.next + 1 }
      replayI fs1 ws (i + 1)
    | .w (.create a n) => (match CrashI.step H fs (.create (pathOf a n)) with
        | some fs' => replayI fs' ws (i + 1) | none => some i)
    | .w (.unlink a n) => (match CrashI.step H fs (.unlink (pathOf a n)) with
        | some fs' => replayI fs' ws (i + 1) | none => some i)
    | .w (.move isLink sa sn da dn sha) =>
      let src := pathOf sa sn
      let dst := pathOf da dn
      -- the write bursts are not traced: a temp/part source has received its content by now — through an
      -- inode that no object name may share
      let fs1? : Option CrashI.Fs :=
        if isObj src then some fs else
        match CrashI.lookup fs src with
        | none => some { (CrashI.setName (CrashI.setData fs fs.next (contentOf sha)) src fs.next) with next := fs.next + 1 }
        | some j =>
          if fs.data j == contentOf sha then some fs
          else if CrashI.aliasedToObj fs j then none
          else some (CrashI.setData fs j (contentOf sha))
      match fs1? with
      | none => some i
      | some fs1 =>
        (match CrashI.step H fs1 (if isLink then .link src dst else .rename src dst) with
          | some fs' => replayI fs' ws (i + 1) | none => some i)

end CrashExec
