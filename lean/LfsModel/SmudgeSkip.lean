/-
C14 — the decision of the two smudge paths for a well-formed pointer, as far as it depends on whether the path is
to be smudged at all (commands/command_smudge.go: smudge — the one-shot filter and the filter-process request
without can-delay — and delayedSmudge — the request with can-delay=1).
`wanted` = not skipped (GIT_LFS_SKIP_SMUDGE / --skip) and allowed by lfs.fetchinclude / lfs.fetchexclude;
`local` = the object is in local storage with the pointer's size (or the pointer's size is 0).  Core-only.
-/
namespace SmudgeSkip

inductive Answer where
  | pointer     -- the pointer text, re-encoded
  | content     -- the object's bytes
  | download    -- the object is fetched, then its bytes (one-shot: inside the call; filter-process: delayed)
  deriving Repr, DecidableEq

/-- smudge(): one-shot `git lfs smudge`, and `command=smudge` without can-delay -/
def oneShot (wanted isLocal : Bool) : Answer :=
  if !wanted then .pointer else if isLocal then .content else .download

/-- delayedSmudge(): `command=smudge` with can-delay=1 -/
def delayed (wanted isLocal : Bool) : Answer :=
  if wanted then (if isLocal then .content else .download) else .pointer

/-- the long-running filter answers a can-delay smudge with what the one-shot filter writes — for every combination of
    skip / filter verdict and presence of the object (eighth-round seed C14: `delayed` looked at `wanted` only for
    objects that are NOT local) -/
theorem delayed_eq_oneShot (wanted isLocal : Bool) : delayed wanted isLocal = oneShot wanted isLocal := by
  cases wanted <;> cases isLocal <;> rfl

/-- a path that is not to be smudged stays a pointer, whether or not its object happens to be local -/
theorem unwanted_stays_pointer (isLocal : Bool) : delayed false isLocal = .pointer ∧ oneShot false isLocal = .pointer := by
  cases isLocal <;> exact ⟨rfl, rfl⟩

/-- only an object that is wanted and not local is delayed -/
theorem delayed_iff (wanted isLocal : Bool) : delayed wanted isLocal = .download ↔ (wanted = true ∧ isLocal = false) := by
  cases wanted <;> cases isLocal <;> simp [delayed]

end SmudgeSkip
