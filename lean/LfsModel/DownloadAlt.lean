/-
C02, the other download adapters.
  * tq/custom.go (customAdapter.DoTransfer, download direction; also the standalone `file://` agent,
    which is a custom adapter whose agent is `git-lfs standalone-file`): the agent reports a file, git-lfs
    re-hashes THAT FILE (tools.VerifyFileHash) and only then renames it onto the final path.
  * tq/ssh.go (SSHAdapter.download / doDownload): a fresh private temp file, the object streamed through a
    hasher into it, rename only when the streamed bytes hash to the oid.
Both as total functions over a script of what the other side says.  Core-only; `H` (SHA-256) is a parameter.
-/
import LfsModel.Download

namespace DlAlt
open Dl

/-- one line the custom transfer agent writes -/
inductive Msg
  | unreadable                                   -- EOF on the agent's stdout, or a line that is not JSON
  | progress (oidOk : Bool)
  | complete (oidOk : Bool) (err : Bool) (file : Option Bytes)
      -- `file`: what is at the path the agent names, at the time git-lfs hashes it (none: nothing there)
  | other                                        -- a well-formed message with another event name
deriving Repr

variable (H : Bytes → Bytes)

/-- customAdapter.DoTransfer after the request was sent (tq/custom.go l.287–340) -/
def customRun (oid : Bytes) : List Msg → Option Bytes → Res × Option Bytes
  | [], final => (.fail false false, final)                       -- the agent went away
  | .unreadable :: _, final => (.fail false false, final)
  | .other :: _, final => (.fail false false, final)
  | .progress ok :: rest, final => if ok then customRun oid rest final else (.fail false false, final)
  | .complete ok err file :: _, final =>
    if !ok then (.fail false false, final)
    else if err then (.fail false false, final)
    else match file with
      | none => (.fail false false, final)                         -- VerifyFileHash cannot open it
      | some c => if H c = oid then (.ok, some c)                   -- rename(2) onto the final path
                  else (.fail false false, final)

theorem customRun_spec (oid : Bytes) (msgs : List Msg) (final : Option Bytes) :
    ((customRun H oid msgs final).1 = .ok → ∃ c, (customRun H oid msgs final).2 = some c ∧ H c = oid) ∧
    ((customRun H oid msgs final).1 ≠ .ok → (customRun H oid msgs final).2 = final) := by
  induction msgs with
  | nil => simp [customRun]
  | cons m rest ih =>
    cases m with
    | unreadable => simp [customRun]
    | other => simp [customRun]
    | progress ok =>
      simp only [customRun]
      by_cases h : ok = true
      · rw [if_pos h]; exact ih
      · rw [if_neg h]; simp
    | complete ok err file =>
      simp only [customRun]
      by_cases h1 : (!ok) = true
      · rw [if_pos h1]; simp
      · rw [if_neg h1]
        by_cases h2 : err = true
        · rw [if_pos h2]; simp
        · rw [if_neg h2]
          cases file with
          | none => simp
          | some c =>
            simp only
            by_cases h3 : H c = oid
            · rw [if_pos h3]; exact ⟨fun _ => ⟨c, rfl, h3⟩, fun h => absurd rfl h⟩
            · rw [if_neg h3]; simp

/-- what the pure-SSH server answers to `get-object` -/
structure SshResp where
  connErr : Bool := false              -- no connection / write or read error before a status was read
  status : Nat := 200
  sizeArgs : List (Option Int) := [some 0]
      -- every `size=` argument in order: none = not a number; the value is NOT compared with anything
  data : Bytes := []
  readErr : Bool := false              -- the data stream breaks off INSIDE a packet (a stream that merely ends
                                       -- at a packet boundary, without its flush packet, reads as the end of the data)
deriving Repr

/-- the argument loop of doDownload (l.241–257): exactly one `size=` with a non-negative number -/
def sizeOk : List (Option Int) → Bool
  | [some n] => decide (0 ≤ n)
  | _ => false

/-- SSHAdapter.doDownload: the temp file is fresh and private, so file = hashed stream -/
def sshRun (oid : Bytes) (r : SshResp) (final : Option Bytes) : Res × Option Bytes :=
  if r.connErr then (.fail false false, final)
  else if r.status < 200 ∨ 299 < r.status then (.fail true false, final)
  else if !sizeOk r.sizeArgs then (.fail false false, final)
  else if r.readErr then (.fail false false, final)
  else if H r.data ≠ oid then (.fail false false, final)
  else (.ok, some r.data)

theorem sshRun_spec (oid : Bytes) (r : SshResp) (final : Option Bytes) :
    ((sshRun H oid r final).1 = .ok → ∃ c, (sshRun H oid r final).2 = some c ∧ H c = oid) ∧
    ((sshRun H oid r final).1 ≠ .ok → (sshRun H oid r final).2 = final) := by
  unfold sshRun
  by_cases h1 : r.connErr = true
  · rw [if_pos h1]; simp
  · rw [if_neg h1]
    by_cases h2 : r.status < 200 ∨ 299 < r.status
    · rw [if_pos h2]; simp
    · rw [if_neg h2]
      by_cases h3 : (!sizeOk r.sizeArgs) = true
      · rw [if_pos h3]; simp
      · rw [if_neg h3]
        by_cases h4 : r.readErr = true
        · rw [if_pos h4]; simp
        · rw [if_neg h4]
          by_cases h5 : H r.data ≠ oid
          · rw [if_pos h5]; simp
          · rw [if_neg h5]
            have : H r.data = oid := Classical.not_not.mp h5
            exact ⟨fun _ => ⟨r.data, rfl, this⟩, fun h => absurd rfl h⟩

end DlAlt
