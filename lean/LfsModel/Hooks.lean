import LfsModel.Pointer
/-
Executable model of the hook installer (lfs/hook.go: Install / Upgrade / Uninstall / matchesCurrent,
commands/commands.go: installHooks / uninstallHooks) and of the `filter.lfs.*` attribute installer
(lfs/attribute.go: set / shouldReset).  Core-only.  Mirrors the code after the D8 repair.
-/
namespace Hk
abbrev Bytes := List UInt8

/-- tools.Undent: regexp `(?m)^[ \t]+` replaced by "" — leading blanks and tabs of every line -/
def dropIndent : Bytes → Bytes
  | [] => []
  | c :: cs => if c = 32 ∨ c = 9 then dropIndent cs else c :: cs

def undentAux : Nat → Bytes → Bool → Bytes
  | 0, _, _ => []
  | _+1, [], _ => []
  | fuel+1, c :: cs, atLineStart =>
    if atLineStart ∧ (c = 32 ∨ c = 9) then undentAux fuel (dropIndent cs) false |> fun r => r
    else c :: undentAux fuel cs (c = 10)

def undent (b : Bytes) : Bytes := undentAux (b.length + 1) b true

/-- what a hook file's content is compared on -/
def normalize (b : Bytes) : Bytes := Lfs.trimSpace (undent b)

structure HookSpec where
  current : Bytes              -- Hook.Contents (without the final newline that `write` appends)
  upgradeables : List Bytes

inductive Match | current | upgradable | foreign
deriving DecidableEq, Repr

/-- matchesCurrent on an EXISTING file.  A file longer than the read window is never one of ours. -/
def matchFile (limit : Nat) (h : HookSpec) (file : Bytes) : Match :=
  if limit < file.length then .foreign
  else
    let c := normalize file
    if c = h.current then .current
    else if c.isEmpty then .upgradable
    else if h.upgradeables.contains c then .upgradable
    else .foreign

def written (h : HookSpec) : Bytes := h.current ++ [10]

/-- Hook.Install(force): result file and whether a conflict was reported -/
def install (limit : Nat) (h : HookSpec) (force : Bool) (file : Option Bytes) : Option Bytes × Bool :=
  match file with
  | none => (some (written h), false)
  | some f =>
    if force then (some (written h), false)
    else match matchFile limit h f with
      | .current => (some f, false)
      | .upgradable => (some (written h), false)
      | .foreign => (some f, true)

/-- Hook.Uninstall: result file and whether an error stopped the command -/
def uninstall (limit : Nat) (h : HookSpec) (file : Option Bytes) : Option Bytes × Bool :=
  match file with
  | none => (none, false)                   -- no such hook: nothing to remove, the loop goes on (D76)
  | some f => match matchFile limit h f with
    | .foreign => (some f, true)
    | _ => (none, false)

/-- installHooks / uninstallHooks: the hooks in order, stopping at the first error -/
def installAll (limit : Nat) (force : Bool) : List (HookSpec × Option Bytes) → List (Option Bytes) × Bool
  | [] => ([], false)
  | (h, f) :: rest =>
    let (f', err) := install limit h force f
    if err then (f' :: rest.map (·.2), true)
    else let (fs, e) := installAll limit force rest; (f' :: fs, e)

def uninstallAll (limit : Nat) : List (HookSpec × Option Bytes) → List (Option Bytes) × Bool
  | [] => ([], false)
  | (h, f) :: rest =>
    let (f', err) := uninstall limit h f
    if err then (f' :: rest.map (·.2), true)
    else let (fs, e) := uninstallAll limit rest; (f' :: fs, e)

/-! ### filter.lfs.* (lfs/attribute.go) -/
/-- Attribute.set for one key: new value and whether a conflict is reported -/
def setAttr (force : Bool) (current : Bytes) (value : Bytes) (upgradeables : List Bytes) : Bytes × Bool :=
  if force ∨ current.isEmpty ∨ upgradeables.contains current then (value, false)
  else if current ≠ value then (current, true)
  else (current, false)

end Hk
