/-
commands/uploader.go uploadContext.ReportErrors — how the pre-push hook (and `git lfs push`) ends once
the uploads are over.  Decision logic only; core-only, executable (Oracle `C03 report`).
-/
namespace PushReport

structure Outcome where
  missingOrCorrupt : Bool   -- a referenced object is absent locally (or has the wrong size) and is not on the server
  allowIncomplete : Bool    -- lfs.allowincompletepush
  otherErrors : Bool        -- any other upload error: batch object error, refused PUT, failed verify, hash mismatch
  unownedLocks : Bool       -- the push touches files locked by somebody else
  verifyLocks : Bool        -- lock verification is enabled for the remote
deriving Repr

/-- does the command exit 0 (Git then updates the refs)? -/
def ok (o : Outcome) : Bool :=
  !((o.missingOrCorrupt && !o.allowIncomplete) || o.otherErrors || (o.unownedLocks && o.verifyLocks))

end PushReport
