import LfsModel.TQTrace
import LfsModel.TQProgress
/-
The wrapper preserves the accounting invariant, and whatever `vrun` accepts is a run of the wrapper
system — so every observed trace that validates inherits the theorems about reachable states.
-/
namespace TQ

theorem xstep_inv {s s' : State} {e : XEv} (h : Inv s) (hs : xstep s e = some s') : Inv s' := by
  cases e with
  | core e => exact step_inv h hs
  | replyIgnored =>
    simp only [xstep] at hs; cases hs
    exact ⟨h.nodup, h.known_iff, h.acc, h.deliv⟩
  | abort =>
    simp only [xstep] at hs
    split at hs
    · cases hs
    · cases hs
      exact ⟨h.nodup, h.known_iff, fun ha => by simp at ha, h.deliv⟩

theorem xrun_inv : ∀ (es : List XEv) {s s' : State}, Inv s → xrun s es = some s' → Inv s' := by
  intro es
  induction es with
  | nil => intro s s' h hr; simp only [xrun] at hr; cases hr; exact h
  | cons e es ih =>
    intro s s' h hr
    simp only [xrun] at hr
    split at hr
    · rename_i s1 hs1; exact ih (xstep_inv h hs1) hr
    · cases hr

/-- the extra events do not change the termination measure: only core events consume it -/
theorem xstep_mu {s s' : State} {e : XEv} (h : Inv s) (hs : xstep s e = some s') :
    (∀ c, e = .core c → (∀ o, c ≠ .add o) → mu s' < mu s) ∧ ((e = .replyIgnored ∨ e = .abort) → mu s' = mu s) := by
  constructor
  · rintro c rfl hna
    exact step_mu h hs hna
  · rintro (rfl | rfl)
    · simp only [xstep] at hs; cases hs; rfl
    · simp only [xstep] at hs
      split at hs
      · cases hs
      · cases hs; rfl

/-- conservation for the wrapper: when Wait has returned without an abort, every added object is
    delivered, declared unneeded, or errored -/
theorem xwait_return_all_terminal {s s' : State} (es : List XEv) (h0 : Inv s) (hr : xrun s es = some s')
    (hna : s'.aborted = false) (hc : s'.counter = 0) :
    ∀ o ∈ s'.known, ∃ t, s'.st o = .term t := by
  have h := xrun_inv es h0 hr
  have hacc := h.acc hna
  rw [hc] at hacc
  have hz : countSt s' Status.live = 0 := by omega
  intro o ho
  have := List.countP_eq_zero.mp hz o ho
  have hk := (h.known_iff o).mp ho
  cases hst : s'.st o with
  | unknown => exact absurd hst hk
  | term t => exact ⟨t, rfl⟩
  | _ => simp [hst, Status.live] at this

theorem xcounter_nonneg {s s' : State} (es : List XEv) (h0 : Inv s) (hr : xrun s es = some s')
    (hna : s'.aborted = false) : 0 ≤ s'.counter := by
  have := (xrun_inv es h0 hr).acc hna
  omega

/-- a delivered object was transferred successfully: `delivered` only ever holds objects in the
    terminal class `delivered`, which is entered only by `jobResult o .ok` -/
theorem xdelivered_only_after_success {s s' : State} (es : List XEv) (h0 : Inv s) (hr : xrun s es = some s') :
    ∀ o ∈ s'.delivered, s'.st o = .term .delivered := (xrun_inv es h0 hr).deliv

end TQ

namespace TQ

theorem need_sound {s s' : State} {e : Ev} {check : State → Bool} {why : String}
    (h : needEv s e check why = .ok s') : xstep s (.core e) = some s' := by
  simp only [xstep]
  unfold needEv at h
  cases hst : step s e with
  | none => rw [hst] at h; cases h
  | some s1 =>
    rw [hst] at h
    simp only at h
    split at h
    · cases h; rfl
    · cases h

theorem xi_sound {s s' : State} {e : XEv} {msg : String} (h : needX s e msg = .ok s') :
    xstep s e = some s' := by
  unfold needX at h
  cases hx : xstep s e with
  | none => rw [hx] at h; cases h
  | some s1 => rw [hx] at h; cases h; rfl

/-- every accepted trace word is one wrapper event (or a pure check that leaves the state alone) -/
theorem vstep_sound {s s' : State} {w : TW} (h : vstep s w = .ok s') :
    s' = s ∨ ∃ e, xstep s e = some s' := by
  cases w with
  | add o => exact Or.inr ⟨_, need_sound (by simpa only [vstep] using h)⟩
  | take o => exact Or.inr ⟨_, need_sound (by simpa only [vstep] using h)⟩
  | batch os => exact Or.inr ⟨_, need_sound (by simpa only [vstep] using h)⟩
  | retry o c =>
    simp only [vstep] at h
    split at h
    · exact Or.inr ⟨_, need_sound h⟩
    · split at h
      · split at h
        · cases h; exact Or.inl rfl
        · cases h
      · cases h
  | cfdrop o => exact Or.inr ⟨_, need_sound (by simpa only [vstep] using h)⟩
  | reply o kind =>
    simp only [vstep] at h
    split at h
    · exact Or.inr ⟨_, need_sound h⟩
    · split at h
      · exact Or.inr ⟨_, need_sound h⟩
      · split at h
        · exact Or.inr ⟨_, need_sound h⟩
        · split at h
          · exact Or.inr ⟨_, need_sound h⟩
          · split at h
            · exact Or.inr ⟨_, xi_sound h⟩
            · cases h
  | replyUnknown => exact Or.inr ⟨_, xi_sound (by simpa only [vstep] using h)⟩
  | result o outcome decision => exact Or.inr ⟨_, need_sound (by simpa only [vstep] using h)⟩
  | requeue o => exact Or.inr ⟨_, need_sound (by simpa only [vstep] using h)⟩
  | abort => exact Or.inr ⟨_, xi_sound (by simpa only [vstep] using h)⟩
  | wait => exact Or.inr ⟨_, need_sound (by simpa only [vstep] using h)⟩
  | waitret => exact Or.inr ⟨_, need_sound (by simpa only [vstep] using h)⟩

/-- TRACE VALIDATION IS SOUND: a word list accepted by `vrun` is a run of the wrapper system, hence
    its end state satisfies the accounting invariant (and everything proved from it). -/
theorem vrun_sound : ∀ (ws : List TW) (s s' : State) (i : Nat), vrun s ws i = .ok s' → ∃ es, xrun s es = some s' := by
  intro ws
  induction ws with
  | nil => intro s s' i h; simp only [vrun] at h; cases h; exact ⟨[], rfl⟩
  | cons w ws ih =>
    intro s s' i h
    simp only [vrun] at h
    cases hv : vstep s w with
    | error e => rw [hv] at h; cases h
    | ok s1 =>
      rw [hv] at h
      obtain ⟨es, hes⟩ := ih s1 s' (i + 1) h
      rcases vstep_sound hv with rfl | ⟨e, he⟩
      · exact ⟨es, hes⟩
      · exact ⟨e :: es, by simp only [xrun, he]; exact hes⟩

theorem vrun_inv (ws : List TW) (s s' : State) (h0 : Inv s) (h : vrun s ws 0 = .ok s') : Inv s' := by
  obtain ⟨es, hes⟩ := vrun_sound ws s s' 0 h
  exact xrun_inv es h0 hes

end TQ
