/-
net/url PathEscape / PathUnescape (mode encodePathSegment) as locking/api.go needs them: the lock id a
server hands out becomes ONE segment of the unlock URL `locks/<id>/unlock`.  Core-only.
The per-byte facts are decided over all 256 byte values (lifted from `Fin 256` by `all_u8`).
-/
namespace UrlEsc
abbrev Bytes := List UInt8
def isAlnum (b : UInt8) : Bool := (48 ≤ b && b ≤ 57) || (65 ≤ b && b ≤ 90) || (97 ≤ b && b ≤ 122)
/-- net/url shouldEscape(c, encodePathSegment) = false -/
def keep (b : UInt8) : Bool := isAlnum b || b == 45 || b == 95 || b == 46 || b == 126 || b == 36 || b == 38 || b == 43 || b == 58 || b == 61 || b == 64
def hexDigit (n : UInt8) : UInt8 := if n < 10 then 48 + n else 55 + n
def escByte (b : UInt8) : Bytes := if keep b then [b] else [37, hexDigit (b >>> 4), hexDigit (b &&& 15)]
def pathEscape (s : Bytes) : Bytes := s.flatMap escByte

def hexVal (c : UInt8) : Option UInt8 :=
  if 48 ≤ c && c ≤ 57 then some (c - 48) else if 65 ≤ c && c ≤ 70 then some (c - 55)
  else if 97 ≤ c && c ≤ 102 then some (c - 87) else none

/-- net/url unescape(s, encodePathSegment) -/
def pathUnescape : Bytes → Option Bytes
  | [] => some []
  | b :: rest =>
    if b == 37 then
      match rest with
      | h :: l :: rest' =>
        (match hexVal h, hexVal l, pathUnescape rest' with
         | some a, some c, some r => some ((a <<< 4 ||| c) :: r)
         | _, _, _ => none)
      | _ => none
    else (pathUnescape rest).map (b :: ·)

theorem all_u8 (P : UInt8 → Prop) (h : ∀ n : Fin 256, P (UInt8.ofNat n.val)) : ∀ b : UInt8, P b := by
  intro b
  have := h ⟨b.toNat, b.toNat_lt⟩
  simpa using this

set_option maxRecDepth 100000 in
theorem esc_nodelim : ∀ b : UInt8, ∀ x ∈ escByte b, x ≠ 47 ∧ x ≠ 63 ∧ x ≠ 35 := by
  apply all_u8; decide

set_option maxRecDepth 100000 in
theorem keep_ne_pct : ∀ b : UInt8, keep b = true → b ≠ 37 := by
  apply all_u8; decide

set_option maxRecDepth 100000 in
theorem hex_roundtrip : ∀ b : UInt8, hexVal (hexDigit (b >>> 4)) = some (b >>> 4) ∧
    hexVal (hexDigit (b &&& 15)) = some (b &&& 15) ∧ ((b >>> 4) <<< 4 ||| (b &&& 15)) = b := by
  apply all_u8; decide

theorem unescape_keep (b : UInt8) (rest : Bytes) (hne : (b == 37) = false) :
    pathUnescape (b :: rest) = (pathUnescape rest).map (b :: ·) := by
  rw [pathUnescape.eq_def]
  simp [hne]

theorem unescape_pct (h l : UInt8) (rest : Bytes) :
    pathUnescape (37 :: h :: l :: rest) =
      (match hexVal h, hexVal l, pathUnescape rest with
       | some a, some c, some r => some ((a <<< 4 ||| c) :: r)
       | _, _, _ => none) := by
  rw [pathUnescape.eq_def]
  simp

theorem unescape_escByte (b : UInt8) (rest : Bytes) :
    pathUnescape (escByte b ++ rest) = (pathUnescape rest).map (b :: ·) := by
  unfold escByte
  by_cases hk : keep b = true
  · have hne : (b == 37) = false := by
      have := keep_ne_pct b hk
      simpa using this
    simp only [hk, if_true, List.cons_append, List.nil_append]
    exact unescape_keep b rest hne
  · have hk' : keep b = false := by simpa using hk
    obtain ⟨h1, h2, h3⟩ := hex_roundtrip b
    rw [if_neg hk]
    simp only [List.cons_append, List.nil_append]
    rw [unescape_pct, h1, h2]
    cases pathUnescape rest with
    | none => simp
    | some r => simp [h3]

theorem unescape_escape (s : Bytes) : pathUnescape (pathEscape s) = some s := by
  induction s with
  | nil => simp [pathEscape, pathUnescape]
  | cons b rest ih =>
    have : pathEscape (b :: rest) = escByte b ++ pathEscape rest := by simp [pathEscape]
    rw [this, unescape_escByte, ih]
    rfl

theorem escape_nodelim (s : Bytes) : ∀ x ∈ pathEscape s, x ≠ 47 ∧ x ≠ 63 ∧ x ≠ 35 := by
  intro x hx
  simp only [pathEscape, List.mem_flatMap] at hx
  obtain ⟨b, _, hb⟩ := hx
  exact esc_nodelim b x hb

theorem escape_injective (s t : Bytes) (h : pathEscape s = pathEscape t) : s = t := by
  have := unescape_escape s
  rw [h, unescape_escape t] at this
  exact (Option.some.inj this).symm
end UrlEsc

namespace UrlEsc
/-- the URL suffix of the unlock request for a lock id (locking/api.go httpLockClient.Unlock) -/
def unlockSuffix (id : Bytes) : Bytes := "locks/".toUTF8.toList ++ pathEscape id ++ "/unlock".toUTF8.toList
end UrlEsc
