import LfsModel.TQTerm
namespace TQ

theorem set_self (f : Oid → α) (o : Oid) : set f o (f o) = f := by
  funext x; unfold set; split
  · rename_i h; rw [h]
  · rfl

theorem sumW_le (l : List Oid) (f g : Oid → Nat) (h : ∀ x ∈ l, g x ≤ f x) : sumW l g ≤ sumW l f := by
  induction l with
  | nil => simp [sumW]
  | cons a as ih =>
    have := ih (fun x hx => h x (List.mem_cons_of_mem _ hx))
    have ha := h a List.mem_cons_self
    simp only [sumW, List.map_cons, List.sum_cons] at this ⊢
    omega

theorem sumW_lt (l : List Oid) (f g : Oid → Nat) (h : ∀ x ∈ l, g x ≤ f x)
    (hs : ∃ x ∈ l, g x < f x) : sumW l g < sumW l f := by
  induction l with
  | nil => obtain ⟨x, hx, _⟩ := hs; cases hx
  | cons a as ih =>
    have hle := sumW_le as f g (fun x hx => h x (List.mem_cons_of_mem _ hx))
    have ha := h a List.mem_cons_self
    obtain ⟨x, hx, hlt⟩ := hs
    simp only [sumW, List.map_cons, List.sum_cons] at hle ⊢
    cases hx with
    | head => omega
    | tail _ hm =>
      have := ih (fun y hy => h y (List.mem_cons_of_mem _ hy)) ⟨x, hm, hlt⟩
      simp only [sumW] at this
      omega

theorem weight_live {s : State} {st : Status} (h : st.live = true) (rc : Nat) :
    weight s st rc = 7 * (s.maxRetries - rc) + stage st := by simp [weight, h]

theorem weight_term (s : State) (t : Term) (rc : Nat) : weight s (.term t) rc = 0 := by
  simp [weight, Status.live]

theorem stage_pos {st : Status} (h : st.live = true) : 2 ≤ stage st := by
  cases st <;> simp [Status.live] at h <;> simp [stage]

/-- a live object that becomes terminal -/
theorem mu_finish {s : State} (h : Inv s) (o : Oid) (hl : (s.st o).live = true) (t : Term) (s' : State)
    (hs' : s'.known = s.known ∧ s'.st = set s.st o (.term t) ∧ s'.rc = s.rc ∧ s'.maxRetries = s.maxRetries
       ∧ s'.waitCalled = s.waitCalled ∧ s'.waitReturned = s.waitReturned) : mu s' < mu s := by
  have hk : s.st o ≠ .unknown := by intro e; rw [e] at hl; cases hl
  apply mu_update h o hk (.term t) (s.rc o) _ s'
    ⟨hs'.1, hs'.2.1, by rw [hs'.2.2.1, set_self], hs'.2.2.2.1, hs'.2.2.2.2.1, hs'.2.2.2.2.2⟩
  rw [weight_term, weight_live hl]
  have := stage_pos hl
  omega

/-- a live object that moves to a lighter stage of the same attempt -/
theorem mu_advance {s : State} (h : Inv s) (o : Oid) (hl : (s.st o).live = true) (v : Status)
    (hv : v.live = true) (hst : stage v < stage (s.st o)) (s' : State)
    (hs' : s'.known = s.known ∧ s'.st = set s.st o v ∧ s'.rc = s.rc ∧ s'.maxRetries = s.maxRetries
       ∧ s'.waitCalled = s.waitCalled ∧ s'.waitReturned = s.waitReturned) : mu s' < mu s := by
  have hk : s.st o ≠ .unknown := by intro e; rw [e] at hl; cases hl
  apply mu_update h o hk v (s.rc o) _ s'
    ⟨hs'.1, hs'.2.1, by rw [hs'.2.2.1, set_self], hs'.2.2.2.1, hs'.2.2.2.2.1, hs'.2.2.2.2.2⟩
  rw [weight_live hv, weight_live hl]
  omega

/-- retry-or-fail from `inBatch` or `job` strictly decreases the measure -/
theorem mu_retryOrFail {s : State} (h : Inv s) (o : Oid)
    (hst : s.st o = .inBatch ∨ s.st o = .job) : mu (retryOrFail s o) < mu s := by
  have hl : (s.st o).live = true := by rcases hst with e | e <;> rw [e] <;> rfl
  have hk : s.st o ≠ .unknown := by intro e; rw [e] at hl; cases hl
  unfold retryOrFail
  split
  · rename_i hlt
    have hw : weight s .retryOut (s.rc o + 1) < weight s (s.st o) (s.rc o) := by
      rw [weight_live (rfl : Status.retryOut.live = true), weight_live hl]
      rcases hst with e | e <;> rw [e] <;> simp [stage] <;> omega
    exact mu_update h o hk .retryOut (s.rc o + 1) hw _ ⟨rfl, rfl, rfl, rfl, rfl, rfl⟩
  · apply mu_finish h o hl .errored
    unfold done
    split <;> exact ⟨rfl, rfl, rfl, rfl, rfl, rfl⟩

theorem mu_done_eq (s : State) : mu (done s) = mu s := by
  unfold done; split <;> rfl

/-- **C06.runs_terminate**, the step lemma: every event except `add` strictly decreases `mu`. -/
theorem step_mu {s s' : State} {e : Ev} (h : Inv s) (hs : step s e = some s')
    (hadd : ∀ o, e ≠ .add o) : mu s' < mu s := by
  cases e with
  | add o => exact absurd rfl (hadd o)
  | collTake o =>
    simp only [step] at hs
    split at hs
    · rename_i hi; cases hs
      exact mu_advance h o (by rw [hi]; rfl) .waiting rfl (by rw [hi]; decide) _ ⟨rfl, rfl, rfl, rfl, rfl, rfl⟩
    · cases hs
  | batchStart os =>
    simp only [step] at hs
    split at hs
    · rename_i hc; cases hs
      obtain ⟨_, hne, _, hw, _⟩ := hc
      unfold mu
      simp only
      have hle : ∀ x ∈ s.known,
          weight s (if x ∈ os then Status.inBatch else s.st x) (s.rc x) ≤ weight s (s.st x) (s.rc x) := by
        intro x _
        by_cases hx : x ∈ os
        · simp only [hx, if_true]
          rw [hw x hx, weight_live (rfl : Status.inBatch.live = true), weight_live (rfl : Status.waiting.live = true)]
          simp [stage]
        · simp [hx]
      have hlt : ∃ x ∈ s.known,
          weight s (if x ∈ os then Status.inBatch else s.st x) (s.rc x) < weight s (s.st x) (s.rc x) := by
        cases os with
        | nil => exact absurd rfl hne
        | cons a as =>
          have ha : s.st a = .waiting := hw a List.mem_cons_self
          refine ⟨a, (h.known_iff a).mpr (by rw [ha]; simp), ?_⟩
          simp only [List.mem_cons, true_or, if_true]
          rw [ha, weight_live (rfl : Status.inBatch.live = true), weight_live (rfl : Status.waiting.live = true)]
          simp [stage]
      have := sumW_lt s.known (fun x => weight s (s.st x) (s.rc x))
        (fun x => weight s (if x ∈ os then Status.inBatch else s.st x) (s.rc x)) hle hlt
      have hw' : ∀ x, weight { s with st := fun x => if x ∈ os then Status.inBatch else s.st x }
          (if x ∈ os then Status.inBatch else s.st x) (s.rc x)
          = weight s (if x ∈ os then Status.inBatch else s.st x) (s.rc x) := fun x => rfl
      simp only [hw']
      omega
    · cases hs
  | reply o r =>
    simp only [step] at hs
    split at hs
    · rename_i hb
      have hl : (s.st o).live = true := by rw [hb]; rfl
      cases r with
      | action =>
        cases hs
        exact mu_advance h o hl .job rfl (by rw [hb]; decide) _ ⟨rfl, rfl, rfl, rfl, rfl, rfl⟩
      | noAction =>
        cases hs; rw [mu_done_eq]
        exact mu_finish h o hl .noAction _ ⟨rfl, rfl, rfl, rfl, rfl, rfl⟩
      | error =>
        cases hs; rw [mu_done_eq]
        exact mu_finish h o hl .errored _ ⟨rfl, rfl, rfl, rfl, rfl, rfl⟩
      | expiredAction => cases hs; exact mu_retryOrFail h o (Or.inl hb)
    · cases hs
  | batchCallFail o retriable =>
    simp only [step] at hs
    split at hs
    · rename_i hb
      have hl : (s.st o).live = true := by rw [hb]; rfl
      split at hs
      · cases hs; exact mu_retryOrFail h o (Or.inl hb)
      · cases hs; rw [mu_done_eq]
        exact mu_finish h o hl .errored _ ⟨rfl, rfl, rfl, rfl, rfl, rfl⟩
    · cases hs
  | jobResult o out =>
    simp only [step] at hs
    split at hs
    · rename_i hb
      have hl : (s.st o).live = true := by rw [hb]; rfl
      cases out with
      | ok => cases hs; rw [mu_done_eq]; exact mu_finish h o hl .delivered _ ⟨rfl, rfl, rfl, rfl, rfl, rfl⟩
      | retriable => cases hs; exact mu_retryOrFail h o (Or.inr hb)
      | fatal => cases hs; rw [mu_done_eq]; exact mu_finish h o hl .errored _ ⟨rfl, rfl, rfl, rfl, rfl, rfl⟩
      | unprocessable => cases hs; rw [mu_done_eq]; exact mu_finish h o hl .errored _ ⟨rfl, rfl, rfl, rfl, rfl, rfl⟩
    · cases hs
  | batchEnd o =>
    simp only [step] at hs
    split at hs
    · rename_i hc; cases hs
      exact mu_advance h o (by rw [hc.1]; rfl) .waiting rfl (by rw [hc.1]; decide) _ ⟨rfl, rfl, rfl, rfl, rfl, rfl⟩
    · cases hs
  | waitCall =>
    simp only [step] at hs
    split at hs
    · cases hs
    · rename_i hw; cases hs
      have hw' : s.waitCalled = false := by simpa using hw
      unfold mu; simp only [hw']
      have : ∀ x, weight { s with waitCalled := true } (s.st x) (s.rc x) = weight s (s.st x) (s.rc x) := fun _ => rfl
      simp only [this]; simp
  | waitReturn =>
    simp only [step] at hs
    split at hs
    · rename_i hc; cases hs
      have hr : s.waitReturned = false := by simpa using hc.2.1
      unfold mu; simp only [hr]
      have : ∀ x, weight { s with waitReturned := true } (s.st x) (s.rc x) = weight s (s.st x) (s.rc x) := fun _ => rfl
      simp only [this]; simp
    · cases hs

/-- hence a run without `add` events has at most `mu s` events -/
theorem run_length_le_mu : ∀ (es : List Ev) (s s' : State), Inv s → (∀ e ∈ es, ∀ o, e ≠ .add o) →
    run s es = some s' → es.length ≤ mu s := by
  intro es
  induction es with
  | nil => intro _ _ _ _ _; simp
  | cons e es ih =>
    intro s s' h hna hr
    simp only [run] at hr
    split at hr
    · rename_i s1 hs1
      have h1 := step_inv h hs1
      have hlt := step_mu h hs1 (hna e List.mem_cons_self)
      have := ih s1 s' h1 (fun e' he' => hna e' (List.mem_cons_of_mem _ he')) hr
      simp only [List.length_cons]; omega
    · cases hr

#print axioms step_mu
#print axioms run_length_le_mu
end TQ
