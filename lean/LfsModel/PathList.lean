/-
tools.CleanPaths (tools/filetools.go) as lfs.fetchinclude / lfs.fetchexclude and the -I / -X options use it:
a comma separated list whose elements may carry blanks around them and one trailing slash.  Core-only.
White space is the ASCII part of unicode.IsSpace (`\t \n \v \f \r` and the blank); the correspondence
check feeds no other white space.
-/
namespace PathList
abbrev Bytes := List UInt8

def isSpace (b : UInt8) : Bool := b == 32 || (9 ≤ b && b ≤ 13)

/-- strings.Split(s, ",") for a one-byte separator -/
def split (d : UInt8) : Bytes → List Bytes
  | [] => [[]]
  | c :: cs =>
    if c == d then [] :: split d cs
    else match split d cs with
      | [] => [[c]]
      | h :: t => (c :: h) :: t

def trimLeft (s : Bytes) : Bytes := s.dropWhile isSpace
def trimRight (s : Bytes) : Bytes := (s.reverse.dropWhile isSpace).reverse
/-- strings.TrimSpace -/
def trim (s : Bytes) : Bytes := trimRight (trimLeft s)

/-- "Remove trailing `/` or `\`, but only the first one." -/
def stripSlash (s : Bytes) : Bytes :=
  match s.reverse with
  | c :: r => if c == 47 || c == 92 then r.reverse else s
  | [] => s

def cleanPaths (s : Bytes) (d : UInt8) : List Bytes :=
  let t := trim s
  if t.isEmpty then [] else (split d t).map fun p => stripSlash (trim p)

/-- `a, b ,c`: the elements joined by the separator -/
def join (d : UInt8) : List Bytes → Bytes
  | [] => []
  | [p] => p
  | p :: q :: ps => p ++ d :: join d (q :: ps)

/-! ### split is the inverse of join -/

theorem split_ne_nil (d : UInt8) (s : Bytes) : split d s ≠ [] := by
  induction s with
  | nil => simp [split]
  | cons c cs ih =>
    unfold split
    split
    · simp
    · split <;> simp

theorem split_nodelim (d : UInt8) (p : Bytes) (h : ∀ x ∈ p, x ≠ d) : split d p = [p] := by
  induction p with
  | nil => rfl
  | cons c cs ih =>
    have hc : (c == d) = false := by
      have := h c (by simp); simpa using this
    have := ih (fun x hx => h x (by simp [hx]))
    simp [split, hc, this]

theorem split_append (d : UInt8) (p rest : Bytes) (h : ∀ x ∈ p, x ≠ d) :
    split d (p ++ d :: rest) = p :: split d rest := by
  induction p with
  | nil => simp [split]
  | cons c cs ih =>
    have hc : (c == d) = false := by
      have := h c (by simp); simpa using this
    have := ih (fun x hx => h x (by simp [hx]))
    simp [split, hc, this]

theorem split_join (d : UInt8) (ps : List Bytes) (hne : ps ≠ []) (h : ∀ p ∈ ps, ∀ x ∈ p, x ≠ d) :
    split d (join d ps) = ps := by
  induction ps with
  | nil => exact absurd rfl hne
  | cons p ps ih =>
    cases ps with
    | nil => simpa [join] using split_nodelim d p (h p (by simp))
    | cons q qs =>
      have := ih (by simp) (fun p' hp' => h p' (by simp [hp']))
      simp only [join]
      rw [split_append d p _ (h p (by simp)), this]

/-! ### trimming removes exactly the padding -/

theorem dropWhile_pad (pre rest : Bytes) (h : ∀ x ∈ pre, isSpace x = true) :
    (pre ++ rest).dropWhile isSpace = rest.dropWhile isSpace := by
  induction pre with
  | nil => rfl
  | cons c cs ih =>
    have hc := h c (by simp)
    simp [hc, ih (fun x hx => h x (by simp [hx]))]

/-- an element that neither begins nor ends with white space (the empty one included) -/
def Tight (p : Bytes) : Prop :=
  (∀ c r, p = c :: r → isSpace c = false) ∧ (∀ c r, p.reverse = c :: r → isSpace c = false)

theorem dropWhile_tight (p : Bytes) (h : ∀ c r, p = c :: r → isSpace c = false) :
    p.dropWhile isSpace = p := by
  cases p with
  | nil => rfl
  | cons c r => simp [List.dropWhile, h c r rfl]

theorem trim_pad (pre p post : Bytes) (hpre : ∀ x ∈ pre, isSpace x = true)
    (hpost : ∀ x ∈ post, isSpace x = true) (ht : Tight p) (hne : p ≠ []) :
    trim (pre ++ p ++ post) = p := by
  unfold trim trimLeft trimRight
  rw [List.append_assoc, dropWhile_pad pre _ hpre]
  have h1 : (p ++ post).dropWhile isSpace = p ++ post := by
    cases p with
    | nil => exact absurd rfl hne
    | cons c r => simp [ht.1 c r rfl]
  rw [h1, List.reverse_append, dropWhile_pad post.reverse _ (by simpa using hpost),
    dropWhile_tight _ ht.2, List.reverse_reverse]

theorem trim_blank (pad : Bytes) (h : ∀ x ∈ pad, isSpace x = true) : trim pad = [] := by
  unfold trim trimLeft trimRight
  have : pad.dropWhile isSpace = [] := by
    have := dropWhile_pad pad [] h
    simpa using this
  simp [this]

/-- an element as a user may write it: the pattern with blanks on both sides -/
structure Padded where
  pre : Bytes
  pat : Bytes
  post : Bytes

def Padded.text (e : Padded) : Bytes := e.pre ++ e.pat ++ e.post

def Padded.Ok (d : UInt8) (e : Padded) : Prop :=
  (∀ x ∈ e.pre, isSpace x = true) ∧ (∀ x ∈ e.post, isSpace x = true) ∧ Tight e.pat ∧ e.pat ≠ [] ∧
  (∀ x ∈ e.text, x ≠ d)

theorem map_clean (d : UInt8) (es : List Padded) (h : ∀ e ∈ es, e.Ok d) :
    (es.map Padded.text).map (fun p => stripSlash (trim p)) = es.map fun e => stripSlash e.pat := by
  induction es with
  | nil => rfl
  | cons e es ih =>
    have he := h e (by simp)
    simp only [List.map_cons, List.cons.injEq]
    refine ⟨?_, ih (fun e' he' => h e' (by simp [he']))⟩
    unfold Padded.text
    rw [trim_pad e.pre e.pat e.post he.1 he.2.1 he.2.2.1 he.2.2.2.1]

/-! ### the whole list: blanks around the commas and around the list change nothing -/

theorem join_head (d : UInt8) (p : Bytes) (qs : List Bytes) (c : UInt8) (r : Bytes) (hp : p = c :: r) :
    ∃ r', join d (p :: qs) = c :: r' := by
  cases qs with
  | nil => exact ⟨r, by simp [join, hp]⟩
  | cons q qs => exact ⟨r ++ d :: join d (q :: qs), by simp [join, hp]⟩

theorem join_last (d : UInt8) (ps : List Bytes) (q : Bytes) (c : UInt8) (r : Bytes)
    (hq : q.reverse = c :: r) : ∃ r', (join d (ps ++ [q])).reverse = c :: r' := by
  induction ps with
  | nil => exact ⟨r, by simp [join, hq]⟩
  | cons p ps ih =>
    obtain ⟨r', hr'⟩ := ih
    cases hps : ps ++ [q] with
    | nil => simp at hps
    | cons x xs =>
      rw [hps] at hr'
      refine ⟨r' ++ d :: p.reverse, ?_⟩
      simp only [List.cons_append, hps, join, List.reverse_append, List.reverse_cons, hr']
      simp

/-- The list as a user writes it: blanks before the first element, after the last one, and on both sides
of every comma.  `first`'s leading and `last`'s trailing blanks are `lead` and `trail`. -/
theorem cleanPaths_padded (d : UInt8) (lead trail : Bytes) (es : List Padded) (last : Padded)
    (hlead : ∀ x ∈ lead, isSpace x = true) (htrail : ∀ x ∈ trail, isSpace x = true)
    (hok : ∀ e ∈ es ++ [last], e.Ok d) (hfirst' : ∀ f rest, es ++ [last] = f :: rest → f.pre = [])
    (hlast : last.post = []) :
    cleanPaths (lead ++ join d ((es ++ [last]).map Padded.text) ++ trail) d
      = (es ++ [last]).map fun e => stripSlash e.pat := by
  obtain ⟨first, rest, hrest⟩ : ∃ first rest, es ++ [last] = first :: rest := by
    cases h : es ++ [last] with
    | nil => simp at h
    | cons f r => exact ⟨f, r, rfl⟩
  have hfirst := hfirst' first rest hrest
  have okf : first.Ok d := hok first (by rw [hrest]; simp)
  have okl : last.Ok d := hok last (by simp)
  -- the joined text is tight and not empty
  obtain ⟨c, r, hc⟩ : ∃ c r, first.pat = c :: r := by
    cases h : first.pat with
    | nil => exact absurd h okf.2.2.2.1
    | cons c r => exact ⟨c, r, rfl⟩
  have hft : first.text = c :: (r ++ first.post) := by simp [Padded.text, hfirst, hc]
  obtain ⟨r1, hr1⟩ := join_head d first.text (rest.map Padded.text) c _ hft
  obtain ⟨c2, r2, hc2⟩ : ∃ c r, last.pat.reverse = c :: r := by
    cases h : last.pat.reverse with
    | nil => exact absurd (by simpa using h) okl.2.2.2.1
    | cons c r => exact ⟨c, r, rfl⟩
  have hlt : last.text.reverse = c2 :: (r2 ++ last.pre.reverse) := by
    simp [Padded.text, hlast, hc2]
  obtain ⟨r3, hr3⟩ := join_last d (es.map Padded.text) last.text c2 _ hlt
  have hj : join d ((es ++ [last]).map Padded.text) = c :: r1 := by
    rw [hrest]; simpa using hr1
  have hjr : (join d ((es ++ [last]).map Padded.text)).reverse = c2 :: r3 := by
    simpa using hr3
  have tight : Tight (join d ((es ++ [last]).map Padded.text)) := by
    constructor
    · intro c' r' h'
      rw [hj] at h'
      have : c' = c := by injection h' with h1 _; exact h1.symm
      rw [this]; exact okf.2.2.1.1 c r hc
    · intro c' r' h'
      rw [hjr] at h'
      have : c' = c2 := by injection h' with h1 _; exact h1.symm
      rw [this]; exact okl.2.2.1.2 c2 r2 hc2
  have hne : join d ((es ++ [last]).map Padded.text) ≠ [] := by rw [hj]; simp
  unfold cleanPaths
  simp only [trim_pad lead _ trail hlead htrail tight hne]
  have : (join d ((es ++ [last]).map Padded.text)).isEmpty = false := by rw [hj]; rfl
  simp only [this, Bool.false_eq_true, if_false]
  rw [split_join d _ (by simp)]
  · exact map_clean d _ hok
  · intro p hp x hx
    obtain ⟨e, he, rfl⟩ := List.mem_map.mp hp
    exact (hok e he).2.2.2.2 x hx

/-- one trailing slash of an element is dropped, a second one stays -/
theorem stripSlash_once (p : Bytes) : stripSlash (p ++ [47]) = p := by
  simp [stripSlash]

def ex1 : Padded := ⟨[], [107, 101, 101, 112], [32]⟩       -- `keep ` 
def ex2 : Padded := ⟨[32], [114, 97, 119, 47], []⟩          -- ` raw/`
/-- premises satisfiable, on the seventh-round input `-I "keep , raw/"` -/
example : cleanPaths ([32] ++ join 44 ([ex1, ex2].map Padded.text) ++ [10]) 44 = [[107, 101, 101, 112], [114, 97, 119]] := by
  decide

end PathList
