import LfsModel.TQInv
namespace TQ

/-- stage weight inside one attempt cycle; a retry costs 7 -/
def stage : Status → Nat
  | .incoming => 6 | .retryOut => 5 | .waiting => 4 | .inBatch => 3 | .job => 2
  | _ => 0

def weight (s : State) (st : Status) (rc : Nat) : Nat :=
  if st.live then 7 * (s.maxRetries - rc) + stage st else 0

def sumW (l : List Oid) (f : Oid → Nat) : Nat := (l.map f).sum

def mu (s : State) : Nat :=
  sumW s.known (fun o => weight s (s.st o) (s.rc o))
  + (if s.waitCalled then 0 else 1) + (if s.waitReturned then 0 else 1)

theorem sumW_update (l : List Oid) (hn : l.Nodup) (f g : Oid → Nat) (o : Oid) (ho : o ∈ l)
    (hfg : ∀ x, x ≠ o → g x = f x) : sumW l g + f o = sumW l f + g o := by
  induction l with
  | nil => cases ho
  | cons a as ih =>
    have hn' := List.nodup_cons.mp hn
    by_cases hao : a = o
    · subst hao
      have : sumW as g = sumW as f := by
        unfold sumW; congr 1
        apply List.map_congr_left
        intro x hx
        exact hfg x (fun e => hn'.1 (e ▸ hx))
      simp only [sumW, List.map_cons, List.sum_cons] at this ⊢
      omega
    · have ho' : o ∈ as := by
        cases ho with
        | head => exact absurd rfl hao
        | tail _ h => exact h
      have := ih hn'.2 ho'
      simp only [sumW, List.map_cons, List.sum_cons, hfg a hao] at this ⊢
      omega

/-- moving one known oid to a strictly lighter (status, rc) strictly decreases the measure -/
theorem mu_update {s : State} (h : Inv s) (o : Oid) (hk : s.st o ≠ .unknown) (v : Status) (r : Nat)
    (hlt : weight s v r < weight s (s.st o) (s.rc o)) (s' : State)
    (hs' : s'.known = s.known ∧ s'.st = set s.st o v ∧ s'.rc = set s.rc o r ∧ s'.maxRetries = s.maxRetries
       ∧ s'.waitCalled = s.waitCalled ∧ s'.waitReturned = s.waitReturned) : mu s' < mu s := by
  obtain ⟨h1, h2, h3, h4, h5, h6⟩ := hs'
  have hmem := (h.known_iff o).mpr hk
  have := sumW_update s.known h.nodup (fun x => weight s (s.st x) (s.rc x))
    (fun x => weight s (set s.st o v x) (set s.rc o r x)) o hmem
    (by intro x hx; simp [set_other _ _ hx])
  simp only [set_same] at this
  unfold mu
  rw [h1, h2, h3, h5, h6]
  have hw : ∀ x, weight s' (set s.st o v x) (set s.rc o r x) = weight s (set s.st o v x) (set s.rc o r x) := by
    intro x; simp [weight, h4]
  simp only [hw]
  omega

#print axioms mu_update
end TQ
