import LfsModel.Crash
/-
C09, third clause: re-running the command after a kill at ANY point reaches the same local
storage as an uninterrupted run — proved for the store-one-object scenario (clean / git add of one
file; a download has the same shape: temp file, write bursts, rename into place).
-/
namespace Crash
variable (H : Bytes → Oid)

/-- the part of the file system the property speaks about -/
def objView (fs : Fs) : Oid → Option Bytes := fun o => fs (.obj o)

def touchesObj : Op → Bool
  | .create p => isObj p
  | .append p _ => isObj p
  | .rename s d => isObj s || isObj d
  | .link _ d => isObj d
  | .unlink p => isObj p

theorem upd_objView_nonobj (fs : Fs) (p : Path) (v : Option Bytes) (hp : isObj p = false) :
    objView (upd fs p v) = objView fs := by
  funext o
  have : Path.obj o ≠ p := by intro e; rw [← e] at hp; simp [isObj] at hp
  simp [objView, upd_other fs v this]

theorem step_objView {fs fs' : Fs} {op : Op} (ht : touchesObj op = false) (hs : step H fs op = some fs') :
    objView fs' = objView fs := by
  cases op with
  | create p =>
    simp only [touchesObj] at ht
    simp only [step, ht] at hs
    cases hs; exact upd_objView_nonobj fs p _ ht
  | append p b =>
    simp only [touchesObj] at ht
    simp only [step, ht] at hs
    cases hf : fs p with
    | none => simp [hf] at hs
    | some c0 => simp only [hf] at hs; cases hs; exact upd_objView_nonobj fs p _ ht
  | rename s d =>
    simp only [touchesObj, Bool.or_eq_false_iff] at ht
    simp only [step] at hs
    split at hs
    · cases hs
    · cases d with
      | obj o => simp [isObj] at ht
      | tmp n => cases hs; rw [upd_objView_nonobj _ _ _ rfl, upd_objView_nonobj _ _ _ ht.1]
      | part o => cases hs; rw [upd_objView_nonobj _ _ _ rfl, upd_objView_nonobj _ _ _ ht.1]
      | bad o => cases hs; rw [upd_objView_nonobj _ _ _ rfl, upd_objView_nonobj _ _ _ ht.1]
      | ref o => cases hs; rw [upd_objView_nonobj _ _ _ rfl, upd_objView_nonobj _ _ _ ht.1]
  | link s d =>
    simp only [touchesObj] at ht
    simp only [step] at hs
    split at hs
    · cases d with
      | obj o => simp [isObj] at ht
      | tmp n => cases hs; exact upd_objView_nonobj _ _ _ rfl
      | part o => cases hs; exact upd_objView_nonobj _ _ _ rfl
      | bad o => cases hs; exact upd_objView_nonobj _ _ _ rfl
      | ref o => cases hs; exact upd_objView_nonobj _ _ _ rfl
    · cases hs
  | unlink p =>
    simp only [touchesObj] at ht
    simp only [step] at hs
    cases hs; exact upd_objView_nonobj fs p _ ht

theorem exec_objView : ∀ (ops : List Op) (fs fs' : Fs), (∀ op ∈ ops, touchesObj op = false) →
    exec H fs ops = some fs' → objView fs' = objView fs := by
  intro ops
  induction ops with
  | nil => intro fs fs' _ h; simp only [exec] at h; cases h; rfl
  | cons op ops ih =>
    intro fs fs' ht h
    simp only [exec] at h
    split at h
    · rename_i fs1 hs
      rw [ih fs1 fs' (fun o ho => ht o (List.mem_cons_of_mem _ ho)) h,
          step_objView H (ht op List.mem_cons_self) hs]
    · cases h

/-- the write bursts accumulate in the temp file and touch nothing else -/
theorem exec_appends (n : Nat) : ∀ (bursts : List Bytes) (fs : Fs) (acc : Bytes), fs (.tmp n) = some acc →
    ∃ fs', exec H fs (bursts.map (Op.append (.tmp n))) = some fs' ∧ fs' (.tmp n) = some (acc ++ bursts.flatten) ∧
      objView fs' = objView fs := by
  intro bursts
  induction bursts with
  | nil => intro fs acc h; exact ⟨fs, by simp [exec], by simpa using h, rfl⟩
  | cons b bs ih =>
    intro fs acc h
    have hs : step H fs (.append (.tmp n) b) = some (upd fs (.tmp n) (some (acc ++ b))) := by
      simp [step, isObj, h]
    obtain ⟨fs', he, ht, ho⟩ := ih (upd fs (.tmp n) (some (acc ++ b))) (acc ++ b) (upd_same _ _ _)
    refine ⟨fs', by simp [exec, hs, he], by simpa [List.append_assoc] using ht, ?_⟩
    rw [ho, upd_objView_nonobj _ _ _ rfl]

/-- the whole scenario runs from ANY state and adds exactly the object -/
theorem exec_cleanOps (n : Nat) (bursts : List Bytes) (fs : Fs) :
    ∃ fs', exec H fs (cleanOps H n bursts) = some fs' ∧
      objView fs' = fun o => if o = H bursts.flatten then some bursts.flatten else objView fs o := by
  unfold cleanOps
  have hc : step H fs (.create (.tmp n)) = some (upd fs (.tmp n) (some [])) := by simp [step, isObj]
  obtain ⟨fs1, he1, ht1, ho1⟩ := exec_appends H n bursts (upd fs (.tmp n) (some [])) [] (upd_same _ _ _)
  have hr : step H fs1 (.rename (.tmp n) (.obj (H bursts.flatten))) =
      some (upd (upd fs1 (.tmp n) none) (.obj (H bursts.flatten)) (some bursts.flatten)) := by
    simp [step, ht1, isObj]
  refine ⟨upd (upd fs1 (.tmp n) none) (.obj (H bursts.flatten)) (some bursts.flatten), ?_, ?_⟩
  · simp only [List.cons_append, exec, hc]
    rw [exec_cleanOps.exec_append_ops H _ fs1 _ _ he1]
    simp [exec, hr]
  · funext o
    by_cases ho : o = H bursts.flatten
    · subst ho; simp [objView, upd_same]
    · have hne : Path.obj o ≠ Path.obj (H bursts.flatten) := by intro e; cases e; exact ho rfl
      simp only [objView, upd_other _ _ hne, ho, if_false]
      have h2 : Path.obj o ≠ Path.tmp n := by intro e; cases e
      rw [upd_other _ _ h2]
      have := congrFun ho1 o
      simp only [objView] at this
      rw [this, upd_other _ _ h2]
where
  exec_append_ops (H : Bytes → Oid) (fs fs1 : Fs) (a b : List Op) (h : exec H fs a = some fs1) :
      exec H fs (a ++ b) = exec H fs1 b := by
    induction a generalizing fs with
    | nil => simp only [exec] at h; cases h; rfl
    | cons op ops ih =>
      simp only [exec] at h
      split at h
      · rename_i fs' hs; simp only [List.cons_append, exec, hs]; exact ih fs' h
      · cases h

/-- re-running the command: it stores the object unless it is already there -/
def cleanRun (fs : Fs) (n : Nat) (bursts : List Bytes) : Option Fs :=
  if (fs (.obj (H bursts.flatten))).isSome then some fs else exec H fs (cleanOps H n bursts)

/-- **C09.rerun_same_objects**: kill the scenario after ANY number k of its operations, run it again
    (with any fresh temp name): local storage ends up as after an uninterrupted run. -/
theorem rerun_same_objects (n n' : Nat) (bursts : List Bytes) (fs0 fsEnd : Fs)
    (hnew : fs0 (.obj (H bursts.flatten)) = none)
    (hend : exec H fs0 (cleanOps H n bursts) = some fsEnd) (k : Nat) :
    ∃ fsk fs2, exec H fs0 ((cleanOps H n bursts).take k) = some fsk ∧ cleanRun H fsk n' bursts = some fs2 ∧
      objView fs2 = objView fsEnd := by
  obtain ⟨fsE, heE, hoE⟩ := exec_cleanOps H n bursts fs0
  rw [hend] at heE; cases heE
  -- the operations before the final rename do not touch objects
  let pre : List Op := .create (.tmp n) :: bursts.map (Op.append (.tmp n))
  have hops : cleanOps H n bursts = pre ++ [.rename (.tmp n) (.obj (H bursts.flatten))] := by
    simp [cleanOps, pre]
  have hpre : ∀ op ∈ pre, touchesObj op = false := by
    intro op hop
    simp only [pre, List.mem_cons, List.mem_map] at hop
    rcases hop with rfl | ⟨b, _, rfl⟩ <;> rfl
  by_cases hk : k ≤ pre.length
  · -- killed before the rename: objects as at the start, the re-run stores the object
    have htake : (cleanOps H n bursts).take k = pre.take k := by
      rw [hops, List.take_append_of_le_length hk]
    -- the prefix runs (it is a prefix of a list that runs)
    have hrun : ∃ fsk, exec H fs0 (pre.take k) = some fsk := by
      have := prefix_run H (cleanOps H n bursts) fs0 fsEnd hend k
      rw [htake] at this; exact this
    obtain ⟨fsk, hfsk⟩ := hrun
    have hov : objView fsk = objView fs0 :=
      exec_objView H (pre.take k) fs0 fsk (fun op hop => hpre op (List.mem_of_mem_take hop)) hfsk
    have habs : fsk (.obj (H bursts.flatten)) = none := by
      have := congrFun hov (H bursts.flatten); simp only [objView] at this; rw [this, hnew]
    obtain ⟨fs2, he2, ho2⟩ := exec_cleanOps H n' bursts fsk
    refine ⟨fsk, fs2, by rw [htake]; exact hfsk, ?_, ?_⟩
    · simp [cleanRun, habs, he2]
    · rw [ho2, hoE, hov]
  · -- killed after the rename (or not at all): the object is there, the re-run changes nothing
    have htake : (cleanOps H n bursts).take k = cleanOps H n bursts := by
      apply List.take_of_length_le
      rw [hops, List.length_append]; simp only [List.length_singleton]; omega
    have hpres : (fsEnd (.obj (H bursts.flatten))).isSome = true := by
      have := congrFun hoE (H bursts.flatten); simp only [objView, if_true] at this; rw [this]; rfl
    exact ⟨fsEnd, fsEnd, by rw [htake]; exact hend, by simp [cleanRun, hpres], rfl⟩
where
  prefix_run (H : Bytes → Oid) (ops : List Op) (fs fsEnd : Fs) (h : exec H fs ops = some fsEnd) (k : Nat) :
      ∃ fsk, exec H fs (ops.take k) = some fsk := by
    induction ops generalizing fs k with
    | nil => exact ⟨fs, by simp [exec]⟩
    | cons op ops ih =>
      cases k with
      | zero => exact ⟨fs, by simp [exec]⟩
      | succ k =>
        simp only [exec] at h
        split at h
        · rename_i fs' hs
          obtain ⟨fsk, hk⟩ := ih fs' h k
          exact ⟨fsk, by simp [exec, hs, hk]⟩
        · cases h

end Crash
