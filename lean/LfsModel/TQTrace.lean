import LfsModel.TQ
/-
The trace-level wrapper around the transfer-queue event system (core-only, executable).

`XEv` adds the two things the repaired code does that do not touch the accounting state:
* `replyIgnored` — a reply object that was not requested in this batch, or was already answered
  (duplicate): reported, otherwise ignored (D3 repair);
* `abort` — the collector gives up as a whole (upload of an object whose source is missing): the
  wait group is aborted; the collector keeps draining `incoming` (D4 repair).

`vstep` consumes one *observed* trace word (from the VerifTrace points in tq/transfer_queue.go),
maps it to an event, requires that event to be ENABLED in the current model state, and checks that the
decision the code took (retry / drop / deliver) is the one the model takes.  Trace validation =
`vrun` accepts the whole observed word list.
-/
namespace TQ

inductive XEv
  | core (e : Ev)
  | replyIgnored
  | abort
deriving Repr

def xstep (s : State) : XEv → Option State
  | .core e => step s e
  | .replyIgnored => some { s with errors := s.errors + 1 }
  | .abort => if s.aborted then none else some { s with aborted := true, errors := s.errors + 1 }

def xrun : State → List XEv → Option State
  | s, [] => some s
  | s, e :: es => match xstep s e with
    | some s' => xrun s' es
    | none => none

/-- one observed trace word -/
inductive TW
  | add (o : Oid) | take (o : Oid) | batch (os : List Oid)
  | retry (o : Oid) (count : Nat) | cfdrop (o : Oid)
  | reply (o : Oid) (kind : String) | replyUnknown
  | result (o : Oid) (outcome : String) (decision : String)
  | requeue (o : Oid) | abort | wait | waitret
deriving Repr

def isRetryOut (s : State) (o : Oid) : Bool := s.st o == .retryOut
def isTerm (s : State) (o : Oid) (t : Term) : Bool := s.st o == .term t

/-- the core event must be enabled, and the state it leads to must pass `check` -/
def needEv (s : State) (e : Ev) (check : State → Bool) (why : String) : Except String State :=
  match step s e with
  | none => .error s!"event not enabled: {why}"
  | some s' => if check s' then .ok s' else .error s!"the code's decision differs from the model's: {why}"

def needX (s : State) (e : XEv) (why : String) : Except String State :=
  match xstep s e with | some s' => .ok s' | none => .error why

/-- validate one observed word; `Except.error` explains why the model does not accept it -/
def vstep (s : State) (w : TW) : Except String State :=
  let need := needEv s
  match w with
  | .add o => need (.add o) (fun _ => true) s!"add {o}"
  | .take o => need (.collTake o) (fun _ => true) s!"take {o}"
  | .batch os => need (.batchStart os) (fun _ => true) s!"batch {os}"
  | .retry o c =>
    if s.st o == .inBatch then      -- batch call failure or expired action: retried inside the batch
      need (.batchCallFail o true) (fun s' => isRetryOut s' o && s'.rc o == c) s!"retry {o} #{c} from inBatch (rc={s.rc o}, max={s.maxRetries})"
    else if s.st o == .retryOut then  -- the counter increment that follows a retriable adapter result
      if s.rc o == c then .ok s else .error s!"retry counter of {o} is {c} in the code, {s.rc o} in the model"
    else .error s!"retry {o} in a state where no retry is possible"
  | .cfdrop o => need (.batchCallFail o false) (fun s' => isTerm s' o .errored) s!"batch-call drop {o}"
  | .reply o kind =>
    if kind == "transfer" then need (.reply o .action) (fun _ => true) s!"reply {o} transfer"
    else if kind == "noaction" then need (.reply o .noAction) (fun _ => true) s!"reply {o} noaction"
    else if kind == "error" || kind == "omitted" then need (.reply o .error) (fun _ => true) s!"reply {o} {kind}"
    else if kind == "relerr-drop" then need (.reply o .expiredAction) (fun s' => isTerm s' o .errored) s!"reply {o} expired, dropped"
    else if kind == "ignored" || kind == "unknown" then
      needX s .replyIgnored "replyIgnored"
    else .error s!"unknown reply kind {kind}"
  | .replyUnknown => needX s .replyIgnored "replyIgnored"
  | .result o outcome decision =>
    let out : Outcome :=
      if outcome == "ok" then .ok
      else if outcome == "retriable" || outcome == "later" then .retriable
      else if outcome == "422" then .unprocessable
      else if outcome == "fatal" then .fatal
      else if decision == "retry" || decision == "later" then .retriable else if decision == "ok" then .ok else .fatal
    need (.jobResult o out)
      (fun s' => if decision == "ok" then isTerm s' o .delivered
                 else if decision == "retry" || decision == "later" then isRetryOut s' o
                 else isTerm s' o .errored)
      s!"result {o} outcome={outcome} decision={decision} (rc={s.rc o}, max={s.maxRetries})"
  | .requeue o => need (.batchEnd o) (fun _ => true) s!"requeue {o}"
  | .abort => needX s .abort "abort twice"
  | .wait => need .waitCall (fun _ => true) "Wait called"
  | .waitret => need .waitReturn (fun _ => true) s!"Wait returned (counter={s.counter}, aborted={s.aborted})"

def vrun : State → List TW → Nat → Except String State
  | s, [], _ => .ok s
  | s, w :: ws, i => match vstep s w with
    | .ok s' => vrun s' ws (i + 1)
    | .error e => .error s!"word {i}: {e}"

end TQ
