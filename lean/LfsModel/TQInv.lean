import LfsModel.TQProofs
namespace TQ

theorem inv_init (cap bs mr : Nat) : Inv { cap := cap, batchSize := bs, maxRetries := mr } := by
  refine ⟨List.nodup_nil, ?_, ?_, ?_⟩
  · intro o; simp
  · intro _; simp [countSt]
  · intro o ho; cases ho

theorem inv_add_new {s : State} (h : Inv s) (o : Oid) (hu : s.st o = .unknown) :
    Inv { s with known := s.known ++ [o], st := set s.st o .incoming, adds := set s.adds o 1,
                 counter := if s.aborted then s.counter else s.counter + 1 } := by
  have hnm : o ∉ s.known := fun hm => (h.known_iff o).mp hm hu
  refine ⟨?_, ?_, ?_, ?_⟩
  · exact List.nodup_append.mpr ⟨h.nodup, by simp, by
      intro a ha b hb; simp at hb; subst hb; exact fun e => hnm (e ▸ ha)⟩
  · intro x
    by_cases hx : x = o
    · subst hx; simp [set_same]
    · simp only [List.mem_append, List.mem_singleton, hx, or_false, set_other s.st _ hx]
      exact h.known_iff x
  · intro ha
    have ha' : s.aborted = false := ha
    have hcnt := countP_set_notMem s.known s.st o .incoming Status.live hnm
    have := h.acc ha'
    simp only [countSt] at this
    simp only [countSt, ha', Bool.false_eq_true, if_false, List.countP_append, List.countP_cons,
      List.countP_nil, set_same, hcnt]
    simp [this, Status.live]
  · intro x hx
    have hxo : x ≠ o := by
      intro e; subst e
      have := h.deliv x hx
      rw [hu] at this; cases this
    simp only [set_other s.st _ hxo]
    exact h.deliv x hx

/-- bulk relabelling of live oids by live statuses keeps the invariant (batchStart) -/
theorem inv_relabel {s : State} (h : Inv s) (g : Oid → Status)
    (hg : ∀ x, g x = s.st x ∨ ((s.st x).live = true ∧ (g x).live = true)) :
    Inv { s with st := g } := by
  have hlive : ∀ x, (g x).live = (s.st x).live := by
    intro x; rcases hg x with e | ⟨a, b⟩
    · rw [e]
    · rw [a, b]
  refine ⟨h.nodup, ?_, ?_, ?_⟩
  · intro x
    rw [h.known_iff x]
    show s.st x ≠ .unknown ↔ g x ≠ .unknown
    rcases hg x with e | ⟨a, b⟩
    · rw [e]
    · constructor
      · intro _ e; rw [e] at b; cases b
      · intro _ e; rw [e] at a; cases a
  · intro ha
    have := h.acc ha
    simp only [countSt] at this ⊢
    rw [this]
    congr 1
    apply List.countP_congr
    intro x _
    simp [hlive x]
  · intro x hx
    have := h.deliv x hx
    show g x = .term .delivered
    rcases hg x with e | ⟨a, _⟩
    · rw [e]; exact this
    · rw [this] at a; cases a

/-- **C06.counter_accounting**: every enabled event preserves the accounting invariant. -/
theorem step_inv {s s' : State} {e : Ev} (h : Inv s) (hs : step s e = some s') : Inv s' := by
  cases e with
  | add o =>
    simp only [step] at hs
    split at hs
    · cases hs
    · split at hs
      · rename_i hu
        split at hs
        · cases hs; exact inv_add_new h o hu
        · cases hs
      · rename_i hd
        cases hs
        refine ⟨h.nodup, h.known_iff, h.acc, ?_⟩
        intro x hx
        simp only [List.mem_append, List.mem_singleton] at hx
        rcases hx with hx | hx
        · exact h.deliv x hx
        · subst hx; exact hd
      · cases hs
        exact ⟨h.nodup, h.known_iff, h.acc, h.deliv⟩
  | collTake o =>
    simp only [step] at hs
    split at hs
    · rename_i hi
      cases hs
      exact inv_move h o .waiting (by rw [hi]; rfl) rfl
    · cases hs
  | batchStart os =>
    simp only [step] at hs
    split at hs
    · rename_i hc
      cases hs
      apply inv_relabel h
      intro x
      by_cases hx : x ∈ os
      · right
        simp only [hx, if_true]
        exact ⟨by rw [hc.2.2.2.1 x hx]; rfl, rfl⟩
      · left; simp [hx]
    · cases hs
  | reply o r =>
    simp only [step] at hs
    split at hs
    · rename_i hb
      have hl : (s.st o).live = true := by rw [hb]; rfl
      cases r with
      | action => cases hs; exact inv_move h o .job hl rfl
      | noAction =>
        cases hs
        have := inv_done h o .noAction hl s.errors [] (by intro x hx; cases hx)
        simpa using this
      | error =>
        cases hs
        have := inv_done h o .errored hl (s.errors + 1) [] (by intro x hx; cases hx)
        simpa using this
      | expiredAction => cases hs; exact inv_retryOrFail h o hl
    · cases hs
  | batchCallFail o retriable =>
    simp only [step] at hs
    split at hs
    · rename_i hb
      have hl : (s.st o).live = true := by rw [hb]; rfl
      split at hs
      · cases hs; exact inv_retryOrFail h o hl
      · cases hs
        have := inv_done h o .errored hl (s.errors + 1) [] (by intro x hx; cases hx)
        simpa using this
    · cases hs
  | jobResult o out =>
    simp only [step] at hs
    split at hs
    · rename_i hb
      have hl : (s.st o).live = true := by rw [hb]; rfl
      cases out with
      | ok =>
        cases hs
        have := inv_done h o .delivered hl s.errors (List.replicate (s.adds o) o)
          (by intro x hx; exact ⟨(List.mem_replicate.mp hx).2, rfl⟩)
        simpa using this
      | retriable => cases hs; exact inv_retryOrFail h o hl
      | fatal =>
        cases hs
        have := inv_done h o .errored hl (s.errors + 1) [] (by intro x hx; cases hx)
        simpa using this
      | unprocessable =>
        cases hs
        have := inv_done h o .errored hl (s.errors + 1) [] (by intro x hx; cases hx)
        simpa using this
    · cases hs
  | batchEnd o =>
    simp only [step] at hs
    split at hs
    · rename_i hc
      cases hs
      exact inv_move h o .waiting (by rw [hc.1]; rfl) rfl
    · cases hs
  | waitCall =>
    simp only [step] at hs
    split at hs
    · cases hs
    · cases hs; exact ⟨h.nodup, h.known_iff, h.acc, h.deliv⟩
  | waitReturn =>
    simp only [step] at hs
    split at hs
    · cases hs; exact ⟨h.nodup, h.known_iff, h.acc, h.deliv⟩
    · cases hs

/-- lifted to every reachable state -/
theorem run_inv : ∀ (es : List Ev) {s s' : State}, Inv s → run s es = some s' → Inv s' := by
  intro es
  induction es with
  | nil => intro s s' h hr; simp [run] at hr; subst hr; exact h
  | cons e es ih =>
    intro s s' h hr
    simp only [run] at hr
    split at hr
    · rename_i s1 hs1; exact ih (step_inv h hs1) hr
    · cases hr

/-- **C06.no_negative_counter** and the D19 shape: at `waitReturn` without abort every known oid
is terminal; which terminals exist is exactly the conservation statement (the former `dropped422` class is gone with the D19 repair; it was the
fourth, unreported, outcome of the pinned code). -/
theorem wait_return_all_terminal {s s' : State} (es : List Ev) (h0 : Inv s) (hr : run s es = some s')
    (hw : s'.waitReturned = true) (hna : s'.aborted = false) (hc : s'.counter = 0) :
    ∀ o ∈ s'.known, ∃ t, s'.st o = .term t := by
  have h := run_inv es h0 hr
  have hacc := h.acc hna
  rw [hc] at hacc
  have hz : countSt s' Status.live = 0 := by omega
  intro o ho
  have := List.countP_eq_zero.mp hz o ho
  have hk := (h.known_iff o).mp ho
  cases hst : s'.st o with
  | unknown => exact absurd hst hk
  | term t => exact ⟨t, rfl⟩
  | _ => simp [hst, Status.live] at this

theorem counter_nonneg {s s' : State} (es : List Ev) (h0 : Inv s) (hr : run s es = some s')
    (hna : s'.aborted = false) : 0 ≤ s'.counter := by
  have := (run_inv es h0 hr).acc hna
  omega

#print axioms step_inv
#print axioms wait_return_all_terminal
end TQ
