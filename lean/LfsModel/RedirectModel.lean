/-
Executable model of the redirect / authentication flow as the code is after the D6 and D26 repairs:
lfshttp.Client.doWithRedirects / DoWithRedirect / newRequestForRetry and
lfsapi.Client.DoWithAuth / doWithAuth / doWithCreds / getCreds / getCredURLForAPI.
The model emits the trace of requests the servers receive.  Core-only.

A *listener* is a place requests can be sent to: scheme, host name and the port as the URL spells
it (`none` = implicit port).  The code compares the textual `URL.Host` (name + written port) and
the scheme.  A credential's label is the listener it was obtained or computed for.
-/
namespace Rd2

inductive Scheme | http | https deriving DecidableEq, Repr

structure Lst where
  scheme : Scheme
  name : Nat
  port : Option Nat
deriving DecidableEq, Repr

/-- effective port: what the property means by "host or port" -/
def Lst.effPort (l : Lst) : Nat := match l.port with
  | some p => p
  | none => match l.scheme with | .http => 80 | .https => 443

inductive Kind | final | redirect | needauth deriving DecidableEq, Repr
inductive Loc | abs | rel | bad deriving DecidableEq, Repr

structure Node where
  l : Nat              -- index of the listener the node lives on
  kind : Kind
  to : Nat             -- redirect target (node index)
  loc : Loc
  thenRedirect : Bool  -- needauth: behaviour once an Authorization is present
deriving DecidableEq, Repr

structure World where
  lsts : List Lst
  nodes : List Node

structure Req where
  node : Nat
  lst : Nat                 -- listener the request is sent to
  auth : Option Nat         -- label of the Authorization HEADER: listener the value was obtained/computed for
  implicit : Bool := false  -- the request URL itself carries user:password (net/http then sends Basic auth
                            -- for it when no header is set); only a request built from the LFS URL has this
deriving DecidableEq, Repr

/-- the request as the server sees it: the header, or else the URL's own credentials -/
def Req.sent (r : Req) : Req :=
  { r with auth := match r.auth with | some l => some l | none => if r.implicit then some r.lst else none }

inductive Ans | final | redirect (to : Nat) (loc : Loc) | unauthorized | notFound
deriving DecidableEq, Repr

def dfltLst : Lst := ⟨.http, 0, none⟩
def World.lst (w : World) (i : Nat) : Lst := w.lsts.getD i dfltLst

/-- what the scripted server answers -/
def World.answer (w : World) (r : Req) : Ans :=
  match w.nodes[r.node]? with
  | none => .notFound
  | some n =>
    match n.kind with
    | .final => .final
    | .redirect => .redirect n.to n.loc
    | .needauth => if r.auth.isSome then (if n.thenRedirect then .redirect n.to n.loc else .final) else .unauthorized

/-- `newRequestForRetry`'s test for keeping the Authorization header: same textual host AND same scheme -/
def sameOrigin (a b : Lst) : Bool := a.scheme = b.scheme && a.name = b.name && a.port = b.port

inductive Outcome | ok | authErr | plainErr deriving DecidableEq, Repr

def maxVia : Nat := 3

/-- lfsapi.getCreds: a request that already carries a value, or access mode none: nothing is
attached; otherwise the helper is asked for the request's own place (getCredURLForAPI); `none` =
FillCreds failed, nothing is sent. -/
def prepare (access : Bool) (canFill : Nat → Bool) (r0 : Req) : Option Req :=
  if r0.auth.isSome || !access then some r0
  else if canFill r0.lst then some { r0 with auth := some r0.lst } else none

def dfltNode : Node := ⟨0, .final, 0, .abs, false⟩

/-- lfshttp.newRequestForRetry after a redirect answer; `none` = refused / unusable Location -/
def nextReq (w : World) (r : Req) (to : Nat) (loc : Loc) : Option Req :=
  match loc with
  | .bad => none
  | .rel => some { node := to, lst := r.lst, auth := r.auth, implicit := r.implicit }
      -- resolved against the request's own URL: url.ResolveReference keeps scheme, userinfo and host
  | .abs =>
    let l' := (w.nodes.getD to dfltNode).l
    if (w.lst r.lst).scheme = .https ∧ (w.lst l').scheme = .http then none   -- refusing insecure redirect
    else some { node := to, lst := l', auth := if sameOrigin (w.lst r.lst) (w.lst l') then r.auth else none }

/-- lfsapi.doWithAuth ∘ doWithCreds ∘ lfshttp.DoWithRedirect for one request and, recursively, its
redirects.  `access` = the access mode is not `none`; `canFill l` = credentials can be obtained for listener `l`
(URL userinfo of the LFS URL for the API's own place, the credential helper elsewhere).  `via` = number of requests already in the redirect chain. -/
def chain (w : World) (access : Bool) (canFill : Nat → Bool) : Nat → Nat → Req → List Req × Outcome
  | 0, _, _ => ([], .plainErr)
  | fuel+1, via, r0 =>
    match prepare access canFill r0 with
    | none => ([], .plainErr)
    | some r =>
      match w.answer r.sent with
      | .final => ([r.sent], .ok)
      | .notFound => ([r.sent], .plainErr)
      | .unauthorized => ([r.sent], .authErr)
      | .redirect to loc =>
        if via + 1 ≥ maxVia then ([r.sent], .plainErr)     -- "too many redirects"
        else match nextReq w r to loc with                  -- only the explicit header is copied
          | none => ([r.sent], .plainErr)
          | some nx => (r.sent :: (chain w access canFill fuel (via + 1) nx).1, (chain w access canFill fuel (via + 1) nx).2)

/-- lfsapi.DoWithAuth: after an authentication error (the caller's request then carries no
Authorization: the helper's value was rejected and deleted, or none was ever attached) the access
mode is upgraded and the ORIGINAL request is resubmitted from scratch. -/
def runAuth (w : World) (canFill : Nat → Bool) : Nat → Bool → Req → List Req
  | 0, _, _ => []
  | fuel+1, access, orig =>
    let (t, o) := chain w access canFill (maxVia + 1) 0 orig
    match o with
    | .authErr => t ++ runAuth w canFill fuel true orig
    | _ => t

/-- lfshttp.Client.Do with a caller-supplied Authorization header (a batch action's header):
pure redirect following, nothing is ever attached. -/
def runHeader (w : World) (orig : Req) : List Req :=
  (chain w false (fun _ => false) (maxVia + 1) 0 orig).1

end Rd2
