/-
C12 — git/githistory/rewriter.go at the level the property speaks about: commits in topological
order, each with a flat tree (full path ↦ mode, blob id), rewritten through a blob function with the
(path, blob)-keyed entry cache and the commit cache.  Sub-tree caching is abstracted: under a blob
function that is pure in (path, blob) a cached sub-tree is the image of its leaves.
-/
namespace Rw

structure Entry where
  path : Nat
  mode : Nat
  blob : Nat
  deriving DecidableEq, Repr

def symlinkMode : Nat := 0o120000

/-- the entry cache: (path, blob) ↦ the entry it was rewritten to when first seen -/
abbrev Cache := List ((Nat × Nat) × Entry)

def Cache.get (c : Cache) (k : Nat × Nat) : Option Entry :=
  match c with
  | [] => none
  | (k', e) :: r => if k' == k then some e else Cache.get r k

/-- `rewriteTree` on one entry: not selected / symlink ⇒ copied; cache hit ⇒ the cached entry with
    the CURRENT mode (`copyEntryMode`); miss ⇒ the blob function, result cached -/
def rewriteEntry (allows : Nat → Bool) (fn : Nat → Nat → Nat) (c : Cache) (e : Entry) : Cache × Entry :=
  if !allows e.path || e.mode == symlinkMode then (c, e)
  else match c.get (e.path, e.blob) with
    | some hit => (c, { hit with mode := e.mode })
    | none =>
      let e' : Entry := { path := e.path, mode := e.mode, blob := fn e.path e.blob }
      (((e.path, e.blob), e') :: c, e')

def rewriteTree (allows : Nat → Bool) (fn : Nat → Nat → Nat) : Cache → List Entry → Cache × List Entry
  | c, [] => (c, [])
  | c, e :: es =>
    let (c1, e') := rewriteEntry allows fn c e
    let (c2, es') := rewriteTree allows fn c1 es
    (c2, e' :: es')

/-- what the rewrite should compute on one entry -/
def specEntry (allows : Nat → Bool) (fn : Nat → Nat → Nat) (e : Entry) : Entry :=
  if !allows e.path || e.mode == symlinkMode then e else { e with blob := fn e.path e.blob }

/-! ### commits -/
structure Commit where
  id : Nat
  parents : List Nat
  hdr : Nat            -- author, committer, dates, message, extra headers: copied as they are
  tree : List Entry
  deriving Repr

/-- the commit cache: old id ↦ new id -/
abbrev CMap := List (Nat × Nat)
def CMap.get (m : CMap) (k : Nat) : Option Nat :=
  match m with
  | [] => none
  | (k', v) :: r => if k' == k then some v else CMap.get r k

/-- a parent that is not part of the migration keeps its id (partial migration boundary) -/
def mapParent (m : CMap) (p : Nat) : Nat := (m.get p).getD p

structure St where
  cache : Cache
  cmap : CMap
  out : List Commit      -- rewritten commits, newest first

/-- `newId old tree' parents'` stands for writing the commit object (content addressing) -/
def rewriteCommit (allows : Nat → Bool) (fn : Nat → Nat → Nat) (newId : Commit → Nat) (s : St) (cm : Commit) : St :=
  let (c', t') := rewriteTree allows fn s.cache cm.tree
  let cm' : Commit := { id := 0, parents := cm.parents.map (mapParent s.cmap), hdr := cm.hdr, tree := t' }
  let nid := newId cm'
  { cache := c', cmap := (cm.id, nid) :: s.cmap, out := { cm' with id := nid } :: s.out }

def rewrite (allows : Nat → Bool) (fn : Nat → Nat → Nat) (newId : Commit → Nat) (cs : List Commit) : St :=
  cs.foldl (rewriteCommit allows fn newId) { cache := [], cmap := [], out := [] }

/-! ### `migrate import --fixup`: which paths are to be converted

The decision comes from the repository's own attribute files: the lines that speak about `filter` for a
path, in the order Git reads them (the root file before nested ones, each top to bottom).  A line either
does not match the path, or it assigns a value (`filter=lfs`, `filter=other`), unsets it (`-filter`) or
leaves it unspecified (`!filter`) — the last two both mean "no filter". -/

abbrev FBytes := List UInt8

/-- (the line's pattern matches the path, what it says about `filter`: none = unset / unspecified) -/
abbrev AttrLine := Bool × Option FBytes

/-- Git's rule: the LAST matching line decides -/
def effFilter (lines : List AttrLine) : Option FBytes :=
  lines.foldl (fun acc l => if l.1 then l.2 else acc) none

def sLfsFilter : FBytes := [108, 102, 115]

/-- `--fixup` converts a raw blob exactly when the effective filter of its path is `lfs` -/
def fixupConverts (lines : List AttrLine) : Bool := effFilter lines == some sLfsFilter

theorem effFilter_append (a b : List AttrLine) :
    effFilter (a ++ b) = b.foldl (fun acc l => if l.1 then l.2 else acc) (effFilter a) := by
  simp [effFilter, List.foldl_append]

theorem foldl_no_match (b : List AttrLine) (h : ∀ l ∈ b, l.1 = false) (x : Option FBytes) :
    b.foldl (fun acc l => if l.1 then l.2 else acc) x = x := by
  induction b generalizing x with
  | nil => rfl
  | cons l rest ih =>
    have hl : l.1 = false := h l (by simp)
    simp only [List.foldl_cons, hl]
    exact ih (fun l' hl' => h l' (by simp [hl'])) x

/-- the last matching line wins, whatever stands before it -/
theorem effFilter_last_wins (pre post : List AttrLine) (v : Option FBytes) (hpost : ∀ l ∈ post, l.1 = false) :
    effFilter (pre ++ (true, v) :: post) = v := by
  rw [effFilter_append]
  simp only [List.foldl_cons]
  exact foldl_no_match post hpost v

end Rw
