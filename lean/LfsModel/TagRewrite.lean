/-
C12 — how `git lfs migrate` re-points refs that lead to a commit through annotated tag objects
(git/githistory/ref_updater.go: updateOneRef, updateOneTag, rewriteTagObject).  A ref's target is a commit or a
tag object (name, tagger, message: `meta`) around another target; `img` is the rewriter's commit map
(cacheFn: none = the commit was not rewritten).  Core-only.
-/
namespace TagRw

inductive Target where
  | commit (c : Nat)
  | tag (info : Nat) (t : Target)
  deriving Repr, DecidableEq

/-- the commit a target leads to (`<ref>^{commit}`) -/
def peel : Target → Nat
  | .commit c => c
  | .tag _ t => peel t

/-- the tag objects on the way, outermost first -/
def metas : Target → List Nat
  | .commit _ => []
  | .tag m t => m :: metas t

/-- rewriteTagObject / updateOneRef: a copy of every tag object on the way, around the image of the commit;
    nothing when the commit has no image -/
def rewrite (img : Nat → Option Nat) : Target → Option Target
  | .commit c => (img c).map .commit
  | .tag m t => (rewrite img t).map (.tag m)

/-- the rewritten ref leads to the IMAGE of the commit the old ref led to — through any number of tag objects -/
theorem rewrite_peel (img : Nat → Option Nat) (t t' : Target) (h : rewrite img t = some t') :
    img (peel t) = some (peel t') := by
  induction t generalizing t' with
  | commit c =>
    simp only [rewrite, Option.map_eq_some_iff] at h
    obtain ⟨c', hc, rfl⟩ := h
    simpa [peel] using hc
  | tag m t ih =>
    simp only [rewrite, Option.map_eq_some_iff] at h
    obtain ⟨u, hu, rfl⟩ := h
    simpa [peel] using ih u hu

/-- and every tag object on the way is still there, in order, with its name, tagger and message -/
theorem rewrite_metas (img : Nat → Option Nat) (t t' : Target) (h : rewrite img t = some t') :
    metas t' = metas t := by
  induction t generalizing t' with
  | commit c =>
    simp only [rewrite, Option.map_eq_some_iff] at h
    obtain ⟨c', _, rfl⟩ := h
    rfl
  | tag m t ih =>
    simp only [rewrite, Option.map_eq_some_iff] at h
    obtain ⟨u, hu, rfl⟩ := h
    simp [metas, ih u hu]

/-- a ref is re-pointed exactly when its commit was rewritten — no tag depth makes the update give up (D78) -/
theorem rewrite_some_iff (img : Nat → Option Nat) (t : Target) :
    (rewrite img t).isSome = (img (peel t)).isSome := by
  induction t with
  | commit c => simp [rewrite, peel]
  | tag m t ih => simp [rewrite, peel, ih]

example : rewrite (fun c => if c = 1 then some 10 else none) (.tag 7 (.tag 8 (.commit 1))) = some (.tag 7 (.tag 8 (.commit 10))) := by decide

end TagRw
