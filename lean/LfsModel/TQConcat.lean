/-
tq/transfer_queue.go: batch.Concat — how collectBatches splits "what is left over from the running batch
+ what has been collected since" into the next batch (`left`: ready, at most `size`) and what has to wait
(`right`: not yet ready, plus the overflow of ready ones).  One call, with the clock read once (`now`).
Core-only, executable (driven by Oracle `C06 concat`).
-/
namespace TQConcat

abbrev Oid := Nat

/-- an object tuple: its id and the instant (ms) from which it may be requested again -/
abbrev Item := Oid × Int

def ready (now : Int) (it : Item) : Bool := decide (it.2 < now)

def concat (now : Int) (b other : List Item) (size : Nat) : List Item × List Item :=
  let u := b ++ other
  let left := u.filter (ready now)
  let right := u.filter fun it => !ready now it
  if left.length ≤ size then (left, right)
  else (left.take size, right ++ left.drop size)

/-- nothing is lost and nothing is duplicated: next batch + remainder is a rearrangement of the input -/
theorem concat_conserves (now : Int) (b other : List Item) (size : Nat) :
    ((concat now b other size).1 ++ (concat now b other size).2).Perm (b ++ other) := by
  unfold concat
  simp only
  split
  · exact List.filter_append_perm (ready now) (b ++ other)
  · -- take ++ (right ++ drop)  ~  (take ++ drop) ++ right  =  left ++ right  ~  u
    have h1 : (List.take size (List.filter (ready now) (b ++ other)) ++
        (List.filter (fun it => !ready now it) (b ++ other) ++ List.drop size (List.filter (ready now) (b ++ other)))).Perm
        (List.take size (List.filter (ready now) (b ++ other)) ++
        (List.drop size (List.filter (ready now) (b ++ other)) ++ List.filter (fun it => !ready now it) (b ++ other))) :=
      List.Perm.append_left _ List.perm_append_comm
    refine h1.trans ?_
    rw [← List.append_assoc, List.take_append_drop]
    exact List.filter_append_perm (ready now) (b ++ other)

/-- the next batch never exceeds the batch size -/
theorem concat_left_bounded (now : Int) (b other : List Item) (size : Nat) :
    (concat now b other size).1.length ≤ size := by
  unfold concat
  simp only
  split
  · assumption
  · simp [List.length_take]; omega

/-- only objects whose ready time has passed are batched -/
theorem concat_left_ready (now : Int) (b other : List Item) (size : Nat) :
    ∀ it ∈ (concat now b other size).1, it.2 < now := by
  intro it h
  unfold concat at h
  simp only at h
  split at h
  · simpa [ready] using (List.mem_filter.mp h).2
  · simpa [ready] using (List.mem_filter.mp (List.mem_of_mem_take h)).2

/-- every object that has to wait is in the remainder — whatever overflows the batch beside it -/
theorem concat_waiting_kept (now : Int) (b other : List Item) (size : Nat) (it : Item)
    (hm : it ∈ b ++ other) (hw : ¬ it.2 < now) : it ∈ (concat now b other size).2 := by
  have hf : it ∈ (b ++ other).filter fun x => !ready now x := by
    refine List.mem_filter.mpr ⟨hm, ?_⟩
    simp [ready, hw]
  unfold concat
  simp only
  split
  · exact hf
  · exact List.mem_append_left _ hf

end TQConcat
