import LfsModel.Pointer
/-
C04 — fetch / pull / checkout.
* `allows`     : filepathfilter.Filter.Allows over an abstract pattern matcher
* `classify`   : what singleCheckout.Run learns about the working-tree file (lfs.DecodePointerFromFile,
                 with the real pointer decoder model of C07)
* `run`        : singleCheckout.Run + SmudgeToFile for one path (the new bytes of the working file)
* `toFetch`    : pointersToFetch (what fetch asks the transfer queue for)
* `pull`       : the per-path effect of `git lfs pull` / `git lfs checkout` over a list of pointers
-/
namespace Co
open Lfs

/-! ## include / exclude -/
/-- `Filter.Allows`: `m p f` = pattern `p` matches file name `f` -/
def allows {P : Type} (m : P → Bytes → Bool) (inc exc : List P) (dflt : Bool) (f : Bytes) : Bool :=
  let included := inc.any (fun p => m p f)
  if !included && !inc.isEmpty then false
  else if !included && !dflt then false
  else !(exc.any (fun p => m p f))

/-! ## one working-tree file -/
/-- state of the path in the working tree as `Run` sees it -/
inductive WFile where
  | absent (deletedInIndex : Bool)   -- no such file; whether the index records the deletion
  | unreadable                        -- exists, cannot be opened/read
  | file (b : Bytes)
  deriving Repr

abbrev Store := List (Bytes × Bytes)      -- oid ↦ content (local object storage)
def Store.get (st : Store) (o : Bytes) : Option Bytes :=
  match st with
  | [] => none
  | (k, v) :: r => if k == o then some v else Store.get r o

/-- the decision of `singleCheckout.Run`: does it go on to `RunToPath`? -/
def willWrite (recorded : Ptr) : WFile → Bool
  | .absent deleted => !deleted
  | .unreadable => false
  | .file b =>
    match dec b with                -- DecodePointerFromFile: size ≥ cut ⇒ not a pointer
    | .error _ => false             -- not a pointer / bad key / other error: leave alone
    | .ok (p, _) => p.oid == recorded.oid

/-- `SmudgeToFile` without download: object bytes when local, else the canonical pointer text as a
    placeholder.  (`ptr.Size == 0 ∧ file empty` returns early.) -/
def smudgeToFile (recorded : Ptr) (st : Store) (cur : WFile) : Bytes :=
  match cur, recorded.size with
  | .file [], 0 => []
  | _, _ =>
    match st.get recorded.oid with
    | some content => content
    | none => enc recorded

/-- the working file after `Run` (none = no file) -/
def run (recorded : Ptr) (st : Store) (cur : WFile) : Option Bytes :=
  if willWrite recorded cur then some (smudgeToFile recorded st cur)
  else match cur with
    | .file b => some b
    | _ => none

/-! ## fetch -/
/-- `pointersToFetch`: empty objects are never transferred; objects present with the right size are skipped -/
def toFetch (sizeOf : Store → Bytes → Option Nat) (st : Store) (ptrs : List Ptr) : List Ptr :=
  ptrs.filter fun p => p.size != 0 && sizeOf st p.oid != some p.size

def storeSize (st : Store) (o : Bytes) : Option Nat := (st.get o).map List.length

end Co
