/-
C13, which pointers `git lfs fsck --objects` looks at (commands/command_fsck.go doFsckObjects +
lfs/gitscanner_refs.go): `git rev-list --objects --no-walk <commit>` lists every blob of the tree ONCE,
under the first path at which the walk meets it, and lfs.fetchexclude is applied to that one name.
A tree is the list of its (path, blob) entries in walk order.  Core-only, executable (Oracle `C13 scan`).
-/
namespace FsScan

/-- (blob, path) of the first occurrence of every blob -/
def firstNames : List (Nat × Nat) → List Nat → List (Nat × Nat)
  | [], _ => []
  | (p, b) :: rest, seen => if seen.contains b then firstNames rest seen else (b, p) :: firstNames rest (b :: seen)

/-- the blobs whose pointers fsck checks -/
def scanned (excluded : Nat → Bool) (t : List (Nat × Nat)) : List Nat :=
  ((firstNames t []).filter fun bp => !excluded bp.2).map (·.1)

/-- the blobs some path outside the exclusion needs -/
def needed (excluded : Nat → Bool) (t : List (Nat × Nat)) (b : Nat) : Prop :=
  ∃ p, (p, b) ∈ t ∧ excluded p = false

theorem firstNames_mem (t : List (Nat × Nat)) (seen : List Nat) (b p : Nat) (h : (b, p) ∈ firstNames t seen) :
    (p, b) ∈ t ∧ b ∉ seen := by
  induction t generalizing seen with
  | nil => simp [firstNames] at h
  | cons e rest ih =>
    obtain ⟨p', b'⟩ := e
    simp only [firstNames] at h
    split at h
    · have := ih seen h
      exact ⟨by simp [this.1], this.2⟩
    · rename_i hs
      simp only [List.mem_cons, Prod.mk.injEq] at h
      rcases h with ⟨hb, hp⟩ | h
      · subst hb; subst hp
        exact ⟨by simp, by simpa using hs⟩
      · have := ih (b' :: seen) h
        exact ⟨by simp [this.1], fun hm => this.2 (by simp [hm])⟩

/-- fsck never checks a blob that no path outside the exclusion names: no false alarm from the scan -/
theorem scanned_needed (excluded : Nat → Bool) (t : List (Nat × Nat)) (b : Nat) (h : b ∈ scanned excluded t) :
    needed excluded t b := by
  simp only [scanned, List.mem_map, List.mem_filter] at h
  obtain ⟨⟨b', p⟩, ⟨hm, hex⟩, hb⟩ := h
  simp only at hb; subst hb
  exact ⟨p, (firstNames_mem t [] b' p hm).1, by simpa using hex⟩

/-- every blob of the tree that is not in `seen` gets a first name -/
theorem firstNames_covers (t : List (Nat × Nat)) (seen : List Nat) (p b : Nat) (h : (p, b) ∈ t) (hs : b ∉ seen) :
    ∃ q, (b, q) ∈ firstNames t seen ∧ (q, b) ∈ t := by
  induction t generalizing seen with
  | nil => cases h
  | cons e rest ih =>
    obtain ⟨p', b'⟩ := e
    simp only [firstNames]
    by_cases hc : seen.contains b' = true
    · simp only [hc, if_true]
      have hne : ¬ (p = p' ∧ b = b') := by
        intro ⟨_, hb⟩; subst hb; exact hs (by simpa using hc)
      have hin : (p, b) ∈ rest := by
        simp only [List.mem_cons, Prod.mk.injEq] at h
        rcases h with h | h
        · exact absurd h hne
        · exact h
      obtain ⟨q, hq, hq2⟩ := ih seen hin hs
      exact ⟨q, hq, by simp [hq2]⟩
    · simp only [hc, Bool.false_eq_true, if_false]
      by_cases hb : b = b'
      · subst hb
        exact ⟨p', by simp, by simp⟩
      · have hin : (p, b) ∈ rest := by
          simp only [List.mem_cons, Prod.mk.injEq] at h
          rcases h with ⟨_, h⟩ | h
          · exact absurd h hb
          · exact h
        have hs' : b ∉ b' :: seen := by simp [hb, hs]
        obtain ⟨q, hq, hq2⟩ := ih (b' :: seen) hin hs'
        exact ⟨q, by simp [hq], by simp [hq2]⟩

/-- C13's "every object referenced … is checked", PARTIAL: it holds when no blob sits on both sides of
    the exclusion (in particular without lfs.fetchexclude) -/
theorem needed_scanned_partial (excluded : Nat → Bool) (t : List (Nat × Nat))
    (hsame : ∀ p q b, (p, b) ∈ t → (q, b) ∈ t → excluded p = excluded q)
    (b : Nat) (h : needed excluded t b) : b ∈ scanned excluded t := by
  obtain ⟨p, hp, hex⟩ := h
  obtain ⟨q, hq, hq2⟩ := firstNames_covers t [] p b hp (by simp)
  simp only [scanned, List.mem_map, List.mem_filter]
  refine ⟨(b, q), ⟨hq, ?_⟩, rfl⟩
  have := hsame p q b hp hq2
  simp [← this, hex]

/-- … and the full statement is FALSE of the code (D49): one pointer blob at an excluded path that the
    walk meets first and at a path that is not excluded -/
theorem d49_witness :
    let t := [(1, 7), (2, 7)]
    let excluded := fun p => p == 1
    needed excluded t 7 ∧ 7 ∉ scanned excluded t := by
  refine ⟨⟨2, by decide, by decide⟩, by decide⟩

end FsScan
