import LfsModel.Pointer
import LfsModel.Gen
/-
C05 (and C03/C04's recent fetches) — the parser of `git log -p` output, lfs/gitscanner_log.go:
logScanner.scan.  Lines are classified by four regular expressions (`classify`, hand-written
matchers), the state machine over the classified lines is `step`.
-/
namespace LogScan
open Lfs

inductive Kind where
  | commit                         -- lfs-commit-sha: <sha> <parents…>
  | file (a b : Bytes)             -- diff --git a/<a> b/<b>
  | merge (f : Bytes)              -- diff --cc <f>
  | data (sign : UInt8) (text : Bytes)   -- [+- ](one of Gen.logDataPrefixes)…; text = line without the sign
  | other
  deriving Repr, DecidableEq

def isPrefix : Bytes → Bytes → Bool
  | [], _ => true
  | _ :: _, [] => false
  | a :: as, b :: bs => a == b && isPrefix as bs

def isHex (c : UInt8) : Bool := (48 ≤ c && c ≤ 57) || (97 ≤ c && c ≤ 102)
def isSpaceRe (c : UInt8) : Bool := c == 9 || c == 10 || c == 12 || c == 13 || c == 32   -- Go regexp \s

def sCommit : Bytes := [108, 102, 115, 45, 99, 111, 109, 109, 105, 116, 45, 115, 104, 97, 58, 32]   -- "lfs-commit-sha: " (spelt as bytes: `decide` does not reduce String.toUTF8)
def sDiffGit : Bytes := [100, 105, 102, 102, 32, 45, 45, 103, 105, 116, 32]   -- "diff --git " (spelt as bytes: `decide` does not reduce String.toUTF8)
def sDiffCc : Bytes := [100, 105, 102, 102, 32, 45, 45, 99, 99, 32]   -- "diff --cc " (spelt as bytes: `decide` does not reduce String.toUTF8)
/-- the literal alternatives of `pointerDataRegex`, regenerated from lfs/gitscanner_log.go on every run -/
def dataPrefixes : List Bytes := Gen.logDataPrefixes

/-- `(.+?)\s+"?b\/(.+)` on the text after `a/`: the leftmost-lazy split -/
def splitAB : Bytes → Bytes → Option (Bytes × Bytes)
  | _, [] => none
  | acc, c :: rest =>
    -- try to end the first group here (it must be non-empty): `c` must start the blank run
    let tryHere : Option (Bytes × Bytes) :=
      if acc.isEmpty || !isSpaceRe c then none else
      let afterWs := rest.dropWhile isSpaceRe
      -- the run `\s+` may also stop early, but `"?b/` cannot start with a blank, so only the full run can match
      let afterQ := if afterWs.head? == some 34 then afterWs.drop 1 else afterWs
      match afterQ with
      | 98 :: 47 :: b => if b.isEmpty then none else some (acc, b)
      | _ =>
        -- without consuming the quote (the `"?` is optional)
        match afterWs with
        | 98 :: 47 :: b => if b.isEmpty then none else some (acc, b)
        | _ => none
    match tryHere with
    | some r => some r
    | none => splitAB (acc ++ [c]) rest

def classify (line : Bytes) : Kind :=
  if isPrefix sCommit line && ((line.drop sCommit.length).takeWhile isHex).length ≥ 40 then .commit
  else if isPrefix sDiffGit line then
    let r := line.drop sDiffGit.length
    let r := if r.head? == some 34 then r.drop 1 else r
    match r with
    | 97 :: 47 :: rest => (match splitAB [] rest with
        | some (a, b) => .file a b
        | none => if isPrefix sDiffCc line then .other else .other)
    | _ => .other
  else if isPrefix sDiffCc line && (line.drop sDiffCc.length).length ≥ 1 then .merge (line.drop sDiffCc.length)
  else match line with
    | s :: text =>
      if (s == 43 || s == 45 || s == 32) && dataPrefixes.any (fun p => isPrefix p text) then .data s text else .other
    | [] => .other

structure St where
  data : Bytes
  name : Bytes
  deriving Repr

/-- `setFilename`: a trailing quote is dropped (C-style unquoting of octal escapes is not modelled:
    the correspondence compares names only when they contain no backslash) -/
def setName (n : Bytes) : Bytes := if n.getLast? == some 34 then n.dropLast else n

/-- `finishLastPointer` -/
def finish (st : St) : Option (Bytes × Ptr) :=
  if st.data.isEmpty then none else
  match dec st.data with
  | .ok (p, _) => some (st.name, p)
  | .error _ => none

def step (dir : UInt8) (st : St) : Kind → St × Option (Bytes × Ptr)
  | .commit => ({ st with data := [] }, finish st)
  | .file a b => ({ data := [], name := setName (if dir == 43 then b else a) }, finish st)
  | .merge f => ({ data := [], name := setName f }, finish st)
  | .data s t => (if s == dir || s == 32 then { st with data := st.data ++ t ++ [10] } else st, none)
  | .other => (st, none)

def scanFrom (dir : UInt8) : St → List Kind → List (Bytes × Ptr)
  | st, [] => (finish st).toList
  | st, k :: ks =>
    match step dir st k with
    | (st', some p) => p :: scanFrom dir st' ks
    | (st', none) => scanFrom dir st' ks

def scan (dir : UInt8) (ks : List Kind) : List (Bytes × Ptr) := scanFrom dir { data := [], name := [] } ks

/-- split a log text into lines as `scan()` does (LF-separated, one trailing CR dropped) -/
def lines (b : Bytes) : List Bytes := (Lfs.splitLF b []).map Lfs.dropCR

def scanText (dir : UInt8) (log : Bytes) : List (Bytes × Ptr) := scan dir ((lines log).map classify)

/-! ### one file section -/
/-- lines that neither end a section nor are headers -/
def isBody : Kind → Bool
  | .data _ _ => true
  | .other => true
  | _ => false

/-- the bytes a section's data lines contribute in direction `dir` -/
def sectionData (dir : UInt8) : List Kind → Bytes
  | [] => []
  | .data s t :: ks => (if s == dir || s == 32 then t ++ [10] else []) ++ sectionData dir ks
  | _ :: ks => sectionData dir ks

theorem scanFrom_body (dir : UInt8) (body : List Kind) (hb : ∀ k ∈ body, isBody k = true)
    (st : St) (rest : List Kind) :
    scanFrom dir st (body ++ rest) = scanFrom dir { st with data := st.data ++ sectionData dir body } rest := by
  induction body generalizing st with
  | nil => simp [sectionData]
  | cons k ks ih =>
    have hk := hb k (by simp)
    have hks : ∀ k' ∈ ks, isBody k' = true := fun k' h => hb k' (by simp [h])
    cases k with
    | commit => simp [isBody] at hk
    | file a b => simp [isBody] at hk
    | merge f => simp [isBody] at hk
    | other =>
      simp only [List.cons_append, scanFrom, step, sectionData]
      exact ih hks st
    | data s t =>
      simp only [List.cons_append, scanFrom, step, sectionData]
      by_cases hs : (s == dir || s == 32) = true
      · simp only [hs, if_true]
        rw [ih hks]
        simp [List.append_assoc]
      · simp only [hs, if_false]
        rw [ih hks]; simp

end LogScan
