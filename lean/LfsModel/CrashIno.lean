import LfsModel.Crash
/-
C09 with hard links taken seriously.  Crash.lean treats `link` as a copy; on a real file system a link is a
second NAME of the same file, and a write through one name changes what every other name shows.  Here a
file system is a finite map from paths to inode numbers plus the content of every inode, and the storage
discipline has one more clause: nothing is written (appended, truncated) to an inode that has a name in
lfs/objects.  Under that discipline every prefix of every operation list leaves local storage intact.
Core-only, executable (the replay of traced operations runs in this model).
-/
namespace CrashI
open Crash (Path Bytes Oid isObj)

structure Fs where
  names : List (Path × Nat) := []
  data : Nat → Bytes := fun _ => []
  next : Nat := 0

def lookup (fs : Fs) (p : Path) : Option Nat := (fs.names.find? fun e => e.1 == p).map (·.2)

def setName (fs : Fs) (p : Path) (i : Nat) : Fs :=
  { fs with names := (p, i) :: fs.names.filter fun e => !(e.1 == p) }

def delName (fs : Fs) (p : Path) : Fs := { fs with names := fs.names.filter fun e => !(e.1 == p) }

def setData (fs : Fs) (i : Nat) (c : Bytes) : Fs := { fs with data := fun j => if j = i then c else fs.data j }

/-- does some name in lfs/objects denote this inode? -/
def aliasedToObj (fs : Fs) (i : Nat) : Bool := fs.names.any fun e => isObj e.1 && e.2 == i

inductive Op
  | create (p : Path)                  -- O_CREATE|O_TRUNC: a new file, or an existing one emptied
  | write (p : Path) (b : Bytes)       -- one write burst through an open handle of this name
  | truncate (p : Path)
  | rename (src dst : Path)
  | link (src dst : Path)
  | unlink (p : Path)

variable (H : Bytes → Oid)

def step (fs : Fs) : Op → Option Fs
  | .create p =>
      if isObj p then none else
      match lookup fs p with
      | some j => if aliasedToObj fs j then none else some (setData fs j [])
      | none => some { (setName (setData fs fs.next []) p fs.next) with next := fs.next + 1 }
  | .write p b =>
      match lookup fs p with
      | some j => if aliasedToObj fs j then none else some (setData fs j (fs.data j ++ b))
      | none => none
  | .truncate p =>
      match lookup fs p with
      | some j => if aliasedToObj fs j then none else some (setData fs j [])
      | none => none
  | .rename src dst =>
      match lookup fs src with
      | none => none
      | some i =>
        if lookup fs dst = some i then some fs            -- two names of one file: rename(2) does nothing
        else match dst with
          | .obj o => if H (fs.data i) = o ∧ !isObj src then some (setName (delName fs src) dst i) else none
          | _ => some (setName (delName fs src) dst i)
  | .link src dst =>
      match lookup fs src, lookup fs dst with
      | some i, none =>
        (match dst with
         | .obj o => if H (fs.data i) = o then some (setName fs dst i) else none
         | _ => some (setName fs dst i))
      | _, _ => none
  | .unlink p => some (delName fs p)

/-- every name in lfs/objects shows content that hashes to it -/
def Intact (fs : Fs) : Prop := ∀ e ∈ fs.names, ∀ o, e.1 = .obj o → H (fs.data e.2) = o

theorem not_aliased (fs : Fs) (j : Nat) (h : aliasedToObj fs j = false) :
    ∀ e ∈ fs.names, ∀ o, e.1 = .obj o → e.2 ≠ j := by
  intro e he o ho hj
  simp only [aliasedToObj, List.any_eq_false, Bool.and_eq_true, not_and] at h
  have := h e he (by rw [ho]; rfl)
  simp [hj] at this

theorem intact_setData (fs : Fs) (j : Nat) (c : Bytes) (hi : Intact H fs) (ha : aliasedToObj fs j = false) :
    Intact H (setData fs j c) := by
  intro e he o ho
  have hne := not_aliased fs j ha e he o ho
  simp only [setData, hne, if_false]
  exact hi e he o ho

theorem intact_delName (fs : Fs) (p : Path) (hi : Intact H fs) : Intact H (delName fs p) := by
  intro e he o ho
  simp only [delName, List.mem_filter] at he
  exact hi e he.1 o ho

theorem intact_setName_nonobj (fs : Fs) (p : Path) (i : Nat) (hp : isObj p = false) (hi : Intact H fs) :
    Intact H (setName fs p i) := by
  intro e he o ho
  simp only [setName, List.mem_cons, List.mem_filter] at he
  rcases he with he | he
  · subst he; simp only at ho; rw [ho] at hp; simp [isObj] at hp
  · exact hi e he.1 o ho

theorem intact_setName_obj (fs : Fs) (o : Oid) (i : Nat) (hh : H (fs.data i) = o) (hi : Intact H fs) :
    Intact H (setName fs (.obj o) i) := by
  intro e he o' ho'
  simp only [setName, List.mem_cons, List.mem_filter] at he
  rcases he with he | he
  · subst he; simp only at ho'; cases ho'; exact hh
  · exact hi e he.1 o' ho'

/-- inode numbers in use lie below the counter: a new file gets an inode no name denotes -/
def Wf (fs : Fs) : Prop := ∀ e ∈ fs.names, e.2 < fs.next

theorem lookup_mem (fs : Fs) (p : Path) (i : Nat) (h : lookup fs p = some i) : (p, i) ∈ fs.names := by
  simp only [lookup, Option.map_eq_some_iff] at h
  obtain ⟨e, he, hi⟩ := h
  have hm := List.mem_of_find?_eq_some he
  have hp := List.find?_some he
  simp only [beq_iff_eq] at hp
  obtain ⟨a, b⟩ := e
  simp only at hp hi
  subst hp; subst hi
  exact hm

theorem wf_setName (fs : Fs) (p : Path) (i : Nat) (hw : Wf fs) (hi : i < fs.next) : Wf (setName fs p i) := by
  intro e he
  simp only [setName, List.mem_cons, List.mem_filter] at he
  rcases he with he | he
  · subst he; exact hi
  · exact hw e he.1

theorem wf_delName (fs : Fs) (p : Path) (hw : Wf fs) : Wf (delName fs p) := by
  intro e he
  simp only [delName, List.mem_filter] at he
  exact hw e he.1

theorem step_inv (fs fs' : Fs) (op : Op) (hi : Intact H fs) (hw : Wf fs) (hs : step H fs op = some fs') :
    Intact H fs' ∧ Wf fs' := by
  cases op with
  | create p =>
    simp only [step] at hs
    split at hs
    · cases hs
    · rename_i hp
      have hp' : isObj p = false := by simpa using hp
      split at hs
      · split at hs
        · cases hs
        · rename_i j _ ha
          cases hs
          exact ⟨intact_setData H fs j [] hi (by simpa using ha), hw⟩
      · cases hs
        constructor
        · intro e he o ho
          simp only [setName, setData, List.mem_cons, List.mem_filter] at he
          rcases he with he | he
          · subst he; simp only at ho; rw [ho] at hp'; simp [isObj] at hp'
          · have hlt := hw e he.1
            have hne : e.2 ≠ fs.next := by omega
            simp only [setName, setData, hne, if_false]
            exact hi e he.1 o ho
        · intro e he
          simp only [setName, setData, List.mem_cons, List.mem_filter] at he
          rcases he with he | he
          · subst he; simp
          · have := hw e he.1; simp only; omega
  | write p b =>
    simp only [step] at hs
    split at hs
    · split at hs
      · cases hs
      · rename_i j _ ha
        cases hs
        exact ⟨intact_setData H fs j _ hi (by simpa using ha), hw⟩
    · cases hs
  | truncate p =>
    simp only [step] at hs
    split at hs
    · split at hs
      · cases hs
      · rename_i j _ ha
        cases hs
        exact ⟨intact_setData H fs j _ hi (by simpa using ha), hw⟩
    · cases hs
  | rename src dst =>
    simp only [step] at hs
    split at hs
    · cases hs
    · rename_i i hl
      have hlt : i < fs.next := hw _ (lookup_mem fs src i hl)
      have hlt' : i < (delName fs src).next := hlt
      split at hs
      · cases hs; exact ⟨hi, hw⟩
      · cases dst with
        | obj o =>
          simp only at hs
          split at hs
          · rename_i hc
            cases hs
            exact ⟨intact_setName_obj H (delName fs src) o i hc.1 (intact_delName H fs src hi),
              wf_setName _ _ _ (wf_delName fs src hw) hlt'⟩
          · cases hs
        | tmp n => cases hs; exact ⟨intact_setName_nonobj H _ _ i rfl (intact_delName H fs src hi), wf_setName _ _ _ (wf_delName fs src hw) hlt'⟩
        | part o => cases hs; exact ⟨intact_setName_nonobj H _ _ i rfl (intact_delName H fs src hi), wf_setName _ _ _ (wf_delName fs src hw) hlt'⟩
        | bad o => cases hs; exact ⟨intact_setName_nonobj H _ _ i rfl (intact_delName H fs src hi), wf_setName _ _ _ (wf_delName fs src hw) hlt'⟩
        | ref o => cases hs; exact ⟨intact_setName_nonobj H _ _ i rfl (intact_delName H fs src hi), wf_setName _ _ _ (wf_delName fs src hw) hlt'⟩
  | link src dst =>
    simp only [step] at hs
    split at hs
    · rename_i i hl _
      have hlt : i < fs.next := hw _ (lookup_mem fs src i hl)
      cases dst with
      | obj o =>
        simp only at hs
        split at hs
        · rename_i hc; cases hs; exact ⟨intact_setName_obj H fs o i hc hi, wf_setName _ _ _ hw hlt⟩
        · cases hs
      | tmp n => cases hs; exact ⟨intact_setName_nonobj H _ _ i rfl hi, wf_setName _ _ _ hw hlt⟩
      | part o => cases hs; exact ⟨intact_setName_nonobj H _ _ i rfl hi, wf_setName _ _ _ hw hlt⟩
      | bad o => cases hs; exact ⟨intact_setName_nonobj H _ _ i rfl hi, wf_setName _ _ _ hw hlt⟩
      | ref o => cases hs; exact ⟨intact_setName_nonobj H _ _ i rfl hi, wf_setName _ _ _ hw hlt⟩
    · cases hs
  | unlink p =>
    simp only [step] at hs; cases hs
    exact ⟨intact_delName H fs p hi, wf_delName fs p hw⟩

def exec (fs : Fs) : List Op → Option Fs
  | [] => some fs
  | op :: rest => match step H fs op with
    | some fs' => exec fs' rest
    | none => none

/-- SIGKILL = any prefix of the operation list: wherever the run is cut, local storage is intact -/
theorem prefix_intact (ops : List Op) : ∀ (fs fsEnd : Fs), Intact H fs → Wf fs → exec H fs ops = some fsEnd →
    ∀ k, ∃ fsK, exec H fs (ops.take k) = some fsK ∧ Intact H fsK := by
  induction ops with
  | nil => intro fs _ hi _ _ k; exact ⟨fs, by simp [exec], hi⟩
  | cons op rest ih =>
    intro fs fsEnd hi hw he k
    simp only [exec] at he
    split at he
    · rename_i fs1 h1
      obtain ⟨hi1, hw1⟩ := step_inv H fs fs1 op hi hw h1
      cases k with
      | zero => exact ⟨fs, by simp [exec], hi⟩
      | succ k' =>
        obtain ⟨fsK, hk, hik⟩ := ih fs1 fsEnd hi1 hw1 he k'
        exact ⟨fsK, by simp [exec, h1, hk], hik⟩
    · cases he

/-- the empty file system -/
theorem empty_inv : Intact H {} ∧ Wf {} := by
  constructor
  · intro e he; simp at he
  · intro e he; simp at he

/-- what Crash.lean cannot say (a link there is a copy): a write through the second name of a stored
    object is refused by the discipline — and it would damage the object -/
example : let fs0 : Fs := { names := [(.tmp 1, 0)], data := fun _ => [1, 2], next := 1 }
    ∀ fs1, step (fun c => c.length) fs0 (.link (.tmp 1) (.obj 2)) = some fs1 →
      step (fun c => c.length) fs1 (.write (.tmp 1) [3]) = none := by
  intro fs0 fs1 h
  simp only [step, lookup, fs0] at h
  simp at h
  subst h
  simp [step, lookup, setName, aliasedToObj, isObj]

end CrashI
