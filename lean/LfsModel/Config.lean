/-
Executable model of config.readGitConfig (config/git_fetcher.go) — which keys of a configuration
source reach the value map, the extension table and the remote table — and of GitFetcher.Get over
the source order [.lfsconfig, git config].  Core-only.  Mirrors the code after the D7 repair.
-/
namespace Cfg
abbrev Bytes := List UInt8

def splitOn (sep : UInt8) : Bytes → Bytes → List Bytes
  | [], cur => [cur.reverse]
  | c :: rest, cur => if c = sep then cur.reverse :: splitOn sep rest [] else splitOn sep rest (c :: cur)

/-- strings.SplitN(line, "=", 2): key and value at the first `=`; none if there is no `=` -/
def splitKV : Bytes → Bytes → Option (Bytes × Bytes)
  | [], _ => none
  | c :: rest, cur => if c = 61 then some (cur.reverse, rest) else splitKV rest (c :: cur)

def sLfs : Bytes := [108, 102, 115]
def sExtension : Bytes := [101, 120, 116, 101, 110, 115, 105, 111, 110]
def sRemote : Bytes := [114, 101, 109, 111, 116, 101]
def sAccess : Bytes := [97, 99, 99, 101, 115, 115]
def sLfsurl : Bytes := [108, 102, 115, 117, 114, 108]
def sClean : Bytes := [99, 108, 101, 97, 110]
def sSmudge : Bytes := [115, 109, 117, 100, 103, 101]
def sPriority : Bytes := [112, 114, 105, 111, 114, 105, 116, 121]

structure State where
  vals : List (Bytes × Bytes) := []      -- (key, value) in insertion order
  exts : List Bytes := []                 -- registered extension names
  remotes : List Bytes := []              -- registered remote names
  ignored : List Bytes := []
deriving Repr, DecidableEq

def joinDot : List Bytes → Bytes
  | [] => []
  | [x] => x
  | x :: xs => x ++ [46] ++ joinDot xs

inductive Verdict | store | storeExt (name : Bytes) | storeRemote (name : Bytes) | ignore | skip
deriving DecidableEq, Repr

/-- the decision `readGitConfig` takes for one key of one source -/
def decide (safeKeys : List Bytes) (onlySafe : Bool) (key : Bytes) : Verdict :=
  let parts := splitOn 46 key []
  if parts.length = 4 ∧ parts[0]! = sLfs ∧ parts[1]! = sExtension then
    if onlySafe then (if parts[3]! = sPriority then .skip else .ignore)   -- .lfsconfig may order, never define
    else .storeExt parts[2]!          -- trusted source: clean/smudge/priority/other all register and store
  else if parts.length > 1 ∧ parts[0]! = sRemote then
    if onlySafe ∧ (parts.length < 3 ∨ parts.getLast! ≠ sLfsurl) then .ignore
    else .storeRemote (joinDot ((parts.drop 1).dropLast))
  else if parts.length > 2 ∧ parts[0]! = sLfs ∧ parts.getLast! = sAccess then .store
  else if onlySafe ∧ !(safeKeys.contains key) then .ignore
  else .store

def addUnique (x : Bytes) (l : List Bytes) : List Bytes := if l.contains x then l else l ++ [x]

def sTrue : Bytes := [116, 114, 117, 101]

/-- a line of `git config -l`: `key=value`, or the bare key of a value-less entry — which Git reads as
    the boolean true -/
def kvOf (line : Bytes) : Bytes × Bytes :=
  match splitKV line [] with
  | some kv => kv
  | none => (line, sTrue)

def stepKV (safeKeys : List Bytes) (onlySafe : Bool) (st : State) (line : Bytes) : State :=
  match decide safeKeys onlySafe (kvOf line).1 with
  | .skip => st
  | .ignore => { st with ignored := st.ignored ++ [(kvOf line).1] }
  | .store => { st with vals := st.vals ++ [kvOf line] }
  | .storeExt n => { st with vals := st.vals ++ [kvOf line], exts := addUnique n st.exts }
  | .storeRemote n => { st with vals := st.vals ++ [kvOf line], remotes := addUnique n st.remotes }

/-- an empty "line" (`git config -l` printed nothing: an empty file) is no key -/
def stepLine (safeKeys : List Bytes) (onlySafe : Bool) (st : State) (line : Bytes) : State :=
  if line.isEmpty then st else stepKV safeKeys onlySafe st line

structure Source where
  lines : List Bytes
  onlySafe : Bool
deriving Repr

def readSource (safeKeys : List Bytes) (st : State) (src : Source) : State :=
  src.lines.foldl (stepLine safeKeys src.onlySafe) st

def readGitConfig (safeKeys : List Bytes) (srcs : List Source) : State :=
  srcs.foldl (readSource safeKeys) {}

/-- GitFetcher.Get: the LAST value stored for the key -/
def get (st : State) (key : Bytes) : Option Bytes :=
  ((st.vals.filter (fun kv => kv.1 = key)).getLast?).map (·.2)

/-- the documented allow-list of docs/man/git-lfs-config.adoc (LFSCONFIG section) as a predicate:
the eight plain keys, `lfs.{*}.access`, `remote.{name}.lfsurl` -/
def Documented (docKeys : List Bytes) (key : Bytes) : Prop :=
  key ∈ docKeys ∨
  (let parts := splitOn 46 key []; parts.length > 2 ∧ parts[0]! = sLfs ∧ parts.getLast! = sAccess) ∨
  (let parts := splitOn 46 key []; parts.length > 2 ∧ parts[0]! = sRemote ∧ parts.getLast! = sLfsurl)

end Cfg
