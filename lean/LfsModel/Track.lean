/-
Model of the attribute-pattern escaping of `git lfs track` (commands/command_track.go:
escapeGlobCharacters, escapeAttrPattern, unescapeAttrPattern) and of the fragment of Git's
wildmatch lexer/matcher that the escaped patterns live in (Spec: gitattributes(5), wildmatch.c).
Core-only, executable.

The code applies `strings.Replace` for one character after the other; because backslash is handled
first, the bracket characters before the blank, and no replacement text contains a character that a
LATER step rewrites, this is the same as mapping every character independently — which is how the
model is written (the in-process correspondence run checks exactly this equality).
-/
namespace Trk
abbrev Bytes := List UInt8

def spaceClass : Bytes := [91, 91, 58, 115, 112, 97, 99, 101, 58, 93, 93]   -- "[[:space:]]"

def isGlobChar (c : UInt8) : Bool := c = 42 || c = 91 || c = 93 || c = 63   -- * [ ] ?

/-- escapeGlobCharacters, per character (`--filename`) -/
def escGlobChar (c : UInt8) : Bytes :=
  if c = 92 then [92, 92]
  else if isGlobChar c then [92, c]
  else if c = 32 then spaceClass
  else if c = 35 then [92, 35]
  else [c]

def escapeGlob (s : Bytes) : Bytes := s.flatMap escGlobChar

/-- escapeAttrPattern, per character (pattern arguments: glob characters stay) -/
def escAttrChar (c : UInt8) : Bytes :=
  if c = 92 then [92, 92]
  else if c = 32 then spaceClass
  else if c = 35 then [92, 35]
  else [c]

def escapeAttr (s : Bytes) : Bytes := s.flatMap escAttrChar

/-- unescapeAttrPattern: `[[:space:]]` → blank, `\#` → `#`, then `\\` → `\`, scanning left to right -/
def unescapeAttr : Bytes → Bytes
  | 91 :: 91 :: 58 :: 115 :: 112 :: 97 :: 99 :: 101 :: 58 :: 93 :: 93 :: rest => 32 :: unescapeAttr rest
  | 92 :: 35 :: rest => 35 :: unescapeAttr rest
  | 92 :: 92 :: rest => 92 :: unescapeAttr rest
  | c :: rest => c :: unescapeAttr rest
  | [] => []

/-! ### Git's side: lexing a pattern into wildmatch tokens (the fragment track can emit) -/
inductive Tok
  | lit (c : UInt8)      -- a literal character (plain, or backslash-escaped)
  | space                -- the bracket expression [[:space:]]
  | star | qmark
  | bracket              -- any other bracket expression (outside the fragment)
deriving DecidableEq, Repr

def lex : Bytes → List Tok
  | 91 :: 91 :: 58 :: 115 :: 112 :: 97 :: 99 :: 101 :: 58 :: 93 :: 93 :: rest => .space :: lex rest
  | 92 :: c :: rest => .lit c :: lex rest
  | 42 :: rest => .star :: lex rest
  | 63 :: rest => .qmark :: lex rest
  | 91 :: rest => .bracket :: lex rest
  | c :: rest => .lit c :: lex rest
  | [] => []

/-- Git's own `isspace` (sane_ctype in git-compat-util.h): blank, TAB, LF, CR — not VT or FF -/
def isSpace (c : UInt8) : Bool := c = 32 || c = 9 || c = 10 || c = 13

/-- matching a token list without wildcards against a file name (one path component) -/
def matchLit : List Tok → Bytes → Bool
  | [], [] => true
  | .lit c :: ts, d :: ds => c = d && matchLit ts ds
  | .space :: ts, d :: ds => isSpace d && matchLit ts ds
  | _, _ => false

/-- the tokens a literal name is MEANT to denote: every character itself, a blank as the space class -/
def tokOf (c : UInt8) : Tok := if c = 32 then .space else .lit c
def toks (name : Bytes) : List Tok := name.map tokOf

/-! ### the attribute line: Git splits it at blanks and tabs; a leading `!`, `"` or `#` changes its meaning -/
def firstField : Bytes → Bytes
  | [] => []
  | c :: rest => if c = 32 ∨ c = 9 then [] else c :: firstField rest

/-- a name whose escaped form survives Git's line tokeniser unchanged -/
def SafeName (n : Bytes) : Prop :=
  (∀ c ∈ n, c ≠ 9 ∧ c ≠ 10 ∧ c ≠ 13) ∧ n.head? ≠ some 33 ∧ n.head? ≠ some 34 ∧ n ≠ []

end Trk
