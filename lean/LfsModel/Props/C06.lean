/-
C06 — Transfer queue: every added object is accounted for and Add/Wait return.
Property theorems only (obligations of ./check C06).  The model is the status-map event system of
TQ.lean (tq/transfer_queue.go after the D3/D4/D19 repairs) plus the trace wrapper of TQTrace.lean;
"all interleavings" = all event lists accepted by `step`/`xstep`.
-/
import LfsModel.Gen
import LfsModel.TQTraceProofs
import LfsModel.TQRetry
import LfsModel.TQErr
import LfsModel.TQConcat
import LfsModel.TQAbort

namespace C06
open TQ

theorem gen_defaultBatchSize : Gen.defaultBatchSize = 100 := by decide
theorem gen_defaultMaxRetries : Gen.defaultMaxRetries = 8 := by decide

def init (cap bs mr : Nat) : State := { cap := cap, batchSize := bs, maxRetries := mr }

/-- SAFETY, every reachable state (any interleaving of producer, collector, batch worker, adapter
    results, Wait): the pending counter equals the number of distinct objects that are still live —
    `known` has no duplicates, the counter is never negative, and only successfully transferred
    objects are ever in the delivered list. -/
theorem counter_accounting (cap bs mr : Nat) (es : List XEv) (s : State)
    (hr : xrun (init cap bs mr) es = some s) : Inv s :=
  xrun_inv es (inv_init cap bs mr) hr

theorem no_negative_counter (cap bs mr : Nat) (es : List XEv) (s : State)
    (hr : xrun (init cap bs mr) es = some s) (hna : s.aborted = false) : 0 ≤ s.counter :=
  xcounter_nonneg es (inv_init cap bs mr) hr hna

theorem delivery_implies_success (cap bs mr : Nat) (es : List XEv) (s : State)
    (hr : xrun (init cap bs mr) es = some s) : ∀ o ∈ s.delivered, s.st o = .term .delivered :=
  xdelivered_only_after_success es (inv_init cap bs mr) hr

/-- CONSERVATION: when Wait has returned (counter zero, no abort) every object that was ever added
    is delivered, declared by the server to need no transfer, or failed with a reported error. -/
theorem conservation_at_quiescence (cap bs mr : Nat) (es : List XEv) (s : State)
    (hr : xrun (init cap bs mr) es = some s) (hna : s.aborted = false) (hc : s.counter = 0) :
    ∀ o ∈ s.known, s.st o = .term .delivered ∨ s.st o = .term .noAction ∨ s.st o = .term .errored := by
  intro o ho
  obtain ⟨t, ht⟩ := xwait_return_all_terminal es (inv_init cap bs mr) hr hna hc o ho
  cases t with
  | delivered => exact Or.inl ht
  | noAction => exact Or.inr (Or.inl ht)
  | errored => exact Or.inr (Or.inr ht)

/-- ERROR COVERAGE: in every reachable state an object that ended as "errored" is covered by a
    reported error (the error count is positive) — in particular after a batch API call that failed
    while only SOME of its objects could be re-queued. -/
theorem errored_objects_are_reported (cap bs mr : Nat) (es : List XEv) (s : State)
    (hr : xrun (init cap bs mr) es = some s) (o : Oid) (ho : s.st o = .term .errored) : 0 < s.errors := by
  have key : ∀ (es : List XEv) (s0 s1 : State), xrun s0 es = some s1 → ErrCover s0 → ErrCover s1 := by
    intro es
    induction es with
    | nil => intro s0 s1 h hc; simp [xrun] at h; subst h; exact hc
    | cons e es ih =>
      intro s0 s1 h hc
      simp only [xrun] at h
      split at h
      · rename_i s2 hs2
        refine ih s2 s1 h ?_
        cases e with
        | core e => exact step_errCover s0 s2 e hs2 hc
        | replyIgnored => simp [xstep] at hs2; subst hs2; exact Or.inl (by simp)
        | abort =>
          simp only [xstep] at hs2
          split at hs2
          · cases hs2
          · cases hs2; exact Or.inl (by simp)
      · cases h
  have h0 : ErrCover (init cap bs mr) := Or.inr (by intro x; simp [init])
  rcases key es _ _ hr h0 with h | h
  · exact h
  · exact absurd ho (h o)

/-- LIVENESS 1: every event except `add` strictly decreases the measure `mu`, so a run that stops
    adding has at most `mu s` further queue events. -/
theorem runs_terminate (es : List Ev) (s s' : State) (h : Inv s) (hna : ∀ e ∈ es, ∀ o, e ≠ .add o)
    (hr : run s es = some s') : es.length ≤ mu s :=
  run_length_le_mu es s s' h hna hr

/-- LIVENESS 2: while Wait has been called and has not returned, some event other than `add` is
    enabled — the queue is never stuck; together with `runs_terminate`: Wait returns. -/
theorem no_stuck_state (s : State) (h : Inv s) (hw : s.waitCalled = true) (hr : s.waitReturned = false)
    (hb : 1 ≤ s.batchSize) : ∃ e, (∀ o, e ≠ .add o) ∧ (step s e).isSome = true :=
  TQ.no_stuck_state s h hw hr hb

/-- an `Add` of a new object is enabled whenever `incoming` has room; duplicates are always enabled -/
theorem add_enabled (s : State) (o : Oid) (hw : s.waitCalled = false)
    (hroom : s.st o ≠ .unknown ∨ countSt s (· == .incoming) < s.cap) : (step s (.add o)).isSome = true := by
  simp only [step, hw]
  cases hst : s.st o with
  | unknown =>
    rcases hroom with h | h
    · exact absurd hst h
    · simp [h]
  | term t => cases t <;> simp
  | _ => simp

/-- what the correspondence run relies on: a trace accepted by the validator is a run of the model -/
theorem trace_validation_sound (ws : List TW) (s s' : State) (h : vrun s ws 0 = .ok s') :
    ∃ es, xrun s es = some s' := vrun_sound ws s s' 0 h

/-- non-vacuity: one object, one retry, then delivery; Wait returns with counter 0 -/
example : ∃ s, xrun (init 4 2 8)
    [.core (.add 7), .core (.add 7), .core (.collTake 7), .core (.batchStart [7]), .core (.reply 7 .action),
     .core (.jobResult 7 .retriable), .core (.batchEnd 7), .core (.batchStart [7]), .replyIgnored, .core (.reply 7 .action),
     .core (.jobResult 7 .ok), .core .waitCall, .core .waitReturn] = some s
    ∧ s.counter = 0 ∧ s.delivered = [7, 7] ∧ s.rc 7 = 1 := by
  refine ⟨_, rfl, ?_, ?_, ?_⟩ <;> decide

/-! ### batch.Concat: what the collector carries from one batch to the next -/

/-- the split into "next batch" and "remainder" loses nothing and duplicates nothing: every object
    left over from the running batch or collected since is in exactly one of the two -/
theorem concat_conserves (now : Int) (b other : List TQConcat.Item) (size : Nat) :
    ((TQConcat.concat now b other size).1 ++ (TQConcat.concat now b other size).2).Perm (b ++ other) :=
  TQConcat.concat_conserves now b other size

/-- in particular an object that still has to wait (back-off, Retry-After) stays in the remainder,
    also when the ready objects overflow the batch size -/
theorem concat_waiting_kept (now : Int) (b other : List TQConcat.Item) (size : Nat) (it : TQConcat.Item)
    (hm : it ∈ b ++ other) (hw : ¬ it.2 < now) : it ∈ (TQConcat.concat now b other size).2 :=
  TQConcat.concat_waiting_kept now b other size it hm hw

theorem concat_left_bounded (now : Int) (b other : List TQConcat.Item) (size : Nat) :
    (TQConcat.concat now b other size).1.length ≤ size := TQConcat.concat_left_bounded now b other size

/-- non-vacuity (the shape of seeded change C06/4): two delayed retries, three ready objects, batch size 2 -/
example : TQConcat.concat 100 [(1, 500), (2, 700)] [(3, 0), (4, 0), (5, 0)] 2 =
    ([(3, 0), (4, 0)], [(1, 500), (2, 700), (5, 0)]) := by decide

/-! ### the counter Wait() blocks on (abortableWaitGroup) -/

/-- once the queue has given up, waiting for it returns — whatever the producer adds afterwards and
    whatever transfers still report -/
theorem wait_returns_once_the_queue_gave_up (pre post : List TQAbort.Op)
    (hpre : ∀ o ∈ pre, o ≠ .abort) (hpost : ∀ o ∈ post, o ≠ .abort) :
    TQAbort.waitReturns (TQAbort.run {} (pre ++ [.abort] ++ post)) = true :=
  TQAbort.wait_returns_after_abort pre post hpre hpost

/-- … and while it has not, exactly when everything that was added has been finished -/
theorem wait_returns_when_all_is_finished (ops : List TQAbort.Op) (h : ∀ o ∈ ops, o ≠ .abort) :
    TQAbort.waitReturns (TQAbort.run {} ops) = true ↔ (TQAbort.run {} ops).counter = 0 :=
  TQAbort.wait_returns_iff_balanced ops h

/-- non-vacuity: two adds, the abort, a late add, a late done -/
example : TQAbort.waitReturns (TQAbort.run {} [.add 1, .add 1, .abort, .add 1, .done]) = true := by decide

/-- tie to tq/transfer_queue.go: an object of the batch answer that was asked for is deleted from the request set at once, unconditionally — a second entry for the same oid is then an unknown one (no second transfer, no second Done) -/
theorem gen_answered_object_leaves_the_request_set :
    Gen.tqAnsweredOnce =
      [
       -- requested, o.Oid | 
       [114, 101, 113, 117, 101, 115, 116, 101, 100, 44, 32, 111, 46, 79, 105, 100, 32, 124, 32]
      ] := by decide

end C06
