/-
C12 — Migrate import/export rewrites history without changing any file's content.
Property theorems only (obligations of ./check C12).
-/
import LfsModel.TagRewrite
import LfsModel.Rewrite

namespace C12
open Rw

/-- the cache invariant: every cached entry is the image of its key under the blob function -/
def CacheInv (fn : Nat → Nat → Nat) (c : Cache) : Prop :=
  ∀ k e, c.get k = some e → e.path = k.1 ∧ e.blob = fn k.1 k.2

theorem rewriteEntry_spec (allows : Nat → Bool) (fn : Nat → Nat → Nat) (c : Cache) (e : Entry) (hc : CacheInv fn c) :
    (rewriteEntry allows fn c e).2 = specEntry allows fn e ∧ CacheInv fn (rewriteEntry allows fn c e).1 := by
  unfold rewriteEntry specEntry
  by_cases hsel : (!allows e.path || e.mode == symlinkMode) = true
  · simp only [hsel, if_true]; exact ⟨trivial, hc⟩
  · simp only [hsel, if_false]
    cases hg : c.get (e.path, e.blob) with
    | some hit =>
      have := hc _ _ hg
      simp only at this
      refine ⟨?_, hc⟩
      cases hit; simp_all
    | none =>
      refine ⟨rfl, ?_⟩
      intro k e' hget
      have hget' : Cache.get (((e.path, e.blob), ({ path := e.path, mode := e.mode, blob := fn e.path e.blob } : Entry)) :: c) k = some e' := hget
      rw [Cache.get] at hget'
      by_cases hk : ((e.path, e.blob) == k) = true
      · rw [if_pos hk] at hget'
        have hk' : (e.path, e.blob) = k := by simpa using hk
        cases hget'; subst hk'; exact ⟨rfl, rfl⟩
      · rw [if_neg hk] at hget'
        exact hc k e' hget'

/-- **memoisation is sound**: with ANY cache state reachable from earlier commits, rewriting a tree
    gives exactly the entry-wise image under the blob function — path and MODE of every entry are the
    original's (also on a cache hit recorded under another mode), unselected entries and symlinks are
    untouched — and the invariant is kept -/
theorem rewriteTree_spec (allows : Nat → Bool) (fn : Nat → Nat → Nat) (c : Cache) (t : List Entry) (hc : CacheInv fn c) :
    (rewriteTree allows fn c t).2 = t.map (specEntry allows fn) ∧ CacheInv fn (rewriteTree allows fn c t).1 := by
  induction t generalizing c with
  | nil => exact ⟨rfl, hc⟩
  | cons e es ih =>
    have h1 := rewriteEntry_spec allows fn c e hc
    have h2 := ih (rewriteEntry allows fn c e).1 h1.2
    simp only [rewriteTree, List.map_cons]
    exact ⟨by rw [h1.1, h2.1], h2.2⟩

theorem modes_and_paths_preserved (allows : Nat → Bool) (fn : Nat → Nat → Nat) (e : Entry) :
    (specEntry allows fn e).path = e.path ∧ (specEntry allows fn e).mode = e.mode := by
  unfold specEntry; split <;> simp

theorem unselected_untouched (allows : Nat → Bool) (fn : Nat → Nat → Nat) (e : Entry) (h : allows e.path = false) :
    specEntry allows fn e = e := by simp [specEntry, h]

theorem symlink_untouched (allows : Nat → Bool) (fn : Nat → Nat → Nat) (e : Entry) (h : e.mode = symlinkMode) :
    specEntry allows fn e = e := by simp [specEntry, h]

/-- content is preserved once pointers are resolved: if the blob function is content-preserving
    under `resolve` (import: clean stores the object the pointer names, C01; export: smudge), every
    entry of every rewritten tree resolves to what the original did -/
theorem content_preserved (allows : Nat → Bool) (fn : Nat → Nat → Nat) (resolve : Nat → Nat)
    (hfn : ∀ p b, resolve (fn p b) = resolve b) (e : Entry) :
    resolve (specEntry allows fn e).blob = resolve e.blob := by
  unfold specEntry; split <;> simp [hfn]

/-! ### the commit graph -/
/-- every rewritten commit keeps its metadata, has the entry-wise image of its tree, and its parents
    are the images of the original parents (or the original id across a partial-migration boundary) -/
theorem rewriteCommit_spec (allows : Nat → Bool) (fn : Nat → Nat → Nat) (newId : Commit → Nat) (s : St) (cm : Commit)
    (hc : CacheInv fn s.cache) :
    let s' := rewriteCommit allows fn newId s cm
    (∃ c', s'.out = c' :: s.out ∧ c'.hdr = cm.hdr ∧ c'.tree = cm.tree.map (specEntry allows fn) ∧
        c'.parents = cm.parents.map (mapParent s.cmap) ∧ s'.cmap.get cm.id = some c'.id) ∧ CacheInv fn s'.cache := by
  have h := rewriteTree_spec allows fn s.cache cm.tree hc
  simp only [rewriteCommit]
  refine ⟨⟨_, rfl, rfl, h.1, rfl, ?_⟩, h.2⟩
  simp [CMap.get]

/-- the number of commits is preserved and the cache invariant holds after any history -/
theorem rewrite_inv (allows : Nat → Bool) (fn : Nat → Nat → Nat) (newId : Commit → Nat) (cs : List Commit) (s : St)
    (hc : CacheInv fn s.cache) :
    CacheInv fn (cs.foldl (rewriteCommit allows fn newId) s).cache ∧
    (cs.foldl (rewriteCommit allows fn newId) s).out.length = s.out.length + cs.length := by
  induction cs generalizing s with
  | nil => exact ⟨hc, by simp⟩
  | cons c cs ih =>
    have h1 := rewriteCommit_spec allows fn newId s c hc
    obtain ⟨⟨c', ho, _⟩, hc'⟩ := h1
    have := ih (rewriteCommit allows fn newId s c) hc'
    simp only [List.foldl_cons]
    refine ⟨this.1, ?_⟩
    rw [this.2, ho]; simp; omega

theorem graph_size_preserved (allows : Nat → Bool) (fn : Nat → Nat → Nat) (newId : Commit → Nat) (cs : List Commit) :
    (rewrite allows fn newId cs).out.length = cs.length := by
  have := (rewrite_inv allows fn newId cs { cache := [], cmap := [], out := [] } (by intro k e h; simp [Cache.get] at h)).2
  simpa [rewrite] using this

/-- export after import with inverse blob functions on the selected paths restores every entry -/
theorem export_import_identity (allows : Nat → Bool) (imp exp : Nat → Nat → Nat)
    (hinv : ∀ p b, exp p (imp p b) = b) (e : Entry) :
    specEntry allows exp (specEntry allows imp e) = e := by
  unfold specEntry
  by_cases h : (!allows e.path || e.mode == symlinkMode) = true
  · simp [h]
  · simp only [h, if_false]
    simp [h, hinv]

/-- the `--fixup` counterexample (D12): a blob function that also depends on the commit being
    rewritten is not memoisable by (path, blob): with the cache the second commit gets the first
    commit's decision -/
theorem impure_fn_cache_unsound :
    let fn1 : Nat → Nat → Nat := fun _ b => b + 100   -- commit 1: path is LFS-tracked ⇒ convert
    let fn2 : Nat → Nat → Nat := fun _ b => b         -- commit 2: attributes changed ⇒ leave
    let e : Entry := ⟨1, 0o100644, 7⟩
    let c1 := (rewriteEntry (fun _ => true) fn1 [] e).1
    (rewriteEntry (fun _ => true) fn2 c1 e).2 ≠ specEntry (fun _ => true) fn2 e := by
  decide

/-- non-vacuity: a cache hit recorded under mode 644 is re-used for the same blob under mode 755 with
    the new mode -/
example : (rewriteTree (fun _ => true) (fun _ b => b + 100) [((1, 7), ⟨1, 0o100644, 107⟩)] [⟨1, 0o100755, 7⟩]).2
    = [⟨1, 0o100755, 107⟩] := by decide

/-! ### `--fixup`: the selection follows Git's effective `filter` attribute -/

/-- a later line (of the same file or of a nested .gitattributes) that takes the path out of LFS again
    prevails over any earlier `filter=lfs` line: the path is not converted -/
theorem fixup_later_unset_prevails (pre post : List Rw.AttrLine) (hpost : ∀ l ∈ post, l.1 = false) :
    Rw.fixupConverts (pre ++ (true, none) :: post) = false := by
  simp [Rw.fixupConverts, Rw.effFilter_last_wins pre post none hpost]

/-- … and a later `filter=lfs` line prevails over any earlier unset: the path is converted -/
theorem fixup_later_lfs_prevails (pre post : List Rw.AttrLine) (hpost : ∀ l ∈ post, l.1 = false) :
    Rw.fixupConverts (pre ++ (true, some Rw.sLfsFilter) :: post) = true := by
  simp [Rw.fixupConverts, Rw.effFilter_last_wins pre post _ hpost]

/-- non-vacuity (the shape of seeded change C12/3): `*.bin filter=lfs` then `raw/*.bin !filter` -/
example : Rw.fixupConverts [(true, some Rw.sLfsFilter), (true, none)] = false ∧
    Rw.fixupConverts [(true, none), (false, some Rw.sLfsFilter), (true, some Rw.sLfsFilter)] = true := by decide

/-! ### refs that reach their commit through annotated tag objects -/

/-- a rewritten ref leads to the image of the commit the old ref led to, through any number of tag objects -/
theorem tag_chain_leads_to_the_image (img : Nat → Option Nat) (t t' : TagRw.Target) (h : TagRw.rewrite img t = some t') :
    img (TagRw.peel t) = some (TagRw.peel t') := TagRw.rewrite_peel img t t' h

/-- every tag object on the way keeps its place, name, tagger and message -/
theorem tag_chain_keeps_every_tag (img : Nat → Option Nat) (t t' : TagRw.Target) (h : TagRw.rewrite img t = some t') :
    TagRw.metas t' = TagRw.metas t := TagRw.rewrite_metas img t t' h

/-- a ref is re-pointed exactly when its commit was rewritten, whatever the depth of the tag chain (D78) -/
theorem tag_chain_rewritten_iff_commit_rewritten (img : Nat → Option Nat) (t : TagRw.Target) :
    (TagRw.rewrite img t).isSome = (img (TagRw.peel t)).isSome := TagRw.rewrite_some_iff img t

end C12
