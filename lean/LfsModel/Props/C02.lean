/-
C02 — A download that reports success left bytes hashing to the requested OID; a failed one left
the final location as it was.  Property theorems only (obligations of ./check C02).
The model (Download.lean) is the basic HTTP adapter's DoTransfer/download over an arbitrary finite
script of server answers; the temp file's bytes and the bytes fed to the hasher are SEPARATE state
components, so "forgot to reset the hash" would be a different model, not an invisible one.
-/
import LfsModel.Gen
import LfsModel.Download
import LfsModel.DownloadAlt
import LfsModel.DownloadConc

namespace C02
open Dl

variable (H : Bytes → Bytes)

/-- For every script of server behaviour, every `.part` state (absent, valid prefix, garbage, too
    long), every object size and EVERY prior content of the final path (absent, intact, or a corrupt
    file of any length — the same length included):
    success ⇒ the final file hashes to the oid;  failure ⇒ the final path is unchanged. -/
theorem basic_download_spec (oid : Bytes) (size : Nat) (fs : Files) (script : List Resp) :
    ((doTransfer H oid size fs script).1 = .ok →
        ∃ c, (doTransfer H oid size fs script).2.final = some c ∧ H c = oid) ∧
    ((doTransfer H oid size fs script).1 ≠ .ok →
        (doTransfer H oid size fs script).2.final = fs.final) :=
  doTransfer_spec H oid size fs script

theorem basic_success_hash (oid : Bytes) (size : Nat) (fs : Files) (script : List Resp)
    (hok : (doTransfer H oid size fs script).1 = .ok) :
    ∃ c, (doTransfer H oid size fs script).2.final = some c ∧ H c = oid :=
  (doTransfer_spec H oid size fs script).1 hok

theorem basic_failure_no_final_change (oid : Bytes) (size : Nat) (fs : Files) (script : List Resp)
    (hf : (doTransfer H oid size fs script).1 ≠ .ok) :
    (doTransfer H oid size fs script).2.final = fs.final :=
  (doTransfer_spec H oid size fs script).2 hf

/-- a corrupt file of the right length sitting at the final path is no success: the adapter never
    answers from what is already there, a success always carries freshly verified bytes -/
theorem success_replaces_corrupt_final (oid : Bytes) (size : Nat) (part : Option Bytes) (bad : Bytes)
    (script : List Resp) (hbad : H bad ≠ oid)
    (hok : (doTransfer H oid size ⟨part, some bad⟩ script).1 = .ok) :
    (doTransfer H oid size ⟨part, some bad⟩ script).2.final ≠ some bad := by
  obtain ⟨c, hc, hh⟩ := (doTransfer_spec H oid size ⟨part, some bad⟩ script).1 hok
  rw [hc]; intro h; cases h; exact hbad hh

/-- the invariant that makes it work: at the comparison, what was hashed is what is in the file -/
theorem hasher_tracks_file (oid : Bytes) (t : Tmp) (r : Resp) (final : Option Bytes)
    (hinv : t.hashed = t.file) : (consume H oid t r final).2.1.hashed = (consume H oid t r final).2.1.file := by
  unfold consume; simp only; split <;> (try split) <;> simp [hinv]

/-- a whole retry sequence (the queue re-running the adapter on what the previous attempt left):
    the final path is intact after every attempt -/
def attempts (oid : Bytes) (size : Nat) : Files → List (List Resp) → Files
  | fs, [] => fs
  | fs, sc :: rest => attempts oid size (doTransfer H oid size fs sc).2 rest

theorem attempts_intact (oid : Bytes) (size : Nat) (scripts : List (List Resp)) :
    ∀ fs : Files, (∀ c, fs.final = some c → H c = oid) →
      ∀ c, (attempts H oid size fs scripts).final = some c → H c = oid := by
  induction scripts with
  | nil => intro fs h; exact h
  | cons sc rest ih =>
    intro fs hfin
    apply ih
    intro c hc
    have hs := doTransfer_spec H oid size fs sc
    by_cases hok : (doTransfer H oid size fs sc).1 = .ok
    · obtain ⟨c', h1, h2⟩ := hs.1 hok
      rw [h1] at hc; cases hc; exact h2
    · rw [hs.2 hok] at hc; exact hfin c hc

/-- non-vacuity: garbage `.part`, wrong Content-Range, a bit-flipped body, then the right one -/
example : (doTransfer (fun b => b) [1,2,3] 3 ⟨some [9], none⟩
    [{ status := 206, rangeStart := some (some 0), body := [7] }, { status := 200, body := [1,2,3] }]).1 = .ok := by decide
example : (doTransfer (fun b => b) [1,2,3] 3 ⟨none, none⟩ [{ status := 200, body := [1,2,2] }]) =
    (.fail false false, ⟨some [1,2,2], none⟩) := by decide

/-! ### the other adapters of the quantifier: custom / standalone, pure SSH -/

/-- custom transfer agents (and the standalone `file://` agent): whatever the agent says — progress,
    a wrong oid, an error, a file that is a prefix, padded, bit-flipped, another object, or nothing at
    all — success ⇒ the final file hashes to the oid; failure ⇒ the final path is unchanged -/
theorem custom_download_spec (oid : Bytes) (msgs : List DlAlt.Msg) (final : Option Bytes) :
    ((DlAlt.customRun H oid msgs final).1 = .ok →
        ∃ c, (DlAlt.customRun H oid msgs final).2 = some c ∧ H c = oid) ∧
    ((DlAlt.customRun H oid msgs final).1 ≠ .ok → (DlAlt.customRun H oid msgs final).2 = final) :=
  DlAlt.customRun_spec H oid msgs final

/-- in particular a file made of the object followed by extra bytes is not accepted: the WHOLE file
    the agent names is what gets hashed and what gets moved -/
theorem custom_padded_file_refused (oid c pad : Bytes) (final : Option Bytes) (hpad : H (c ++ pad) ≠ oid) :
    DlAlt.customRun H oid [.complete true false (some (c ++ pad))] final = (.fail false false, final) := by
  simp [DlAlt.customRun, hpad]

/-- pure SSH transfer: the same dichotomy for every answer of the server -/
theorem ssh_download_spec (oid : Bytes) (r : DlAlt.SshResp) (final : Option Bytes) :
    ((DlAlt.sshRun H oid r final).1 = .ok → ∃ c, (DlAlt.sshRun H oid r final).2 = some c ∧ H c = oid) ∧
    ((DlAlt.sshRun H oid r final).1 ≠ .ok → (DlAlt.sshRun H oid r final).2 = final) :=
  DlAlt.sshRun_spec H oid r final

/-! ### 1..n concurrent processes fetching the same object -/

/-- ANY number of processes, ANY schedule of their steps (private temp file each, the `.part` file and
    the final path shared): in every reachable state the final path holds what it held at the start
    or bytes that hash to the oid -/
theorem concurrent_final_good (oid : Bytes) (part final : Option Bytes) (tr : List (Nat × DlConc.Act))
    (s' : DlConc.St) (hr : DlConc.run H oid (DlConc.init part final) tr = some s') :
    s'.final = final ∨ ∃ c, s'.final = some c ∧ H c = oid :=
  (DlConc.run_good H oid final tr _ s' (DlConc.init_inv part final) (Or.inl rfl) hr).2

/-- once a valid object is in place no process of any schedule ever replaces it by anything invalid -/
theorem concurrent_valid_stays (oid : Bytes) (part : Option Bytes) (c : Bytes) (hc : H c = oid)
    (tr : List (Nat × DlConc.Act)) (s' : DlConc.St)
    (hr : DlConc.run H oid (DlConc.init part (some c)) tr = some s') :
    ∃ c', s'.final = some c' ∧ H c' = oid :=
  DlConc.run_keeps_valid H oid tr _ s' (DlConc.init_inv part (some c)) ⟨c, rfl, hc⟩ hr

/-- non-vacuity: two processes, the second takes the first one's aborted `.part`, commits -/
example : (DlConc.run (fun b => b) [1, 2] (DlConc.init none none)
    [(0, .create), (0, .recv [1]), (1, .create), (0, .abort), (1, .takePart), (1, .load), (1, .recv [2]), (1, .commit)]).map (·.final)
    = some (some [1, 2]) := by decide

/-! tie to tq/basic_download.go as it is in /repo now -/
/-- what basicDownloadAdapter.DoTransfer does to the file system around the transfer itself: it removes ITS OWN
    temporary file at the end, opens that file for reading and writing, adopts the partial file by renaming it onto
    the temporary one, and hands it back by renaming only after a failed transfer.  There is no link and no second
    name for the bytes being written: no other process can reach the file this one writes (seventh-round seed C02) -/
theorem gen_basic_download_file_system_calls :
    Gen.basicDownloadFsCalls =
      [
       -- os.Remove: tmpName | 
       [111, 115, 46, 82, 101, 109, 111, 118, 101, 58, 32, 116, 109, 112, 78, 97, 109, 101, 32, 124, 32],
       -- os.OpenFile: f.Name(), os.O_RDWR, 0644 | 
       [111, 115, 46, 79, 112, 101, 110, 70, 105, 108, 101, 58, 32, 102, 46, 78, 97, 109, 101, 40, 41, 44, 32, 111, 115, 46, 79, 95, 82, 68, 87, 82, 44, 32, 48, 54, 52, 52, 32, 124, 32],
       -- a.downloadFilename(t), f.Name() | 
       [97, 46, 100, 111, 119, 110, 108, 111, 97, 100, 70, 105, 108, 101, 110, 97, 109, 101, 40, 116, 41, 44, 32, 102, 46, 78, 97, 109, 101, 40, 41, 32, 124, 32],
       -- f.Name(), a.downloadFilename(t) | err != nil
       [102, 46, 78, 97, 109, 101, 40, 41, 44, 32, 97, 46, 100, 111, 119, 110, 108, 111, 97, 100, 70, 105, 108, 101, 110, 97, 109, 101, 40, 116, 41, 32, 124, 32, 101, 114, 114, 32, 33, 61, 32, 110, 105, 108]
      ]
      := by decide

end C02
