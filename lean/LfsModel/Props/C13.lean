/-
C13 — fsck reports exactly the damaged objects and pointers and only moves those.
Property theorems only (obligations of ./check C13).
-/
import LfsModel.Gen
import LfsModel.Fsck
import LfsModel.FsckScan
import LfsModel.AttrFilter

namespace C13
open Fs

/-- with both checks on, fsck succeeds exactly when every referenced object is fine and every
    tracked file is a canonical pointer -/
theorem exit_ok_iff (dry : Bool) (refs : List Ref) (tracked : List Tracked) :
    (fsck ⟨true, true, dry⟩ refs tracked).exitOk = true ↔
      (∀ r ∈ refs, refOk r = true) ∧ (∀ t ∈ tracked, trackedBad t = false) := by
  simp [fsck, fsckWith, Flags.norm, badRefs, List.isEmpty_iff, List.filter_eq_nil_iff]

/-- no flags = both checks -/
theorem default_is_both (dry : Bool) (refs : List Ref) (tracked : List Tracked) :
    fsck ⟨false, false, dry⟩ refs tracked = fsck ⟨true, true, dry⟩ refs tracked := by
  simp [fsck, fsckWith, Flags.norm]

/-- `--objects` alone: success exactly when every referenced object is fine -/
theorem objects_only_exit (dry : Bool) (refs : List Ref) (tracked : List Tracked) :
    (fsck ⟨true, false, dry⟩ refs tracked).exitOk = true ↔ ∀ r ∈ refs, refOk r = true := by
  simp [fsck, fsckWith, Flags.norm, badRefs, List.isEmpty_iff, List.filter_eq_nil_iff]

/-- `--pointers` alone: success exactly when every tracked file is a canonical pointer; nothing is moved -/
theorem pointers_only (dry : Bool) (refs : List Ref) (tracked : List Tracked) :
    ((fsck ⟨false, true, dry⟩ refs tracked).exitOk = true ↔ ∀ t ∈ tracked, trackedBad t = false) ∧
    (fsck ⟨false, true, dry⟩ refs tracked).moved = [] := by
  simp [fsck, fsckWith, Flags.norm, List.isEmpty_iff, List.filter_eq_nil_iff]

/-- the objects named are exactly the missing (non-empty) and corrupt ones: every damaged one is
    named, no intact one is -/
theorem reported_objects_exact (f : Flags) (hf : f.norm.objects = true) (refs : List Ref) (tracked : List Tracked) (o : Nat) :
    o ∈ (fsck f refs tracked).reportedObjects ↔ ∃ r ∈ refs, r.oid = o ∧ refOk r = false := by
  simp [fsck, fsckWith, hf, badRefs, List.mem_map, List.mem_filter]
  constructor
  · rintro ⟨r, ⟨hr, hb⟩, ho⟩; exact ⟨r, hr, ho, hb⟩
  · rintro ⟨r, hr, ho, hb⟩; exact ⟨r, ⟨hr, hb⟩, ho⟩

theorem intact_never_reported (f : Flags) (refs : List Ref) (tracked : List Tracked) (o : Nat)
    (hall : ∀ r ∈ refs, r.oid = o → r.state = .intact) : o ∉ (fsck f refs tracked).reportedObjects := by
  intro h
  simp only [fsck, fsckWith] at h
  split at h
  · simp only [badRefs, List.mem_map, List.mem_filter] at h
    obtain ⟨r, ⟨hr, hb⟩, ho⟩ := h
    have := hall r hr ho
    simp [refOk, this] at hb
  · simp at h

/-- the pointers named are exactly the non-canonical and non-pointer files -/
theorem reported_pointers_exact (f : Flags) (hf : f.norm.pointers = true) (refs : List Ref) (tracked : List Tracked) (i : Nat) :
    i ∈ (fsck f refs tracked).reportedPointers ↔ ∃ t ∈ tracked, trackedId t = i ∧ trackedBad t = true := by
  simp [fsck, fsckWith, hf, List.mem_map, List.mem_filter]
  constructor
  · rintro ⟨t, ⟨ht, hb⟩, hi⟩; exact ⟨t, ht, hi, hb⟩
  · rintro ⟨t, ht, hi, hb⟩; exact ⟨t, ⟨ht, hb⟩, hi⟩

/-- only corrupt objects are moved: never an intact one, never anything under `--dry-run` -/
theorem mem_movedWith (f : Flags) (bo : List Ref) (bp : List Tracked) (o : Nat)
    (h : o ∈ (fsckWith f bo bp).moved) :
    f.dryRun = false ∧ o ∈ (bo.filter fun r => r.state == .corrupt).map (·.oid) := by
  simp only [fsckWith] at h
  by_cases hc : ((bo.isEmpty && bp.isEmpty) || f.dryRun) = true
  · rw [if_pos hc] at h; cases h
  · rw [if_neg hc] at h
    refine ⟨?_, h⟩
    cases hd : f.dryRun with
    | false => rfl
    | true => simp [hd] at hc

theorem mem_moved (f : Flags) (refs : List Ref) (tracked : List Tracked) (o : Nat)
    (h : o ∈ (fsck f refs tracked).moved) :
    f.norm.dryRun = false ∧ f.norm.objects = true ∧
      o ∈ ((badRefs refs).filter fun r => r.state == .corrupt).map (·.oid) := by
  obtain ⟨h1, h2⟩ := mem_movedWith _ _ _ o h
  cases hob : f.norm.objects with
  | false => simp [hob] at h2
  | true => simp only [hob, if_true] at h2; exact ⟨h1, rfl, h2⟩

theorem moved_only_corrupt (f : Flags) (refs : List Ref) (tracked : List Tracked) (o : Nat)
    (h : o ∈ (fsck f refs tracked).moved) : f.dryRun = false ∧ ∃ r ∈ refs, r.oid = o ∧ r.state = .corrupt := by
  have hd : f.norm.dryRun = f.dryRun := by unfold Flags.norm; split <;> rfl
  obtain ⟨h1, _, h3⟩ := mem_moved f refs tracked o h
  refine ⟨hd ▸ h1, ?_⟩
  simp only [List.mem_map, List.mem_filter, beq_iff_eq, badRefs] at h3
  obtain ⟨r, ⟨⟨hr, _⟩, hs⟩, hoid⟩ := h3
  exact ⟨r, hr, hoid, hs⟩

theorem dry_run_moves_nothing (f : Flags) (hd : f.dryRun = true) (refs : List Ref) (tracked : List Tracked) :
    (fsck f refs tracked).moved = [] := by
  have : f.norm.dryRun = true := by unfold Flags.norm; split <;> simp [hd]
  simp [fsck, fsckWith, this]

/-- every corrupt referenced object IS moved by a repairing run that checks objects -/
theorem corrupt_is_moved (f : Flags) (hf : f.norm.objects = true) (hd : f.dryRun = false)
    (refs : List Ref) (tracked : List Tracked) (r : Ref) (hr : r ∈ refs) (hc : r.state = .corrupt) :
    r.oid ∈ (fsck f refs tracked).moved := by
  have hdn : f.norm.dryRun = false := by unfold Flags.norm; split <;> simp [hd]
  have hbad : r ∈ badRefs refs := by simp [badRefs, List.mem_filter, hr, refOk, hc]
  have hne : (badRefs refs).isEmpty = false := by
    cases h : badRefs refs with
    | nil => rw [h] at hbad; cases hbad
    | cons a l => rfl
  simp only [fsck, fsckWith, hf, if_true, hne, Bool.false_and, hdn, Bool.or_self, Bool.false_eq_true, if_false]
  simp only [List.mem_map, List.mem_filter, beq_iff_eq]
  exact ⟨r, ⟨hbad, hc⟩, rfl⟩

/-- non-vacuity -/
example : (fsck ⟨false, false, false⟩ [⟨1, false, .corrupt⟩, ⟨2, false, .intact⟩, ⟨3, false, .missing⟩, ⟨4, true, .missing⟩] [.canonical 1, .notPointer 9]).moved = [1] := by decide

/-! ### which pointers the object check looks at (the scan behind `refs`) -/

/-- the scan never yields a blob that no path outside lfs.fetchexclude holds -/
theorem scan_checks_only_needed (excluded : Nat → Bool) (t : List (Nat × Nat)) (b : Nat)
    (h : b ∈ FsScan.scanned excluded t) : FsScan.needed excluded t b := FsScan.scanned_needed excluded t b h

/-- "every object referenced in the checked revisions …", PARTIAL: shown for trees in which no pointer
    blob sits on both sides of the exclusion — in particular whenever lfs.fetchexclude is not set -/
theorem scan_checks_every_needed_partial (excluded : Nat → Bool) (t : List (Nat × Nat))
    (hsame : ∀ p q b, (p, b) ∈ t → (q, b) ∈ t → excluded p = excluded q)
    (b : Nat) (h : FsScan.needed excluded t b) : b ∈ FsScan.scanned excluded t :=
  FsScan.needed_scanned_partial excluded t hsame b h

theorem scan_checks_every_blob_without_exclusion (t : List (Nat × Nat)) (p b : Nat) (h : (p, b) ∈ t) :
    b ∈ FsScan.scanned (fun _ => false) t :=
  FsScan.needed_scanned_partial _ t (fun _ _ _ _ _ => rfl) b ⟨p, h, rfl⟩

/-- what is missing from the full statement, with its witness (known finding D49): a copied file -/
theorem scan_full_statement_fails_d49 :
    FsScan.needed (fun p => p == 1) [(1, 7), (2, 7)] 7 ∧ 7 ∉ FsScan.scanned (fun p => p == 1) [(1, 7), (2, 7)] :=
  FsScan.d49_witness

/-! ### which paths are expected to hold a pointer ("every tracked file there is a canonical pointer") -/

/-- THE FULL STATEMENT: fsck expects a pointer at a path exactly when Git's own rule — the last matching line that
    mentions `filter` decides — tracks the path with LFS, for every list of attribute lines (known finding D21 until
    the tree scanner was given ordered rules) -/
theorem expected_pointer_paths_are_exactly_the_tracked_ones (ls : List AttrFilter.Line) :
    AttrFilter.fsckSays ls = AttrFilter.gitSays ls := AttrFilter.fsck_eq_git ls

/-- no false expectation … -/
theorem expected_pointer_paths_are_tracked (ls : List AttrFilter.Line) (h : AttrFilter.fsckSays ls = true) :
    AttrFilter.gitSays ls = true := AttrFilter.fsck_implies_git ls h

/-- … and nothing missed -/
theorem tracked_paths_are_expected (ls : List AttrFilter.Line) (h : AttrFilter.gitSays ls = true) :
    AttrFilter.fsckSays ls = true := AttrFilter.git_implies_fsck ls h

/-- the input on which the full statement used to fail: `-filter` then `filter=lfs` -/
theorem d21_input_now_agrees :
    AttrFilter.gitSays [⟨true, true, false⟩, ⟨true, true, true⟩] = true ∧
    AttrFilter.fsckSays [⟨true, true, false⟩, ⟨true, true, true⟩] = true := AttrFilter.d21_repaired

/-- a line that only makes files lockable takes no path out of the pointer check, wherever it stands (D71) -/
theorem lockable_only_line_is_irrelevant (pre post : List AttrFilter.Line) (l : AttrFilter.Line) (h : l.hasFilter = false) :
    AttrFilter.fsckSays (pre ++ l :: post) = AttrFilter.fsckSays (pre ++ post) :=
  (AttrFilter.filterless_line_irrelevant pre post l h).1

/-- tie to commands/command_fsck.go: when neither --objects nor --pointers is given BOTH checks run — whatever other options (--dry-run) are given; there is no other assignment to either switch -/
theorem gen_fsck_defaults :
    Gen.fsckDefaults =
      [
       -- true | !fsckPointers && !fsckObjects
       [116, 114, 117, 101, 32, 124, 32, 33, 102, 115, 99, 107, 80, 111, 105, 110, 116, 101, 114, 115, 32, 38, 38, 32, 33, 102, 115, 99, 107, 79, 98, 106, 101, 99, 116, 115],
       -- true | !fsckPointers && !fsckObjects
       [116, 114, 117, 101, 32, 124, 32, 33, 102, 115, 99, 107, 80, 111, 105, 110, 116, 101, 114, 115, 32, 38, 38, 32, 33, 102, 115, 99, 107, 79, 98, 106, 101, 99, 116, 115]
      ] := by decide

end C13
