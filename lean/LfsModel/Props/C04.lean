/-
C04 — Fetch, pull and checkout materialise exact content and never clobber edits.
Property theorems only (obligations of ./check C04).
-/
import LfsModel.Gen
import LfsModel.Checkout
import LfsModel.PtrRound4
import LfsModel.PathList

namespace C04
open Lfs Co

/-! ### the include / exclude filter -/

/-- `Filter.Allows` says exactly: (no include patterns or one of them matches) and (an include
    matched or the default is true) and no exclude pattern matches — for every pattern type,
    matcher, pattern lists and file name -/
theorem allows_bool {P : Type} (m : P → Bytes → Bool) (inc exc : List P) (dflt : Bool) (f : Bytes) :
    allows m inc exc dflt f =
      ((inc.any (fun p => m p f) || inc.isEmpty) && (inc.any (fun p => m p f) || dflt) && !(exc.any (fun p => m p f))) := by
  unfold allows
  cases inc.any (fun p => m p f) <;> cases inc.isEmpty <;> cases dflt <;> simp

theorem allows_spec {P : Type} (m : P → Bytes → Bool) (inc exc : List P) (dflt : Bool) (f : Bytes) :
    allows m inc exc dflt f = true ↔
      ((inc = [] ∨ ∃ p ∈ inc, m p f = true) ∧ ((∃ p ∈ inc, m p f = true) ∨ dflt = true) ∧ ∀ e ∈ exc, m e f = false) := by
  rw [allows_bool]
  simp only [Bool.and_eq_true, Bool.or_eq_true, List.any_eq_true, List.isEmpty_iff, Bool.not_eq_true',
    List.any_eq_false, Bool.not_eq_true]
  constructor
  · rintro ⟨⟨h1, h2⟩, h3⟩
    exact ⟨h1.symm, h2, h3⟩
  · rintro ⟨h1, h2, h3⟩
    exact ⟨⟨h1.symm, h2⟩, h3⟩

/-- an excluded file is never allowed, whatever includes say -/
theorem excluded_never_allowed {P : Type} (m : P → Bytes → Bool) (inc exc : List P) (dflt : Bool) (f : Bytes)
    (e : P) (he : e ∈ exc) (hm : m e f = true) : allows m inc exc dflt f = false := by
  cases h : allows m inc exc dflt f with
  | false => rfl
  | true =>
    have := ((allows_spec m inc exc dflt f).mp h).2.2 e he
    rw [hm] at this; cases this

/-! ### never clobbering -/

/-- **`pull`/`checkout` modify a working-tree file only if its current content decodes to a pointer
    with the recorded object id** — for EVERY byte string in the working tree, every recorded
    pointer and every state of local storage -/
theorem run_never_clobbers (recorded : Ptr) (st : Store) (b : Bytes)
    (h : run recorded st (.file b) ≠ some b) :
    ∃ p c, dec b = .ok (p, c) ∧ p.oid = recorded.oid := by
  unfold run at h
  split at h
  · rename_i hw
    simp only [willWrite] at hw
    split at hw
    · cases hw
    · rename_i p c hd
      exact ⟨p, c, hd, by simpa using hw⟩
  · exact absurd rfl h

/-- content that is not a pointer is left alone -/
theorem non_pointer_untouched (recorded : Ptr) (st : Store) (b : Bytes) (e : Err) (h : dec b = .error e) :
    run recorded st (.file b) = some b := by
  simp [run, willWrite, h]

/-- … in particular every file of 1024 bytes or more, however pointer-like it starts -/
theorem long_file_untouched (recorded : Ptr) (st : Store) (b : Bytes) (h : cut ≤ b.length) :
    run recorded st (.file b) = some b :=
  non_pointer_untouched recorded st b .notPtr (by unfold dec; simp [h])

/-- a file truncated to zero bytes is left alone unless the recorded pointer is the empty pointer -/
theorem emptied_file_untouched (recorded : Ptr) (st : Store) (h : recorded.oid ≠ emptyOid) :
    run recorded st (.file []) = some [] := by
  have hd : dec [] = .ok (emptyPtr, true) := by simp [dec, decodeBuf, cut]
  have hne : (emptyPtr.oid == recorded.oid) = false := by
    simp only [emptyPtr, beq_eq_false_iff_ne, ne_eq]; exact fun h' => h h'.symm
  simp [run, willWrite, hd, hne]

/-- a file replaced by the pointer of ANOTHER object is left alone -/
theorem other_pointer_untouched (recorded : Ptr) (st : Store) (b : Bytes) (p : Ptr) (c : Bool)
    (hd : dec b = .ok (p, c)) (hne : p.oid ≠ recorded.oid) : run recorded st (.file b) = some b := by
  have : (p.oid == recorded.oid) = false := by simpa using hne
  simp [run, willWrite, hd, this]

/-- an unreadable file is left alone, and a file deleted in the index is not brought back -/
theorem unreadable_untouched (recorded : Ptr) (st : Store) : run recorded st .unreadable = none := by
  simp [run, willWrite]
theorem deleted_in_index_not_restored (recorded : Ptr) (st : Store) : run recorded st (.absent true) = none := by
  simp [run, willWrite]

/-! ### materialising -/

theorem enc_ne_nil (p : Ptr) (h : p.size ≠ 0) : enc p ≠ [] := by
  unfold enc; split <;> simp_all [kVersion]

/-- a file that still is the recorded pointer (canonical text) becomes the object's bytes when the
    object is local … -/
theorem pointer_file_materialised (recorded : Ptr) (hv : Valid recorded) (st : Store) (content : Bytes)
    (hl : st.get recorded.oid = some content) : run recorded st (.file (enc recorded)) = some content := by
  have hd := Lfs.dec_enc hv
  have hne : enc recorded ≠ [] := enc_ne_nil recorded hv.size_pos
  unfold run willWrite
  simp only [hd, beq_self_eq_true, if_true]
  unfold smudgeToFile
  split
  · rename_i h1 _
    have : enc recorded = [] := by injection h1
    exact absurd this hne
  · simp [hl]

/-- … and so does a missing file that the index does not record as deleted -/
theorem missing_file_restored (recorded : Ptr) (st : Store) (content : Bytes)
    (hl : st.get recorded.oid = some content) : run recorded st (.absent false) = some content := by
  simp [run, willWrite, smudgeToFile, hl]

/-- when the object is not local (excluded, skipped, fetch not run) the file stays a valid pointer
    to the same object: the canonical text, which decodes to the recorded pointer -/
theorem not_local_stays_pointer (recorded : Ptr) (hv : Valid recorded) (st : Store)
    (hl : st.get recorded.oid = none) :
    run recorded st (.file (enc recorded)) = some (enc recorded) ∧ dec (enc recorded) = .ok (recorded, true) := by
  have hd := Lfs.dec_enc hv
  refine ⟨?_, hd⟩
  have hne : enc recorded ≠ [] := enc_ne_nil recorded hv.size_pos
  unfold run willWrite
  simp only [hd, beq_self_eq_true, if_true]
  unfold smudgeToFile
  split
  · rename_i h1 _
    have : enc recorded = [] := by injection h1
    exact absurd this hne
  · simp [hl]

/-- with an intact store (every object hashes to its name) what `run` writes for a local object
    hashes to the recorded id -/
theorem written_content_hashes_to_oid (H : Bytes → Bytes) (recorded : Ptr) (st : Store)
    (hint : ∀ o c, st.get o = some c → H c = o) (cur : WFile) (out : Bytes)
    (hw : willWrite recorded cur = true) (hl : (st.get recorded.oid).isSome) (hs : recorded.size ≠ 0)
    (hr : run recorded st cur = some out) : H out = recorded.oid := by
  obtain ⟨content, hc⟩ := Option.isSome_iff_exists.mp hl
  have : out = content := by
    unfold run at hr; simp only [hw, if_true] at hr
    unfold smudgeToFile at hr
    split at hr
    · rename_i _ h0; exact absurd h0 hs
    · simp [hc] at hr; exact hr.symm
  rw [this]; exact hint _ _ hc

/-! ### fetch -/

/-- every non-empty pointer of the scan is either requested from the transfer queue or already has
    a local object of the recorded size -/
theorem toFetch_complete (st : Store) (ptrs : List Ptr) (p : Ptr) (hp : p ∈ ptrs) (hs : p.size ≠ 0) :
    p ∈ toFetch storeSize st ptrs ∨ storeSize st p.oid = some p.size := by
  by_cases h : storeSize st p.oid = some p.size
  · exact Or.inr h
  · left
    unfold toFetch
    simp only [List.mem_filter, hp, true_and, Bool.and_eq_true, bne_iff_ne, ne_eq]
    exact ⟨hs, h⟩

/-- nothing is requested that is already present with the recorded size, and nothing empty -/
theorem toFetch_minimal (st : Store) (ptrs : List Ptr) (p : Ptr) (hp : p ∈ toFetch storeSize st ptrs) :
    p ∈ ptrs ∧ p.size ≠ 0 ∧ storeSize st p.oid ≠ some p.size := by
  unfold toFetch at hp
  simp only [List.mem_filter, Bool.and_eq_true, bne_iff_ne, ne_eq] at hp
  exact ⟨hp.1, hp.2.1, hp.2.2⟩

/-- **fetch from an intact store**: if every requested object arrives hash-valid (what a successful
    transfer guarantees, C02) and the store only gains, then afterwards every non-empty pointer of
    the scan has a local object hashing to its id -/
theorem fetch_materialises (H : Bytes → Bytes) (st st' : Store) (ptrs : List Ptr)
    (hint : ∀ o c, st.get o = some c → H c = o)
    (hkeep : ∀ o c, st.get o = some c → st'.get o = some c)
    (hgot : ∀ p ∈ toFetch storeSize st ptrs, ∃ c, st'.get p.oid = some c ∧ H c = p.oid)
    (p : Ptr) (hp : p ∈ ptrs) (hs : p.size ≠ 0) : ∃ c, st'.get p.oid = some c ∧ H c = p.oid := by
  rcases toFetch_complete st ptrs p hp hs with h | h
  · exact hgot p h
  · unfold storeSize at h
    cases hg : st.get p.oid with
    | none => simp [hg] at h
    | some c => exact ⟨c, hkeep _ _ hg, hint _ _ hg⟩

/-- non-vacuity: a user-edited file and an emptied file survive; the pointer file is replaced -/
example : run samplePtr [(sampleOid, [1, 2, 3])] (.file [104, 105]) = some [104, 105] := by decide
example : run samplePtr [(sampleOid, [1, 2, 3])] (.absent false) = some [1, 2, 3] := by
  simp [run, willWrite, smudgeToFile, Store.get, samplePtr]

/-- smudging into a named file (`git lfs checkout --to`, pull, checkout) writes the object's bytes whatever
    sits at that path — no file, the same bytes, other bytes of the same length, shorter, longer -/
theorem tofile_independent_of_what_is_there (recorded : Ptr) (st : Store) (content : Bytes) (cur : WFile)
    (h : st.get recorded.oid = some content) (hs : recorded.size ≠ 0) :
    smudgeToFile recorded st cur = content := by
  unfold smudgeToFile
  split
  · rename_i h0; exact absurd h0 hs
  · simp [h]

/-! ### the include / exclude LISTS (lfs.fetchinclude, lfs.fetchexclude, -I, -X) -/

/-- a comma separated list means the patterns it spells: blanks before the list, after it and on either side
    of every comma change nothing, for every number of elements and every amount of padding -/
theorem list_elements_are_the_patterns_spelt (lead trail : PathList.Bytes) (es : List PathList.Padded) (last : PathList.Padded)
    (hlead : ∀ x ∈ lead, PathList.isSpace x = true) (htrail : ∀ x ∈ trail, PathList.isSpace x = true)
    (hok : ∀ e ∈ es ++ [last], e.Ok 44) (hfirst : ∀ f rest, es ++ [last] = f :: rest → f.pre = [])
    (hlast : last.post = []) :
    PathList.cleanPaths (lead ++ PathList.join 44 ((es ++ [last]).map PathList.Padded.text) ++ trail) 44
      = (es ++ [last]).map fun e => PathList.stripSlash e.pat :=
  PathList.cleanPaths_padded 44 lead trail es last hlead htrail hok hfirst hlast

/-- a list of nothing but blanks selects nothing (it is not the pattern `.` or the empty pattern) -/
theorem blank_list_is_empty (pad : PathList.Bytes) (h : ∀ x ∈ pad, PathList.isSpace x = true) :
    PathList.cleanPaths pad 44 = [] := by
  simp [PathList.cleanPaths, PathList.trim_blank pad h]

/-- exactly one trailing slash of an element is dropped -/
theorem list_element_trailing_slash (p : PathList.Bytes) : PathList.stripSlash (p ++ [47]) = p :=
  PathList.stripSlash_once p

end C04
