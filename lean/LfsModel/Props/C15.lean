/-
C15 — Retries are bounded, spaced as configured, and never overlap for one object.
Property theorems only (obligations of ./check C15).
-/
import LfsModel.AuthLoop
import LfsModel.Gen
import LfsModel.TQRetry
import LfsModel.TQTraceProofs
import LfsModel.Backoff
import LfsModel.Expiry

namespace C15
open TQ

theorem gen_baseRetryDelayMs : Gen.baseRetryDelayMs = 250 := by decide
theorem gen_defaultMaxRetries : Gen.defaultMaxRetries = 8 := by decide
theorem gen_defaultMaxRetryDelay : Gen.defaultMaxRetryDelay = 10 := by decide
/-- an action is not used when it expires within 5 s -/
theorem gen_expiry_margin : Gen.objectExpirationToTransferNs = 5 * 1000000000 := by decide

/-- ATTEMPTS BOUNDED: in every reachable state the retry counter of every object is at most the
    configured maximum; an object is re-batched only after a counted retry, so it is attempted at
    most 1 + maxRetries times. -/
theorem attempts_bounded (cap bs mr : Nat) (es : List Ev) (s : State)
    (hr : run { cap := cap, batchSize := bs, maxRetries := mr } es = some s) : ∀ o, s.rc o ≤ mr := by
  have := run_rc es (s := { cap := cap, batchSize := bs, maxRetries := mr }) (by intro o; exact Nat.zero_le _) hr
  intro o
  have h := this.1 o
  rw [this.2] at h
  exact h

/-- a retry is counted: `retryOrFail` either increments the counter (budget left) or ends the object -/
theorem retry_counts_or_ends (s : State) (o : Oid) :
    ((retryOrFail s o).st o = .retryOut ∧ (retryOrFail s o).rc o = s.rc o + 1 ∧ s.rc o < s.maxRetries) ∨
    ((retryOrFail s o).st o = .term .errored ∧ ¬ s.rc o < s.maxRetries) := by
  unfold retryOrFail
  split
  · rename_i h; left; simp [set_same, h]
  · rename_i h; right
    refine ⟨?_, h⟩
    rw [(done_rc _).2.2]; simp [set_same]

/-- NON-RETRIABLE IS TERMINAL: a fatal (or 422) adapter outcome ends the object, and a terminal
    object never changes status again, whatever happens afterwards. -/
theorem nonretriable_terminal (s s' : State) (o : Oid) (out : Outcome) (ho : out = .fatal ∨ out = .unprocessable)
    (hs : step s (.jobResult o out) = some s') : s'.st o = .term .errored := by
  simp only [step] at hs
  split at hs
  · rcases ho with rfl | rfl <;> (cases hs; rw [(done_rc _).2.2]; simp [set_same])
  · cases hs

theorem terminal_stays_terminal {s s' : State} {e : Ev} {o : Oid} {t : Term} (ht : s.st o = .term t)
    (hs : step s e = some s') : s'.st o = .term t := term_absorbing ht hs

/-- NEVER TWO IN FLIGHT: a batch can only take objects that are waiting, so an object whose transfer
    is in progress (`job`) or whose reply is pending (`inBatch`) is never handed out again. -/
theorem single_inflight (s s' : State) (os : List Oid) (hs : step s (.batchStart os) = some s') :
    os.Nodup ∧ ∀ o ∈ os, s.st o = .waiting := by
  simp only [step] at hs
  split at hs
  · rename_i hc; exact ⟨hc.2.2.1, hc.2.2.2.1⟩
  · cases hs

/-- an expired action is never handed to the adapter: it is retried (re-requested) or ends the object -/
theorem expired_action_not_used (s s' : State) (o : Oid) (hs : step s (.reply o .expiredAction) = some s') :
    s'.st o ≠ .job := by
  simp only [step] at hs
  split at hs
  · cases hs
    rcases retry_counts_or_ends s o with ⟨h, _, _⟩ | ⟨h, _⟩ <;> (rw [h]; simp)
  · cases hs

/-! ### back-off arithmetic on wrapped uint64 (retryCounter.ReadyTime) -/

/-- the wait never exceeds the configured maximum — including count ≥ 65, where Go's shift yields 0 -/
theorem backoff_le_max (maxMs count : Nat) : Backoff.delayMs Gen.baseRetryDelayMs maxMs count ≤ maxMs :=
  Backoff.delay_le_max _ _ _

theorem backoff_exact_until_cap (maxMs count : Nat) (hc : 1 ≤ count) (hle : 250 * 2 ^ (count - 1) ≤ maxMs)
    (hm : maxMs < 2 ^ 64) : Backoff.delayMs Gen.baseRetryDelayMs maxMs count = 250 * 2 ^ (count - 1) :=
  Backoff.delay_exact 250 maxMs count hc (by decide) hle hm

theorem backoff_capped_after (maxMs count : Nat) (hc : 1 ≤ count) (hgt : maxMs < 250 * 2 ^ (count - 1))
    (hm : maxMs < 2 ^ 57) : Backoff.delayMs Gen.baseRetryDelayMs maxMs count = maxMs :=
  Backoff.delay_capped maxMs count hc hgt hm

/-! ### the manifest's reading of lfs.transfer.maxretrydelay (tq/manifest.go after the D5 repair) -/
def resolveMaxRetryDelay (configured : Option Int) (dflt : Nat) : Nat :=
  match configured with
  | none => dflt
  | some v => if v < 0 then dflt else v.toNat

/-- zero means zero ("use zero to disable delays between retries"), and then no back-off wait at all -/
theorem configured_zero_means_zero (count : Nat) :
    resolveMaxRetryDelay (some 0) Gen.defaultMaxRetryDelay = 0 ∧
    Backoff.delayMs Gen.baseRetryDelayMs (1000 * resolveMaxRetryDelay (some 0) Gen.defaultMaxRetryDelay) count = 0 := by
  refine ⟨rfl, ?_⟩
  have := Backoff.delay_le_max Gen.baseRetryDelayMs (1000 * 0) count
  simpa [resolveMaxRetryDelay] using this
/-- the refuted variant (pinned tree: `< 1` instead of `< 0`), kept as the D5 witness -/
theorem d5_zero_became_default : (fun (v : Int) (d : Nat) => if v < 1 then d else v.toNat) 0 10 = 10 := by decide

/-! ### batch.Concat: nothing is batched before its ready time -/
def concatLeft (now : Nat) (u : List (Oid × Nat)) : List (Oid × Nat) := u.filter (fun p => decide (p.2 < now))

theorem not_before_ready_time (now : Nat) (u : List (Oid × Nat)) : ∀ p ∈ concatLeft now u, p.2 < now := by
  intro p hp
  simp only [concatLeft, List.mem_filter, decide_eq_true_eq] at hp
  exact hp.2

/-- non-vacuity: budget 1 — the first failure is retried, the second ends the object -/
example : ∃ s, run { cap := 2, batchSize := 1, maxRetries := 1 }
    [.add 3, .collTake 3, .batchStart [3], .reply 3 .action, .jobResult 3 .retriable, .batchEnd 3,
     .batchStart [3], .reply 3 .action, .jobResult 3 .retriable] = some s ∧ s.st 3 = .term .errored ∧ s.rc 3 = 1 := by
  refine ⟨_, rfl, ?_, ?_⟩ <;> decide

/-! ### when an offered action may still be used (the arithmetic behind the abstract `.expiredAction` reply) -/

/-- an action the code hands out has not expired — nor will it within the safety margin -/
theorem handed_out_action_not_expired (a : Expiry.Action) (now margin : Int) (hm : 0 ≤ margin)
    (h : Expiry.usable a now margin = true) :
    ∀ e, Expiry.expiration a = some e → now ≤ e ∧ now + margin ≤ e :=
  fun e he => ⟨Expiry.usable_not_expired a now margin hm h e he, Expiry.usable_margin a now margin h e he⟩

/-- `expires_in`, counted from the client's own request time, decides whenever it is given; an
    `expires_at` beside it (on the server's clock) changes nothing -/
theorem expires_in_decides (createdAt inS : Int) (at1 at2 : Option Int) (h : inS ≠ 0) (now margin : Int) :
    Expiry.usable ⟨createdAt, at1, inS⟩ now margin = Expiry.usable ⟨createdAt, at2, inS⟩ now margin := by
  simp [Expiry.usable, Expiry.expiredWithin, Expiry.expiration, h]

/-- waiting never makes an expired action usable again: a check at the moment of use is at least as
    strict as the check when the answer arrived -/
theorem check_at_use_is_stricter (a : Expiry.Action) (t0 t1 margin : Int) (hle : t0 ≤ t1)
    (h : Expiry.usable a t1 margin = true) : Expiry.usable a t0 margin = true := by
  cases h0 : Expiry.expiredWithin a t0 margin with
  | false => simp [Expiry.usable, h0]
  | true =>
    have := Expiry.expired_stays_expired a t0 t1 margin hle h0
    simp [Expiry.usable, this] at h

/-- non-vacuity: expires_in 6 s, asked 2.3 s and 6.6 s after the request, margin 5 s -/
example : Expiry.usable ⟨0, none, 6⟩ 500 5000 = true ∧ Expiry.usable ⟨0, none, 6⟩ 2300 5000 = false ∧
    Expiry.usable ⟨0, some 3600000, 6⟩ 6600 0 = false := by decide

/-! ### re-authentication is bounded too (lfsapi.Client.DoWithAuth) -/

/-- a request answered with an authentication error is submitted again only while resubmissions are left: at most
    `fuel + 1` submissions, whatever the server answers and whatever the credential helper hands out -/
theorem auth_resubmissions_bounded (again : Nat → Bool) (fuel k : Nat) :
    AuthLoop.submissions again fuel k ≤ fuel + 1 := AuthLoop.submissions_le again fuel k

/-- a server that always refuses, with a helper that always answers: exactly `fuel + 1` (D73: there was no bound) -/
theorem auth_resubmissions_always_refused (fuel k : Nat) :
    AuthLoop.submissions (fun _ => true) fuel k = fuel + 1 := AuthLoop.submissions_always fuel k

/-- ties to lfsapi/auth.go as it is in /repo now: DoWithAuth starts with `defaultMaxAuthAttempts` resubmissions, the
    only further call passes one less and stands under `resubmissions > 0` -/
theorem gen_auth_resubmission :
    Gen.defaultMaxAuthAttempts = 3 ∧
    Gen.authResubmitEntry =
      [
       -- remote, access, req, defaultMaxAuthAttempts | 
       [114, 101, 109, 111, 116, 101, 44, 32, 97, 99, 99, 101, 115, 115, 44, 32, 114, 101, 113, 44, 32, 100, 101, 102, 97, 117, 108, 116, 77, 97, 120, 65, 117, 116, 104, 65, 116, 116, 101, 109, 112, 116, 115, 32, 124, 32]
      ] ∧
    Gen.authResubmitAgain =
      [
       -- remote, newAccess, req, resubmissions - 1 | errors.IsAuthError(err) && resubmissions > 0 && len(req.Header.Get("Authorization")) == 0
       [114, 101, 109, 111, 116, 101, 44, 32, 110, 101, 119, 65, 99, 99, 101, 115, 115, 44, 32, 114, 101, 113, 44, 32, 114, 101, 115, 117, 98, 109, 105, 115, 115, 105, 111, 110, 115, 32, 45, 32, 49, 32, 124, 32, 101, 114, 114, 111, 114, 115, 46, 73, 115, 65, 117, 116, 104, 69, 114, 114, 111, 114, 40, 101, 114, 114, 41, 32, 38, 38, 32, 114, 101, 115, 117, 98, 109, 105, 115, 115, 105, 111, 110, 115, 32, 62, 32, 48, 32, 38, 38, 32, 108, 101, 110, 40, 114, 101, 113, 46, 72, 101, 97, 100, 101, 114, 46, 71, 101, 116, 40, 34, 65, 117, 116, 104, 111, 114, 105, 122, 97, 116, 105, 111, 110, 34, 41, 41, 32, 61, 61, 32, 48]
      ] := by decide

/-- hence one API request goes out at most four times -/
theorem api_request_sent_at_most_four_times (again : Nat → Bool) (k : Nat) :
    AuthLoop.submissions again Gen.defaultMaxAuthAttempts k ≤ 4 := by
  have h := AuthLoop.submissions_le again Gen.defaultMaxAuthAttempts k
  have : Gen.defaultMaxAuthAttempts = 3 := by decide
  omega

/-- tie to tq/transfer.go: Action.IsExpiredWithin hands both expiry fields of the action to tools.IsExpiredAtOrIn as
    they are, unconditionally — the precedence between them (expires_in wins) is Expiry.expiration's, not decided here -/
theorem gen_action_expiry_uses_both_fields :
    Gen.actionExpiryArgs =
      [
       -- a.createdAt, d, a.ExpiresAt, time.Duration(a.ExpiresIn) * time.Second | 
       [97, 46, 99, 114, 101, 97, 116, 101, 100, 65, 116, 44, 32, 100, 44, 32, 97, 46, 69, 120, 112, 105, 114, 101, 115, 65, 116, 44, 32, 116, 105, 109, 101, 46, 68, 117, 114, 97, 116, 105, 111, 110, 40, 97, 46, 69, 120, 112, 105, 114, 101, 115, 73, 110, 41, 32, 42, 32, 116, 105, 109, 101, 46, 83, 101, 99, 111, 110, 100, 32, 124, 32]
      ] := by decide

end C15
