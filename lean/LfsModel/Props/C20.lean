/-
C20 — install / update / uninstall never destroy user hooks or filter settings.
Property theorems only (obligations of ./check C20).  `Gen.hook*` are the templates of lfs/hook.go as
they are in /repo now; `Gen.hookReadWindow` is the read limit of matchesCurrent; `Gen.filter*` the
tables of lfs/attribute.go.
-/
import LfsModel.Gen
import LfsModel.Hooks

namespace C20
open Hk

def limit : Nat := Gen.hookReadWindow

/-- the four hook specifications built from the regenerated tables -/
def specs : List HookSpec := (Gen.hookCurrent.zip Gen.hookUpgradeables).map fun p => ⟨p.1, p.2⟩

/-- a hook is one that git-lfs generated when its WHOLE content, after undent and trim, is the
    current or a historical template -/
def LfsGenerated (h : HookSpec) (f : Bytes) : Prop :=
  f.length ≤ limit ∧ (normalize f = h.current ∨ normalize f ∈ h.upgradeables)

/-- a template is well-behaved when what `write` puts on disk is recognised as current -/
def WellBehaved (h : HookSpec) : Prop := matchFile limit h (written h) = .current

/-- the implicit hook installation of other commands never forces: every `installHooks(…)` call in
    package commands passes the literal `false` (the entries end in ":false"), except the one in
    command_update.go, which hands on `updateForce`, the --force flag of `git lfs update` -/
theorem implicit_installs_never_force :
    Gen.installHooksCalls.filter (fun c => !(c.drop (c.length - 6) == [58, 102, 97, 108, 115, 101])) =
      [[99, 111, 109, 109, 97, 110, 100, 95, 117, 112, 100, 97, 116, 101, 46, 103, 111, 58,   -- command_update.go:
        117, 112, 100, 97, 116, 101, 70, 111, 114, 99, 101]] := by                             -- updateForce
  decide

/-! ### facts about the regenerated templates (decided) -/
set_option maxRecDepth 200000 in
theorem templates_are_fixpoints : ∀ h ∈ specs, matchFile limit h (written h) = .current := by decide
set_option maxRecDepth 200000 in
theorem upgradeables_recognised : ∀ h ∈ specs, ∀ u ∈ h.upgradeables, matchFile limit h (u ++ [10]) = .upgradable ∨ u = h.current := by decide
set_option maxRecDepth 200000 in
/-- every current or historical template is a shell script that invokes `git lfs` — a user-like
    string slipped into the upgradeable list breaks this -/
theorem templates_are_lfs_scripts : ∀ h ∈ specs, ∀ t ∈ h.current :: h.upgradeables,
    ([35, 33, 47, 98, 105, 110, 47, 115, 104, 10] : Bytes).isPrefixOf t = true ∧      -- "#!/bin/sh\n"
    Lfs.isInfixOf [10, 103, 105, 116, 32, 108, 102, 115, 32] t = true := by decide     -- "\ngit lfs "
theorem four_hooks : specs.length = 4 ∧ Gen.hookNames.length = 4 := by decide

/-! ### the property -/

/-- USER HOOK UNTOUCHED: without --force, a hook file that git-lfs did not generate (and that is not
    blank) is byte-identical after install/update and after uninstall, and the conflict is reported. -/
theorem user_hook_untouched (h : HookSpec) (f : Bytes) (hf : matchFile limit h f = .foreign) :
    install limit h false (some f) = (some f, true) ∧ uninstall limit h (some f) = (some f, true) := by
  simp [install, uninstall, hf]

/-- a file longer than the read window is never taken for one of ours (this is what the D8 repair established) -/
theorem long_file_is_foreign (h : HookSpec) (f : Bytes) (hl : limit < f.length) : matchFile limit h f = .foreign := by
  simp [matchFile, hl]

/-- a file within the window that is not generated and not blank is foreign -/
theorem not_generated_is_foreign (h : HookSpec) (f : Bytes) (hg : ¬ LfsGenerated h f) (hb : normalize f ≠ []) :
    matchFile limit h f = .foreign := by
  unfold matchFile
  by_cases hl : limit < f.length
  · simp [hl]
  · simp only [hl, if_false]
    have hle : f.length ≤ limit := by omega
    have h1 : normalize f ≠ h.current := fun e => hg ⟨hle, Or.inl e⟩
    have h2 : ¬ (normalize f ∈ h.upgradeables) := fun e => hg ⟨hle, Or.inr e⟩
    have h3 : (normalize f).isEmpty = false := by
      cases hn : normalize f with
      | nil => exact absurd hn hb
      | cons => rfl
    simp [h1, h2, h3]

/-- conversely, only generated or blank files are ever overwritten or removed without --force -/
theorem overwritten_only_if_generated (h : HookSpec) (f : Bytes)
    (hch : (install limit h false (some f)).1 ≠ some f ∨ (uninstall limit h (some f)).1 ≠ some f) :
    LfsGenerated h f ∨ normalize f = [] := by
  by_cases hm : matchFile limit h f = .foreign
  · have := user_hook_untouched h f hm
    rcases hch with h1 | h1
    · rw [this.1] at h1; exact absurd rfl h1
    · rw [this.2] at h1; exact absurd rfl h1
  · unfold matchFile at hm
    by_cases hl : limit < f.length
    · simp [hl] at hm
    · simp only [hl, if_false] at hm
      have hle : f.length ≤ limit := by omega
      by_cases h1 : normalize f = h.current
      · exact Or.inl ⟨hle, Or.inl h1⟩
      · simp only [h1, if_false] at hm
        by_cases h3 : (normalize f).isEmpty = true
        · right; simpa using h3
        · simp only [h3, if_false] at hm
          by_cases h2 : normalize f ∈ h.upgradeables
          · exact Or.inl ⟨hle, Or.inr h2⟩
          · simp [h2] at hm

/-- INSTALL TWICE = INSTALL ONCE (per hook), for every prior state of the hook file -/
theorem install_idempotent (h : HookSpec) (hw : WellBehaved h) (force : Bool) (file : Option Bytes) :
    (install limit h false (install limit h force file).1).1 = (install limit h force file).1 := by
  unfold WellBehaved at hw
  unfold install
  cases file with
  | none => simp only [Bool.false_eq_true, if_false, hw]
  | some f =>
    cases force with
    | true => simp only [if_true, Bool.false_eq_true, if_false, hw]
    | false =>
      simp only [Bool.false_eq_true, if_false]
      cases hm : matchFile limit h f with
      | current => simp [hm]
      | upgradable => simp only [hw]
      | foreign => simp [hm]

/-- UNINSTALL AFTER INSTALL restores a hook that was absent, and leaves a user-owned hook as it was -/
theorem uninstall_after_install_absent (h : HookSpec) (hw : WellBehaved h) :
    (uninstall limit h (install limit h false none).1).1 = none := by
  unfold WellBehaved at hw
  simp only [install, uninstall, hw]

theorem uninstall_after_install_foreign (h : HookSpec) (f : Bytes) (hf : matchFile limit h f = .foreign) :
    (uninstall limit h (install limit h false (some f)).1).1 = some f := by
  simp [install, uninstall, hf]

/-- UNINSTALL LEAVES NO HOOK OF ITS OWN BEHIND: when none of the hook files is user-owned, `git lfs uninstall`
    ends without an error and every hook file is gone — whichever of them were absent, current, blank or
    historical before, in whatever order, for every number of hooks (D76: an absent file used to stop the loop) -/
theorem uninstall_removes_every_own_hook (hooks : List (HookSpec × Option Bytes))
    (hown : ∀ hf ∈ hooks, ∀ f, hf.2 = some f → matchFile limit hf.1 f ≠ .foreign) :
    uninstallAll limit hooks = (hooks.map fun _ => none, false) := by
  induction hooks with
  | nil => rfl
  | cons hf rest ih =>
    obtain ⟨h, file⟩ := hf
    have ihr := ih (fun x hx => hown x (List.mem_cons_of_mem _ hx))
    cases file with
    | none => simp [uninstallAll, uninstall, ihr]
    | some f =>
      have hnf := hown (h, some f) (by simp) f rfl
      cases hm : matchFile limit h f with
      | foreign => exact absurd hm hnf
      | current => simp [uninstallAll, uninstall, hm, ihr]
      | upgradable => simp [uninstallAll, uninstall, hm, ihr]

/-- filter.lfs.*: without --force a value that is neither empty nor listed upgradeable is never
    replaced, and a differing one is reported -/
theorem attr_no_overwrite_without_force (current value : Bytes) (ups : List Bytes)
    (hne : current.isEmpty = false) (hnu : ups.contains current = false) :
    (setAttr false current value ups).1 = current ∧ ((setAttr false current value ups).2 = true ↔ current ≠ value) := by
  unfold setAttr
  simp only [Bool.false_eq_true, hne, hnu, or_self, if_false]
  by_cases he : current = value <;> simp [he]

theorem attr_install_idempotent (force : Bool) (current value : Bytes) (ups : List Bytes) :
    (setAttr false (setAttr force current value ups).1 value ups).1 = (setAttr force current value ups).1 := by
  unfold setAttr
  by_cases h1 : force = true ∨ current.isEmpty = true ∨ ups.contains current = true
  · simp only [h1, if_true]
    split
    · rfl
    · split <;> rfl
  · simp only [h1, if_false]
    have h1' : ¬ (false = true ∨ current.isEmpty = true ∨ ups.contains current = true) := by
      intro h; apply h1; rcases h with h | h | h
      · cases h
      · exact Or.inr (Or.inl h)
      · exact Or.inr (Or.inr h)
    by_cases he : current = value
    · simp only [he, ne_eq, not_true_eq_false, if_false]
      split <;> rfl
    · simp only [he, ne_eq, not_false_eq_true, if_true, h1', if_false]

/-- the regenerated current values are not themselves "upgradeable" (else install would loop between two values) -/
theorem filter_values_stable : ∀ p ∈ Gen.filterValues.zip Gen.filterUpgradeables, p.2.contains p.1 = false := by decide

/-- non-vacuity: a 1100-byte user script whose first 1024 bytes are blank is foreign (the D8 witness) -/
example : matchFile limit ⟨[104], []⟩ (List.replicate 1100 32 ++ [114, 109]) = .foreign := by
  apply long_file_is_foreign
  show 1024 < (List.replicate 1100 (32 : UInt8) ++ [114, 109]).length
  rw [List.length_append, List.length_replicate]; decide

/-! tie to lfs/attribute.go as it is in /repo now -/
/-- Attribute.Install does two things with its receiver: it normalises a key and sets it (`set` refuses a differing
    value without --force).  It never calls Uninstall or anything else that could remove what the user had set
    (seventh-round seed C20: a "rollback" that removed the whole section) -/
theorem gen_install_only_sets_keys :
    Gen.attributeInstallCalls =
      [
       -- a.normalizeKey: k | 
       [97, 46, 110, 111, 114, 109, 97, 108, 105, 122, 101, 75, 101, 121, 58, 32, 107, 32, 124, 32],
       -- a.set: opt.GitConfig, key, v, upgradeables, opt | 
       [97, 46, 115, 101, 116, 58, 32, 111, 112, 116, 46, 71, 105, 116, 67, 111, 110, 102, 105, 103, 44, 32, 107, 101, 121, 44, 32, 118, 44, 32, 117, 112, 103, 114, 97, 100, 101, 97, 98, 108, 101, 115, 44, 32, 111, 112, 116, 32, 124, 32]
      ]
      := by decide

end C20
