/-
C19 — What `git lfs track` writes means to Git exactly what the user asked.
Property theorems only (obligations of ./check C19).  Git is the authority: the theorems are about
what the written pattern means under Git's wildmatch lexer/matcher (Track.lean, fragment), and the
correspondence run checks that fragment against the real `git check-attr`.
-/
import LfsModel.Gen
import LfsModel.TrackProofs
import LfsModel.TrackSeq

namespace C19
open Trk

/-! ### ties to commands/command_track.go as it is in /repo now -/
/-- only $GIT_DIR/info/attributes (`true`) and the file whose path from the work-tree root is exactly
    `.gitattributes` contribute macro definitions (git/attribs.go findAttributeFiles) -/
theorem gen_macro_definitions_top_level_only :
    Gen.attrFileMacroConditions =
      [[116, 114, 117, 101],   -- true
       [102, 46, 70, 117, 108, 108, 80, 97, 116, 104, 32, 61, 61, 32, 34, 46, 103, 105, 116, 97, 116, 116, 114, 105, 98, 117, 116, 101, 115, 34]]
        -- f.FullPath == ".gitattributes"
      := by decide

/-- exactly the four glob characters are backslash-escaped by `--filename` -/
theorem gen_escape_strings : Gen.trackEscapeStrings = [[42], [91], [93], [63]] := by decide
/-- blank ↦ [[:space:]] and `#` ↦ `\#` are the two pattern replacements -/
theorem gen_escape_patterns : Gen.trackEscapeFrom = [[32], [35]] ∧ Gen.trackEscapeTo = [spaceClass, [92, 35]] := by decide
/-- the model's per-character map agrees with the regenerated tables on every one of the 256 bytes -/
def tableEsc (c : UInt8) : Bytes :=
  if c = 92 then [92, 92]
  else if Gen.trackEscapeStrings.contains [c] then [92, c]
  else match (Gen.trackEscapeFrom.zip Gen.trackEscapeTo).find? (fun p => p.1 == [c]) with
    | some p => p.2
    | none => [c]
set_option maxRecDepth 100000 in
theorem escGlobChar_matches_tables :
    (List.range 256).all (fun n => decide (escGlobChar (UInt8.ofNat n) = tableEsc (UInt8.ofNat n))) = true := by decide

/-- FILENAME, as Git reads it: what `--filename n` writes lexes to exactly the literal characters of
    `n` (a blank as the whitespace class) — no glob operator survives -/
theorem filename_is_literal (n : Bytes) : lex (escapeGlob n) = toks n := lex_escapeGlob n

/-- … so the written pattern matches the name itself -/
theorem filename_matches_itself (n : Bytes) : matchLit (lex (escapeGlob n)) n = true := by
  rw [lex_escapeGlob]; exact matchLit_self n

/-- … and nothing else, except that a blank in the name also admits other whitespace at that
    position (`[[:space:]]`; the known finding D9a: Git has no other unquoted spelling of a blank) -/
theorem filename_matches_only_itself_partial (n q : Bytes) (h : matchLit (lex (escapeGlob n)) q = true) :
    SameModuloSpace n q := by
  rw [lex_escapeGlob] at h; exact matchLit_only n q h

/-- full strength for names without a blank: exactly that literal name -/
theorem filename_matches_only_itself (n q : Bytes) (hn : (32 : UInt8) ∉ n)
    (h : matchLit (lex (escapeGlob n)) q = true) : q = n :=
  sameModuloSpace_noblank n hn q (filename_matches_only_itself_partial n q h)

/-- the refuted full statement, kept as the witness of D9a: TAB matches where the name has a blank -/
theorem d9a_space_class_overmatches : matchLit (lex (escapeGlob [97, 32, 98])) [97, 9, 98] = true := by decide

/-- the written pattern field survives Git's attribute-line tokeniser: it contains no blank or tab
    (for names without a tab), so the first field of the line is the whole escaped pattern -/
theorem pattern_field_intact (n rest : Bytes) (hn : ∀ c ∈ n, c ≠ 9) :
    firstField (escapeGlob n ++ 32 :: rest) = escapeGlob n :=
  firstField_append_noblank _ _ (escapeGlob_noblank n hn)

/-- the refuted variant, D9b: a TAB in the name cuts the pattern field short -/
theorem d9b_tab_splits_field : firstField (escapeGlob [97, 9, 98] ++ 32 :: [102]) = [97] := by decide

/-- non-vacuity: a name with blank, `#`, `*`, `[`, backslash -/
example : escapeGlob [97, 32, 35, 42, 91, 92] = [97] ++ spaceClass ++ [92, 35, 92, 42, 92, 91, 92, 92] := by decide

/-! ### sequences of track / untrack (the lines of .gitattributes as the commands see them) -/
open TrkSeq in
/-- after `git lfs track p` (any lock flag) a line for p — or for p without its leading slash, which
    covers it — assigns filter=lfs -/
theorem seq_track_tracks (ls : List TrkSeq.Line) (p : TrkSeq.Bytes) (f : TrkSeq.Flag) :
    ∃ l ∈ TrkSeq.track ls p f, (l.pat = TrkSeq.joinDot p ∨ l.pat = p) ∧ l.lfs = true := TrkSeq.track_tracked ls p f

/-- re-running track with the same argument changes nothing -/
theorem seq_track_idempotent (ls : List TrkSeq.Line) (p : TrkSeq.Bytes) (f : TrkSeq.Flag) :
    TrkSeq.track (TrkSeq.track ls p f) p f = TrkSeq.track ls p f := TrkSeq.track_idempotent ls p f

/-- without --lockable / --not-lockable the pattern's lockable attribute is left as it is -/
theorem seq_track_leaves_lockable (ls : List TrkSeq.Line) (p : TrkSeq.Bytes)
    (h : ∃ l ∈ ls, l.pat = p ∧ TrkSeq.known l = true ∧ l.lockable = true) :
    ∃ l ∈ TrkSeq.track ls p .none, l.pat = p ∧ l.lockable = true := TrkSeq.track_none_keeps_lockable ls p h

/-- after `git lfs untrack p` no line assigns filter=lfs to p, and it stays so when repeated -/
theorem seq_untrack_untracks (ls : List TrkSeq.Line) (p : TrkSeq.Bytes) :
    (∀ l ∈ TrkSeq.untrack ls p, ¬ (l.pat = p ∧ l.lfs = true)) ∧
    TrkSeq.untrack (TrkSeq.untrack ls p) p = TrkSeq.untrack ls p :=
  ⟨TrkSeq.untrack_gone ls p, TrkSeq.untrack_idempotent ls p⟩

/-- the lines of every pattern that no operation of a sequence names come out as they went in -/
theorem seq_other_patterns_unchanged (ops : List TrkSeq.Op) (q : TrkSeq.Bytes)
    (h : ∀ o ∈ ops, (q == TrkSeq.opPat o) = false) (ls : List TrkSeq.Line) :
    (TrkSeq.run ls ops).filter (·.pat == q) = ls.filter (·.pat == q) := TrkSeq.run_others ops q h ls

/-- non-vacuity: `track --lockable /p ; track /p` on a file with a comment keeps lockable (D50) -/
example :
    (TrkSeq.run [⟨[35], false, false, false, 1⟩] [.track [47, 112] .lock, .track [47, 112] .none]).map (fun l => (l.pat, l.lfs, l.lockable)) =
      [([35], false, false), ([47, 112], true, true)] := by decide

/-- a lock flag given for a pattern that a line of the file spells exactly changes a line of that spelling — not
    lockable afterwards — whatever other lines cover the same files (D77) -/
theorem seq_unlock_takes_effect_on_the_exact_line (ls : List TrkSeq.Line) (p : TrkSeq.Bytes)
    (h : ∃ l ∈ ls, TrkSeq.known l = true ∧ l.pat = p) :
    ∃ l ∈ TrkSeq.track ls p .unlock, l.pat = p ∧ l.lfs = true ∧ l.lockable = false :=
  TrkSeq.track_unlock_exact ls p h

/-- tie to commands/command_track.go: while the old file is copied, a line whose pattern changed is replaced by the new line AT ITS PLACE (first entry), every other line is written back as it was; only what is left afterwards goes to the end -/
theorem gen_changed_line_written_in_place :
    Gen.trackRewriteInPlace =
      [
       -- newline | !trackNoModifyAttrsFlag && len(attribContents) > 0 && ok
       [110, 101, 119, 108, 105, 110, 101, 32, 124, 32, 33, 116, 114, 97, 99, 107, 78, 111, 77, 111, 100, 105, 102, 121, 65, 116, 116, 114, 115, 70, 108, 97, 103, 32, 38, 38, 32, 108, 101, 110, 40, 97, 116, 116, 114, 105, 98, 67, 111, 110, 116, 101, 110, 116, 115, 41, 32, 62, 32, 48, 32, 38, 38, 32, 111, 107],
       -- line + lineEnd | !trackNoModifyAttrsFlag && len(attribContents) > 0 && !(ok)
       [108, 105, 110, 101, 32, 43, 32, 108, 105, 110, 101, 69, 110, 100, 32, 124, 32, 33, 116, 114, 97, 99, 107, 78, 111, 77, 111, 100, 105, 102, 121, 65, 116, 116, 114, 115, 70, 108, 97, 103, 32, 38, 38, 32, 108, 101, 110, 40, 97, 116, 116, 114, 105, 98, 67, 111, 110, 116, 101, 110, 116, 115, 41, 32, 62, 32, 48, 32, 38, 38, 32, 33, 40, 111, 107, 41],
       -- newline | !trackNoModifyAttrsFlag
       [110, 101, 119, 108, 105, 110, 101, 32, 124, 32, 33, 116, 114, 97, 99, 107, 78, 111, 77, 111, 100, 105, 102, 121, 65, 116, 116, 114, 115, 70, 108, 97, 103]
      ] := by decide

set_option maxRecDepth 100000 in
/-- tie to commands/command_track.go: which known lines `track` passes over when it looks for the line that already
    supports its argument (TrkSeq.about: another pattern; not the exact spelling when there is one; in the file being
    written — and only there — the rooted spelling of a sub-directory against the unrooted one), where it stops
    ("already supported": `continue ArgsLoop`), and how `sameFile`, `knownPath` and `exact` are computed.  The last
    entries of the first block are the blank-line, blocklist and error skips of the later loops. -/
theorem gen_track_known_line_skips :
    Gen.trackKnownSkips =
      [
       -- continue | !trackNoModifyAttrsFlag && knownPath != path.Join(relpath, pattern) && !(relpath == "." && knownPath == pattern)
       [99, 111, 110, 116, 105, 110, 117, 101, 32, 124, 32, 33, 116, 114, 97, 99, 107, 78, 111, 77, 111, 100, 105, 102, 121, 65, 116, 116, 114, 115, 70, 108, 97, 103, 32, 38, 38, 32, 107, 110, 111, 119, 110, 80, 97, 116, 104, 32, 33, 61, 32, 112, 97, 116, 104, 46, 74, 111, 105, 110, 40, 114, 101, 108, 112, 97, 116, 104, 44, 32, 112, 97, 116, 116, 101, 114, 110, 41, 32, 38, 38, 32, 33, 40, 114, 101, 108, 112, 97, 116, 104, 32, 61, 61, 32, 34, 46, 34, 32, 38, 38, 32, 107, 110, 111, 119, 110, 80, 97, 116, 104, 32, 61, 61, 32, 112, 97, 116, 116, 101, 114, 110, 41],
       -- continue | !trackNoModifyAttrsFlag && exact && knownPath != pattern
       [99, 111, 110, 116, 105, 110, 117, 101, 32, 124, 32, 33, 116, 114, 97, 99, 107, 78, 111, 77, 111, 100, 105, 102, 121, 65, 116, 116, 114, 115, 70, 108, 97, 103, 32, 38, 38, 32, 101, 120, 97, 99, 116, 32, 38, 38, 32, 107, 110, 111, 119, 110, 80, 97, 116, 104, 32, 33, 61, 32, 112, 97, 116, 116, 101, 114, 110],
       -- continue | !trackNoModifyAttrsFlag && sameFile && relpath != "." && known.AnyDepth != !strings.Contains(strings.TrimSuffix(pattern, "/"), "/")
       [99, 111, 110, 116, 105, 110, 117, 101, 32, 124, 32, 33, 116, 114, 97, 99, 107, 78, 111, 77, 111, 100, 105, 102, 121, 65, 116, 116, 114, 115, 70, 108, 97, 103, 32, 38, 38, 32, 115, 97, 109, 101, 70, 105, 108, 101, 32, 38, 38, 32, 114, 101, 108, 112, 97, 116, 104, 32, 33, 61, 32, 34, 46, 34, 32, 38, 38, 32, 107, 110, 111, 119, 110, 46, 65, 110, 121, 68, 101, 112, 116, 104, 32, 33, 61, 32, 33, 115, 116, 114, 105, 110, 103, 115, 46, 67, 111, 110, 116, 97, 105, 110, 115, 40, 115, 116, 114, 105, 110, 103, 115, 46, 84, 114, 105, 109, 83, 117, 102, 102, 105, 120, 40, 112, 97, 116, 116, 101, 114, 110, 44, 32, 34, 47, 34, 41, 44, 32, 34, 47, 34, 41],
       -- continue ArgsLoop | !trackNoModifyAttrsFlag && known.Tracked && ((trackLockableFlag && known.Lockable) || (trackNotLockableFlag && !known.Lockable) || (!trackLockableFlag && !trackNotLockableFlag))
       [99, 111, 110, 116, 105, 110, 117, 101, 32, 65, 114, 103, 115, 76, 111, 111, 112, 32, 124, 32, 33, 116, 114, 97, 99, 107, 78, 111, 77, 111, 100, 105, 102, 121, 65, 116, 116, 114, 115, 70, 108, 97, 103, 32, 38, 38, 32, 107, 110, 111, 119, 110, 46, 84, 114, 97, 99, 107, 101, 100, 32, 38, 38, 32, 40, 40, 116, 114, 97, 99, 107, 76, 111, 99, 107, 97, 98, 108, 101, 70, 108, 97, 103, 32, 38, 38, 32, 107, 110, 111, 119, 110, 46, 76, 111, 99, 107, 97, 98, 108, 101, 41, 32, 124, 124, 32, 40, 116, 114, 97, 99, 107, 78, 111, 116, 76, 111, 99, 107, 97, 98, 108, 101, 70, 108, 97, 103, 32, 38, 38, 32, 33, 107, 110, 111, 119, 110, 46, 76, 111, 99, 107, 97, 98, 108, 101, 41, 32, 124, 124, 32, 40, 33, 116, 114, 97, 99, 107, 76, 111, 99, 107, 97, 98, 108, 101, 70, 108, 97, 103, 32, 38, 38, 32, 33, 116, 114, 97, 99, 107, 78, 111, 116, 76, 111, 99, 107, 97, 98, 108, 101, 70, 108, 97, 103, 41, 41],
       -- continue | !trackNoModifyAttrsFlag && len(attribContents) > 0 && len(fields) < 1
       [99, 111, 110, 116, 105, 110, 117, 101, 32, 124, 32, 33, 116, 114, 97, 99, 107, 78, 111, 77, 111, 100, 105, 102, 121, 65, 116, 116, 114, 115, 70, 108, 97, 103, 32, 38, 38, 32, 108, 101, 110, 40, 97, 116, 116, 114, 105, 98, 67, 111, 110, 116, 101, 110, 116, 115, 41, 32, 62, 32, 48, 32, 38, 38, 32, 108, 101, 110, 40, 102, 105, 101, 108, 100, 115, 41, 32, 60, 32, 49],
       -- continue | matchedBlocklist
       [99, 111, 110, 116, 105, 110, 117, 101, 32, 124, 32, 109, 97, 116, 99, 104, 101, 100, 66, 108, 111, 99, 107, 108, 105, 115, 116],
       -- continue | !trackDryRunFlag && err != nil
       [99, 111, 110, 116, 105, 110, 117, 101, 32, 124, 32, 33, 116, 114, 97, 99, 107, 68, 114, 121, 82, 117, 110, 70, 108, 97, 103, 32, 38, 38, 32, 101, 114, 114, 32, 33, 61, 32, 110, 105, 108],
       -- sameFile := path.Dir(filepath.ToSlash(known.Source.Path)) == filepath.ToSlash(relpath) | !trackNoModifyAttrsFlag
       [115, 97, 109, 101, 70, 105, 108, 101, 32, 58, 61, 32, 112, 97, 116, 104, 46, 68, 105, 114, 40, 102, 105, 108, 101, 112, 97, 116, 104, 46, 84, 111, 83, 108, 97, 115, 104, 40, 107, 110, 111, 119, 110, 46, 83, 111, 117, 114, 99, 101, 46, 80, 97, 116, 104, 41, 41, 32, 61, 61, 32, 102, 105, 108, 101, 112, 97, 116, 104, 46, 84, 111, 83, 108, 97, 115, 104, 40, 114, 101, 108, 112, 97, 116, 104, 41, 32, 124, 32, 33, 116, 114, 97, 99, 107, 78, 111, 77, 111, 100, 105, 102, 121, 65, 116, 116, 114, 115, 70, 108, 97, 103],
       -- knownPath := unescapeAttrPattern(known.Path) | !trackNoModifyAttrsFlag
       [107, 110, 111, 119, 110, 80, 97, 116, 104, 32, 58, 61, 32, 117, 110, 101, 115, 99, 97, 112, 101, 65, 116, 116, 114, 80, 97, 116, 116, 101, 114, 110, 40, 107, 110, 111, 119, 110, 46, 80, 97, 116, 104, 41, 32, 124, 32, 33, 116, 114, 97, 99, 107, 78, 111, 77, 111, 100, 105, 102, 121, 65, 116, 116, 114, 115, 70, 108, 97, 103],
       -- true | !trackNoModifyAttrsFlag && relpath == "." && unescapeAttrPattern(known.Path) == pattern && path.Dir(filepath.ToSlash(known.Source.Path)) == "."
       [116, 114, 117, 101, 32, 124, 32, 33, 116, 114, 97, 99, 107, 78, 111, 77, 111, 100, 105, 102, 121, 65, 116, 116, 114, 115, 70, 108, 97, 103, 32, 38, 38, 32, 114, 101, 108, 112, 97, 116, 104, 32, 61, 61, 32, 34, 46, 34, 32, 38, 38, 32, 117, 110, 101, 115, 99, 97, 112, 101, 65, 116, 116, 114, 80, 97, 116, 116, 101, 114, 110, 40, 107, 110, 111, 119, 110, 46, 80, 97, 116, 104, 41, 32, 61, 61, 32, 112, 97, 116, 116, 101, 114, 110, 32, 38, 38, 32, 112, 97, 116, 104, 46, 68, 105, 114, 40, 102, 105, 108, 101, 112, 97, 116, 104, 46, 84, 111, 83, 108, 97, 115, 104, 40, 107, 110, 111, 119, 110, 46, 83, 111, 117, 114, 99, 101, 46, 80, 97, 116, 104, 41, 41, 32, 61, 61, 32, 34, 46, 34]
      ] := by decide

end C19
