/-
C07 — Pointer text has one canonical encoding and a strict, total decoder.
Property theorems only (helper lemmas live in PtrSound / PtrRound1-4).  Every `theorem` in this file
is a proof obligation that `./check C07` re-builds and audits (`#print axioms`) on every run.
-/
import LfsModel.Gen
import LfsModel.PtrRound4
import LfsModel.PtrSound

namespace C07
open Lfs

/-! ### ties to the regenerated facts (lfs/pointer.go as it is in /repo now) -/
theorem gen_cutoff : Gen.blobSizeCutoff = Lfs.cut := by decide
theorem gen_latest : Gen.latest = Lfs.latest := by decide
theorem gen_aliases : Gen.v1Aliases = Lfs.v1Aliases := by decide
theorem gen_oidType : Gen.oidType ++ [58] = Lfs.sha256Colon := by decide
theorem gen_pointerKeys : Gen.pointerKeys = [Lfs.keyAt 0, Lfs.keyAt 1, Lfs.keyAt 2] := by decide
/-- the canonical version (what the encoder writes) is one the decoder accepts -/
theorem latest_is_alias : Gen.latest ∈ Gen.v1Aliases := by decide

/-! ### the property -/

/-- Encoding any valid pointer and decoding it again returns the same pointer, reported canonical. -/
theorem dec_enc {p : Ptr} (hv : Valid p) : dec (enc p) = .ok (p, true) := Lfs.dec_enc hv

/-- The empty file is the (canonical) encoding of the empty pointer, and only size-0 pointers
    encode to it (interpretation I6). -/
theorem dec_enc_empty : dec (enc emptyPtr) = .ok (emptyPtr, true) := Lfs.dec_enc_empty
theorem enc_empty_iff (p : Ptr) : enc p = [] ↔ p.size = 0 := by
  unfold enc; split <;> simp_all [kVersion]

/-- Uniqueness of the canonical form: two valid pointers with the same encoding are equal. -/
theorem enc_injective {p q : Ptr} (hp : Valid p) (hq : Valid q) (h : enc p = enc q) : p = q :=
  Lfs.enc_injective hp hq h

/-- For EVERY byte string: accepted ⇒ 64 lower-case hex oid, size within int64, extension oids
    valid, priorities unique and strictly ascending.  Totality of `dec` is by construction. -/
theorem dec_sound (b : Bytes) {p : Ptr} {c : Bool} (h : dec b = .ok (p, c)) : WellFormed p :=
  Lfs.dec_sound b h

/-- Canonical is reported exactly when the bytes the decoder looked at are the encoding of what
    it decoded. -/
theorem canonical_iff (b : Bytes) {p : Ptr} {c : Bool} (h : dec b = .ok (p, c)) :
    c = true ↔ enc p = b := Lfs.canonical_iff b h

/-- A byte string of `cut` (1024) bytes or more is never a pointer. -/
theorem cutoff (b : Bytes) (h : cut ≤ b.length) : dec b = .error .notPtr := by
  unfold dec; simp [h]

/-- Every accepted input is shorter than the window, and an input reported canonical IS the
    canonical encoding of what was decoded. -/
theorem accepted_short (b : Bytes) {p : Ptr} {c : Bool} (h : dec b = .ok (p, c)) : b.length < cut := by
  unfold dec at h; split at h
  · cases h
  · omega
theorem canonical_is_enc (b : Bytes) {p : Ptr} (h : dec b = .ok (p, true)) : b = enc p :=
  ((canonical_iff b h).mp rfl).symm

/-- non-vacuity of `Valid`: a concrete pointer with an extension meets the hypotheses. -/
example : ∃ p : Ptr, Valid p ∧ p.exts ≠ [] ∧ dec (enc p) = .ok (p, true) :=
  ⟨samplePtr, sample_valid, by simp [samplePtr], Lfs.dec_enc sample_valid⟩

end C07
