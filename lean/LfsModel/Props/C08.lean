/-
C08 — Pointers pass through clean untouched; look-alike content is never truncated.
Property theorems only; every `theorem` here is an obligation rebuilt and audited by ./check C08.
`s : Stream` ranges over EVERY chunking (and both EOF styles) of the bytes `s.data`.
-/
import LfsModel.Gen
import LfsModel.FilterRound

namespace C08
open Flt
open LfsA (Stream)

theorem gen_cutoff : Gen.blobSizeCutoff = Flt.cut := by decide

/-- chunk independence: the outcome of clean depends only on the bytes, not on how the pipe or
    packet layer delivered them (this is the statement that was false before the D1 repair). -/
theorem clean_chunk_independent (H : Bytes → Bytes) (s t : Stream) (st : Store) (h : s.data = t.data) :
    clean H s st = clean H t st := by
  rw [clean_eq_spec, clean_eq_spec, h]

theorem smudge_chunk_independent (s t : Stream) (st : Store) (h : s.data = t.data) :
    smudge s st = smudge t st := by
  rw [smudge_eq_spec, smudge_eq_spec, h]

/-- a well-formed pointer (necessarily shorter than 1024 bytes) is written back unchanged and
    nothing is added to local storage -/
theorem clean_pointer_passthrough (H : Bytes → Bytes) (s : Stream) (st : Store) {x}
    (hp : Lfs.dec s.data = .ok x) : clean H s st = (.pass s.data, st) := by
  rw [clean_eq_spec]; unfold cleanSpec
  cases hb : s.data.isEmpty
  · simp [hp]
  · have : s.data = [] := by simpa using hb
    simp [this]

/-- content that does not parse as a pointer is treated as content IN FULL: what is stored under
    `H b` is all of `b`, whatever prefix of it looks like a pointer -/
theorem clean_content_in_full (H : Bytes → Bytes) (s : Stream) (st : Store) {e}
    (hne : s.data ≠ []) (hp : Lfs.dec s.data = .error e) :
    (clean H s st).1 = .stored (H s.data) s.data ∨ (clean H s st).1 = .mismatch := by
  rw [clean_eq_spec]; unfold cleanSpec
  have : s.data.isEmpty = false := by cases h : s.data with | nil => exact absurd h hne | cons => rfl
  simp only [this, Bool.false_eq_true, if_false, hp]
  cases st.get (H s.data) with
  | none => left; rfl
  | some c => simp only; split <;> simp

/-- 1024 bytes or longer is always content -/
theorem clean_long_is_content (H : Bytes → Bytes) (s : Stream) (st : Store) (hl : cut ≤ s.data.length) :
    (clean H s st).1 = .stored (H s.data) s.data ∨ (clean H s st).1 = .mismatch := by
  have hd : Lfs.dec s.data = .error .notPtr := by unfold Lfs.dec; simp [show Lfs.cut ≤ s.data.length from hl]
  have hne : s.data ≠ [] := by intro h; rw [h] at hl; simp [cut, Lfs.cut] at hl
  exact clean_content_in_full H s st hne hd

/-- the store only changes by gaining the cleaned content under its own hash -/
theorem clean_store_delta (H : Bytes → Bytes) (s : Stream) (st : Store) :
    (clean H s st).2 = st ∨ (clean H s st).2 = (H s.data, s.data) :: st := by
  rw [clean_eq_spec]; unfold cleanSpec
  split
  · left; rfl
  · split
    · left; rfl
    · split
      · split <;> (left; rfl)
      · right; rfl

/-- what clean writes to Git is either empty or itself a decodable pointer text -/
theorem clean_out_is_pointer (H : Bytes → Bytes) (hH : ∀ b, Lfs.isOid (H b) = true)
    (b : Bytes) (st : Store) (hlen : b.length ≤ Lfs.maxInt64) :
    (cleanSpec H b st).1.out = [] ∨ ∃ x, Lfs.dec (cleanSpec H b st).1.out = .ok x := by
  unfold cleanSpec
  by_cases hb : b.isEmpty = true
  · left; simp [hb, CleanRes.out]
  · have hne : b ≠ [] := by intro h; simp [h] at hb
    have hlen0 : b.length ≠ 0 := by intro h; exact hne (List.eq_nil_of_length_eq_zero h)
    have hdec := dec_emitted (hH b) hlen0 hlen
    simp only [hb, if_false]
    cases hd : Lfs.dec b with
    | ok x => right; exact ⟨x, by simpa [CleanRes.out] using hd⟩
    | error e =>
      simp only
      cases hg : st.get (H b) with
      | none => right; exact ⟨_, by simpa [CleanRes.out] using hdec⟩
      | some c =>
        simp only
        by_cases hc : c.length = b.length
        · right; exact ⟨_, by simpa [hc, CleanRes.out] using hdec⟩
        · left; simp [hc, CleanRes.out]

/-- never a pointer to a pointer: what clean emits, cleaned again (any chunking `t`), passes
    through unchanged and leaves the store alone.  Hypotheses: `H` yields 64 lower-case hex digits
    (SHA-256 does) and the content length fits int64. -/
theorem no_pointer_to_pointer (H : Bytes → Bytes) (hH : ∀ b, Lfs.isOid (H b) = true)
    (s : Stream) (st : Store) (hlen : s.data.length ≤ Lfs.maxInt64)
    (t : Stream) (st' : Store) (ht : t.data = (clean H s st).1.out) :
    clean H t st' = (.pass t.data, st') := by
  rw [clean_eq_spec H t]
  rw [clean_eq_spec H s] at ht
  rcases clean_out_is_pointer H hH s.data st hlen with h | ⟨x, h⟩
  · rw [h] at ht; unfold cleanSpec; simp [ht]
  · rw [← ht] at h
    unfold cleanSpec
    by_cases hb : t.data.isEmpty = true
    · have : t.data = [] := by simpa using hb
      simp [this]
    · simp [hb, h]

/-- smudging bytes that do not parse as a pointer (in particular anything of 1024 bytes or more)
    passes ALL of them through unchanged, for every chunking -/
theorem smudge_nonpointer_passthrough (s : Stream) (st : Store) {e} (hp : Lfs.dec s.data = .error e) :
    smudge s st = .bytes s.data (!s.data.isEmpty) := by
  rw [smudge_eq_spec]; unfold smudgeSpec; simp [hp]

theorem smudge_long_passthrough (s : Stream) (st : Store) (hl : cut ≤ s.data.length) :
    smudge s st = .bytes s.data true := by
  have hd : Lfs.dec s.data = .error .notPtr := by unfold Lfs.dec; simp [show Lfs.cut ≤ s.data.length from hl]
  rw [smudge_nonpointer_passthrough s st hd]
  have : s.data.isEmpty = false := by
    cases h : s.data with
    | nil => rw [h] at hl; simp [cut, Lfs.cut] at hl
    | cons => rfl
  simp [this]

/-! ### non-vacuity: the D1 witness.  A stream whose first chunk is a complete, valid pointer and
whose second chunk is more data: the whole is content (hypothesis of `clean_content_in_full`), the
first chunk alone is a pointer (hypothesis of `clean_pointer_passthrough`). -/
def witnessPtr : Bytes := [118, 101, 114, 115, 105, 111, 110, 32, 104, 116, 116, 112, 115, 58, 47, 47, 103, 105, 116, 45, 108, 102, 115, 46, 103, 105, 116, 104, 117, 98, 46, 99, 111, 109, 47, 115, 112, 101, 99, 47, 118, 49, 10, 111, 105, 100, 32, 115, 104, 97, 50, 53, 54, 58, 52, 100, 55, 97, 50, 49, 52, 54, 49, 52, 97, 98, 50, 57, 51, 53, 99, 57, 52, 51, 102, 57, 101, 48, 102, 102, 54, 57, 100, 50, 50, 101, 97, 100, 98, 98, 56, 102, 51, 50, 98, 49, 50, 53, 56, 100, 97, 97, 97, 53, 101, 50, 99, 97, 50, 52, 100, 49, 55, 101, 50, 51, 57, 51, 10, 115, 105, 122, 101, 32, 49, 50, 51, 52, 53, 10]
def witnessStream : Stream := ⟨[witnessPtr, [69, 88, 84, 82, 65]], false⟩

def isOk {α ε} : Except ε α → Bool | .ok _ => true | .error _ => false
theorem ok_of_isOk {α ε} {r : Except ε α} (h : isOk r = true) : ∃ x, r = .ok x := by
  cases r with | ok x => exact ⟨x, rfl⟩ | error e => cases h
theorem err_of_not_isOk {α ε} {r : Except ε α} (h : isOk r = false) : ∃ e, r = .error e := by
  cases r with | ok x => cases h | error e => exact ⟨e, rfl⟩

set_option maxRecDepth 100000 in
example : (∃ x, Lfs.dec witnessPtr = .ok x) ∧ (∃ e, Lfs.dec witnessStream.data = .error e) ∧ witnessStream.data ≠ [] := by
  refine ⟨ok_of_isOk (by decide), err_of_not_isOk (by decide), ?_⟩
  simp [witnessStream, Stream.data, witnessPtr]

end C08
