/-
C09 — Killing git-lfs at any instant never leaves a bad object in local storage.
Property theorems only (obligations of ./check C09).  A command is a list of atomic file-system
operations; SIGKILL = any prefix of that list (completed system calls persist).
-/
import LfsModel.Gen
import LfsModel.Crash
import LfsModel.CrashRerun
import LfsModel.CrashIno

namespace C09
open Crash

variable (H : Bytes → Oid)

/-- ANY PREFIX IS INTACT: if an operation list runs under the storage discipline (nothing is ever
    written at an object path; a file enters objects/ only by rename or link, and only if its content
    hashes to the name), then after every prefix — every possible kill point — every object in local
    storage still hashes to its name. -/
theorem prefix_intact (ops : List Op) (fs fsEnd : Fs) (h : Intact H fs) (hr : exec H fs ops = some fsEnd) (k : Nat) :
    ∃ fsk, exec H fs (ops.take k) = some fsk ∧ Intact H fsk :=
  Crash.prefix_intact H ops fs fsEnd h hr k

theorem step_keeps_intact (fs fs' : Fs) (op : Op) (h : Intact H fs) (hs : step H fs op = some fs') : Intact H fs' :=
  step_intact H fs fs' op h hs

/-- the discipline itself: an accepted rename into objects/ carries content hashing to the target name -/
theorem only_verified_renames (fs fs' : Fs) (src : Path) (o : Oid) (hs : step H fs (.rename src (.obj o)) = some fs') :
    ∃ c, fs src = some c ∧ H c = o := by
  simp only [step] at hs
  split at hs
  · cases hs
  · rename_i c hc
    split at hs
    · rename_i hh; exact ⟨c, hc, hh.1⟩
    · cases hs

/-- operations that do not touch objects/ (temp creation, write bursts, .part hand-over) never change
    what is in local storage -/
theorem leftovers_do_not_touch_objects (ops : List Op) (fs fs' : Fs) (h : ∀ op ∈ ops, touchesObj op = false)
    (hr : exec H fs ops = some fs') : objView fs' = objView fs := exec_objView H ops fs fs' h hr

/-- RE-RUN: for the store-one-object scenario (clean / git add of a file, a download), kill after ANY
    number of operations, run again: the same local storage as an uninterrupted run. -/
theorem rerun_same_objects (n n' : Nat) (bursts : List Bytes) (fs0 fsEnd : Fs)
    (hnew : fs0 (.obj (H bursts.flatten)) = none)
    (hend : exec H fs0 (cleanOps H n bursts) = some fsEnd) (k : Nat) :
    ∃ fsk fs2, exec H fs0 ((cleanOps H n bursts).take k) = some fsk ∧ cleanRun H fsk n' bursts = some fs2 ∧
      objView fs2 = objView fsEnd :=
  Crash.rerun_same_objects H n n' bursts fs0 fsEnd hnew hend k

/-- the scenario's operation list does run from any state (so the theorems above are not vacuous) -/
theorem scenario_runs (n : Nat) (bursts : List Bytes) (fs : Fs) :
    ∃ fs', exec H fs (cleanOps H n bursts) = some fs' := by
  obtain ⟨fs', h, _⟩ := exec_cleanOps H n bursts fs
  exact ⟨fs', h⟩

example : (exec (fun b => b.length) (fun _ => none) (cleanOps (fun b => b.length) 0 [[1,2],[3]])).isSome = true := by decide

/-! ### the same with hard links as they are: a second name of one file, not a copy -/

/-- one step of the discipline (now including: no write to an inode that has a name in lfs/objects)
    keeps every object's content hashing to its name -/
theorem step_keeps_objects_intact_with_links (Hf : Crash.Bytes → Crash.Oid) (fs fs' : CrashI.Fs) (op : CrashI.Op)
    (hi : CrashI.Intact Hf fs) (hw : CrashI.Wf fs) (hs : CrashI.step Hf fs op = some fs') :
    CrashI.Intact Hf fs' ∧ CrashI.Wf fs' := CrashI.step_inv Hf fs fs' op hi hw hs

/-- SIGKILL at any instant = any prefix of the operation list: local storage is intact there, hard
    links included -/
theorem kill_anywhere_leaves_storage_intact_with_links (Hf : Crash.Bytes → Crash.Oid) (ops : List CrashI.Op)
    (fsEnd : CrashI.Fs) (he : CrashI.exec Hf {} ops = some fsEnd) (k : Nat) :
    ∃ fsK, CrashI.exec Hf {} (ops.take k) = some fsK ∧ CrashI.Intact Hf fsK :=
  CrashI.prefix_intact Hf ops {} fsEnd (CrashI.empty_inv Hf).1 (CrashI.empty_inv Hf).2 he k

/-! tie to tools/filetools.go as it is in /repo now -/
/-- RenameFileCopyPermissions — the step that puts a verified file under an object's name, in all three download
    adapters — looks at the destination, copies its mode onto the source, and renames ONCE: the destination is never
    moved aside first, so at every instant the name holds either the old complete file or the new one (the crash
    model's `rename` step; seventh-round seed C09 replaced it by move-aside, rename, unlink) -/
theorem gen_rename_into_place_is_one_rename :
    Gen.renameIntoPlaceCalls =
      [
       -- os.Stat: destfile | 
       [111, 115, 46, 83, 116, 97, 116, 58, 32, 100, 101, 115, 116, 102, 105, 108, 101, 32, 124, 32],
       -- os.IsNotExist: err | 
       [111, 115, 46, 73, 115, 78, 111, 116, 69, 120, 105, 115, 116, 58, 32, 101, 114, 114, 32, 124, 32],
       -- os.Chmod: srcfile, info.Mode() | !(os.IsNotExist(err)) && !(err != nil)
       [111, 115, 46, 67, 104, 109, 111, 100, 58, 32, 115, 114, 99, 102, 105, 108, 101, 44, 32, 105, 110, 102, 111, 46, 77, 111, 100, 101, 40, 41, 32, 124, 32, 33, 40, 111, 115, 46, 73, 115, 78, 111, 116, 69, 120, 105, 115, 116, 40, 101, 114, 114, 41, 41, 32, 38, 38, 32, 33, 40, 101, 114, 114, 32, 33, 61, 32, 110, 105, 108, 41],
       -- srcfile, destfile | 
       [115, 114, 99, 102, 105, 108, 101, 44, 32, 100, 101, 115, 116, 102, 105, 108, 101, 32, 124, 32]
      ] := by decide

end C09
