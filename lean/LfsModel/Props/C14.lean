/-
C14 — filter-process speaks valid protocol, equals the one-shot filters, delays complete.
Property theorems only (obligations of ./check C14).
-/
import LfsModel.SmudgeSkip
import LfsModel.Gen
import LfsModel.FilterProcessProofs
import LfsModel.Pkt

namespace C14
open FP

/-! ### ties to commands/command_filter_process.go and the vendored pktline module -/
theorem gen_smudge_capacity : Gen.smudgeFilterBufferCapacity = FP.maxData := by decide
theorem gen_clean_capacity_ok : 0 < Gen.cleanFilterBufferCapacity ∧ Gen.cleanFilterBufferCapacity ≤ FP.maxData := by decide
theorem gen_max_packet : Gen.pktlineMaxPacketLength = FP.maxData := by decide

/-- pkt-line framing round trip: every well-formed packet list the writer frames is recovered by the reader -/
theorem pkt_roundtrip (ps : List Pkt) (h : WF ps) : decode (encode ps).length (encode ps) = some ps :=
  decode_encode ps _ h (Nat.le_refl _)

/-- the payload reader is independent of how Git packetised the payload: a read of n bytes returns
    the first n bytes of the payload and leaves the rest (vendored PktlineReader, Pkt.lean) -/
theorem payload_packetisation_independent (r : Pkt.Reader) (n : Nat) (hn : 0 < n) (he : r.eof = false) :
    (r.read n).1 = r.payload.take n := (Pkt.read_spec r n hn he).1

/-- every answer is a well-formed exchange: status, flush, content packets of at most 65516 bytes,
    flush, trailing status, flush — for both writer capacities in use -/
theorem response_wellformed_smudge (r : Resp) : WF (r.render Gen.smudgeFilterBufferCapacity) :=
  render_wf _ (by decide) (by decide) r
theorem response_wellformed_clean (r : Resp) : WF (r.render Gen.cleanFilterBufferCapacity) :=
  render_wf _ (by decide) (by decide) r

/-- the content packets carry exactly the content, whatever its length -/
theorem content_packets_exact (cap : Nat) (hc : 0 < cap) (d : Bytes) :
    (chunk cap (d.length + 1) d).flatten = d := chunk_flatten cap _ d hc (by omega)

/-- the content of a `clean` answer IS the one-shot clean filter's output for the same bytes, for
    every packetisation (stream) of the payload -/
theorem clean_content_eq_oneshot (H : Bytes → Bytes) (s t : LfsA.Stream) (st : Flt.Store) (h : s.data = t.data) :
    (answerClean H s st).1.content = (Flt.clean H t st).1.out := by
  unfold answerClean
  rw [Flt.clean_eq_spec, Flt.clean_eq_spec, h]

/-- a non-delayed `smudge` answer of a non-pointer is the payload itself, for every packetisation -/
theorem smudge_nonpointer_content (cd se : Bool) (wh : Where) (obj : Bytes) (s : LfsA.Stream) {e}
    (hp : Lfs.dec s.data = .error e) :
    answerSmudge cd se wh obj s = some { status := .success, content := s.data, final := some .success } := by
  unfold answerSmudge
  rw [Flt.smudge_eq_spec]; unfold Flt.smudgeSpec; simp [hp]

/-- a blob is delayed only when delay was offered and the object is not local -/
theorem delayed_only_if_offered (cd se : Bool) (wh : Where) (obj : Bytes) (s : LfsA.Stream) (r : Resp)
    (h : answerSmudge cd se wh obj s = some r) (hd : r.status = .delayed) : cd = true ∧ wh ≠ .local := by
  unfold answerSmudge at h
  split at h
  · cases h; cases hd
  · split at h
    · cases h; cases hd
    · rename_i hw
      split at h
      · rename_i hc; exact ⟨hc, hw⟩
      · split at h
        · cases h; cases hd
        · cases h; cases hd
        · split at h
          · cases h; cases hd
          · cases h

/-- DELAY ROUNDS (relative to the C06 contract: the queue hands over each delayed path exactly once,
    in some order `q`): whatever the schedule `ks`, the announced lists, concatenated, are exactly
    `q` — so each delayed blob is announced exactly once — every round but the last announces
    something, and the last list is empty. -/
theorem delayed_announced_exactly_once (ks : List Nat) (q : List String) :
    (announce ks q).flatten = q := announce_flatten ks q
theorem available_list_becomes_empty (ks : List Nat) (q : List String) :
    (announce ks q).getLast? = some [] := announce_last_empty ks q
theorem rounds_make_progress (ks : List Nat) (q : List String) :
    ∀ r ∈ (announce ks q).dropLast, r ≠ [] := announce_nonempty_rounds ks q

/-- non-vacuity: three delayed paths, two of them ready at the first call -/
example : announce [1, 5] ["a", "b", "c"] = [["a", "b"], ["c"], []] := by decide

/-- a file of the wrong size at the object's path changes nothing: the request is answered as if the
    path were empty (delayed when that is offered, downloaded otherwise) — the repaired defect D48 -/
theorem wrong_size_file_is_not_the_object (cd se : Bool) (obj : Bytes) (s : LfsA.Stream) :
    answerSmudge cd se .stale obj s = answerSmudge cd se .server obj s := by
  unfold answerSmudge
  split <;> simp

/-- tie to commands/command_filter_process.go: a pointer is remembered under its path — and thereby announced by list_available_blobs — only for a smudge that could be delayed AND was delayed -/
theorem gen_pointer_remembered_only_when_delayed :
    Gen.filterDelayedPointers =
      [
       -- ptr | case "smudge" && req.Header["can-delay"] == "1" && delayed
       [112, 116, 114, 32, 124, 32, 99, 97, 115, 101, 32, 34, 115, 109, 117, 100, 103, 101, 34, 32, 38, 38, 32, 114, 101, 113, 46, 72, 101, 97, 100, 101, 114, 91, 34, 99, 97, 110, 45, 100, 101, 108, 97, 121, 34, 93, 32, 61, 61, 32, 34, 49, 34, 32, 38, 38, 32, 100, 101, 108, 97, 121, 101, 100]
      ] := by decide

/-! ### "the content it returns equals what the one-shot smudge filter returns" — skipped and excluded paths -/

/-- a smudge with can-delay=1 is answered like the one-shot smudge of the same pointer and path, whether the path is
    wanted (not skipped, allowed by the fetch filters) or not, whether the object is local or not -/
theorem delayed_smudge_answers_like_one_shot (wanted isLocal : Bool) :
    SmudgeSkip.delayed wanted isLocal = SmudgeSkip.oneShot wanted isLocal := SmudgeSkip.delayed_eq_oneShot wanted isLocal

/-- a blob is delayed exactly when it is wanted and its object is not local -/
theorem delayed_exactly_when_wanted_and_missing (wanted isLocal : Bool) :
    SmudgeSkip.delayed wanted isLocal = .download ↔ (wanted = true ∧ isLocal = false) := SmudgeSkip.delayed_iff wanted isLocal

end C14
