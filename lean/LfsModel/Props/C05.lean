/-
C05 — Prune never deletes an object that is still needed or not yet pushed.
Property theorems only (obligations of ./check C05).
-/
import LfsModel.Prune
import LfsModel.LogScan
import LfsModel.PtrRound4

namespace C05
open Pr

theorem deleted_sub (f : Flags) (localObjs retained reachable verified : List Oid) (o : Oid)
    (hd : o ∈ (prune f localObjs retained reachable verified).deleted) :
    f.dryRun = false ∧ halts f localObjs retained reachable verified = false ∧
    ((f.verifyRemote = true ∧ o ∈ (verifySplit (candidates localObjs retained) reachable verified f.verifyUnreachable).1) ∨
     (f.verifyRemote = false ∧ o ∈ candidates localObjs retained)) := by
  simp only [prune] at hd
  cases hh : halts f localObjs retained reachable verified <;> cases hdr : f.dryRun <;>
    cases hv : f.verifyRemote <;> simp_all

/-- nothing a retention task named is ever deleted — whatever the flags, the local objects, the
    reachable set and the server's answers -/
theorem retained_never_deleted (f : Flags) (localObjs retained reachable verified : List Oid) (o : Oid)
    (hr : o ∈ retained) : o ∉ (prune f localObjs retained reachable verified).deleted := by
  intro hd
  obtain ⟨_, _, h⟩ := deleted_sub f localObjs retained reachable verified o hd
  rcases h with ⟨_, h⟩ | ⟨_, h⟩ <;>
    simp [verifySplit, candidates, List.mem_filter] at h <;> simp_all

/-- only local objects are deleted -/
theorem deleted_are_local (f : Flags) (localObjs retained reachable verified : List Oid) (o : Oid)
    (hd : o ∈ (prune f localObjs retained reachable verified).deleted) : o ∈ localObjs := by
  obtain ⟨_, _, h⟩ := deleted_sub f localObjs retained reachable verified o hd
  rcases h with ⟨_, h⟩ | ⟨_, h⟩ <;>
    simp [verifySplit, candidates, List.mem_filter] at h <;> simp_all

/-- `--dry-run` deletes nothing -/
theorem dry_run_deletes_nothing (f : Flags) (hd : f.dryRun = true) (localObjs retained reachable verified : List Oid) :
    (prune f localObjs retained reachable verified).deleted = [] := by
  simp [prune, hd]

/-- with remote verification, a deleted object was verified on the remote, or (without
    --verify-unreachable) is not reachable from any ref -/
theorem verify_remote_sound (f : Flags) (hv : f.verifyRemote = true) (localObjs retained reachable verified : List Oid) (o : Oid)
    (hd : o ∈ (prune f localObjs retained reachable verified).deleted) :
    o ∈ verified ∨ (f.verifyUnreachable = false ∧ o ∉ reachable) := by
  obtain ⟨_, _, h⟩ := deleted_sub f localObjs retained reachable verified o hd
  rcases h with ⟨_, h⟩ | ⟨h, _⟩
  · simp only [verifySplit, List.mem_filter, Bool.or_eq_true, Bool.and_eq_true, Bool.not_eq_true',
      List.contains_eq_mem, decide_eq_true_eq, decide_eq_false_iff_not] at h
    rcases h.2 with h | h
    · exact Or.inl h
    · exact Or.inr ⟨h.1, h.2⟩
  · rw [hv] at h; cases h

/-- without `--when-unverified=continue`, one reachable candidate missing on the remote stops prune
    before anything is deleted -/
theorem unverified_halts (f : Flags) (hv : f.verifyRemote = true) (hc : f.continueWhenUnverified = false)
    (localObjs retained reachable verified : List Oid) (o : Oid)
    (hl : o ∈ localObjs) (hnr : o ∉ retained) (hre : o ∈ reachable) (hnv : o ∉ verified) :
    prune f localObjs retained reachable verified = { deleted := [], halted := true } := by
  have : o ∈ (verifySplit (candidates localObjs retained) reachable verified f.verifyUnreachable).2 := by
    simp [verifySplit, candidates, List.mem_filter, hl, hnr, hre, hnv]
  have hne : (verifySplit (candidates localObjs retained) reachable verified f.verifyUnreachable).2.isEmpty = false := by
    cases h : (verifySplit (candidates localObjs retained) reachable verified f.verifyUnreachable).2 with
    | nil => rw [h] at this; cases this
    | cons a l => rfl
  have hh : halts f localObjs retained reachable verified = true := by simp [halts, hv, hc, hne]
  simp [prune, hh]

/-- window boundaries are inclusive: a tip exactly `refsDays + offsetDays` days old is still recent,
    one second older is not; zero days switches the window off -/
theorem ref_window_boundary (now : Int) (d o : Nat) (hd : d ≠ 0) :
    refIsRecent now (now - ((d + o : Nat) : Int) * 86400) d o = true ∧
    refIsRecent now (now - ((d + o : Nat) : Int) * 86400 - 1) d o = false := by
  unfold refIsRecent
  have : (d != 0) = true := by simpa using hd
  simp only [this, Bool.true_and, decide_eq_true_eq, decide_eq_false_iff_not]
  constructor <;> omega
theorem zero_days_switches_off (now tip : Int) (o : Nat) : refIsRecent now tip 0 o = false ∧ commitIsRecent now tip 0 o = false := by
  simp [refIsRecent, commitIsRecent]

/-- the recent-commits window belongs to the ref: a previous version replaced by a commit inside the
    window of ANY retained ref (HEAD or recent) is retained, whatever the tips of the other refs are —
    in particular when HEAD is much younger and its own window does not reach back that far -/
theorem recent_commit_window_is_per_ref (now : Int) (refsDays commitsDays offsetDays : Nat) (refs : List RefT)
    (r : RefT) (c : Int × List Oid) (o : Oid)
    (hr : r ∈ refs) (hrec : r.isHead = true ∨ refIsRecent now r.tip refsDays offsetDays = true)
    (hc : c ∈ r.commits) (hwin : commitIsRecent r.tip c.1 commitsDays offsetDays = true) (ho : o ∈ c.2) :
    o ∈ retainedRecent now refsDays commitsDays offsetDays refs := by
  unfold retainedRecent
  simp only [List.mem_flatMap, List.mem_filter]
  refine ⟨r, ⟨hr, ?_⟩, c, ⟨hc, hwin⟩, ho⟩
  rcases hrec with h | h <;> simp [h]

/-- … and nothing else comes from these tasks: every retained id is a previous version replaced inside
    the window of a retained ref -/
theorem recent_retained_only_from_windows (now : Int) (refsDays commitsDays offsetDays : Nat) (refs : List RefT) (o : Oid)
    (h : o ∈ retainedRecent now refsDays commitsDays offsetDays refs) :
    ∃ r ∈ refs, (r.isHead = true ∨ refIsRecent now r.tip refsDays offsetDays = true) ∧
      ∃ c ∈ r.commits, commitIsRecent r.tip c.1 commitsDays offsetDays = true ∧ o ∈ c.2 := by
  unfold retainedRecent at h
  simp only [List.mem_flatMap, List.mem_filter] at h
  obtain ⟨r, ⟨hr, hrec⟩, c, ⟨hc, hwin⟩, ho⟩ := h
  refine ⟨r, hr, ?_, c, hc, hwin, ho⟩
  cases hh : r.isHead
  · right; simpa [hh] using hrec
  · left; rfl

/-- non-vacuity (the shape of seeded change C05/3): HEAD's tip is 1 hour old, a feature ref's tip 8 days;
    with 3 commit-days the version replaced 10 days ago on `feature` is kept although HEAD's own window
    (3 days before HEAD's tip) does not reach it -/
example : retainedRecent 1000000 7 3 0
    [⟨true, 1000000 - 3600, []⟩, ⟨false, 1000000 - 5 * 86400, [(1000000 - 7 * 86400, [42])]⟩] = [42] := by decide

/-! ### the `git log -p` scanner (unpushed, stashed and recent-commit retention) -/
section logscan
open LogScan Lfs

/-- one file section of a log: its header and the lines up to the next header -/
structure Sec where
  a : Bytes
  b : Bytes
  body : List Kind

def render (secs : List Sec) : List Kind := secs.flatMap fun s => Kind.file s.a s.b :: s.body

def secResult (dir : UInt8) (s : Sec) : Option (Bytes × Ptr) :=
  finish { name := setName (if dir == 43 then s.b else s.a), data := sectionData dir s.body }

theorem scanFrom_sections (dir : UInt8) (secs : List Sec) (hb : ∀ s ∈ secs, ∀ k ∈ s.body, isBody k = true) (st : St) :
    scanFrom dir st (render secs) = (finish st).toList ++ secs.filterMap (secResult dir) := by
  induction secs generalizing st with
  | nil => simp [render, scanFrom]
  | cons s ss ih =>
    have hs := hb s (by simp)
    have hss : ∀ s' ∈ ss, ∀ k ∈ s'.body, isBody k = true := fun s' h => hb s' (by simp [h])
    have hr : render (s :: ss) = Kind.file s.a s.b :: (s.body ++ render ss) := by simp [render]
    rw [hr]
    have key : scanFrom dir { data := [], name := setName (if dir == 43 then s.b else s.a) } (s.body ++ render ss)
        = (secResult dir s).toList ++ ss.filterMap (secResult dir) := by
      rw [scanFrom_body dir s.body hs]
      simp only [List.nil_append]
      rw [ih hss]; rfl
    have hfm : (s :: ss).filterMap (secResult dir) = (secResult dir s).toList ++ ss.filterMap (secResult dir) := by
      cases h : secResult dir s <;> simp [List.filterMap_cons, h]
    rw [hfm, ← key]
    simp only [scanFrom, step]
    cases finish st <;> simp

/-- **the scanner recovers the pointer of every file section** of a log, in order, for every number
    of sections, any other lines in between and any interleaving of `+`, `-` and context lines: the
    result of a section is the decoding of its lines on the wanted side -/
theorem scan_sections (dir : UInt8) (secs : List Sec) (hb : ∀ s ∈ secs, ∀ k ∈ s.body, isBody k = true) :
    scan dir (render secs) = secs.filterMap (secResult dir) := by
  unfold scan
  rw [scanFrom_sections dir secs hb]
  simp [finish]

/-- in particular a section whose `+`/context lines spell the canonical text of a valid pointer
    yields that pointer under the new file name (`+` direction) -/
theorem added_pointer_recovered (s : Sec) (p : Ptr) (hv : Valid p) (hd : sectionData 43 s.body = enc p) :
    secResult 43 s = some (setName s.b, p) := by
  have hne : (enc p).isEmpty = false := by
    have := hv.size_pos
    unfold enc; split <;> simp_all [kVersion]
  simp [secResult, finish, hd, hne, Lfs.dec_enc hv]

/-- **every version a pointer may carry is seen by the log scanner**: for each of the version URLs the pointer
    decoder accepts (`v1Aliases`, regenerated from lfs/pointer.go) the line `version <url>` of a diff — added,
    removed or context — is classified as pointer data by the expression regenerated from
    lfs/gitscanner_log.go.  (D69: the expression named the current URL only, so a pointer written with an
    earlier one lost its version line, did not decode, and its object was pruned from an unpushed commit.) -/
theorem every_pointer_version_line_is_data :
    ∀ v ∈ Gen.v1Aliases, ∀ s ∈ [(43 : UInt8), 45, 32],
      classify (s :: (kVersion ++ 32 :: v)) = .data s (kVersion ++ 32 :: v) := by
  decide

/-- and so are the other lines of a pointer: `oid sha256:…`, `size …`, `ext-N-…` -/
theorem oid_size_ext_lines_are_data (rest : Bytes) (s : UInt8) (hs : s = 43 ∨ s = 45 ∨ s = 32) :
    classify (s :: ([111, 105, 100, 32, 115, 104, 97, 50, 53, 54] ++ rest)) = .data s ([111, 105, 100, 32, 115, 104, 97, 50, 53, 54] ++ rest) ∧
    classify (s :: ([115, 105, 122, 101] ++ rest)) = .data s ([115, 105, 122, 101] ++ rest) ∧
    classify (s :: ([101, 120, 116, 45] ++ rest)) = .data s ([101, 120, 116, 45] ++ rest) := by
  rcases hs with h | h | h <;> subst h <;>
    simp [classify, isPrefix, sCommit, sDiffGit, sDiffCc, dataPrefixes, Gen.logDataPrefixes]

end logscan

/-- non-vacuity -/
example : (prune ⟨true, false, false, false⟩ [1, 2, 3, 4] [1] [2, 3] [3]).halted = true := by decide
example : (prune ⟨true, false, true, false⟩ [1, 2, 3, 4] [1] [2, 3] [3]).deleted = [3, 4] := by decide

end C05
