/-
C18 — Every API request git-lfs emits conforms to the published LFS API.
Property theorems only (obligations of ./check C18).  The schemas (`Gen.*Schema`) and the struct-tag
tables (`Gen.*Fields`) are regenerated from /repo on every run, so the theorems are re-proved against
what docs/api/schemas/*.json and the Go struct tags say now.
-/
import LfsModel.Gen
import LfsModel.GenApi
import LfsModel.ApiReq
import LfsModel.UrlEscape

namespace C18
open Api ApiReq

/-- the model has a value for every field of every request struct (a field added to a struct makes
    this fail instead of being silently dropped from the model's encoding) -/
theorem fields_known :
    Gen.batchRequestFields.map (·.1) = ["Operation", "Objects", "TransferAdapterNames", "Ref", "HashAlgorithm"] ∧
    Gen.batchRefFields.map (·.1) = ["Name"] ∧
    Gen.TransferFields.map (·.1) = ["Name", "Oid", "Size", "Authenticated", "Actions", "Links", "Error", "Path"] ∧
    Gen.verifyRequestFields.map (·.1) = ["Oid", "Size"] ∧
    Gen.lockRequestFields.map (·.1) = ["Path", "Ref"] ∧
    Gen.unlockRequestFields.map (·.1) = ["Force", "Ref"] ∧
    Gen.lockVerifiableRequestFields.map (·.1) = ["Ref", "Cursor", "Limit"] ∧
    Gen.lockRefFields.map (·.1) = ["Name"] := by decide

theorem validateAll_map (s : Sch) (l : List Obj) (f : Obj → J) (h : ∀ o ∈ l, validate s (f o) = true) :
    validateAll s (JList.ofList (l.map f)) = true := by
  induction l with
  | nil => simp [JList.ofList, validateAll]
  | cons o os ih =>
    simp only [List.map_cons, JList.ofList, validateAll, Bool.and_eq_true]
    exact ⟨h o (by simp), ih (fun o' ho' => h o' (by simp [ho']))⟩

theorem validateAll_strs (l : List String) :
    validateAll (.mk (some .string) [] [] none none true) (JList.ofList (l.map .str)) = true := by
  induction l with
  | nil => simp [JList.ofList, validateAll]
  | cons o os ih => simp [JList.ofList, validateAll, validate, tyOk, Sch.ty, ih]

/-- the `items` schema of "objects" in the published batch request schema -/
def objItemSch : Sch :=
  .mk (some .object)
    [("authenticated", .mk (some .boolean) [] [] none none true), ("oid", .mk (some .string) [] [] none none true),
     ("size", .mk (some .number) [] [] none (some 0) true)] ["oid", "size"] none none false

/-- one batch object (what `batch.ToTransfers` builds) validates against it, provided the oid is not
    empty (an empty oid is omitted by `omitempty`) and the size is not negative.  The schema forbids
    additional members: this also says that no other Transfer field (name, path, actions …) leaks. -/
theorem transfer_valid (o : Obj) (h1 : o.oid ≠ "") (h2 : 0 ≤ o.size) :
    validate objItemSch (encTransfer o) = true := by
  simp [objItemSch, encTransfer, encodeStruct, encodeFields, Gen.TransferFields, lookupVal, jstr, jint, jbool, h1,
    JObj.ofList, validate, validateKvs, lookupSch, tyOk, minOk, Sch.ty, Sch.required, Sch.props,
    Sch.minimum, JObj.has, JObj.get?, h2]

/-- **batch**: for every operation name, object list, adapter list and ref name, the request body
    validates against docs/api/schemas/http-batch-request-schema.json — under exactly the hypothesis
    that the caller's objects have non-empty ids and non-negative sizes -/
theorem batch_request_valid (r : BatchIn) (h : ∀ o ∈ r.objs, o.oid ≠ "" ∧ 0 ≤ o.size) :
    validate Gen.batchRequestSchema (encBatch r) = true := by
  have hobjs := validateAll_map objItemSch r.objs encTransfer (fun o ho => transfer_valid o (h o ho).1 (h o ho).2)
  have hstrs := validateAll_strs (normAdapters r.adapters)
  simp only [objItemSch] at hobjs
  by_cases ha : (normAdapters r.adapters).isEmpty = true <;>
  simp [Gen.batchRequestSchema, encBatch, encodeStruct, encodeFields, Gen.batchRequestFields, Gen.batchRefFields, lookupVal,
    jstr, jstrs, ha, JObj.ofList, validate, validateKvs, lookupSch, tyOk, Sch.ty, Sch.required, Sch.props,
    Sch.additional, Sch.items, JObj.has, JObj.get?, hobjs, hstrs]

/-- the hypothesis is necessary: an object with a negative size makes the body invalid -/
theorem batch_request_negative_size_invalid :
    validate Gen.batchRequestSchema (encBatch ⟨"download", [⟨"ab", -1⟩], [], "refs/heads/main"⟩) = false := by
  simp [Gen.batchRequestSchema, encBatch, encTransfer, encodeStruct, encodeFields, Gen.batchRequestFields, Gen.batchRefFields,
    Gen.TransferFields, lookupVal, jstr, jstrs, jint, jbool, normAdapters, JList.ofList, JObj.ofList, validate, validateKvs,
    validateAll, lookupSch, tyOk, minOk, Sch.ty, Sch.required, Sch.props, Sch.additional, Sch.items, Sch.minimum,
    JObj.has, JObj.get?, Gen.batchHashAlgo]

/-- the request names exactly the caller's objects, in order, with their sizes -/
theorem batch_names_exactly_the_callers_objects (r : BatchIn) (h : ∀ o ∈ r.objs, o.oid ≠ "") :
    batchObjects (encBatch r) = r.objs.map fun o => (some o.oid, some o.size) := by
  have key : ∀ l : List Obj, (∀ o ∈ l, o.oid ≠ "") →
      (listOf (JList.ofList (l.map encTransfer))).map
        (fun x => (strOf (objField x "oid"), numOf (objField x "size"))) = l.map fun o => (some o.oid, some o.size) := by
    intro l hl
    induction l with
    | nil => simp [JList.ofList, listOf]
    | cons o os ih =>
      have ho : o.oid ≠ "" := hl o (by simp)
      simp only [List.map_cons, JList.ofList, listOf, ih (fun o' ho' => hl o' (by simp [ho']))]
      simp [encTransfer, encodeStruct, encodeFields, Gen.TransferFields, lookupVal, jstr, jint, jbool, ho,
        JObj.ofList, objField, JObj.get?, strOf, numOf]
  have := key r.objs h
  simp only [objField] at this
  simp [batchObjects, encBatch, encodeStruct, encodeFields, Gen.batchRequestFields, lookupVal, jstr, JObj.ofList,
    objField, JObj.get?, this]

/-- **lock creation**: valid for every path and every ref name, the empty one included
    (then "ref" is left out; `"ref":{}` would violate `required: ["name"]`) -/
theorem lock_create_request_valid (path refName : String) :
    validate Gen.lockCreateRequestSchema (encLock path refName) = true := by
  by_cases h : refName = "" <;>
  simp [Gen.lockCreateRequestSchema, encLock, encLockRef, h, encodeStruct, encodeFields, Gen.lockRequestFields, Gen.lockRefFields,
    lookupVal, jstr, JObj.ofList, validate, validateKvs, lookupSch, tyOk, Sch.ty, Sch.required, Sch.props, Sch.additional,
    JObj.has, JObj.get?]

/-- **lock deletion** -/
theorem lock_delete_request_valid (force : Bool) (refName : String) :
    validate Gen.lockDeleteRequestSchema (encUnlock force refName) = true := by
  by_cases h : refName = "" <;>
  simp [Gen.lockDeleteRequestSchema, encUnlock, encLockRef, h, encodeStruct, encodeFields, Gen.unlockRequestFields, Gen.lockRefFields,
    lookupVal, jstr, jbool, JObj.ofList, validate, validateKvs, lookupSch, tyOk, Sch.ty, Sch.required, Sch.props, Sch.additional,
    JObj.has, JObj.get?]

/-- **lock verification** (schema transcribed from docs/api/locking.md): valid whenever the limit is
    not negative -/
theorem lock_verify_request_valid (refName cursor : String) (limit : Int) (hl : 0 ≤ limit) :
    validate lockVerifyRequestDoc (encLockVerify refName cursor limit) = true := by
  by_cases h : refName = "" <;> by_cases hc : cursor = "" <;> by_cases h0 : limit = 0 <;>
  simp [lockVerifyRequestDoc, strSch, encLockVerify, encLockRef, h, hc, h0, hl, encodeStruct, encodeFields,
    Gen.lockVerifiableRequestFields, Gen.lockRefFields, lookupVal, jstr, jint, JObj.ofList, validate, validateKvs,
    lookupSch, tyOk, minOk, Sch.ty, Sch.required, Sch.props, Sch.additional, Sch.minimum, JObj.has, JObj.get?]

/-- … and a negative limit is sent as it is (`omitempty` only drops 0) and is invalid -/
theorem lock_verify_negative_limit_invalid :
    validate lockVerifyRequestDoc (encLockVerify "refs/heads/main" "3" (-3)) = false := by
  simp [lockVerifyRequestDoc, strSch, encLockVerify, encLockRef, encodeStruct, encodeFields,
    Gen.lockVerifiableRequestFields, Gen.lockRefFields, lookupVal, jstr, jint, JObj.ofList, validate, validateKvs,
    lookupSch, tyOk, minOk, Sch.ty, Sch.required, Sch.props, Sch.additional, Sch.minimum, JObj.has, JObj.get?]

/-- **object verification** (docs/api/basic-transfers.md): exactly `oid` and `size` -/
theorem object_verify_request_valid (o : Obj) (h : 0 ≤ o.size) :
    validate objectVerifyRequestDoc (encVerify o) = true := by
  simp [objectVerifyRequestDoc, strSch, encVerify, encodeStruct, encodeFields, Gen.verifyRequestFields, lookupVal, jstr, jint,
    JObj.ofList, validate, validateKvs, lookupSch, tyOk, minOk, Sch.ty, Sch.required, Sch.props, Sch.additional,
    Sch.minimum, JObj.has, JObj.get?, h]

/-- every batch request announces the hash algorithm the client can verify, and the client accepts a
    response only if it names that algorithm or none -/
theorem hash_algo_announced_and_checked :
    Gen.batchHashAlgo = "sha256" ∧ ∀ algo, acceptsHashAlgo algo = true ↔ (algo = "" ∨ algo = "sha256") := by
  refine ⟨by decide, fun algo => ?_⟩
  simp [acceptsHashAlgo, Gen.acceptedHashAlgos]

/-- a response naming any other algorithm is rejected -/
theorem unsupported_hash_algo_rejected (algo : String) (h1 : algo ≠ "") (h2 : algo ≠ "sha256") :
    acceptsHashAlgo algo = false := by
  simp [acceptsHashAlgo, Gen.acceptedHashAlgos, h1, h2]

/-- the media type of the API -/
theorem media_type : Gen.lfsMediaType = "application/vnd.git-lfs+json" := by decide

/-- non-vacuity: a two-object upload request meets the hypotheses and is valid; its rendering -/
example : validate Gen.batchRequestSchema (encBatch ⟨"upload", [⟨"aa", 3⟩, ⟨"bb", 0⟩], ["basic"], "refs/heads/x"⟩) = true :=
  batch_request_valid _ (by simp)

/-- one step: whatever adapter was running, the objects of an answer are carried by the adapter the
    answer names — `basic` when it names none, or one that is not configured -/
theorem adapter_is_the_one_the_answer_names (avail : List String) (hb : "basic" ∈ avail) (cur : Option String)
    (hc : ∀ c, cur = some c → c ∈ avail) (name : String) :
    useAdapter avail cur name = some (resolveAdapter avail name) := by
  unfold useAdapter
  by_cases h : cur = some name
  · rw [if_pos h]
    have : name ∈ avail := hc name h
    simp [resolveAdapter, this, h]
  · rw [if_neg h]

theorem resolveAdapter_mem (avail : List String) (hb : "basic" ∈ avail) (name : String) :
    resolveAdapter avail name ∈ avail := by
  unfold resolveAdapter; split <;> assumption

/-- … for every history of answers: the adapter in charge depends on the LATEST answer only -/
theorem adapter_follows_latest_answer (avail : List String) (hb : "basic" ∈ avail) (answers : List String) (last : String)
    (cur : Option String) (hc : ∀ c, cur = some c → c ∈ avail) :
    adapterAfter avail cur (answers ++ [last]) = some (resolveAdapter avail last) := by
  unfold adapterAfter
  rw [List.foldl_append]
  simp only [List.foldl_cons, List.foldl_nil]
  apply adapter_is_the_one_the_answer_names avail hb
  -- the invariant `cur ∈ avail` is kept by every step
  induction answers generalizing cur with
  | nil => simpa using hc
  | cons a rest ih =>
    simp only [List.foldl_cons]
    apply ih
    intro c hcc
    rw [adapter_is_the_one_the_answer_names avail hb cur hc a] at hcc
    cases hcc
    exact resolveAdapter_mem avail hb a

/-- an answer without a `transfer` member is a basic answer, whatever came before -/
theorem omitted_transfer_means_basic (avail : List String) (hb : "basic" ∈ avail) (hn : "" ∉ avail)
    (answers : List String) (cur : Option String) (hc : ∀ c, cur = some c → c ∈ avail) :
    adapterAfter avail cur (answers ++ [""]) = some "basic" := by
  rw [adapter_follows_latest_answer avail hb answers "" cur hc]
  simp [resolveAdapter, hn]

example : adapterAfter ["basic", "tus"] none ["tus", ""] = some "basic" := by decide

/-! ### the unlock URL: the lock id is one path segment, whatever bytes the server put into it -/

/-- no byte of the escaped id can end the segment or start a query or a fragment -/
theorem unlock_id_is_one_segment (id : UrlEsc.Bytes) :
    ∀ x ∈ UrlEsc.pathEscape id, x ≠ 47 ∧ x ≠ 63 ∧ x ≠ 35 := UrlEsc.escape_nodelim id

/-- the server reads back exactly the id it handed out -/
theorem unlock_id_round_trip (id : UrlEsc.Bytes) : UrlEsc.pathUnescape (UrlEsc.pathEscape id) = some id :=
  UrlEsc.unescape_escape id

/-- two different ids never address the same unlock URL -/
theorem unlock_url_injective (a b : UrlEsc.Bytes) (h : UrlEsc.unlockSuffix a = UrlEsc.unlockSuffix b) : a = b := by
  unfold UrlEsc.unlockSuffix at h
  have h1 := List.append_cancel_left (List.append_assoc _ _ _ ▸ (List.append_assoc _ _ _ ▸ h))
  exact UrlEsc.escape_injective a b (List.append_cancel_right h1)

/-- `a?b#/ ` ↦ `a%3Fb%23%2F%20` -/
example : UrlEsc.pathEscape [97, 63, 98, 35, 47, 32] = [97, 37, 51, 70, 98, 37, 50, 51, 37, 50, 70, 37, 50, 48] := by decide

/-- the id segment of the unlock URL is empty only for an empty id — which the client refuses to address (D81) -/
theorem unlock_id_segment_nonempty (id : UrlEsc.Bytes) (h : id ≠ []) : UrlEsc.pathEscape id ≠ [] := by
  cases id with
  | nil => exact absurd rfl h
  | cons b rest =>
    unfold UrlEsc.pathEscape
    simp only [List.flatMap_cons]
    intro hnil
    have : UrlEsc.escByte b = [] := (List.append_eq_nil_iff.mp hnil).1
    unfold UrlEsc.escByte at this
    split at this <;> simp at this

/-! tie to lfsapi/auth.go as it is in /repo now -/
/-- after an auth error doWithAuth deletes the request's Authorization header in ONE place, and only when git-lfs
    itself had filled it from the credential helper (`credWrapper.Creds != nil`): a header the offered action
    supplied stays on the request, so no resubmission goes out without it or with the user's own credentials -/
theorem gen_offered_authorization_is_never_deleted :
    Gen.authHeaderDeletions =
      [[34, 65, 117, 116, 104, 111, 114, 105, 122, 97, 116, 105, 111, 110, 34, 32, 124, 32, 101, 114, 114, 32, 33, 61, 32, 110, 105, 108, 32, 38, 38, 32, 101, 114, 114, 111, 114, 115, 46, 73, 115, 65, 117, 116, 104, 69, 114, 114, 111, 114, 40, 101, 114, 114, 41, 32, 38, 38, 32, 99, 114, 101, 100, 87, 114, 97, 112, 112, 101, 114, 46, 67, 114, 101, 100, 115, 32, 33, 61, 32, 110, 105, 108]]
        -- "Authorization" | err != nil && errors.IsAuthError(err) && credWrapper.Creds != nil
      := by decide

end C18
