/-
C11 — A repository's .lfsconfig can only set the documented safe keys.
Property theorems only (obligations of ./check C11).  `Gen.safeKeys` is config.safeKeys as it is in
/repo now; `Gen.docLfsconfigKeys` is the LFSCONFIG list parsed from docs/man/git-lfs-config.adoc.
-/
import LfsModel.Gen
import LfsModel.ConfigProofs

namespace C11
open Cfg

/-! ### ties between the code's allow-list and the documented one -/
/-- the two readers of a repository-supplied configuration file (`Configuration.FileSource` for the
    working tree, `Configuration.RevisionSource` for the index and HEAD; git/config.go, regenerated)
    mark every source they produce `OnlySafeKeys` — the hypothesis under which the theorems below
    speak about `.lfsconfig` at all -/
theorem lfsconfig_readers_restrict :
    Gen.lfsconfigReaderFlags ≠ [] ∧ ∀ b ∈ Gen.lfsconfigReaderFlags, b = true := by decide

theorem safeKeys_subset_doc : ∀ k ∈ Gen.safeKeys, k ∈ Gen.docLfsconfigKeys := by decide
/-- the documented list is the plain keys plus exactly the two patterns the model hard-codes -/
theorem doc_is_safeKeys_plus_patterns :
    Gen.docLfsconfigKeys.filter (fun k => !(Gen.safeKeys.contains k)) =
      [[108,102,115,46,123,42,125,46,97,99,99,101,115,115],                          -- lfs.{*}.access
       [114,101,109,111,116,101,46,123,110,97,109,101,125,46,108,102,115,117,114,108]] -- remote.{name}.lfsurl
    := by decide

/-! ### the dangerous key families (Spec, written from the property text; never regenerated) -/
def dangerous (key : Bytes) : Bool :=
  let parts := splitOn 46 key []
  let first := parts[0]!
  let last := parts.getLast!
  first = [99,114,101,100,101,110,116,105,97,108]        -- credential.*
  || first = [99,111,114,101]                             -- core.* (askpass, sshcommand, …)
  || first = [104,116,116,112]                            -- http.* (proxy, sslcert, …)
  || first = [117,114,108]                                -- url.*.insteadof
  || first = [102,105,108,116,101,114]                    -- filter.*
  || first = [115,115,104]                                -- ssh.*
  || (first = sRemote && (last = [117,114,108] || last = [112,117,115,104,117,114,108]))   -- remote.*.url / pushurl
  || (first = sLfs && (parts[1]! = [99,117,115,116,111,109,116,114,97,110,115,102,101,114]  -- lfs.customtransfer.<n>.path|args|…
        && (last = [112,97,116,104] || last = [97,114,103,115] || last = [99,111,110,99,117,114,114,101,110,116] || last = [100,105,114,101,99,116,105,111,110])))
  || (first = sLfs && parts[1]! = sExtension && (last = sClean || last = sSmudge || last = sPriority))
  || (first = sLfs && (last = [115,116,97,110,100,97,108,111,110,101,116,114,97,110,115,102,101,114,97,103,101,110,116]  -- lfs.standalonetransferagent
        || last = [115,115,104,116,114,97,110,115,102,101,114]))                           -- lfs.*.sshtransfer

theorem safeKeys_not_dangerous : ∀ k ∈ Gen.safeKeys, dangerous k = false := by decide

/-! ### the property -/

/-- Reading a source flagged `OnlySafeKeys` (that is what every `.lfsconfig` location is): the value
    map only grows by keys of the documented list, whatever the lines are. -/
theorem stored_keys_documented (lines : List Bytes) (st : State) :
    ∃ add : List (Bytes × Bytes),
      (readSource Gen.safeKeys st ⟨lines, true⟩).vals = st.vals ++ add ∧
      ∀ kv ∈ add, Documented Gen.safeKeys kv.1 := by
  have := foldl_safe Gen.safeKeys lines st
  exact this.2

/-- … and it can never register a filter extension -/
theorem no_extension_from_lfsconfig (lines : List Bytes) (st : State) :
    (readSource Gen.safeKeys st ⟨lines, true⟩).exts = st.exts :=
  (foldl_safe Gen.safeKeys lines st).1

/-- … for the whole run, wherever the `.lfsconfig` sources stand among Git's own: the extension table is the one
    the trusted sources alone produce (a priority of `.lfsconfig` orders entries, it adds none) -/
theorem extensions_come_from_git_config (srcs : List Source) :
    (readGitConfig Gen.safeKeys srcs).exts
      = (readGitConfig Gen.safeKeys (srcs.filter fun s => !s.onlySafe)).exts :=
  exts_of_trusted_sources_only Gen.safeKeys srcs {} {} rfl

/-- no documented key is in a dangerous family: program execution, credential helper, proxy, ssh
    command, transfer agent, filter extension, rewriting a remote's URL -/
theorem documented_not_dangerous (key : Bytes) (h : Documented Gen.safeKeys key) : dangerous key = false := by
  rcases h with h | h | h
  · exact safeKeys_not_dangerous key h
  · simp only at h
    obtain ⟨_, h0, hl⟩ := h
    unfold dangerous
    simp only [h0, hl]
    generalize (splitOn 46 key [])[1]! = x
    simp [sLfs, sAccess, sRemote, sClean, sSmudge, sPriority]
  · simp only at h
    obtain ⟨_, h0, hl⟩ := h
    unfold dangerous
    simp only [h0, hl]
    generalize (splitOn 46 key [])[1]! = x
    simp [sLfs, sLfsurl, sRemote, sClean, sSmudge, sPriority]

theorem dangerous_never_stored (lines : List Bytes) (st : State) (kv : Bytes × Bytes)
    (hd : dangerous kv.1 = true)
    (h : kv ∈ (readSource Gen.safeKeys st ⟨lines, true⟩).vals) : kv ∈ st.vals := by
  obtain ⟨add, hv, hdoc⟩ := stored_keys_documented lines st
  rw [hv] at h
  rcases List.mem_append.mp h with h | h
  · exact h
  · have := documented_not_dangerous kv.1 (hdoc kv h)
    rw [this] at hd; cases hd

/-- Git's own configuration wins: with the sources in the order the code uses
    ([.lfsconfig, git config]) a key that git config sets has git config's (last) value. -/
theorem git_config_wins (lfsconfig gitconfig : Source) (key : Bytes) (v : Bytes)
    (h : Cfg.get (readSource Gen.safeKeys {} gitconfig) key = some v) :
    Cfg.get (readGitConfig Gen.safeKeys [lfsconfig, gitconfig]) key = some v := by
  unfold readGitConfig
  simp only [List.foldl_cons, List.foldl_nil]
  obtain ⟨add, _, hall⟩ := readSource_vals_append Gen.safeKeys gitconfig {}
  have h1 := hall {}
  have h2 := hall (readSource Gen.safeKeys {} lfsconfig)
  unfold Cfg.get at h ⊢
  rw [h1] at h
  rw [h2]
  simp only [List.nil_append] at h
  have hne : add.filter (fun kv => decide (kv.1 = key)) ≠ [] := by
    intro he; rw [he] at h; simp at h
  rw [getLast?_filter_append _ _ _ hne]
  exact h

/-- non-vacuity: a hostile .lfsconfig whose every key is dropped (the extension priority silently: it orders,
    it is neither stored nor does it register anything), next to one documented key that is kept -/
example : (readSource Gen.safeKeys {} ⟨[[108,102,115,46,117,114,108,61,104,116,116,112,58,47,47,97], [99,111,114,101,46,97,115,107,112,97,115,115,61,47,120], [108,102,115,46,101,120,116,101,110,115,105,111,110,46,101,46,99,108,101,97,110,61,47,120],
      [108,102,115,46,101,120,116,101,110,115,105,111,110,46,101,46,112,114,105,111,114,105,116,121,61,48], [114,101,109,111,116,101,46,97,46,98,46,112,117,115,104,117,114,108,61,104,116,116,112,58,47,47,101,118,105,108], [99,114,101,100,101,110,116,105,97,108,46,104,101,108,112,101,114,61,47,120], [102,111,111,46,98,97,114,46,97,99,99,101,115,115,61,98,97,115,105,99],
      [108,102,115,46,104,116,116,112,58,47,47,104,47,46,97,99,99,101,115,115,61,98,97,115,105,99], [114,101,109,111,116,101,46,111,46,108,102,115,117,114,108,61,104,116,116,112,58,47,47,98]], true⟩) =
    { vals := [([108,102,115,46,117,114,108], [104,116,116,112,58,47,47,97]), ([108,102,115,46,104,116,116,112,58,47,47,104,47,46,97,99,99,101,115,115], [98,97,115,105,99]), ([114,101,109,111,116,101,46,111,46,108,102,115,117,114,108], [104,116,116,112,58,47,47,98])],
      exts := [], remotes := [[111]],
      ignored := [[99,111,114,101,46,97,115,107,112,97,115,115], [108,102,115,46,101,120,116,101,110,115,105,111,110,46,101,46,99,108,101,97,110], [114,101,109,111,116,101,46,97,46,98,46,112,117,115,104,117,114,108],
                  [99,114,101,100,101,110,116,105,97,108,46,104,101,108,112,101,114], [102,111,111,46,98,97,114,46,97,99,99,101,115,115]] } := by decide

/-! ### the consumer side: which keys tq.configureCustomAdapters turns into a program to run -/

/-- the pattern as it stands in tq/custom.go (regenerated): anchored at both ends, dots escaped -/
theorem gen_adapter_pattern_anchored :
    Gen.customAdapterKeyPattern =
      [94, 108, 102, 115, 92, 46, 99, 117, 115, 116, 111, 109, 116, 114, 97, 110, 115, 102, 101, 114, 92, 46,
       40, 91, 94, 46, 93, 43, 41, 92, 46, 112, 97, 116, 104, 36] := by decide

def sCustomtransfer : Bytes := [99, 117, 115, 116, 111, 109, 116, 114, 97, 110, 115, 102, 101, 114]
def sPath : Bytes := [112, 97, 116, 104]

/-- what that anchored pattern accepts: exactly `lfs.customtransfer.<name without a dot>.path` -/
def isAdapterPathKey (key : Bytes) : Bool :=
  let parts := splitOn 46 key []
  parts.length == 4 && parts[0]! == sLfs && parts[1]! == sCustomtransfer && !(parts[2]!).isEmpty && parts[3]! == sPath

theorem getLast_of_len4 (l : List Bytes) (h : l.length = 4) : l.getLast! = l[3]! := by
  match l, h with
  | [_, _, _, _], _ => rfl

theorem safeKeys_name_no_adapter : ∀ k ∈ Gen.safeKeys, isAdapterPathKey k = false := by decide

/-- NO key that `.lfsconfig` can get stored names a transfer agent: the keys that ride on the documented
    patterns `lfs.<url>.access` and `remote.<name>.lfsurl` end in `access` / `lfsurl`, not in `path` -/
theorem documented_never_names_an_adapter (key : Bytes) (h : Documented Gen.safeKeys key) :
    isAdapterPathKey key = false := by
  rcases h with h | h | h
  · exact safeKeys_name_no_adapter key h
  · simp only at h
    obtain ⟨_, _, hl⟩ := h
    unfold isAdapterPathKey
    simp only
    by_cases h4 : (splitOn 46 key []).length = 4
    · rw [getLast_of_len4 _ h4] at hl
      simp [hl, sAccess, sPath]
    · simp [h4]
  · simp only at h
    obtain ⟨_, _, hl⟩ := h
    unfold isAdapterPathKey
    simp only
    by_cases h4 : (splitOn 46 key []).length = 4
    · rw [getLast_of_len4 _ h4] at hl
      simp [hl, sLfsurl, sPath]
    · simp [h4]

/-- the un-anchored reading of the same text (the defect D38): the key rides on `lfs.<url>.access` -/
example : Documented Gen.safeKeys
    [108,102,115,46,99,117,115,116,111,109,116,114,97,110,115,102,101,114,46,120,46,112,97,116,104,46,97,99,99,101,115,115] := by
  right; left; decide

/-- … also when Git's value is the EMPTY string — the way a user cancels a setting the repository
    supplies: the lookup returns it, not an earlier non-empty value -/
theorem git_config_empty_value_wins (lfsconfig gitconfig : Source) (key : Bytes)
    (h : Cfg.get (readSource Gen.safeKeys {} gitconfig) key = some []) :
    Cfg.get (readGitConfig Gen.safeKeys [lfsconfig, gitconfig]) key = some [] :=
  git_config_wins lfsconfig gitconfig key [] h

/-- an EMPTY configuration file (whose `git config -l -f` output is nothing, read as one empty line) contributes
    no key, no value and no "ignored unsafe key" — in particular not the key `""` with the value true
    (the repair of D67 first read it that way) -/
theorem empty_file_contributes_nothing (safeKeys : List Cfg.Bytes) (os : Bool) (st : Cfg.State) :
    Cfg.readSource safeKeys st ⟨[[]], os⟩ = st := by
  simp [Cfg.readSource, Cfg.stepLine]

/-! ties to config/git_fetcher.go (readGitConfig) as it is in /repo now -/
set_option maxRecDepth 100000 in
/-- a key of a safe-only source is let through without the allow-list in exactly three places: the priority of
    an extension, a key of the `remote` section (after the guard below), and a key whose FIRST component is `lfs`
    and whose LAST component is `access` (the wild card lfs.<url>.access, tested on the components, not by a
    pattern over the text) -/
theorem gen_keys_let_through :
    Gen.allowedAssignments =
      [
       -- true | len(parts) == 4 && parts[0] == "lfs" && parts[1] == "extension" && case "priority"
       [116, 114, 117, 101, 32, 124, 32, 108, 101, 110, 40, 112, 97, 114, 116, 115, 41, 32, 61, 61, 32, 52, 32, 38, 38, 32, 112, 97, 114, 116, 115, 91, 48, 93, 32, 61, 61, 32, 34, 108, 102, 115, 34, 32, 38, 38, 32, 112, 97, 114, 116, 115, 91, 49, 93, 32, 61, 61, 32, 34, 101, 120, 116, 101, 110, 115, 105, 111, 110, 34, 32, 38, 38, 32, 99, 97, 115, 101, 32, 34, 112, 114, 105, 111, 114, 105, 116, 121, 34],
       -- true | !(len(parts) == 4 && parts[0] == "lfs" && parts[1] == "extension") && len(parts) > 1 && parts[0] == "remote"
       [116, 114, 117, 101, 32, 124, 32, 33, 40, 108, 101, 110, 40, 112, 97, 114, 116, 115, 41, 32, 61, 61, 32, 52, 32, 38, 38, 32, 112, 97, 114, 116, 115, 91, 48, 93, 32, 61, 61, 32, 34, 108, 102, 115, 34, 32, 38, 38, 32, 112, 97, 114, 116, 115, 91, 49, 93, 32, 61, 61, 32, 34, 101, 120, 116, 101, 110, 115, 105, 111, 110, 34, 41, 32, 38, 38, 32, 108, 101, 110, 40, 112, 97, 114, 116, 115, 41, 32, 62, 32, 49, 32, 38, 38, 32, 112, 97, 114, 116, 115, 91, 48, 93, 32, 61, 61, 32, 34, 114, 101, 109, 111, 116, 101, 34],
       -- true | !(len(parts) == 4 && parts[0] == "lfs" && parts[1] == "extension") && !(len(parts) > 1 && parts[0] == "remote") && len(parts) > 2 && parts[0] == "lfs" && parts[len(parts)-1] == "access"
       [116, 114, 117, 101, 32, 124, 32, 33, 40, 108, 101, 110, 40, 112, 97, 114, 116, 115, 41, 32, 61, 61, 32, 52, 32, 38, 38, 32, 112, 97, 114, 116, 115, 91, 48, 93, 32, 61, 61, 32, 34, 108, 102, 115, 34, 32, 38, 38, 32, 112, 97, 114, 116, 115, 91, 49, 93, 32, 61, 61, 32, 34, 101, 120, 116, 101, 110, 115, 105, 111, 110, 34, 41, 32, 38, 38, 32, 33, 40, 108, 101, 110, 40, 112, 97, 114, 116, 115, 41, 32, 62, 32, 49, 32, 38, 38, 32, 112, 97, 114, 116, 115, 91, 48, 93, 32, 61, 61, 32, 34, 114, 101, 109, 111, 116, 101, 34, 41, 32, 38, 38, 32, 108, 101, 110, 40, 112, 97, 114, 116, 115, 41, 32, 62, 32, 50, 32, 38, 38, 32, 112, 97, 114, 116, 115, 91, 48, 93, 32, 61, 61, 32, 34, 108, 102, 115, 34, 32, 38, 38, 32, 112, 97, 114, 116, 115, 91, 108, 101, 110, 40, 112, 97, 114, 116, 115, 41, 45, 49, 93, 32, 61, 61, 32, 34, 97, 99, 99, 101, 115, 115, 34]
      ]
      := by decide

set_option maxRecDepth 100000 in
/-- and a key is reported as ignored in exactly these places: extension keys of a safe-only source other than a
    priority (which orders the extensions Git's own configuration defines and is not stored), `remote`
    keys other than remote.<name>.lfsurl, and whatever is not let through and not on the allow-list -/
theorem gen_keys_ignored :
    Gen.ignoredAssignments =
      [
       -- append(ignored, key) | len(parts) == 4 && parts[0] == "lfs" && parts[1] == "extension" && gc.OnlySafeKeys && prop != "priority"
       [97, 112, 112, 101, 110, 100, 40, 105, 103, 110, 111, 114, 101, 100, 44, 32, 107, 101, 121, 41, 32, 124, 32, 108, 101, 110, 40, 112, 97, 114, 116, 115, 41, 32, 61, 61, 32, 52, 32, 38, 38, 32, 112, 97, 114, 116, 115, 91, 48, 93, 32, 61, 61, 32, 34, 108, 102, 115, 34, 32, 38, 38, 32, 112, 97, 114, 116, 115, 91, 49, 93, 32, 61, 61, 32, 34, 101, 120, 116, 101, 110, 115, 105, 111, 110, 34, 32, 38, 38, 32, 103, 99, 46, 79, 110, 108, 121, 83, 97, 102, 101, 75, 101, 121, 115, 32, 38, 38, 32, 112, 114, 111, 112, 32, 33, 61, 32, 34, 112, 114, 105, 111, 114, 105, 116, 121, 34],
       -- append(ignored, key) | len(parts) == 4 && parts[0] == "lfs" && parts[1] == "extension" && case "clean" && gc.OnlySafeKeys
       [97, 112, 112, 101, 110, 100, 40, 105, 103, 110, 111, 114, 101, 100, 44, 32, 107, 101, 121, 41, 32, 124, 32, 108, 101, 110, 40, 112, 97, 114, 116, 115, 41, 32, 61, 61, 32, 52, 32, 38, 38, 32, 112, 97, 114, 116, 115, 91, 48, 93, 32, 61, 61, 32, 34, 108, 102, 115, 34, 32, 38, 38, 32, 112, 97, 114, 116, 115, 91, 49, 93, 32, 61, 61, 32, 34, 101, 120, 116, 101, 110, 115, 105, 111, 110, 34, 32, 38, 38, 32, 99, 97, 115, 101, 32, 34, 99, 108, 101, 97, 110, 34, 32, 38, 38, 32, 103, 99, 46, 79, 110, 108, 121, 83, 97, 102, 101, 75, 101, 121, 115],
       -- append(ignored, key) | len(parts) == 4 && parts[0] == "lfs" && parts[1] == "extension" && case "smudge" && gc.OnlySafeKeys
       [97, 112, 112, 101, 110, 100, 40, 105, 103, 110, 111, 114, 101, 100, 44, 32, 107, 101, 121, 41, 32, 124, 32, 108, 101, 110, 40, 112, 97, 114, 116, 115, 41, 32, 61, 61, 32, 52, 32, 38, 38, 32, 112, 97, 114, 116, 115, 91, 48, 93, 32, 61, 61, 32, 34, 108, 102, 115, 34, 32, 38, 38, 32, 112, 97, 114, 116, 115, 91, 49, 93, 32, 61, 61, 32, 34, 101, 120, 116, 101, 110, 115, 105, 111, 110, 34, 32, 38, 38, 32, 99, 97, 115, 101, 32, 34, 115, 109, 117, 100, 103, 101, 34, 32, 38, 38, 32, 103, 99, 46, 79, 110, 108, 121, 83, 97, 102, 101, 75, 101, 121, 115],
       -- append(ignored, key) | !(len(parts) == 4 && parts[0] == "lfs" && parts[1] == "extension") && len(parts) > 1 && parts[0] == "remote" && gc.OnlySafeKeys && (len(parts) < 3 || parts[len(parts)-1] != "lfsurl")
       [97, 112, 112, 101, 110, 100, 40, 105, 103, 110, 111, 114, 101, 100, 44, 32, 107, 101, 121, 41, 32, 124, 32, 33, 40, 108, 101, 110, 40, 112, 97, 114, 116, 115, 41, 32, 61, 61, 32, 52, 32, 38, 38, 32, 112, 97, 114, 116, 115, 91, 48, 93, 32, 61, 61, 32, 34, 108, 102, 115, 34, 32, 38, 38, 32, 112, 97, 114, 116, 115, 91, 49, 93, 32, 61, 61, 32, 34, 101, 120, 116, 101, 110, 115, 105, 111, 110, 34, 41, 32, 38, 38, 32, 108, 101, 110, 40, 112, 97, 114, 116, 115, 41, 32, 62, 32, 49, 32, 38, 38, 32, 112, 97, 114, 116, 115, 91, 48, 93, 32, 61, 61, 32, 34, 114, 101, 109, 111, 116, 101, 34, 32, 38, 38, 32, 103, 99, 46, 79, 110, 108, 121, 83, 97, 102, 101, 75, 101, 121, 115, 32, 38, 38, 32, 40, 108, 101, 110, 40, 112, 97, 114, 116, 115, 41, 32, 60, 32, 51, 32, 124, 124, 32, 112, 97, 114, 116, 115, 91, 108, 101, 110, 40, 112, 97, 114, 116, 115, 41, 45, 49, 93, 32, 33, 61, 32, 34, 108, 102, 115, 117, 114, 108, 34, 41],
       -- append(ignored, key) | !allowed && keyIsUnsafe(key)
       [97, 112, 112, 101, 110, 100, 40, 105, 103, 110, 111, 114, 101, 100, 44, 32, 107, 101, 121, 41, 32, 124, 32, 33, 97, 108, 108, 111, 119, 101, 100, 32, 38, 38, 32, 107, 101, 121, 73, 115, 85, 110, 115, 97, 102, 101, 40, 107, 101, 121, 41]
      ]
      := by decide

set_option maxRecDepth 100000 in
/-- an extension is DEFINED only by a source that is not safe-only; a priority read from .lfsconfig goes into the
    table entry of that name, and the names no trusted source defined are deleted from the table at the end:
    `.lfsconfig` orders extensions, it never registers one (Cfg.decide: `.skip` for the priority, `.ignore` for
    every other extension key of a safe-only source) -/
theorem gen_extension_definitions :
    Gen.extensionDefinitions =
      [
       -- true | len(parts) == 4 && parts[0] == "lfs" && parts[1] == "extension" && !gc.OnlySafeKeys
       [116, 114, 117, 101, 32, 124, 32, 108, 101, 110, 40, 112, 97, 114, 116, 115, 41, 32, 61, 61, 32, 52, 32, 38, 38, 32, 112, 97, 114, 116, 115, 91, 48, 93, 32, 61, 61, 32, 34, 108, 102, 115, 34, 32, 38, 38, 32, 112, 97, 114, 116, 115, 91, 49, 93, 32, 61, 61, 32, 34, 101, 120, 116, 101, 110, 115, 105, 111, 110, 34, 32, 38, 38, 32, 33, 103, 99, 46, 79, 110, 108, 121, 83, 97, 102, 101, 75, 101, 121, 115],
       -- ext | len(parts) == 4 && parts[0] == "lfs" && parts[1] == "extension"
       [101, 120, 116, 32, 124, 32, 108, 101, 110, 40, 112, 97, 114, 116, 115, 41, 32, 61, 61, 32, 52, 32, 38, 38, 32, 112, 97, 114, 116, 115, 91, 48, 93, 32, 61, 61, 32, 34, 108, 102, 115, 34, 32, 38, 38, 32, 112, 97, 114, 116, 115, 91, 49, 93, 32, 61, 61, 32, 34, 101, 120, 116, 101, 110, 115, 105, 111, 110, 34],
       -- extensions, name | !definedByGit[name]
       [101, 120, 116, 101, 110, 115, 105, 111, 110, 115, 44, 32, 110, 97, 109, 101, 32, 124, 32, 33, 100, 101, 102, 105, 110, 101, 100, 66, 121, 71, 105, 116, 91, 110, 97, 109, 101, 93]
      ]
      := by decide

end C11
