/-
C17 — Credential values cannot inject lines into the git-credential protocol.
Property theorems only (obligations of ./check C17).
-/
import LfsModel.Gen
import LfsModel.Creds

namespace C17
open Cr

/-- the exchange is refused exactly when some value contains LF or NUL, or CR under protection -/
theorem reject_iff (protect : Bool) (c : Creds) :
    buffer protect c = none ↔ ∃ kv ∈ pairs c, kv.2.contains 10 ∨ (protect = true ∧ kv.2.contains 13) ∨ kv.2.contains 0 :=
  Cr.reject_iff protect c

/-- otherwise the helper reads back the two capability lines and exactly the supplied pairs, in
    order — no line more, none less, none altered (keys are attribute names: no `=`, no LF) -/
theorem parse_buffer (protect : Bool) (c : Creds) (out : Bytes)
    (hk : ∀ kv ∈ pairs c, (61 : UInt8) ∉ kv.1 ∧ (10 : UInt8) ∉ kv.1)
    (h : buffer protect c = some out) :
    parse out = some ([99,97,112,97,98,105,108,105,116,121,91,93], [97,117,116,104,116,121,112,101])
              :: some ([99,97,112,97,98,105,108,105,116,121,91,93], [115,116,97,116,101])
              :: (pairs c).map some :=
  Cr.parse_buffer protect c out hk h

/-- the number of protocol lines is 2 + the number of supplied values: nothing can add a line -/
theorem line_count (protect : Bool) (c : Creds) (out : Bytes)
    (hk : ∀ kv ∈ pairs c, (61 : UInt8) ∉ kv.1 ∧ (10 : UInt8) ∉ kv.1)
    (h : buffer protect c = some out) : (parse out).length = 2 + (pairs c).length := by
  rw [parse_buffer protect c out hk h]; simp; omega

/-- protection is on unless configured otherwise (regenerated from creds/creds.go) -/
theorem default_protect_true : Gen.credProtectProtocolDefault = true := by decide

/-- the attribute names git-lfs itself uses as keys contain neither `=` nor LF -/
theorem input_keys_safe : ∀ k ∈ Gen.credInputKeys, (61 : UInt8) ∉ k ∧ (10 : UInt8) ∉ k := by decide

/-- protection follows the URL being authenticated, not the history of the shared helper: after any
    sequence of earlier exchanges on the same context (other hosts with protection switched off …),
    `GetCredentialHelper(url)` followed by a fill refuses exactly what `url`'s setting demands -/
theorem protection_follows_current_url (f0 : Bool) (hist : List CtxOp) (cfg : Option Bool) (c : Creds) :
    (ctxRun Gen.credProtectProtocolDefault f0 (hist ++ [.get cfg, .fill c])).getLast?
      = some (buffer (cfg.getD Gen.credProtectProtocolDefault) c) :=
  Cr.fill_after_get _ f0 hist cfg c

/-- … in particular a CR-bearing value is refused on a protected URL even right after an
    unprotected one was served on the same context -/
theorem cr_refused_after_unprotected_url (c0 c : Creds) (h : ∃ kv ∈ pairs c, kv.2.contains 13) :
    (ctxRun Gen.credProtectProtocolDefault true [.get (some false), .fill c0, .get none, .fill c]).getLast? = some none := by
  have := protection_follows_current_url true [.get (some false), .fill c0] none c
  simp only [List.cons_append, List.nil_append] at this
  rw [this]
  have hd : Gen.credProtectProtocolDefault = true := by decide
  simp only [Option.getD_none, hd]
  congr 1
  rw [Cr.reject_iff]
  obtain ⟨kv, hm, hc⟩ := h
  exact ⟨kv, hm, Or.inr (Or.inl ⟨rfl, hc⟩)⟩

/-- non-vacuity: a clean two-key map is accepted; the same map with an LF in the host is refused -/
example : (buffer true [([104], [[97, 98]]), ([112], [[120]])]).isSome = true := by decide
example : buffer true [([104], [[97, 10, 98]])] = none := by decide

/-- tie to creds/creds.go: URL-scoped credential settings (protectProtocol among them) are looked up with scheme, host and the ESCAPED path of the URL being served -/
theorem gen_credential_settings_url :
    Gen.credConfigURL =
      [
       -- "%s://%s%s", u.Scheme, u.Host, u.EscapedPath() | 
       [34, 37, 115, 58, 47, 47, 37, 115, 37, 115, 34, 44, 32, 117, 46, 83, 99, 104, 101, 109, 101, 44, 32, 117, 46, 72, 111, 115, 116, 44, 32, 117, 46, 69, 115, 99, 97, 112, 101, 100, 80, 97, 116, 104, 40, 41, 32, 124, 32]
      ] := by decide

end C17
