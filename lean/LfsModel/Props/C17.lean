/-
C17 — Credential values cannot inject lines into the git-credential protocol.
Property theorems only (obligations of ./check C17).
-/
import LfsModel.Gen
import LfsModel.Creds

namespace C17
open Cr

/-- the exchange is refused exactly when some value contains LF or NUL, or CR under protection -/
theorem reject_iff (protect : Bool) (c : Creds) :
    buffer protect c = none ↔ ∃ kv ∈ pairs c, kv.2.contains 10 ∨ (protect = true ∧ kv.2.contains 13) ∨ kv.2.contains 0 :=
  Cr.reject_iff protect c

/-- otherwise the helper reads back the two capability lines and exactly the supplied pairs, in
    order — no line more, none less, none altered (keys are attribute names: no `=`, no LF) -/
theorem parse_buffer (protect : Bool) (c : Creds) (out : Bytes)
    (hk : ∀ kv ∈ pairs c, (61 : UInt8) ∉ kv.1 ∧ (10 : UInt8) ∉ kv.1)
    (h : buffer protect c = some out) :
    parse out = some ([99,97,112,97,98,105,108,105,116,121,91,93], [97,117,116,104,116,121,112,101])
              :: some ([99,97,112,97,98,105,108,105,116,121,91,93], [115,116,97,116,101])
              :: (pairs c).map some :=
  Cr.parse_buffer protect c out hk h

/-- the number of protocol lines is 2 + the number of supplied values: nothing can add a line -/
theorem line_count (protect : Bool) (c : Creds) (out : Bytes)
    (hk : ∀ kv ∈ pairs c, (61 : UInt8) ∉ kv.1 ∧ (10 : UInt8) ∉ kv.1)
    (h : buffer protect c = some out) : (parse out).length = 2 + (pairs c).length := by
  rw [parse_buffer protect c out hk h]; simp; omega

/-- protection is on unless configured otherwise (regenerated from creds/creds.go) -/
theorem default_protect_true : Gen.credProtectProtocolDefault = true := by decide

/-- the attribute names git-lfs itself uses as keys contain neither `=` nor LF -/
theorem input_keys_safe : ∀ k ∈ Gen.credInputKeys, (61 : UInt8) ∉ k ∧ (10 : UInt8) ∉ k := by decide

/-- non-vacuity: a clean two-key map is accepted; the same map with an LF in the host is refused -/
example : (buffer true [([104], [[97, 98]]), ([112], [[120]])]).isSome = true := by decide
example : buffer true [([104], [[97, 10, 98]])] = none := by decide

end C17
