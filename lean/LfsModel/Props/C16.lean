/-
C16 — File locks: others' locks block pushes, write bits and cache follow the server.
Property theorems only (obligations of ./check C16).
-/
import LfsModel.Gen
import LfsModel.Locks
import LfsModel.PostCommit

namespace C16
open Lk

/-! ### (c) the unlock guard -/

/-- without --force, unlocking a file with uncommitted changes changes nothing — neither the server's
    table nor the cache — by path and by id, whatever the server would answer -/
theorem unlock_guard_by_path (s : St) (p : Nat) (srv : Srv) :
    step s (.unlockPath p false true srv) = s := by simp [step, doUnlockPath]
theorem unlock_guard_by_id (s : St) (i : Nat) (srv : Srv) :
    step s (.unlockId i false true srv) = s := by simp [step, doUnlockId]

/-- without --force nobody else's lock is ever released by this client -/
theorem unlock_without_force_keeps_theirs (s : St) (i : Nat) (m : Bool) (srv : Srv) (l : Lock)
    (hl : l ∈ s.table) (ho : l.owner ≠ me) : l ∈ (step s (.unlockId i false m srv)).table := by
  simp only [step, doUnlockId]
  split
  · exact hl
  · cases srv with
    | refuse => exact hl
    | ok =>
      simp only [serverUnlock]
      cases hb : byId s.table i with
      | none => exact hl
      | some l' =>
        by_cases hown : (l'.owner == me) = true
        · simp only [hown, Bool.true_or, if_true]
          have hne : l ≠ l' := by
            intro h; subst h
            exact ho (by simpa using hown)
          exact (List.mem_erase_of_ne hne).mpr hl
        · simp only [hown, Bool.false_or, Bool.false_eq_true, if_false]; exact hl

/-! ### (b) the cache follows the server -/

/-- every lock the server holds for this user is cached -/
def OwnCached (s : St) : Prop := ∀ l ∈ s.table, l.owner = me → l ∈ s.cache

/-- `OwnCached` is kept by every operation, for every server answer, provided lock ids are unique
    in the table (the server's job) -/
theorem step_ownCached (s : St) (op : Op) (h : OwnCached s)
    (hnd : s.table.Nodup)
    (huniq : ∀ a ∈ s.table, ∀ b ∈ s.table, a.id = b.id → a = b) : OwnCached (step s op) := by
  have unlockId : ∀ (i : Nat) (f m : Bool) (srv : Srv), OwnCached (doUnlockId s i f m srv) := by
    intro i f m srv
    simp only [doUnlockId]
    split
    · exact h
    · cases srv with
      | refuse => exact h
      | ok =>
        simp only [serverUnlock]
        cases hb : byId s.table i with
        | none => exact h
        | some l' =>
          have hl'mem : l' ∈ s.table := List.mem_of_find?_eq_some hb
          have hl'id : l'.id = i := by have := List.find?_some hb; simpa using this
          by_cases hc : (l'.owner == me || f) = true
          · simp only [hc, if_true]
            intro l hl ho
            have hl2 : l ≠ l' ∧ l ∈ s.table := (List.Nodup.mem_erase_iff hnd).mp hl
            have hne : l.id ≠ i := by
              intro hid
              exact hl2.1 (huniq l hl2.2 l' hl'mem (by rw [hid, hl'id]))
            simp only [List.mem_filter, bne_iff_ne, ne_eq]
            exact ⟨h l hl2.2 ho, by simpa using hne⟩
          · simp only [hc, if_false]; exact h
  cases op with
  | lock p srv =>
    simp only [step, doLock]
    split
    · intro l hl ho
      simp only [List.mem_append, List.mem_singleton] at hl ⊢
      rcases hl with hl | hl
      · exact Or.inl (h l hl ho)
      · exact Or.inr hl
    · exact h
  | unlockPath p f m srv =>
    simp only [step, doUnlockPath]
    split
    · exact h
    · split
      · exact unlockId _ _ _ _
      · exact h
  | unlockId i f m srv => exact unlockId i f m srv
  | verify srv =>
    simp only [step, doVerify]
    cases srv with
    | refuse => exact h
    | ok => intro l hl _; exact hl
  | otherLock p who =>
    simp only [step]
    split
    · exact h
    · intro l hl ho
      simp only [List.mem_append, List.mem_singleton] at hl
      rcases hl with hl | hl
      · exact h l hl ho
      · subst hl; simp_all
  | otherUnlock p =>
    simp only [step]
    split
    · split
      · intro l hl ho; exact h l (List.mem_of_mem_erase hl) ho
      · exact h
    · exact h

/-- the cache lists only locks the server holds for this user -/
def CacheOwn (s : St) : Prop := ∀ x ∈ s.cache, x ∈ s.table ∧ x.owner = me

def isVerify : Op → Bool
  | .verify _ => true
  | _ => false

/-- … and that is kept by every operation except a lock verification (which also caches the other
    users' locks: D13, pinned by TestRefreshCache) -/
theorem step_cacheOwn (s : St) (op : Op) (h : CacheOwn s) (hv : isVerify op = false) : CacheOwn (step s op) := by
  have unlockId : ∀ (i : Nat) (f m : Bool) (srv : Srv), CacheOwn (doUnlockId s i f m srv) := by
    intro i f m srv
    simp only [doUnlockId]
    split
    · exact h
    · cases srv with
      | refuse => exact h
      | ok =>
        simp only [serverUnlock]
        cases hb : byId s.table i with
        | none => exact h
        | some l' =>
          have hl'id : l'.id = i := by have := List.find?_some hb; simpa using this
          by_cases hc : (l'.owner == me || f) = true
          · simp only [hc, if_true]
            intro x hx
            simp only [List.mem_filter, bne_iff_ne, ne_eq] at hx
            have hne : x ≠ l' := by intro he; subst he; exact hx.2 hl'id
            exact ⟨(List.mem_erase_of_ne hne).mpr (h x hx.1).1, (h x hx.1).2⟩
          · simp only [hc, if_false]; exact h
  cases op with
  | lock p srv =>
    simp only [step, doLock]
    split
    · intro x hx
      simp only [List.mem_append, List.mem_singleton] at hx ⊢
      rcases hx with hx | hx
      · exact ⟨Or.inl (h x hx).1, (h x hx).2⟩
      · subst hx; exact ⟨Or.inr rfl, rfl⟩
    · exact h
  | unlockPath p f m srv =>
    simp only [step, doUnlockPath]
    split
    · exact h
    · split
      · exact unlockId _ _ _ _
      · exact h
  | unlockId i f m srv => exact unlockId i f m srv
  | verify srv => simp [isVerify] at hv
  | otherLock p who =>
    simp only [step]
    split
    · exact h
    · intro x hx; exact ⟨List.mem_append_left _ (h x hx).1, (h x hx).2⟩
  | otherUnlock p =>
    simp only [step]
    split
    · rename_i l _
      split
      · rename_i ho
        intro x hx
        have hne : x ≠ l := by
          intro he; subst he
          have := (h x hx).2
          simp [this] at ho
        exact ⟨(List.mem_erase_of_ne hne).mpr (h x hx).1, (h x hx).2⟩
      · exact h
    · exact h

/-- write bits: a lockable file whose lock this user holds is made writable by every flag fix … -/
theorem holder_is_writable (s : St) (h : OwnCached s) (l : Lock) (hl : l ∈ s.table) (ho : l.owner = me) :
    writableAfterFix s.cache l.path = true := by
  simp only [writableAfterFix, List.any_eq_true]
  exact ⟨l, h l hl ho, by simp⟩

/-- … and (as long as no verification polluted the cache) only such files are -/
theorem writable_only_if_holder (s : St) (h : CacheOwn s) (p : Nat) (hw : writableAfterFix s.cache p = true) :
    ∃ l ∈ s.table, l.path = p ∧ l.owner = me := by
  simp only [writableAfterFix, List.any_eq_true] at hw
  obtain ⟨l, hl, hp⟩ := hw
  exact ⟨l, (h l hl).1, by simpa using hp, (h l hl).2⟩

/-- the D13 counterexample: after a verification the cache holds another user's lock and a flag fix
    makes that user's file writable -/
theorem verify_caches_theirs :
    let s : St := { table := [⟨1, 7, 5⟩], cache := [], nextId := 2 }
    writableAfterFix (step s (.verify .ok)).cache 7 = true := by decide

/-! ### (a) the push gate -/

/-- with verification enabled a push that touches a path locked by another user is rejected … -/
theorem theirs_blocks_push (t : Table) (touched : List Nat) (l : Lock) (hl : l ∈ t) (ho : l.owner ≠ me)
    (ht : l.path ∈ touched) : pushRejected true t touched = true := by
  simp only [pushRejected, Bool.true_and, List.any_eq_true]
  refine ⟨l.path, ht, l, ?_, by simp⟩
  simp [theirs, List.mem_filter, hl, ho]

/-- … paths locked by the pusher (or by nobody) never block, and nothing blocks without verification -/
theorem ours_never_block (v : Bool) (t : Table) (touched : List Nat)
    (h : ∀ p ∈ touched, ∀ l ∈ t, l.path = p → l.owner = me) : pushRejected v t touched = false := by
  simp only [pushRejected, Bool.and_eq_false_iff]
  right
  simp only [List.any_eq_false]
  intro p hp
  simp only [List.any_eq_true, not_exists, not_and]
  intro l hl
  simp only [theirs, List.mem_filter, bne_iff_ne, ne_eq] at hl
  intro hpath
  exact hl.2 (h p hp l hl.1 (by simpa using hpath))
theorem disabled_never_blocks (t : Table) (touched : List Nat) : pushRejected false t touched = false := by
  simp [pushRejected]

/-- non-vacuity: lock, edit, guarded unlock, then a clean unlock -/
example : (run { table := [], cache := [], nextId := 1 } [.lock 3 .ok, .unlockPath 3 false true .ok]).table = [⟨1, 3, 0⟩] := by decide
example : (run { table := [], cache := [], nextId := 1 } [.lock 3 .ok, .unlockPath 3 false false .ok]).table = [] := by decide

/-! ### the commit hook: which files it re-examines -/

/-- every file the commit adds or modifies with respect to some parent — every file of a root commit —
    is among the files whose write bit the hook sets from the lock state -/
theorem commit_hook_sees_new_files (parents : List PostCommit.Tree) (t : PostCommit.Tree) (p b : Nat) (h : (p, b) ∈ t)
    (hdiff : parents = [] ∨ ∃ par ∈ parents, PostCommit.lookup par p ≠ some b) : p ∈ PostCommit.changed parents t :=
  PostCommit.new_or_modified_is_listed parents t p b h hdiff

/-- … and only files that differ from a parent -/
theorem commit_hook_sees_only_changes (parents : List PostCommit.Tree) (hne : parents ≠ []) (t : PostCommit.Tree) (p : Nat)
    (h : p ∈ PostCommit.changed parents t) :
    ∃ par ∈ parents, PostCommit.lookup par p ≠ PostCommit.lookup t p ∨ (∃ b, (p, b) ∈ t ∧ PostCommit.lookup par p ≠ some b) :=
  PostCommit.unchanged_not_listed parents hne t p h

/-- a commit or checkout that changes an attributes file makes the hook look at EVERY file: a file that becomes lockable
    without changing itself is among them (D87) -/
theorem hook_looks_at_everything_when_attributes_change (isAttr : Nat → Bool) (all chg : List Nat) (a : Nat) (ha : a ∈ chg)
    (hattr : isAttr a = true) (f : Nat) (hf : f ∈ all) : f ∈ PostCommit.looked isAttr all chg :=
  PostCommit.attrs_change_looks_at_everything isAttr all chg a ha hattr f hf

/-! tie to commands/command_unlock.go as it is in /repo now -/
/-- the guard of `git lfs unlock --id` looks the lock up in the local cache (third argument true) and, when that
    yields nothing, asks the SERVER (third argument false): the user's own lock that this clone's cache does not
    hold still has a path, so its file's uncommitted changes still block the unlock -/
theorem gen_unlock_by_id_asks_cache_then_server :
    Gen.unlockByIdLookups =
      [[102, 105, 108, 116, 101, 114, 44, 32, 48, 44, 32, 116, 114, 117, 101, 44, 32, 102, 97, 108, 115, 101, 32, 124, 32],
        -- filter, 0, true, false | 
       [102, 105, 108, 116, 101, 114, 44, 32, 48, 44, 32, 102, 97, 108, 115, 101, 44, 32, 102, 97, 108, 115, 101, 32, 124, 32, 108, 101, 110, 40, 108, 111, 99, 107, 115, 41, 32, 61, 61, 32, 48]]
        -- filter, 0, false, false | len(locks) == 0
      := by decide

/-- tie to commands/command_post_commit.go and command_post_checkout.go: both hooks fall back on the scan of every
    lockable file when a changed path's base name is `.gitattributes` (post-checkout also when the diff fails) -/
theorem gen_hooks_full_scan_on_attribute_change :
    Gen.hookFullScans =
      [
       --  | path.Base(f) == ".gitattributes"
       [32, 124, 32, 112, 97, 116, 104, 46, 66, 97, 115, 101, 40, 102, 41, 32, 61, 61, 32, 34, 46, 103, 105, 116, 97, 116, 116, 114, 105, 98, 117, 116, 101, 115, 34],
       -- client | err != nil
       [99, 108, 105, 101, 110, 116, 32, 124, 32, 101, 114, 114, 32, 33, 61, 32, 110, 105, 108],
       -- client | path.Base(f) == ".gitattributes"
       [99, 108, 105, 101, 110, 116, 32, 124, 32, 112, 97, 116, 104, 46, 66, 97, 115, 101, 40, 102, 41, 32, 61, 61, 32, 34, 46, 103, 105, 116, 97, 116, 116, 114, 105, 98, 117, 116, 101, 115, 34]
      ] := by decide

end C16
