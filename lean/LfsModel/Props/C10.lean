/-
C10 — Credentials are only ever sent to the host they were obtained for.
Property theorems only (obligations of ./check C10).  The model (RedirectModel.lean) emits the trace
of requests the servers receive; worlds (`w`) range over ALL listener tables and ALL node graphs.
-/
import LfsModel.Gen
import LfsModel.RedirectProofs
import LfsModel.Redirect
import LfsModel.CredCache

namespace C10
open Rd2

/-! ### ties to lfshttp/client.go as it is in /repo now -/
theorem gen_redirect_limit : Gen.redirectLimit = Rd2.maxVia := by decide
/-- exactly the five redirect statuses of the property text are followed -/
theorem gen_redirect_statuses : Gen.redirectStatuses = [301, 302, 303, 307, 308] := by decide

/-- what "obtained for this place" means to the code (same scheme, same textual host) implies what
    the property means (same scheme, same host, same EFFECTIVE port) -/
theorem same_origin_is_same_place {a b : Lst} (h : sameOrigin a b = true) :
    a.scheme = b.scheme ∧ a.name = b.name ∧ a.effPort = b.effPort := sameOrigin_effective h

/-- AUTH CONFINED (API and authenticated storage requests, `DoWithAuth`): along every redirect / 401
    path, for every world, access mode and helper behaviour, a request that carries an Authorization
    value carries one obtained for exactly the place the request goes to. -/
theorem auth_confined (w : World) (canFill : Nat → Bool) (fuel : Nat) (access : Bool) (orig : Req)
    (h0 : orig.auth = none) : ∀ q ∈ runAuth w canFill fuel access orig, Confined w q :=
  runAuth_confined w canFill fuel access orig (by intro l hl; rw [h0] at hl; cases hl)

/-- … and for a storage request that starts with the header a batch action supplied for its own host
    (`Client.Do`): the header never reaches another place. -/
theorem header_confined (w : World) (orig : Req) (h0 : orig.auth = some orig.lst) :
    ∀ q ∈ runHeader w orig, Confined w q :=
  chain_confined w false (fun _ => false) (maxVia + 1) 0 orig
    (by intro l hl; rw [h0] at hl; cases hl; exact sameOrigin_refl _)

/-- consequence in the property's terms: scheme, host and effective port of label and destination agree -/
theorem auth_confined_effective (w : World) (canFill : Nat → Bool) (fuel : Nat) (access : Bool) (orig : Req)
    (h0 : orig.auth = none) (q : Req) (hq : q ∈ runAuth w canFill fuel access orig) (l : Nat) (hl : q.auth = some l) :
    (w.lst l).scheme = (w.lst q.lst).scheme ∧ (w.lst l).name = (w.lst q.lst).name ∧
    (w.lst l).effPort = (w.lst q.lst).effPort :=
  sameOrigin_effective (auth_confined w canFill fuel access orig h0 q hq l hl)

/-- redirects from https to http are refused: no chain contains such a hop -/
theorem no_https_to_http (w : World) (access : Bool) (canFill : Nat → Bool) (fuel via : Nat) (r : Req) :
    NoDowngrade w (chain w access canFill fuel via r).1 := chain_noDowngrade w access canFill fuel via r

/-- redirect chains are cut off: one chain never has more than `redirectLimit` requests -/
theorem hops_bounded (w : World) (access : Bool) (canFill : Nat → Bool) (fuel : Nat) (r : Req) :
    (chain w access canFill fuel 0 r).1.length ≤ Gen.redirectLimit := by
  have := chain_length w access canFill fuel 0 r (by decide)
  rw [gen_redirect_limit]; omega

/-! ### the refuted variants, kept as regression witnesses (Redirect.lean models the code before the
D6 / D26 repairs through its `threadVia` switch and its host-only comparison) -/
theorem d6_unthreaded_via_follows_loop :
    (Rd.run (fun _ => .redirect ⟨.http, 1⟩ 0) false false 3 20 0 0 ⟨⟨.http, 1⟩, 0, none⟩).length = 20 := by decide
theorem d26_http_to_https_keeps_header :
    Rd.retryReq ⟨⟨.http, 7⟩, 0, some ⟨.http, 7⟩⟩ ⟨.https, 7⟩ 1 = some ⟨⟨.https, 7⟩, 1, some ⟨.http, 7⟩⟩ := by decide

/-- non-vacuity: a world with a cross-host redirect behind a 401; the trace shows the value obtained
    for listener 0 going only to listener 0 and a fresh one for listener 1 going to listener 1 -/
example : runAuth { lsts := [⟨.http, 1, some 8080⟩, ⟨.https, 2, none⟩],
                    nodes := [⟨0, .needauth, 1, .abs, true⟩, ⟨1, .final, 0, .abs, false⟩] } (fun _ => true) 4 false ⟨0, 0, none, false⟩
    = [⟨0, 0, none, false⟩, ⟨0, 0, some 0, false⟩, ⟨1, 1, some 1, false⟩] := by decide

/-! ### credential source "cache" (creds/creds.go: credentialCacher) -/

/-- whatever sequence of fills, approvals and rejections a command performs on its in-process
    credential cache, every credential the cache hands out was obtained for exactly the
    (protocol, host[:port], path) it is being asked about — the cache cannot carry a credential
    from one place to another -/
theorem cache_confined (ops : List CredCache.Op) :
    ∀ o ∈ (CredCache.run [] ops).2, ∀ v, o = some v → ∃ k, v.origin = k ∧ CredCache.Op.fill k ∈ ops :=
  CredCache.run_confined ops [] CredCache.inv_nil

theorem cache_hit_is_for_the_asked_key (ops : List CredCache.Op) (k : CredCache.Key) (v : CredCache.Cred)
    (h : CredCache.fill (CredCache.run [] ops).1 k = some v) : v.origin = k :=
  CredCache.fill_confined _ k v (CredCache.run_inv ops [] CredCache.inv_nil) h

/-- a rejected credential is not offered again -/
theorem cache_reject_forgets (c : CredCache.Cache) (k : CredCache.Key) :
    CredCache.fill (CredCache.reject c k) k = none := CredCache.reject_misses c k

/-- non-vacuity: approved for port 8080, asked for port 9090 of the same host: a miss -/
example : (CredCache.run [] [.approve ⟨⟨[104], [97, 58, 56], []⟩, 7⟩, .fill ⟨[104], [97, 58, 57], []⟩, .fill ⟨[104], [97, 58, 56], []⟩]).2
    = [none, none, some ⟨⟨[104], [97, 58, 56], []⟩, 7⟩] := by decide

end C10
