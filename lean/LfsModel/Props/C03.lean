/-
C03 — A successful push leaves every referenced object on the server.
Property theorems only (obligations of ./check C03).
-/
import LfsModel.PushModel
import LfsModel.PrePush
import LfsModel.PushReport
import LfsModel.Gen

namespace C03
open Push PushM

/-- THE SET-LEVEL ARGUMENT.  If (hE) every commit excluded from the scan is reachable from the
    remote's refs as they are now, (hL) rev-list lists every object of the new commits that no
    excluded commit references, (hU) every listed object is on the server after exit 0, and (hS) the
    server only gains objects, then the server invariant extends to the pushed tip. -/
theorem push_preserves_server_inv (r : Repo) (R E : List Commit) (L : Commit)
    (S S' : Oid → Prop) (listed : Oid → Prop)
    (hinv : ServerInv r R S) (hE : ∀ e ∈ E, Reach r R e) (hL : RevListLower r L E listed)
    (hU : ∀ o, listed o → S' o) (hS : ∀ o, S o → S' o) : ServerInv r (L :: R) S' :=
  Push.push_preserves_server_inv r R E L S S' listed hinv hE hL hU hS

/-- hE, derived from the code, PARTIAL: with a fresh cache (every cached remote-tracking ref is on the
    remote at the cached sha) every excluded sha is one of the remote's current refs. -/
theorem exclude_only_remote_commits_partial (cached actual : List Ref) (hf : Fresh cached actual) :
    ∀ e ∈ excluded cached actual, e ∈ actual.map (·.2) := by
  intro e he
  unfold excluded at he
  simp only at he
  split at he
  · obtain ⟨c, hc, rfl⟩ := List.mem_map.mp he
    exact List.mem_map.mpr ⟨c, hf c hc, rfl⟩
  · unfold calcSkipped at he
    obtain ⟨c, hc, rfl⟩ := List.mem_map.mp he
    exact List.mem_map.mpr ⟨c, hf c (List.mem_filter.mp hc).1, rfl⟩

/-! the full statement is FALSE of the code (known findings): -/
/-- D23 — the remote force-moved branch `b` (cached sha 7, now 9): sha 7 is still excluded -/
theorem stale_tracking_ref_counterexample :
    7 ∈ excluded [("b", 7)] [("b", 9)] ∧ 7 ∉ ([("b", 9)] : List Ref).map (·.2) := by decide
/-- D24 — the remote's only branch was deleted: the verified list is empty and ALL cached refs are excluded -/
theorem empty_verified_list_counterexample :
    7 ∈ excluded [("b", 7)] [] ∧ 7 ∉ ([] : List Ref).map (·.2) := by decide

/-- the sha Git reports for the remote side of an update is excluded only when it differs from the local one -/
theorem update_excludes_are_remote_shas (updates : List (Nat × Nat)) :
    ∀ e ∈ updateExcludes updates, ∃ u ∈ updates, u.2 = e ∧ u.1 ≠ u.2 := by
  intro e he
  unfold updateExcludes at he
  obtain ⟨u, hu, rfl⟩ := List.mem_map.mp he
  have := List.mem_filter.mp hu
  exact ⟨u, this.1, rfl, by simpa using this.2⟩

/-- `git lfs push <remote> <ref>...` reports every named ref with its own sha as the remote side (no upstream is
    known): NOTHING is excluded on account of the other refs named beside it, so the history that nested refs
    share is scanned for each of them (the seventh-round seed C03 excluded it for all of them) -/
theorem named_refs_exclude_nothing (updates : List (Nat × Nat)) (h : ∀ u ∈ updates, u.2 = u.1) :
    updateExcludes updates = [] := by
  unfold updateExcludes
  rw [List.map_eq_nil_iff, List.filter_eq_nil_iff]
  intro u hu
  simp [h u hu]

/-- every commit reachable from a pushed ref and from no excluded commit is scanned for that ref — for every
    number of updates in one push, whatever the other updates are -/
theorem every_update_scans_its_own_range (r : Repo) (updates : List (Nat × Nat)) (u : Nat × Nat) (_hu : u ∈ updates)
    (c : Commit) (hc : Reach r [u.1] c) (hne : ¬ Reach r (updateExcludes updates) c) :
    Reach r [u.1] c ∧ ∀ e ∈ updateExcludes updates, ¬ Reach r [e] c := by
  refine ⟨hc, fun e he hr => hne ?_⟩
  exact Push.reach_mono r (a := [e]) (fun x hx => by
    have : x = e := by simpa using hx
    subst this; exact Reach.tip he) hr

/-! ties to commands/uploader.go as it is in /repo now -/
/-- uploadForRefUpdates appends exactly the remote side of an update to `exclude`, and only when it differs from
    the local side; uploadRangeOrAll hands that very list to the scanner together with the local side -/
theorem gen_upload_exclusion :
    Gen.uploadExcludeAppended = [[114, 101, 109, 111, 116, 101, 82, 101, 102, 83, 104, 97]] ∧   -- remoteRefSha
    Gen.uploadExcludeConds = [[117, 112, 100, 97, 116, 101, 46, 76, 111, 99, 97, 108, 82, 101, 102, 67, 111, 109, 109, 105, 116, 105, 115, 104, 40, 41, 32, 33, 61, 32, 114, 101, 109, 111, 116, 101, 82, 101, 102, 83, 104, 97]] ∧
      -- update.LocalRefCommitish() != remoteRefSha
    Gen.uploadScanArgs = [[117, 112, 100, 97, 116, 101, 46, 76, 111, 99, 97, 108, 82, 101, 102, 67, 111, 109, 109, 105, 116, 105, 115, 104, 40, 41],
      [101, 120, 99, 108, 117, 100, 101], [99, 98]] := by decide
      -- update.LocalRefCommitish(), exclude, cb

/-- a pointer is left out of the upload only if it is the empty object or already handled -/
theorem upload_skips_only_empty_and_seen (seen : List Nat) (oid size : Nat) (h : enqueue seen oid size = false) :
    size = 0 ∨ oid ∈ seen := by
  unfold enqueue at h
  simp only [Bool.and_eq_false_iff, bne_eq_false_iff_eq, Bool.not_eq_false'] at h
  rcases h with h | h
  · exact Or.inl h
  · exact Or.inr (by simpa using h)

/-- non-vacuity: a fresh cache with two branches -/
example : Fresh [("a", 1), ("b", 2)] [("b", 2), ("a", 1), ("c", 3)] := by
  intro c hc; simp at hc ⊢; rcases hc with rfl | rfl <;> simp

/-! ### which refs of a push the hook scans at all (commands/command_pre_push.go: prePushRefs) -/

/-- the hook's lines stand each for itself: what one part of the input yields does not depend on
    what precedes or follows it (a deletion line cannot end the parsing) -/
theorem prepush_lines_independent (a b : List PrePush.Bytes) :
    PrePush.parse (a ++ b) = PrePush.parse a ++ PrePush.parse b := PrePush.parse_append a b

/-- EVERY created or updated ref of the push is scanned: the line Git writes for it (four
    blank-free fields, a non-zero local id), wherever it stands among the other lines —
    deletions, blank lines, anything — yields exactly its ref update, in line order. -/
theorem prepush_every_update_scanned (pre post : List PrePush.Bytes) (u : PrePush.Upd)
    (b : UInt8) (l' : PrePush.Bytes) (e : UInt8) (r' : PrePush.Bytes)
    (hl : u.lref = b :: l') (hr : u.rsha = r' ++ [e])
    (h1 : PrePush.NoSp u.lref) (h2 : PrePush.NoSp u.lsha) (h3 : PrePush.NoSp u.rref) (h4 : PrePush.NoSp u.rsha)
    (hz : PrePush.zeroId u.lsha = false) :
    PrePush.parse (pre ++ PrePush.line u :: post) = PrePush.parse pre ++ u :: PrePush.parse post :=
  PrePush.parse_order pre post _ u (PrePush.parseLine_line u b l' e r' hl hr h1 h2 h3 h4 hz)

/-- a deleted ref contributes nothing and takes nothing away -/
theorem prepush_deletion_skipped (pre post : List PrePush.Bytes) (l rref rsha zero : PrePush.Bytes)
    (b : UInt8) (l' : PrePush.Bytes) (e : UInt8) (r' : PrePush.Bytes)
    (hl : l = b :: l') (hr : rsha = r' ++ [e])
    (h1 : PrePush.NoSp l) (h2 : PrePush.NoSp zero) (h3 : PrePush.NoSp rref) (h4 : PrePush.NoSp rsha)
    (hz : PrePush.zeroId zero = true) :
    PrePush.parse (pre ++ PrePush.line ⟨l, zero, rref, rsha⟩ :: post) = PrePush.parse pre ++ PrePush.parse post := by
  rw [PrePush.parse_append, PrePush.parse_cons_skip _ _
    (PrePush.parseLine_delete l rref rsha zero b l' e r' hl hr h1 h2 h3 h4 hz)]

/-- non-vacuity: `git push origin :a m` — the deletion line first, then the update -/
example : PrePush.parse
    [PrePush.line ⟨[40, 100, 41], List.replicate 40 48, [97], [49, 49]⟩,
     [], PrePush.line ⟨[109], [50, 50], [109], [51, 51]⟩]
    = [⟨[109], [50, 50], [109], [51, 51]⟩] := by decide

/-! ### how the hook ends: the refs are updated only when nothing but an explicitly allowed absence went wrong -/

/-- exit 0 exactly when: objects are missing only with the allowance, no other upload error, no
    verified foreign lock -/
theorem push_succeeds_iff (o : PushReport.Outcome) :
    PushReport.ok o = true ↔
      ((o.missingOrCorrupt = true → o.allowIncomplete = true) ∧ o.otherErrors = false ∧
       (o.unownedLocks = true → o.verifyLocks = false)) := by
  cases o with
  | mk m a e u v => cases m <;> cases a <;> cases e <;> cases u <;> cases v <;> simp [PushReport.ok]

/-- lfs.allowincompletepush excuses absent objects and nothing else: any other upload error fails the
    push whatever the allowance says -/
theorem allowance_does_not_excuse_other_errors (o : PushReport.Outcome) (h : o.otherErrors = true) :
    PushReport.ok o = false := by
  simp [PushReport.ok, h]

/-- without the allowance a missing object fails the push -/
theorem missing_object_fails_without_allowance (o : PushReport.Outcome) (hm : o.missingOrCorrupt = true)
    (ha : o.allowIncomplete = false) : PushReport.ok o = false := by
  simp [PushReport.ok, hm, ha]

end C03
