/-
C01 — Clean then smudge returns the original bytes; the pointer names the SHA-256 and length of
what is stored.  Property theorems only (obligations of ./check C01).
`H` is SHA-256, abstract; the hypotheses used about it are explicit:
  hH    : its values are 64 lower-case hex digits,
  Intact: every stored object hashes to its name (I4: the store is intact before the call),
  hpre  : no second preimage of `H b` (needed only to conclude byte equality, not length/hash).
-/
import LfsModel.Gen
import LfsModel.FilterRound
import LfsModel.Checkout

namespace C01
open Flt
open LfsA (Stream)

def Intact (H : Bytes → Bytes) (st : Store) : Prop := ∀ o c, st.get o = some c → H c = o

theorem gen_cutoff : Gen.blobSizeCutoff = Flt.cut := by decide

/-- clean keeps the store intact -/
theorem clean_preserves_intact (H : Bytes → Bytes) (s : Stream) (st : Store) (hi : Intact H st) :
    Intact H (clean H s st).2 := by
  rw [clean_eq_spec]; unfold cleanSpec
  split
  · exact hi
  · split
    · exact hi
    · split
      · split <;> exact hi
      · intro o c h
        simp only [Store.get] at h
        split at h
        · rename_i heq; cases h; exact heq
        · exact hi o c h

/-- the emitted pointer records exactly the hash and byte length of what is stored under that id,
    for every chunking of the input -/
theorem pointer_names_stored_hash (H : Bytes → Bytes) (s : Stream) (st : Store) (hi : Intact H st)
    {oid c : Bytes} (h : (clean H s st).1 = .stored oid c) :
    oid = H s.data ∧ c = s.data ∧
    ∃ c', (clean H s st).2.get oid = some c' ∧ H c' = oid ∧ c'.length = s.data.length := by
  rw [clean_eq_spec] at h ⊢
  by_cases hb : s.data.isEmpty = true
  · simp [cleanSpec, hb] at h
  · cases hd : Lfs.dec s.data with
    | ok x => simp [cleanSpec, hb, hd] at h
    | error e =>
      cases hg : st.get (H s.data) with
      | none =>
        simp only [cleanSpec, hb, hd, hg, if_false] at h ⊢
        cases h
        exact ⟨rfl, rfl, s.data, by simp [Store.get], rfl, rfl⟩
      | some c0 =>
        by_cases hl : c0.length = s.data.length
        · simp only [cleanSpec, hb, hd, hg, hl, if_false, if_true] at h ⊢
          cases h
          exact ⟨rfl, rfl, c0, hg, hi _ _ hg, hl⟩
        · simp [cleanSpec, hb, hd, hg, hl] at h

/-- ROUND TRIP.  Content that is not itself a pointer, cleaned (any chunking `s`) and then smudged
    (any chunking `t` of the emitted pointer) from the resulting store, yields the original bytes. -/
theorem roundtrip (H : Bytes → Bytes) (hH : ∀ b, Lfs.isOid (H b) = true)
    (s t : Stream) (st : Store) (hi : Intact H st)
    (hpre : ∀ c, H c = H s.data → c = s.data)
    (hlen : s.data.length ≤ Lfs.maxInt64)
    {oid c : Bytes} (h : (clean H s st).1 = .stored oid c)
    (ht : t.data = (clean H s st).1.out) :
    smudge t (clean H s st).2 = .bytes s.data false := by
  obtain ⟨ho, hc, c', hg, hH', hl⟩ := pointer_names_stored_hash H s st hi h
  have hc' : c' = s.data := hpre c' (by rw [hH', ho])
  subst hc'
  have hne : s.data ≠ [] := by
    intro he
    rw [clean_eq_spec] at h; unfold cleanSpec at h; simp [he] at h
  have hlen0 : s.data.length ≠ 0 := by intro h0; exact hne (List.eq_nil_of_length_eq_zero h0)
  rw [smudge_eq_spec, ht, h]
  simp only [CleanRes.out]
  subst ho hc
  unfold smudgeSpec
  rw [dec_emitted (hH _) hlen0 hlen]
  simp [hlen0, hg]

/-- without the second-preimage hypothesis the smudged bytes still have the named hash and length -/
theorem roundtrip_hash (H : Bytes → Bytes) (hH : ∀ b, Lfs.isOid (H b) = true)
    (s t : Stream) (st : Store) (hi : Intact H st)
    (hlen : s.data.length ≤ Lfs.maxInt64)
    {oid c : Bytes} (h : (clean H s st).1 = .stored oid c)
    (ht : t.data = (clean H s st).1.out) :
    ∃ c', smudge t (clean H s st).2 = .bytes c' false ∧ H c' = H s.data ∧ c'.length = s.data.length := by
  obtain ⟨ho, hc, c', hg, hH', hl⟩ := pointer_names_stored_hash H s st hi h
  have hne : s.data ≠ [] := by
    intro he
    rw [clean_eq_spec] at h; unfold cleanSpec at h; simp [he] at h
  have hlen0 : s.data.length ≠ 0 := by intro h0; exact hne (List.eq_nil_of_length_eq_zero h0)
  refine ⟨c', ?_, by rw [hH', ho], hl⟩
  rw [smudge_eq_spec, ht, h]
  simp only [CleanRes.out]
  subst ho hc
  unfold smudgeSpec
  rw [dec_emitted (hH _) hlen0 hlen]
  simp [hlen0, hg, hl]

/-- an empty file maps to an empty pointer and back, for every (empty) stream -/
theorem empty_roundtrip (H : Bytes → Bytes) (s : Stream) (st : Store) (h : s.data = []) :
    clean H s st = (.pass [], st) ∧ smudge s st = .bytes [] false := by
  constructor
  · rw [clean_eq_spec, h]; rfl
  · rw [smudge_eq_spec, h]; rfl

/-- an object already present with the right length is kept (never overwritten); one with another
    length makes clean stop ("Files don't match") without touching the store -/
theorem existing_object_not_overwritten (H : Bytes → Bytes) (s : Stream) (st : Store) {c0 : Bytes}
    (hg : st.get (H s.data) = some c0) : (clean H s st).2 = st := by
  rw [clean_eq_spec]; unfold cleanSpec
  split
  · rfl
  · split
    · rfl
    · simp only [hg]; split <;> rfl

/-! ### the merge driver's output file (commands/command_merge_driver.go: processFiles).
A file opened for writing WITHOUT `O_TRUNC` keeps the old tail beyond what is written. -/
open Flt in
/-- with `O_TRUNC` (the D2 repair) the output file holds exactly the cleaned text, whatever it held before -/
theorem merge_driver_output_exact (old new : Bytes) : Flt.mergeDriverOutput old new = new := rfl
/-- the refuted variant, kept as the regression witness of D2: a shorter new pointer keeps the old tail -/
theorem merge_driver_tail_counterexample : Flt.writeOver false [115,105,122,101,32,49,50,51,52,53,10] [115,105,122,101,32,51,10]
    = [115,105,122,101,32,51,10,51,52,53,10] := by decide

/-- non-vacuity of the round-trip hypotheses: an intact one-object store and content that is not a pointer -/
example : Intact (fun b => b) [([1, 2], [1, 2])] := by
  intro o c h
  simp only [Store.get] at h
  split at h
  · rename_i heq; cases h; exact heq
  · cases h

/-- smudging into a named path or output file (lfs.GitFilter.SmudgeToFile: `git lfs checkout [--to]`,
    `git lfs pull`): the file ends up holding exactly the object's bytes whatever sat there before —
    no file, the same file, another file of the same length, a shorter or a longer one -/
theorem smudge_to_file_exact (recorded : Lfs.Ptr) (st : Co.Store) (content : Lfs.Bytes) (cur : Co.WFile)
    (h : st.get recorded.oid = some content) (hs : recorded.size ≠ 0) :
    Co.smudgeToFile recorded st cur = content := by
  unfold Co.smudgeToFile
  split
  · rename_i h0; exact absurd h0 hs
  · simp [h]

/-! tie to commands/command_merge_driver.go (mergeProcessInput) as it is in /repo now -/
set_option maxRecDepth 100000 in
/-- every version that goes into a merge gets a temporary file of its own, filled by copying (non-LFS content) or by
    smudging the pointer: there is no link into local storage for a merge program to write through (eighth-round seed
    C01), and each step that can fail — the smudge included (D84) — ends the merge instead of handing the program an
    empty file -/
theorem gen_merge_inputs_are_private_copies :
    Gen.mergeInputCalls =
      [
       -- lfs.TempFile: cfg, fmt.Sprintf("merge-driver-%s", tag) | 
       [108, 102, 115, 46, 84, 101, 109, 112, 70, 105, 108, 101, 58, 32, 99, 102, 103, 44, 32, 102, 109, 116, 46, 83, 112, 114, 105, 110, 116, 102, 40, 34, 109, 101, 114, 103, 101, 45, 100, 114, 105, 118, 101, 114, 45, 37, 115, 34, 44, 32, 116, 97, 103, 41, 32, 124, 32],
       -- lfs.DecodePointerFromFile: filename | 
       [108, 102, 115, 46, 68, 101, 99, 111, 100, 101, 80, 111, 105, 110, 116, 101, 114, 70, 114, 111, 109, 70, 105, 108, 101, 58, 32, 102, 105, 108, 101, 110, 97, 109, 101, 32, 124, 32],
       -- lfs.CopyFileContents: cfg, filename, file.Name() | err != nil && errors.IsNotAPointerError(err)
       [108, 102, 115, 46, 67, 111, 112, 121, 70, 105, 108, 101, 67, 111, 110, 116, 101, 110, 116, 115, 58, 32, 99, 102, 103, 44, 32, 102, 105, 108, 101, 110, 97, 109, 101, 44, 32, 102, 105, 108, 101, 46, 78, 97, 109, 101, 40, 41, 32, 124, 32, 101, 114, 114, 32, 33, 61, 32, 110, 105, 108, 32, 38, 38, 32, 101, 114, 114, 111, 114, 115, 46, 73, 115, 78, 111, 116, 65, 80, 111, 105, 110, 116, 101, 114, 69, 114, 114, 111, 114, 40, 101, 114, 114, 41],
       -- tr.Tr.Get("could not create temporary file when merging: %s", err) | err != nil
       [116, 114, 46, 84, 114, 46, 71, 101, 116, 40, 34, 99, 111, 117, 108, 100, 32, 110, 111, 116, 32, 99, 114, 101, 97, 116, 101, 32, 116, 101, 109, 112, 111, 114, 97, 114, 121, 32, 102, 105, 108, 101, 32, 119, 104, 101, 110, 32, 109, 101, 114, 103, 105, 110, 103, 58, 32, 37, 115, 34, 44, 32, 101, 114, 114, 41, 32, 124, 32, 101, 114, 114, 32, 33, 61, 32, 110, 105, 108],
       -- tr.Tr.Get("could not copy non-LFS content when merging: %s", err) | err != nil && errors.IsNotAPointerError(err) && err != nil
       [116, 114, 46, 84, 114, 46, 71, 101, 116, 40, 34, 99, 111, 117, 108, 100, 32, 110, 111, 116, 32, 99, 111, 112, 121, 32, 110, 111, 110, 45, 76, 70, 83, 32, 99, 111, 110, 116, 101, 110, 116, 32, 119, 104, 101, 110, 32, 109, 101, 114, 103, 105, 110, 103, 58, 32, 37, 115, 34, 44, 32, 101, 114, 114, 41, 32, 124, 32, 101, 114, 114, 32, 33, 61, 32, 110, 105, 108, 32, 38, 38, 32, 101, 114, 114, 111, 114, 115, 46, 73, 115, 78, 111, 116, 65, 80, 111, 105, 110, 116, 101, 114, 69, 114, 114, 111, 114, 40, 101, 114, 114, 41, 32, 38, 38, 32, 101, 114, 114, 32, 33, 61, 32, 110, 105, 108],
       -- tr.Tr.Get("could not decode pointer when merging: %s", err) | err != nil && !(errors.IsNotAPointerError(err))
       [116, 114, 46, 84, 114, 46, 71, 101, 116, 40, 34, 99, 111, 117, 108, 100, 32, 110, 111, 116, 32, 100, 101, 99, 111, 100, 101, 32, 112, 111, 105, 110, 116, 101, 114, 32, 119, 104, 101, 110, 32, 109, 101, 114, 103, 105, 110, 103, 58, 32, 37, 115, 34, 44, 32, 101, 114, 114, 41, 32, 124, 32, 101, 114, 114, 32, 33, 61, 32, 110, 105, 108, 32, 38, 38, 32, 33, 40, 101, 114, 114, 111, 114, 115, 46, 73, 115, 78, 111, 116, 65, 80, 111, 105, 110, 116, 101, 114, 69, 114, 114, 111, 114, 40, 101, 114, 114, 41, 41],
       -- tr.Tr.Get("could not create callback: %s", err) | err != nil
       [116, 114, 46, 84, 114, 46, 71, 101, 116, 40, 34, 99, 111, 117, 108, 100, 32, 110, 111, 116, 32, 99, 114, 101, 97, 116, 101, 32, 99, 97, 108, 108, 98, 97, 99, 107, 58, 32, 37, 115, 34, 44, 32, 101, 114, 114, 41, 32, 124, 32, 101, 114, 114, 32, 33, 61, 32, 110, 105, 108],
       -- tr.Tr.Get("could not get the content of %s when merging: %s", filename, err) | err != nil
       [116, 114, 46, 84, 114, 46, 71, 101, 116, 40, 34, 99, 111, 117, 108, 100, 32, 110, 111, 116, 32, 103, 101, 116, 32, 116, 104, 101, 32, 99, 111, 110, 116, 101, 110, 116, 32, 111, 102, 32, 37, 115, 32, 119, 104, 101, 110, 32, 109, 101, 114, 103, 105, 110, 103, 58, 32, 37, 115, 34, 44, 32, 102, 105, 108, 101, 110, 97, 109, 101, 44, 32, 101, 114, 114, 41, 32, 124, 32, 101, 114, 114, 32, 33, 61, 32, 110, 105, 108]
      ] := by decide

end C01
