namespace LfsA
abbrev Bytes := List UInt8

/-- A Go io.Reader seen from outside: the data arrives in chunks; a `Read(p)` returns at most
`p.length` bytes and never crosses a chunk boundary (short reads).  `eofWithLast` says whether the
read that delivers the last byte also reports io.EOF. Empty chunks are skipped (a conforming
reader does not return (0,nil)). -/
structure Stream where
  chunks : List Bytes
  eofWithLast : Bool
deriving Repr, DecidableEq

namespace Stream

def data (s : Stream) : Bytes := s.chunks.flatten

/-- drop leading empty chunks -/
def norm : List Bytes → List Bytes
  | [] => []
  | [] :: cs => norm cs
  | c :: cs => c :: cs

/-- one `Read` with a buffer of size `n` (n > 0): returns bytes, eof flag, rest of stream -/
def read (s : Stream) (n : Nat) : Bytes × Bool × Stream :=
  match norm s.chunks with
  | [] => ([], true, { s with chunks := [] })
  | c :: cs =>
    if c.length ≤ n then
      let last := (norm cs).isEmpty
      (c, last && s.eofWithLast, { s with chunks := cs })
    else
      (c.take n, false, { s with chunks := c.drop n :: cs })

/-- io.ReadFull with fuel: read until `n` bytes or EOF -/
def readFullAux : Nat → Stream → Nat → Bytes → Bytes × Bool × Stream
  | 0, s, _, acc => (acc, false, s)
  | fuel+1, s, n, acc =>
    if n = 0 then (acc, false, s) else
    let (b, eof, s') := s.read n
    if eof then (acc ++ b, true, s')
    else if b.isEmpty then (acc, true, s')
    else readFullAux fuel s' (n - b.length) (acc ++ b)

def readFull (s : Stream) (n : Nat) : Bytes × Bool × Stream :=
  readFullAux (s.chunks.length + n + 1) s n []

end Stream
end LfsA
