/-
tq/transfer_queue.go abortableWaitGroup: the counter Wait() blocks on.  `wq` is the value of the
sync.WaitGroup inside, `counter` the queue's own tally of outstanding objects.
Core-only, executable (Oracle `C06 awg`).
-/
namespace TQAbort

structure G where
  counter : Int := 0
  wq : Int := 0
  abort : Bool := false
deriving Repr, DecidableEq

inductive Op | add (d : Nat) | done | abort
deriving Repr, DecidableEq

def step (g : G) : Op → G
  | .add d => if g.abort then g else { g with counter := g.counter + d, wq := g.wq + d }
  | .done => if g.abort then g else { g with counter := g.counter - 1, wq := g.wq - 1 }
  | .abort => { g with abort := true, wq := g.wq - g.counter }

def run (g : G) (ops : List Op) : G := ops.foldl step g

/-- Wait() returns exactly when the WaitGroup is at zero -/
def waitReturns (g : G) : Bool := g.wq == 0

theorem run_append (g : G) (a b : List Op) : run g (a ++ b) = run (run g a) b := by
  simp [run, List.foldl_append]

/-- before an abort the WaitGroup counts exactly the outstanding objects -/
theorem no_abort_inv (ops : List Op) (h : ∀ o ∈ ops, o ≠ .abort) :
    ∀ g : G, g.abort = false → g.wq = g.counter → (run g ops).abort = false ∧ (run g ops).wq = (run g ops).counter := by
  induction ops with
  | nil => intro g ha hw; exact ⟨ha, hw⟩
  | cons o rest ih =>
    intro g ha hw
    have hrest : ∀ o' ∈ rest, o' ≠ .abort := fun o' ho' => h o' (by simp [ho'])
    simp only [run, List.foldl_cons]
    cases o with
    | abort => exact absurd rfl (h .abort (by simp))
    | add d =>
      apply ih hrest
      · simp [step, ha]
      · simp only [step, ha, Bool.false_eq_true, if_false]; omega
    | done =>
      apply ih hrest
      · simp [step, ha]
      · simp only [step, ha, Bool.false_eq_true, if_false]; omega

/-- after the abort nothing that is added or finished moves the WaitGroup any more -/
theorem after_abort_frozen (ops : List Op) (h : ∀ o ∈ ops, o ≠ .abort) :
    ∀ g : G, g.abort = true → (run g ops).wq = g.wq ∧ (run g ops).abort = true := by
  induction ops with
  | nil => intro g ha; exact ⟨rfl, ha⟩
  | cons o rest ih =>
    intro g ha
    have hrest : ∀ o' ∈ rest, o' ≠ .abort := fun o' ho' => h o' (by simp [ho'])
    simp only [run, List.foldl_cons]
    cases o with
    | abort => exact absurd rfl (h .abort (by simp))
    | add d =>
      have : step g (.add d) = g := by simp [step, ha]
      rw [this]; exact ih hrest g ha
    | done =>
      have : step g .done = g := by simp [step, ha]
      rw [this]; exact ih hrest g ha

/-- the queue aborts once (it leaves its loop right after): from then on Wait() returns, whatever the
    producer still adds and whatever transfers still report -/
theorem wait_returns_after_abort (pre post : List Op) (hpre : ∀ o ∈ pre, o ≠ .abort) (hpost : ∀ o ∈ post, o ≠ .abort) :
    waitReturns (run {} (pre ++ [.abort] ++ post)) = true := by
  rw [run_append, run_append]
  obtain ⟨ha, hw⟩ := no_abort_inv pre hpre {} rfl rfl
  have hab : (run (run {} pre) [.abort]).abort = true ∧ (run (run {} pre) [.abort]).wq = 0 := by
    simp only [run] at hw
    simp only [run, List.foldl_cons, List.foldl_nil, step]
    exact ⟨trivial, by omega⟩
  obtain ⟨hf, _⟩ := after_abort_frozen post hpost _ hab.1
  simp [waitReturns, hf, hab.2]

/-- without an abort Wait() returns exactly when every added object has been finished -/
theorem wait_returns_iff_balanced (ops : List Op) (h : ∀ o ∈ ops, o ≠ .abort) :
    waitReturns (run {} ops) = true ↔ (run {} ops).counter = 0 := by
  obtain ⟨_, hw⟩ := no_abort_inv ops h {} rfl rfl
  simp [waitReturns, hw]

end TQAbort
