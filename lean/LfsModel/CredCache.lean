/-
creds/creds.go: credentialCacher — the in-process credential cache that sits in front of
`git credential` in git-lfs's helper chain (C10, credential source "cache").
Keyed by (protocol, host as written incl. port, path); filled by Approve, emptied by Reject.
Core-only, executable (driven by Oracle `C10 cache`).
-/
namespace CredCache

abbrev Bytes := List UInt8

structure Key where
  proto : Bytes
  host : Bytes      -- the `host` attribute as git-lfs writes it: name[:port]
  path : Bytes
deriving DecidableEq, Repr

/-- a credential, with the key of the request it was obtained for (ghost field: the real map stores
    the whole attribute set, protocol/host/path included) -/
structure Cred where
  origin : Key
  secret : Nat
deriving DecidableEq, Repr

abbrev Cache := List (Key × Cred)

def lookup (c : Cache) (k : Key) : Option Cred :=
  match c with
  | [] => none
  | (k', v) :: rest => if k' = k then some v else lookup rest k

/-- Fill: a hit answers from the cache, a miss passes to the next helper (`none` here) -/
def fill (c : Cache) (k : Key) : Option Cred := lookup c k

/-- Approve: keeps an existing entry, otherwise stores what was approved under the key OF THE CREDENTIAL'S
    OWN attributes (credCacheKey(what)) -/
def approve (c : Cache) (v : Cred) : Cache :=
  match lookup c v.origin with
  | some _ => c
  | none => (v.origin, v) :: c

def reject (c : Cache) (k : Key) : Cache := c.filter fun e => !(e.1 = k)

inductive Op
  | fill (k : Key)
  | approve (v : Cred)
  | reject (k : Key)
deriving Repr

def step (c : Cache) : Op → Cache × Option Cred
  | .fill k => (c, fill c k)
  | .approve v => (approve c v, none)
  | .reject k => (reject c k, none)

def run (c : Cache) : List Op → Cache × List (Option Cred)
  | [] => (c, [])
  | op :: rest =>
    let (c1, o) := step c op
    let (c2, os) := run c1 rest
    (c2, o :: os)

/-- every entry sits under the key it was obtained for -/
def Inv (c : Cache) : Prop := ∀ e ∈ c, e.2.origin = e.1

theorem inv_nil : Inv [] := by intro e h; cases h

theorem lookup_mem (c : Cache) (k : Key) (v : Cred) (h : lookup c k = some v) : (k, v) ∈ c := by
  induction c with
  | nil => simp [lookup] at h
  | cons e rest ih =>
    obtain ⟨k', v'⟩ := e
    simp only [lookup] at h
    split at h
    · rename_i ek; cases h; subst ek; simp
    · exact List.mem_cons_of_mem _ (ih h)

theorem inv_approve (c : Cache) (v : Cred) (h : Inv c) : Inv (approve c v) := by
  unfold approve
  split
  · exact h
  · intro e he
    rcases List.mem_cons.mp he with rfl | he'
    · rfl
    · exact h e he'

theorem inv_reject (c : Cache) (k : Key) (h : Inv c) : Inv (reject c k) := by
  intro e he
  exact h e (List.mem_filter.mp he).1

theorem step_inv (c : Cache) (op : Op) (h : Inv c) : Inv (step c op).1 := by
  cases op with
  | fill k => exact h
  | approve v => exact inv_approve c v h
  | reject k => exact inv_reject c k h

/-- a hit hands out a credential that was obtained for exactly the key asked about -/
theorem fill_confined (c : Cache) (k : Key) (v : Cred) (h : Inv c) (hf : fill c k = some v) : v.origin = k :=
  h (k, v) (lookup_mem c k v hf)

theorem run_inv (ops : List Op) : ∀ c, Inv c → Inv (run c ops).1 := by
  induction ops with
  | nil => intro c h; exact h
  | cons op rest ih =>
    intro c h
    simp only [run]
    exact ih _ (step_inv c op h)

/-- over any sequence of fills, approvals and rejections, starting from the empty cache, every
    answer the cache ever gives carries the key it is asked about -/
theorem run_confined (ops : List Op) : ∀ c, Inv c →
    ∀ o ∈ (run c ops).2, ∀ v, o = some v → ∃ k, v.origin = k ∧ Op.fill k ∈ ops := by
  induction ops with
  | nil => intro c _ o ho; simp [run] at ho
  | cons op rest ih =>
    intro c h o ho v hv
    simp only [run] at ho
    rcases List.mem_cons.mp ho with e | ho'
    · cases op with
      | fill k =>
        subst hv
        refine ⟨k, fill_confined c k v h ?_, by simp⟩
        simpa [step] using e.symm
      | approve w => simp [step] at e; subst e; cases hv
      | reject k => simp [step] at e; subst e; cases hv
    · obtain ⟨k, hk, hm⟩ := ih _ (step_inv c op h) o ho' v hv
      exact ⟨k, hk, List.mem_cons_of_mem _ hm⟩

/-- after a rejection the key misses -/
theorem reject_misses (c : Cache) (k : Key) : fill (reject c k) k = none := by
  induction c with
  | nil => rfl
  | cons e rest ih =>
    obtain ⟨k', v'⟩ := e
    simp only [reject, List.filter]
    by_cases ek : k' = k
    · simp only [ek, decide_true, Bool.not_true]
      exact ih
    · simp only [ek, decide_false, Bool.not_false]
      simp only [fill, lookup, ek, if_false]
      exact ih

end CredCache
