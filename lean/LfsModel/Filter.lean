import LfsModel.AStreamLemmas
import LfsModel.Pointer
/-
Probe: lfs.GitFilter.copyToTemp + commands.clean over a chunked stream, with the REAL pointer
decoder of Appendix E plugged in, and the `fileSize` argument (stat of the named path) explicit.
-/
namespace LfsF
open LfsA LfsA.Stream

abbrev Bytes := LfsA.Bytes

inductive ReadKind | single | full deriving DecidableEq

inductive CleanOut
  | passthrough (b : Bytes)      -- CleanPointerError: bytes written back verbatim, store untouched
  | stored (content : Bytes)     -- content hashed + stored, pointer ⟨H content, |content|⟩ emitted
deriving Repr, DecidableEq

/-- "the first window decodes as a pointer" -/
def isPtr (b : Bytes) : Bool := match Lfs.decodeBuf b with | .ok _ => true | .error _ => false

def firstRead (k : ReadKind) (s : Stream) (cut : Nat) : Bytes × Bool × Stream :=
  match k with
  | .single => s.read cut
  | .full => s.readFull cut

/-- `fileSize`: none = the caller passed −1 and nothing sits at the path (or no path);
some n = explicit size or `os.Stat(path).Size()` -/
def clean (k : ReadKind) (cut : Nat) (fileSize : Option Nat) (s : Stream) : CleanOut :=
  let (buf, eof, s') := firstRead k s cut
  if buf.isEmpty && eof then .passthrough []
  else if isPtr buf && decide (buf.length < cut) then .passthrough buf
  else
    let more := match fileSize with
      | none => true
      | some n => decide (buf.length < n)
    .stored (if more then buf ++ s'.data else buf)

def spec (cut : Nat) (b : Bytes) : CleanOut :=
  if b.isEmpty then .passthrough []
  else if isPtr b && decide (b.length < cut) then .passthrough b else .stored b

theorem readFull_eof_of_empty (s : Stream) (n : Nat) (hn : 0 < n) (hd : s.data = []) :
    (s.readFull n).2.1 = true := by
  unfold readFull
  generalize hf : s.chunks.length + n + 1 = fuel
  have hfp : 0 < fuel := by omega
  cases fuel with
  | zero => omega
  | succ fuel =>
    unfold readFullAux
    have hn0 : n ≠ 0 := by omega
    simp only [hn0, if_false]
    have hrd := read_data s n
    generalize hr : s.read n = r at hrd
    obtain ⟨b, eof, s'⟩ := r
    simp only at hrd ⊢
    rw [hd] at hrd
    have hb : b = [] := by
      cases b with
      | nil => rfl
      | cons x xs => simp at hrd
    have := read_empty_eof s n hn (by rw [hr]; exact hb)
    rw [hr] at this
    simp only at this
    simp [this]

/-- **C08.clean_content_in_full / clean_pointer_passthrough / chunk independence**, with the real
decoder, for every stream, when the size hint does not cut the copy short. -/
theorem clean_full_eq_spec (cut : Nat) (hc : 0 < cut) (fileSize : Option Nat) (s : Stream)
    (hsz : ∀ n, fileSize = some n → s.data.length ≤ cut ∨ cut < n) :
    clean .full cut fileSize s = spec cut s.data := by
  have hspec := readFull_spec s cut
  unfold clean firstRead
  simp only
  generalize hr : s.readFull cut = r at hspec
  obtain ⟨buf, eof, s'⟩ := r
  simp only at hspec ⊢
  obtain ⟨hbuf, hrest⟩ := hspec
  unfold spec
  by_cases hd : s.data = []
  · have heof : eof = true := by
      have := readFull_eof_of_empty s cut hc hd
      rw [hr] at this; exact this
    simp [hbuf, hd, heof]
  · have hne : s.data.isEmpty = false := by
      cases h : s.data with
      | nil => exact absurd h hd
      | cons x xs => rfl
    have hbne : buf.isEmpty = false := by
      rw [hbuf]
      cases h : s.data with
      | nil => exact absurd h hd
      | cons x xs =>
        cases cut with
        | zero => omega
        | succ c => simp
    simp only [hbne, hne, Bool.false_and, Bool.false_eq_true, if_false]
    by_cases hlen : s.data.length < cut
    · have hb : buf = s.data := by rw [hbuf]; exact List.take_of_length_le (by omega)
      have hdrop : s'.data = [] := by rw [hrest]; exact List.drop_of_length_le (by omega)
      rw [hb, hdrop]
      simp only [hlen, decide_true, Bool.and_true, List.append_nil]
      cases isPtr s.data <;> simp
    · have hbl : ¬ buf.length < cut := by rw [hbuf, List.length_take]; omega
      have hbl' : buf.length = cut := by rw [hbuf, List.length_take]; omega
      simp only [hbl, hlen, decide_false, Bool.and_false, Bool.false_eq_true, if_false]
      cases fileSize with
      | none => simp only; rw [hbuf, hrest, List.take_append_drop]; simp
      | some n =>
        rcases hsz n rfl with h | h
        · -- data fits the window exactly: nothing is left
          have hdl : s.data.length = cut := by omega
          have hdrop : s'.data = [] := by rw [hrest]; exact List.drop_of_length_le (by omega)
          have hb : buf = s.data := by rw [hbuf]; exact List.take_of_length_le (by omega)
          simp only [hdrop, List.append_nil, hb]
          cases decide (s.data.length < n) <;> simp
        · simp only [hbl', h, decide_true, if_true]
          rw [hbuf, hrest, List.take_append_drop]

/-- corollary: the outcome does not depend on how the bytes were chunked -/
theorem clean_chunk_independent (cut : Nat) (hc : 0 < cut) (s t : Stream) (h : s.data = t.data) :
    clean .full cut none s = clean .full cut none t := by
  rw [clean_full_eq_spec cut hc none s (by intro n hn; cases hn),
      clean_full_eq_spec cut hc none t (by intro n hn; cases hn), h]

/-- D18: a short file at the named path truncates the stored content to the first window -/
example : clean .full 4 (some 2) ⟨[[1,2,3,4,5,6,7,8,9]], true⟩ = .stored [1,2,3,4] := by decide
example : spec 4 [1,2,3,4,5,6,7,8,9] = .stored [1,2,3,4,5,6,7,8,9] := by decide

#print axioms clean_full_eq_spec
end LfsF
