/-
commands/command_pre_push.go: prePushRefs + decodeRefs — what the pre-push hook reads from Git
(one line per ref of the push: `<local ref> <local id> <remote ref> <remote id>`) and which ref updates
it hands to the upload scan.  A deletion (`(delete) 000…0 <remote ref> <id>`) has nothing to upload and
is skipped; every other line is one update, whatever stands before or after it.
Core-only, executable (driven by Oracle `C03 prepush`).
-/
namespace PrePush

abbrev Bytes := List UInt8

/-- ASCII white space as strings.TrimSpace sees it on the bytes Git writes -/
def isSpace (b : UInt8) : Bool := b == 32 || b == 9 || b == 10 || b == 11 || b == 12 || b == 13

def trimLeft (s : Bytes) : Bytes := s.dropWhile isSpace
def trimRight (s : Bytes) : Bytes := (s.reverse.dropWhile isSpace).reverse
def trim (s : Bytes) : Bytes := trimRight (trimLeft s)

/-- strings.Split(s, " ") -/
def splitSp : Bytes → List Bytes
  | [] => [[]]
  | b :: rest =>
    if b == 32 then [] :: splitSp rest
    else match splitSp rest with
      | [] => [[b]]
      | f :: fs => (b :: f) :: fs

/-- git.IsZeroObjectID: all zeros, of the length of a SHA-1 or SHA-256 object id -/
def zeroId (s : Bytes) : Bool := (s.length == 40 || s.length == 64) && s.all (· == 48)

structure Upd where
  lref : Bytes
  lsha : Bytes
  rref : Bytes
  rsha : Bytes
deriving DecidableEq, Repr

def parseLine (s : Bytes) : Option Upd :=
  let t := trim s
  if t.isEmpty then none
  else
    let f := splitSp t
    if zeroId (f.getD 1 []) then none
    else some ⟨f.getD 0 [], f.getD 1 [], f.getD 2 [], f.getD 3 []⟩

def parse (lines : List Bytes) : List Upd := lines.filterMap parseLine

/-! ### every line stands for itself -/

theorem parse_append (a b : List Bytes) : parse (a ++ b) = parse a ++ parse b := by
  simp [parse, List.filterMap_append]

theorem parse_cons_skip (l : Bytes) (rest : List Bytes) (h : parseLine l = none) :
    parse (l :: rest) = parse rest := by
  simp [parse, List.filterMap_cons, h]

theorem parse_mem (lines : List Bytes) (l : Bytes) (u : Upd) (hl : l ∈ lines) (hu : parseLine l = some u) :
    u ∈ parse lines := by
  simp only [parse, List.mem_filterMap]
  exact ⟨l, hl, hu⟩

/-- the updates come out in the order of their lines -/
theorem parse_order (pre post : List Bytes) (l : Bytes) (u : Upd) (hu : parseLine l = some u) :
    parse (pre ++ l :: post) = parse pre ++ u :: parse post := by
  rw [parse_append]
  simp [parse, List.filterMap_cons, hu]

/-! ### the line Git writes for a ref that is created or updated is read back field by field -/

def NoSp (s : Bytes) : Prop := ∀ b ∈ s, isSpace b = false

theorem splitSp_ne_nil (s : Bytes) : splitSp s ≠ [] := by
  induction s with
  | nil => simp [splitSp]
  | cons b rest ih =>
    simp only [splitSp]
    split
    · simp
    · split <;> simp

theorem splitSp_nosp (s : Bytes) (h : NoSp s) : splitSp s = [s] := by
  induction s with
  | nil => rfl
  | cons b rest ih =>
    have hb : isSpace b = false := h b (by simp)
    have h32 : (b == 32) = false := by
      simp only [isSpace, Bool.or_eq_false_iff] at hb; exact hb.1.1.1.1.1
    have hr : NoSp rest := fun x hx => h x (by simp [hx])
    simp only [splitSp, h32]
    rw [ih hr]
    simp

theorem splitSp_field (a rest : Bytes) (h : NoSp a) : splitSp (a ++ 32 :: rest) = a :: splitSp rest := by
  induction a with
  | nil => simp [splitSp]
  | cons b a ih =>
    have hb : isSpace b = false := h b (by simp)
    have h32 : (b == 32) = false := by
      simp only [isSpace, Bool.or_eq_false_iff] at hb; exact hb.1.1.1.1.1
    have ha : NoSp a := fun x hx => h x (by simp [hx])
    simp only [List.cons_append, splitSp, h32]
    rw [ih ha]
    simp

theorem dropWhile_head {p : UInt8 → Bool} (b : UInt8) (s : Bytes) (h : p b = false) :
    (b :: s).dropWhile p = b :: s := by simp [List.dropWhile, h]

theorem trim_id (s : Bytes) (b e : UInt8) (mid : Bytes) (hs : s = b :: (mid ++ [e]))
    (hb : isSpace b = false) (he : isSpace e = false) : trim s = s := by
  subst hs
  simp only [trim, trimLeft, trimRight]
  rw [dropWhile_head b _ hb]
  have : (b :: (mid ++ [e])).reverse = e :: (b :: mid).reverse := by simp
  rw [this, dropWhile_head e _ he]
  simp

def sp : Bytes := [32]

/-- a ref line as Git writes it -/
def line (u : Upd) : Bytes := u.lref ++ 32 :: (u.lsha ++ 32 :: (u.rref ++ 32 :: u.rsha))

theorem parseLine_line (u : Upd) (b : UInt8) (l' : Bytes) (e : UInt8) (r' : Bytes)
    (hl : u.lref = b :: l') (hr : u.rsha = r' ++ [e])
    (h1 : NoSp u.lref) (h2 : NoSp u.lsha) (h3 : NoSp u.rref) (h4 : NoSp u.rsha)
    (hz : zeroId u.lsha = false) : parseLine (line u) = some u := by
  have hb : isSpace b = false := h1 b (by rw [hl]; simp)
  have he : isSpace e = false := h4 e (by rw [hr]; simp)
  have htrim : trim (line u) = line u := by
    apply trim_id (line u) b e (l' ++ 32 :: (u.lsha ++ 32 :: (u.rref ++ 32 :: r'))) _ hb he
    simp [line, hl, hr]
  have hsplit : splitSp (line u) = [u.lref, u.lsha, u.rref, u.rsha] := by
    simp only [line]
    rw [splitSp_field _ _ h1, splitSp_field _ _ h2, splitSp_field _ _ h3, splitSp_nosp _ h4]
  have hne : (line u).isEmpty = false := by simp [line, hl]
  simp only [parseLine, htrim, hne, hsplit]
  simp [hz]

/-- … and a deletion is skipped -/
theorem parseLine_delete (l rref rsha zero : Bytes) (b : UInt8) (l' : Bytes) (e : UInt8) (r' : Bytes)
    (hl : l = b :: l') (hr : rsha = r' ++ [e])
    (h1 : NoSp l) (h2 : NoSp zero) (h3 : NoSp rref) (h4 : NoSp rsha) (hz : zeroId zero = true) :
    parseLine (line ⟨l, zero, rref, rsha⟩) = none := by
  have hb : isSpace b = false := h1 b (by rw [hl]; simp)
  have he : isSpace e = false := h4 e (by rw [hr]; simp)
  have htrim : trim (line ⟨l, zero, rref, rsha⟩) = line ⟨l, zero, rref, rsha⟩ := by
    apply trim_id _ b e (l' ++ 32 :: (zero ++ 32 :: (rref ++ 32 :: r'))) _ hb he
    simp [line, hl, hr]
  have hsplit : splitSp (line ⟨l, zero, rref, rsha⟩) = [l, zero, rref, rsha] := by
    simp only [line]
    rw [splitSp_field _ _ h1, splitSp_field _ _ h2, splitSp_field _ _ h3, splitSp_nosp _ h4]
  have hne : (line ⟨l, zero, rref, rsha⟩).isEmpty = false := by simp [line, hl]
  simp only [parseLine, htrim, hne, hsplit]
  simp [hz]

end PrePush
