/-
C05 — the set logic of `git lfs prune` (commands/command_prune.go: prune,
pruneGetVerifiedPrunableObjects) and the day-window arithmetic of the retention tasks.
Object ids are natural numbers here; sets are lists.
-/
namespace Pr

abbrev Oid := Nat

structure Flags where
  verifyRemote : Bool
  verifyUnreachable : Bool
  continueWhenUnverified : Bool
  dryRun : Bool

/-- the outcome: what is deleted, and whether prune stops with "missing on remote" -/
structure Outcome where
  deleted : List Oid
  halted : Bool
  deriving Repr, DecidableEq

/-- candidates = local objects that no retention task named -/
def candidates (localObjs retained : List Oid) : List Oid := localObjs.filter fun o => !retained.contains o

/-- `pruneGetVerifiedPrunableObjects`: (kept for deletion, reported as missing on the remote) -/
def verifySplit (cands reachable verified : List Oid) (verifyUnreachable : Bool) : List Oid × List Oid :=
  (cands.filter fun o => verified.contains o || (!verifyUnreachable && !reachable.contains o),
   cands.filter fun o => !verified.contains o && (verifyUnreachable || reachable.contains o))

/-- stops with "These objects to be pruned are missing on remote" -/
def halts (f : Flags) (localObjs retained reachable verified : List Oid) : Bool :=
  f.verifyRemote && !f.continueWhenUnverified &&
    !(verifySplit (candidates localObjs retained) reachable verified f.verifyUnreachable).2.isEmpty

def prune (f : Flags) (localObjs retained reachable verified : List Oid) : Outcome :=
  { halted := halts f localObjs retained reachable verified
    deleted :=
      if halts f localObjs retained reachable verified || f.dryRun then []
      else if f.verifyRemote then (verifySplit (candidates localObjs retained) reachable verified f.verifyUnreachable).1
      else candidates localObjs retained }

/-! ### retention windows -/
/-- a ref whose tip was committed at `tip` (seconds) is recent iff not before `now - days` -/
def refIsRecent (now tip : Int) (refsDays offsetDays : Nat) : Bool :=
  refsDays != 0 && decide (now - ((refsDays + offsetDays : Nat) : Int) * 86400 ≤ tip)

/-- a commit at `t` is inside the recent-commits window of a ref whose tip is at `tip` -/
def commitIsRecent (tip t : Int) (commitsDays offsetDays : Nat) : Bool :=
  commitsDays != 0 && decide (tip - ((commitsDays + offsetDays : Nat) : Int) * 86400 ≤ t)

/-- a ref as the recent-refs / recent-commits tasks see it: the time of its tip commit and, for every
    commit reachable from it, the commit's time and the previous versions (object ids) that commit replaced -/
structure RefT where
  isHead : Bool
  tip : Int
  commits : List (Int × List Oid)

/-- pruneTaskGetRetainedCurrentAndRecentRefs / …PreviousVersionsOfRef: HEAD and every recent ref are
    kept; for each of THEM the recent-commits window is measured from ITS OWN tip -/
def retainedRecent (now : Int) (refsDays commitsDays offsetDays : Nat) (refs : List RefT) : List Oid :=
  (refs.filter fun r => r.isHead || refIsRecent now r.tip refsDays offsetDays).flatMap fun r =>
    (r.commits.filter fun c => commitIsRecent r.tip c.1 commitsDays offsetDays).flatMap (·.2)

end Pr
