/-
C16 — the lock client's bookkeeping (locking/locks.go, locking/cache.go, commands/command_unlock.go,
commands/lockverifier.go, locking/lockable.go) against a lock server table.
Paths, lock ids and users are natural numbers; user `me` is the client under test.
-/
namespace Lk

structure Lock where
  id : Nat
  path : Nat
  owner : Nat
  deriving DecidableEq, Repr

abbrev Table := List Lock           -- the server's locks
abbrev Cache := List Lock           -- lockcache.db as a list (path- and id-keyed entries agree by construction)

structure St where
  table : Table
  cache : Cache
  nextId : Nat
  deriving Repr

def lockedBy (t : Table) (p : Nat) : Option Lock := t.find? fun l => l.path == p
def byId (t : Table) (i : Nat) : Option Lock := t.find? fun l => l.id == i

/-- how the server answers this request -/
inductive Srv where
  | ok | refuse           -- refuse = 403 / 404 / 501 / 5xx: nothing changes on either side
  deriving DecidableEq, Repr

inductive Op where
  | lock (p : Nat) (srv : Srv)
  | unlockPath (p : Nat) (force modified : Bool) (srv : Srv)     -- git lfs unlock <path>
  | unlockId (i : Nat) (force modified : Bool) (srv : Srv)       -- git lfs unlock --id
  | verify (srv : Srv)          -- SearchLocksVerifiable: `locks --verify`, the pre-push verifier
  | otherLock (p : Nat) (who : Nat)     -- another user takes a lock on the server
  | otherUnlock (p : Nat)               -- … or releases one of theirs
  deriving Repr

def me : Nat := 0

/-- `LockFile`: 201 ⇒ cached; the server refuses when the path is locked (409) -/
def doLock (s : St) (p : Nat) (srv : Srv) : St :=
  match srv, lockedBy s.table p with
  | .ok, none =>
    let l : Lock := ⟨s.nextId, p, me⟩
    { table := s.table ++ [l], cache := s.cache ++ [l], nextId := s.nextId + 1 }
  | _, _ => s

/-- the server's rule: the owner may release; anybody may with force -/
def serverUnlock (t : Table) (i : Nat) (force : Bool) : Option Table :=
  match byId t i with
  | some l => if l.owner == me || force then some (t.erase l) else none
  | none => none

/-- `UnlockFile` resolves the id from the cache (then from the server) and calls `UnlockFileById`;
    the command first refuses when the file has uncommitted changes and --force is absent -/
def doUnlockId (s : St) (i : Nat) (force modified : Bool) (srv : Srv) : St :=
  if modified && !force then s else
  match srv with
  | .refuse => s
  | .ok =>
    match serverUnlock s.table i force with
    | some t' => { s with table := t', cache := s.cache.filter fun x => x.id != i }
    | none => s

def doUnlockPath (s : St) (p : Nat) (force modified : Bool) (srv : Srv) : St :=
  if modified && !force then s else
  match (s.cache.find? fun l => l.path == p).orElse (fun _ => lockedBy s.table p) with
  | some l => doUnlockId s l.id force false srv
  | none => s

/-- `SearchLocksVerifiable(…, cached = false)`: a complete listing replaces the cache with EVERYTHING
    the server lists — ours and theirs (pinned by TestRefreshCache; D13); a failed listing (or one cut
    short by a limit) leaves the cache as it is (after the D36 repair) -/
def doVerify (s : St) (srv : Srv) : St :=
  match srv with
  | .refuse => s
  | .ok => { s with cache := s.table }

def step (s : St) : Op → St
  | .lock p srv => doLock s p srv
  | .unlockPath p f m srv => doUnlockPath s p f m srv
  | .unlockId i f m srv => doUnlockId s i f m srv
  | .verify srv => doVerify s srv
  | .otherLock p who =>
    if (lockedBy s.table p).isSome || who == me then s
    else { s with table := s.table ++ [⟨s.nextId, p, who⟩], nextId := s.nextId + 1 }
  | .otherUnlock p =>
    match lockedBy s.table p with
    | some l => if l.owner != me then { s with table := s.table.erase l } else s
    | none => s

def run (s : St) (ops : List Op) : St := ops.foldl step s

def own (t : Table) : List Lock := t.filter fun l => l.owner == me
def theirs (t : Table) : List Lock := t.filter fun l => l.owner != me

/-- `fixSingleFileWriteFlags`: a lockable file is made writable iff the cache lists a lock on it -/
def writableAfterFix (cache : Cache) (p : Nat) : Bool := cache.any fun l => l.path == p

/-- the pre-push gate (uploader.go: ReportErrors): rejected iff verification is enabled and a path the
    scanner reports as touched is locked by somebody else -/
def pushRejected (verifyEnabled : Bool) (t : Table) (touched : List Nat) : Bool :=
  verifyEnabled && touched.any fun p => (theirs t).any fun l => l.path == p

end Lk
