import LfsModel.TQ
/-
C06 — error coverage: an object that ends as "errored" is covered by a reported error.
`errors` counts the reports; it never decreases and every transition into `.term .errored` adds one.
-/
namespace TQ

/-- either something has been reported, or no object is in the errored state -/
def ErrCover (s : State) : Prop := 0 < s.errors ∨ ∀ o, s.st o ≠ .term .errored

theorem set_ne_errored (f : Oid → Status) (o : Oid) (v : Status) (hv : v ≠ .term .errored)
    (h : ∀ x, f x ≠ .term .errored) : ∀ x, set f o v x ≠ .term .errored := by
  intro x; unfold set; split
  · exact hv
  · exact h x

theorem errCover_done (s : State) (h : ErrCover s) : ErrCover (done s) := by
  unfold done; split
  · exact h
  · exact h

theorem errCover_retryOrFail (s : State) (o : Oid) (h : ErrCover s) : ErrCover (retryOrFail s o) := by
  unfold retryOrFail; split
  · rcases h with h | h
    · exact Or.inl h
    · exact Or.inr (set_ne_errored _ _ _ (by simp) h)
  · apply errCover_done; exact Or.inl (by simp)

theorem step_errCover (s s' : State) (e : Ev) (hs : step s e = some s') (h : ErrCover s) : ErrCover s' := by
  have keep : ∀ (o : Oid) (v : Status), v ≠ .term .errored →
      ErrCover { s with st := set s.st o v } := by
    intro o v hv
    rcases h with h | h
    · exact Or.inl h
    · exact Or.inr (set_ne_errored _ _ _ hv h)
  cases e with
  | add o =>
    simp only [step] at hs
    split at hs
    · cases hs
    · split at hs
      · split at hs
        · cases hs
          rcases h with h | h
          · exact Or.inl h
          · exact Or.inr (set_ne_errored _ _ _ (by simp) h)
        · cases hs
      · cases hs; exact h
      · cases hs; exact h
  | collTake o =>
    simp only [step] at hs
    split at hs
    · cases hs; exact keep o .waiting (by simp)
    · cases hs
  | batchStart os =>
    simp only [step] at hs
    split at hs
    · cases hs
      rcases h with h | h
      · exact Or.inl h
      · refine Or.inr ?_
        intro x
        show (if x ∈ os then Status.inBatch else s.st x) ≠ .term .errored
        split
        · simp
        · exact h x
    · cases hs
  | reply o r =>
    simp only [step] at hs
    split at hs
    · cases r with
      | action => cases hs; exact keep o .job (by simp)
      | noAction => cases hs; exact errCover_done _ (keep o (.term .noAction) (by simp))
      | error => cases hs; exact errCover_done _ (Or.inl (by simp))
      | expiredAction => cases hs; exact errCover_retryOrFail s o h
    · cases hs
  | batchCallFail o retriable =>
    simp only [step] at hs
    split at hs
    · split at hs
      · cases hs; exact errCover_retryOrFail s o h
      · cases hs; exact errCover_done _ (Or.inl (by simp))
    · cases hs
  | jobResult o out =>
    simp only [step] at hs
    split at hs
    · cases out with
      | ok =>
        cases hs
        apply errCover_done
        rcases h with h | h
        · exact Or.inl h
        · exact Or.inr (set_ne_errored _ _ _ (by simp) h)
      | retriable => cases hs; exact errCover_retryOrFail s o h
      | fatal => cases hs; exact errCover_done _ (Or.inl (by simp))
      | unprocessable => cases hs; exact errCover_done _ (Or.inl (by simp))
    · cases hs
  | batchEnd o =>
    simp only [step] at hs
    split at hs
    · cases hs; exact keep o .waiting (by simp)
    · cases hs
  | waitCall =>
    simp only [step] at hs
    split at hs
    · cases hs
    · cases hs; exact h
  | waitReturn =>
    simp only [step] at hs
    split at hs
    · cases hs; exact h
    · cases hs

theorem run_errCover (s s' : State) (es : List Ev) (hr : run s es = some s') (h : ErrCover s) : ErrCover s' := by
  induction es generalizing s with
  | nil => simp [run] at hr; subst hr; exact h
  | cons e es ih =>
    simp only [run] at hr
    split at hr
    · rename_i s1 hs1
      exact ih s1 hr (step_errCover s s1 e hs1 h)
    · cases hr

end TQ
