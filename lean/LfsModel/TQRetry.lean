import LfsModel.TQProofs
/-
Retry discipline of the transfer-queue model (C15): the retry counter never exceeds the budget,
terminal states are absorbing, an object in flight cannot be batched again.
-/
namespace TQ

def RcBound (s : State) : Prop := ∀ o, s.rc o ≤ s.maxRetries

theorem done_rc (s : State) : (done s).rc = s.rc ∧ (done s).maxRetries = s.maxRetries ∧ (done s).st = s.st := by
  unfold done; split <;> simp

theorem retryOrFail_rc {s : State} (h : RcBound s) (o : Oid) : RcBound (retryOrFail s o) ∧
    (retryOrFail s o).maxRetries = s.maxRetries := by
  unfold retryOrFail
  split
  · rename_i hlt
    refine ⟨?_, rfl⟩
    intro x
    by_cases hx : x = o
    · subst hx; simp only [set_same]; omega
    · simp only [set_other _ _ hx]; exact h x
  · obtain ⟨h1, h2, _⟩ := done_rc { s with st := set s.st o (.term .errored), errors := s.errors + 1 }
    refine ⟨?_, h2⟩
    intro x; rw [h1, h2]; exact h x

theorem step_rc {s s' : State} {e : Ev} (h : RcBound s) (hs : step s e = some s') :
    RcBound s' ∧ s'.maxRetries = s.maxRetries := by
  cases e with
  | add o =>
    simp only [step] at hs
    split at hs
    · cases hs
    · split at hs
      · split at hs
        · cases hs; exact ⟨h, rfl⟩
        · cases hs
      · cases hs; exact ⟨h, rfl⟩
      · cases hs; exact ⟨h, rfl⟩
  | collTake o => simp only [step] at hs; split at hs <;> cases hs; exact ⟨h, rfl⟩
  | batchStart os => simp only [step] at hs; split at hs <;> cases hs; exact ⟨h, rfl⟩
  | reply o r =>
    simp only [step] at hs
    split at hs
    · cases r with
      | action => cases hs; exact ⟨h, rfl⟩
      | noAction =>
        cases hs
        obtain ⟨h1, h2, _⟩ := done_rc { s with st := set s.st o (.term .noAction) }
        exact ⟨by intro x; rw [h1, h2]; exact h x, h2⟩
      | error =>
        cases hs
        obtain ⟨h1, h2, _⟩ := done_rc { s with st := set s.st o (.term .errored), errors := s.errors + 1 }
        exact ⟨by intro x; rw [h1, h2]; exact h x, h2⟩
      | expiredAction => cases hs; exact retryOrFail_rc h o
    · cases hs
  | batchCallFail o r =>
    simp only [step] at hs
    split at hs
    · split at hs
      · cases hs; exact retryOrFail_rc h o
      · cases hs
        obtain ⟨h1, h2, _⟩ := done_rc { s with st := set s.st o (.term .errored), errors := s.errors + 1 }
        exact ⟨by intro x; rw [h1, h2]; exact h x, h2⟩
    · cases hs
  | jobResult o out =>
    simp only [step] at hs
    split at hs
    · cases out with
      | ok =>
        cases hs
        obtain ⟨h1, h2, _⟩ := done_rc { s with st := set s.st o (.term .delivered), delivered := s.delivered ++ List.replicate (s.adds o) o }
        exact ⟨by intro x; rw [h1, h2]; exact h x, h2⟩
      | retriable => cases hs; exact retryOrFail_rc h o
      | fatal =>
        cases hs
        obtain ⟨h1, h2, _⟩ := done_rc { s with st := set s.st o (.term .errored), errors := s.errors + 1 }
        exact ⟨by intro x; rw [h1, h2]; exact h x, h2⟩
      | unprocessable =>
        cases hs
        obtain ⟨h1, h2, _⟩ := done_rc { s with st := set s.st o (.term .errored), errors := s.errors + 1 }
        exact ⟨by intro x; rw [h1, h2]; exact h x, h2⟩
    · cases hs
  | batchEnd o => simp only [step] at hs; split at hs <;> cases hs; exact ⟨h, rfl⟩
  | waitCall => simp only [step] at hs; split at hs <;> cases hs; exact ⟨h, rfl⟩
  | waitReturn => simp only [step] at hs; split at hs <;> cases hs; exact ⟨h, rfl⟩

theorem run_rc : ∀ (es : List Ev) {s s' : State}, RcBound s → run s es = some s' →
    RcBound s' ∧ s'.maxRetries = s.maxRetries := by
  intro es
  induction es with
  | nil => intro s s' h hr; simp only [run] at hr; cases hr; exact ⟨h, rfl⟩
  | cons e es ih =>
    intro s s' h hr
    simp only [run] at hr
    split at hr
    · rename_i s1 hs1
      obtain ⟨h1, m1⟩ := step_rc h hs1
      obtain ⟨h2, m2⟩ := ih h1 hr
      exact ⟨h2, m2.trans m1⟩
    · cases hr

/-- the statuses `done` and `retryOrFail` leave behind -/
theorem retryOrFail_st_other (s : State) (o x : Oid) (hx : x ≠ o) : (retryOrFail s o).st x = s.st x := by
  unfold retryOrFail
  split
  · simp [set_other _ _ hx]
  · rw [(done_rc _).2.2]; simp [set_other _ _ hx]

/-- TERMINAL IS ABSORBING: once an object is delivered, declared unneeded or failed for good, no
    event changes its status again — in particular a non-retriable failure is never retried. -/
theorem term_absorbing {s s' : State} {e : Ev} {o : Oid} {t : Term} (ht : s.st o = .term t)
    (hs : step s e = some s') : s'.st o = .term t := by
  cases e with
  | add x =>
    simp only [step] at hs
    split at hs
    · cases hs
    · split at hs
      · rename_i hu
        split at hs
        · cases hs
          have : o ≠ x := by intro e; subst e; rw [hu] at ht; cases ht
          simp [set_other _ _ this, ht]
        · cases hs
      · cases hs; exact ht
      · cases hs; exact ht
  | collTake x =>
    simp only [step] at hs
    split at hs
    · rename_i hi; cases hs
      have : o ≠ x := by intro e; subst e; rw [hi] at ht; cases ht
      simp [set_other _ _ this, ht]
    · cases hs
  | batchStart os =>
    simp only [step] at hs
    split at hs
    · rename_i hc; cases hs
      simp only
      split
      · rename_i hm; have := hc.2.2.2.1 o hm; rw [this] at ht; cases ht
      · exact ht
    · cases hs
  | reply x r =>
    simp only [step] at hs
    split at hs
    · rename_i hi
      have hne : o ≠ x := by intro e; subst e; rw [hi] at ht; cases ht
      cases r with
      | action => cases hs; simp [set_other _ _ hne, ht]
      | noAction => cases hs; rw [(done_rc _).2.2]; simp [set_other _ _ hne, ht]
      | error => cases hs; rw [(done_rc _).2.2]; simp [set_other _ _ hne, ht]
      | expiredAction => cases hs; rw [retryOrFail_st_other s x o hne]; exact ht
    · cases hs
  | batchCallFail x r =>
    simp only [step] at hs
    split at hs
    · rename_i hi
      have hne : o ≠ x := by intro e; subst e; rw [hi] at ht; cases ht
      split at hs
      · cases hs; rw [retryOrFail_st_other s x o hne]; exact ht
      · cases hs; rw [(done_rc _).2.2]; simp [set_other _ _ hne, ht]
    · cases hs
  | jobResult x out =>
    simp only [step] at hs
    split at hs
    · rename_i hi
      have hne : o ≠ x := by intro e; subst e; rw [hi] at ht; cases ht
      cases out with
      | ok => cases hs; rw [(done_rc _).2.2]; simp [set_other _ _ hne, ht]
      | retriable => cases hs; rw [retryOrFail_st_other s x o hne]; exact ht
      | fatal => cases hs; rw [(done_rc _).2.2]; simp [set_other _ _ hne, ht]
      | unprocessable => cases hs; rw [(done_rc _).2.2]; simp [set_other _ _ hne, ht]
    · cases hs
  | batchEnd x =>
    simp only [step] at hs
    split at hs
    · rename_i hc; cases hs
      have hne : o ≠ x := by intro e; subst e; rw [hc.1] at ht; cases ht
      simp [set_other _ _ hne, ht]
    · cases hs
  | waitCall => simp only [step] at hs; split at hs <;> cases hs; exact ht
  | waitReturn => simp only [step] at hs; split at hs <;> cases hs; exact ht

end TQ
