import LfsModel.AStreamLemmas
import LfsModel.Pointer
/-
Executable model of the clean and smudge filters over a chunked stream
(lfs/gitfilter_clean.go: copyToTemp, commands/command_clean.go: clean,
 commands/command_smudge.go: smudge, lfs/gitfilter_smudge.go: Smudge, lfs/pointer.go: DecodeFrom),
as the code is after the D1/D16/D18 repairs.  Core-only.

`H` is SHA-256 (abstract in theorems, `Sha256.hexDigest` in the oracle).
The local object store is an association list oid ↦ content (first match wins).
-/
namespace Flt
open LfsA LfsA.Stream

abbrev Bytes := List UInt8
abbrev cut : Nat := Lfs.cut

abbrev Store := List (Bytes × Bytes)
def Store.get (st : Store) (o : Bytes) : Option Bytes :=
  match st with
  | [] => none
  | (k, v) :: rest => if k = o then some v else Store.get rest o

/-- `DecodeFrom`: io.ReadFull of the `cut`-byte window, then the pointer decoder on the window.
Returns the verdict, the window and the rest of the stream. -/
def decodeFrom (s : Stream) : Except Lfs.Err (Lfs.Ptr × Bool) × Bytes × Stream :=
  let (buf, _, s') := s.readFull cut
  (Lfs.dec buf, buf, s')

inductive CleanRes
  | pass (out : Bytes)                      -- CleanPointerError: bytes written back verbatim, store untouched
  | stored (oid : Bytes) (content : Bytes)  -- content stored (or already present) under oid; pointer emitted
  | mismatch                                -- an object of another size sits under that oid: "Files don't match", exit
deriving DecidableEq, Repr

/-- `commands.clean` (no extensions configured).  The size hint / the file at the named path only
feed the progress callback and do not appear. -/
def clean (H : Bytes → Bytes) (s : Stream) (st : Store) : CleanRes × Store :=
  let (r, buf, s') := decodeFrom s
  if buf.isEmpty then (.pass [], st)                 -- the second read reports EOF: empty pointer
  else match r with
    | .ok _ => (.pass buf, st)                        -- err == nil ∧ len(by) < cut
    | .error _ =>
      let content := buf ++ s'.data
      let oid := H content
      match st.get oid with
      | some c => if c.length = content.length then (.stored oid content, st) else (.mismatch, st)
      | none => (.stored oid content, (oid, content) :: st)

/-- the bytes `clean` writes to Git -/
def CleanRes.out : CleanRes → Bytes
  | .pass b => b
  | .stored oid c => Lfs.enc { oid := oid, size := c.length, exts := [] }
  | .mismatch => []

inductive SmudgeRes
  | bytes (out : Bytes) (notPtr : Bool)     -- bytes written to Git; notPtr = "Unable to parse pointer" reported
  | needDownload (p : Lfs.Ptr)              -- object absent (or of the wrong size, then removed): transfer queue
deriving DecidableEq, Repr

/-- `commands.smudge` + `GitFilter.Smudge` with the object looked up in the local store -/
def smudge (s : Stream) (st : Store) : SmudgeRes :=
  let (r, buf, s') := decodeFrom s
  match r with
  | .error _ => .bytes (buf ++ s'.data) (!(buf ++ s'.data).isEmpty)
  | .ok (p, _) =>
    if p.size = 0 then .bytes [] false
    else match st.get p.oid with
      | some c => if c.length = p.size then .bytes c false else .needDownload p
      | none => .needDownload p

/-! ### the specification on whole byte strings (no streams, no windows) -/

def cleanSpec (H : Bytes → Bytes) (b : Bytes) (st : Store) : CleanRes × Store :=
  if b.isEmpty then (.pass [], st)
  else match Lfs.dec b with
    | .ok _ => (.pass b, st)
    | .error _ =>
      match st.get (H b) with
      | some c => if c.length = b.length then (.stored (H b) b, st) else (.mismatch, st)
      | none => (.stored (H b) b, (H b, b) :: st)

def smudgeSpec (b : Bytes) (st : Store) : SmudgeRes :=
  match Lfs.dec b with
  | .error _ => .bytes b (!b.isEmpty)
  | .ok (p, _) =>
    if p.size = 0 then .bytes [] false
    else match st.get p.oid with
      | some c => if c.length = p.size then .bytes c false else .needDownload p
      | none => .needDownload p

/-! ### the merge driver's output file (commands/command_merge_driver.go: processFiles)
A file opened for writing WITHOUT `O_TRUNC` keeps the old tail beyond what is written. -/
def writeOver (trunc : Bool) (old new : Bytes) : Bytes :=
  if trunc then new else new ++ old.drop new.length

/-- what `processFiles` leaves in the `--output` file: the cleaned text of the merge result, the
    file being truncated when it is opened -/
def mergeDriverOutput (old cleaned : Bytes) : Bytes := writeOver true old cleaned

end Flt
