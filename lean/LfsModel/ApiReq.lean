import LfsModel.Api
import LfsModel.GenApi
/-
C18 — the request encoders of tq/api.go (batch), tq/verify.go (object verify) and locking/api.go
(lock create / delete / verify) over the struct-tag tables regenerated from /repo, and the
client's handling of the batch response's `hash_algo`.
-/
namespace ApiReq
open Api

structure Obj where
  oid : String
  size : Int

structure BatchIn where
  op : String
  objs : List Obj
  adapters : List String      -- Manifest.GetAdapterNames(dir)
  refName : String            -- remoteRef.Refspec() ("" for a nil ref)

/-- `batch.ToTransfers()`: only Oid and Size are set (Missing is tagged `-`) -/
def encTransfer (o : Obj) : J :=
  encodeStruct Gen.TransferFields
    [("Name", jstr ""), ("Oid", jstr o.oid), ("Size", jint o.size), ("Authenticated", jbool false),
     ("Actions", (.null, true)), ("Links", (.null, true)), ("Error", (.null, true)), ("Path", jstr "")]

/-- `tqClient.Batch`: a lone "basic" is not announced -/
def normAdapters (l : List String) : List String := if l == ["basic"] then [] else l

/-- no request at all for an empty object list -/
def batchSends (r : BatchIn) : Bool := !r.objs.isEmpty

def encBatch (r : BatchIn) : J :=
  encodeStruct Gen.batchRequestFields
    [("Operation", jstr r.op),
     ("Objects", (.arr (JList.ofList (r.objs.map encTransfer)), false)),
     ("TransferAdapterNames", jstrs (normAdapters r.adapters)),
     ("Ref", (encodeStruct Gen.batchRefFields [("Name", jstr r.refName)], false)),
     ("HashAlgorithm", jstr Gen.batchHashAlgo)]

/-- `newLockRef`: nil (omitted) when there is no ref name -/
def encLockRef (name : String) : J × Bool :=
  if name == "" then (.null, true) else (encodeStruct Gen.lockRefFields [("Name", jstr name)], false)

def encLock (path refName : String) : J :=
  encodeStruct Gen.lockRequestFields [("Path", jstr path), ("Ref", encLockRef refName)]

def encUnlock (force : Bool) (refName : String) : J :=
  encodeStruct Gen.unlockRequestFields [("Force", jbool force), ("Ref", encLockRef refName)]

def encLockVerify (refName cursor : String) (limit : Int) : J :=
  encodeStruct Gen.lockVerifiableRequestFields
    [("Ref", encLockRef refName), ("Cursor", jstr cursor), ("Limit", jint limit)]

def encVerify (o : Obj) : J :=
  encodeStruct Gen.verifyRequestFields [("Oid", jstr o.oid), ("Size", jint o.size)]

/-- the client acts on a batch response only if it names no hash algorithm or a supported one -/
def acceptsHashAlgo (algo : String) : Bool := Gen.acceptedHashAlgos.contains algo

/-! ### reading a batch request back (what a server sees) -/
def objField (j : J) (k : String) : Option J :=
  match j with
  | .obj kvs => kvs.get? k
  | _ => none

def strOf : Option J → Option String
  | some (.str s) => some s
  | _ => none

def numOf : Option J → Option Int
  | some (.num n) => some n
  | _ => none

def listOf : JList → List J
  | .nil => []
  | .cons x xs => x :: listOf xs

/-- (oid, size) of every entry of "objects" -/
def batchObjects (j : J) : List (Option String × Option Int) :=
  match objField j "objects" with
  | some (.arr xs) => (listOf xs).map fun x => (strOf (objField x "oid"), numOf (objField x "size"))
  | _ => []

/-! ### the request schemas that the documentation gives in prose only
docs/api/locking.md ("List Locks for Verification": `cursor`, `limit`, `ref.name` optional) and
docs/api/basic-transfers.md ("Verification": `oid`, `size`) — transcribed by hand. -/
def strSch : Sch := .mk (some .string) [] [] none none true
def lockVerifyRequestDoc : Sch :=
  .mk (some .object)
    [("cursor", strSch), ("limit", .mk (some .number) [] [] none (some 0) true),
     ("ref", .mk (some .object) [("name", strSch)] ["name"] none none true)] [] none none true
def objectVerifyRequestDoc : Sch :=
  .mk (some .object) [("oid", strSch), ("size", .mk (some .number) [] [] none (some 0) true)] ["oid", "size"] none none false

/-! ### which transfer adapter carries the objects of a batch answer
tq/transfer_queue.go: `q.useAdapter(bRes.TransferAdapterName)` before the objects of EVERY answer are
handed on; tq/manifest.go NewAdapterOrDefault: a name that is not configured (the empty name of an
answer without a `transfer` member included) means `basic` (docs/api/batch.md: "transfer — … basic if
omitted"). -/
def resolveAdapter (avail : List String) (name : String) : String :=
  if name ∈ avail then name else "basic"

/-- useAdapter: `cur` is the Name() of the running adapter, if there is one -/
def useAdapter (avail : List String) (cur : Option String) (name : String) : Option String :=
  if cur = some name then cur else some (resolveAdapter avail name)

/-- the adapter in charge after a sequence of answers -/
def adapterAfter (avail : List String) (cur : Option String) (answers : List String) : Option String :=
  answers.foldl (useAdapter avail) cur

end ApiReq
