import LfsModel.PtrRound1
namespace Lfs

/-! ### line structure of the canonical encoding -/
def verLine : Bytes := kVersion ++ [32] ++ latest
def extKey (e : Ext) : Bytes := extDash ++ toDec e.prio ++ [45] ++ e.name
def extVal (e : Ext) : Bytes := sha256Colon ++ e.oid
def extLine (e : Ext) : Bytes := extKey e ++ [32] ++ extVal e
def oidLine (p : Ptr) : Bytes := kOid ++ [32] ++ (sha256Colon ++ p.oid)
def sizeLine (p : Ptr) : Bytes := kSize ++ [32] ++ toDec p.size
def initLines (p : Ptr) : List Bytes := verLine :: (p.exts.map extLine ++ [oidLine p])

def unlines (ls : List Bytes) : Bytes := (ls.map (· ++ [10])).flatten

theorem encExt_eq (e : Ext) : encExt e = extLine e ++ [10] := by
  simp [encExt, extLine, extKey, extVal, List.append_assoc]

theorem unlines_cons (l : Bytes) (ls : List Bytes) : unlines (l :: ls) = l ++ [10] ++ unlines ls := by
  simp [unlines]

theorem unlines_append (a b : List Bytes) : unlines (a ++ b) = unlines a ++ unlines b := by
  simp [unlines]

theorem flatten_encExt (es : List Ext) : (es.map encExt).flatten = unlines (es.map extLine) := by
  induction es with
  | nil => rfl
  | cons e es ih => simp [unlines, encExt_eq] at ih ⊢; exact ih

theorem enc_eq (p : Ptr) (h : p.size ≠ 0) : enc p = (unlines (initLines p) ++ sizeLine p) ++ [10] := by
  unfold enc
  simp only [h, if_false]
  rw [flatten_encExt]
  simp only [initLines, unlines_cons, unlines_append, verLine, oidLine, sizeLine, List.append_assoc]
  simp [unlines]

/-! ### bufio.ScanLines on LF-free lines -/
theorem splitLF_nolf (l : Bytes) (h : (10 : UInt8) ∉ l) (cur : Bytes) :
    splitLF l cur = if (cur.reverse ++ l).isEmpty then [] else [cur.reverse ++ l] := by
  induction l generalizing cur with
  | nil => simp [splitLF]
  | cons c cs ih =>
    have hc : c ≠ 10 := fun e => h (e ▸ List.mem_cons_self)
    have hcs : (10 : UInt8) ∉ cs := fun m => h (List.mem_cons_of_mem _ m)
    simp only [splitLF, hc, if_false]
    rw [ih hcs]
    simp

theorem splitLF_line (l rest : Bytes) (h : (10 : UInt8) ∉ l) (cur : Bytes) :
    splitLF (l ++ 10 :: rest) cur = (cur.reverse ++ l) :: splitLF rest [] := by
  induction l generalizing cur with
  | nil => simp [splitLF]
  | cons c cs ih =>
    have hc : c ≠ 10 := fun e => h (e ▸ List.mem_cons_self)
    have hcs : (10 : UInt8) ∉ cs := fun m => h (List.mem_cons_of_mem _ m)
    simp only [List.cons_append, splitLF, hc, if_false]
    rw [ih hcs]
    simp

theorem splitLF_unlines (ls : List Bytes) (last : Bytes) (hls : ∀ l ∈ ls, (10 : UInt8) ∉ l)
    (hlast : (10 : UInt8) ∉ last) (hne : last ≠ []) :
    splitLF (unlines ls ++ last) [] = ls ++ [last] := by
  induction ls with
  | nil =>
    simp only [unlines, List.map_nil, List.flatten_nil, List.nil_append]
    rw [splitLF_nolf last hlast]
    simp [hne]
  | cons l ls ih =>
    rw [unlines_cons]
    have : l ++ [10] ++ unlines ls ++ last = l ++ 10 :: (unlines ls ++ last) := by simp
    rw [this, splitLF_line l _ (hls l List.mem_cons_self)]
    rw [ih (fun x hx => hls x (List.mem_cons_of_mem _ hx))]
    simp

/-! ### bytes.TrimSpace on something that starts with a non-space ASCII byte and ends `d LF` -/
def headHigh (e : Bytes) : Bool := match e with | h :: _ => decide (128 ≤ h.toNat) | [] => false
theorem headHigh_spec {e : Bytes} (h : headHigh e = true) : ∃ h t, e = h :: t ∧ 128 ≤ h.toNat := by
  cases e with
  | nil => simp [headHigh] at h
  | cons a t => exact ⟨a, t, rfl, by simpa [headHigh] using h⟩
theorem tbl_heads : ∀ e ∈ uniSpaces, ∃ h t, e = h :: t ∧ 128 ≤ h.toNat := by
  have : uniSpaces.all headHigh = true := by decide
  intro e he; exact headHigh_spec (List.all_eq_true.mp this e he)
theorem tblR_heads : ∀ e ∈ uniSpaces.map List.reverse, ∃ h t, e = h :: t ∧ 128 ≤ h.toNat := by
  have : (uniSpaces.map List.reverse).all headHigh = true := by decide
  intro e he; exact headHigh_spec (List.all_eq_true.mp this e he)

theorem spaceWidth_zero (tbl : List Bytes) (htbl : ∀ e ∈ tbl, ∃ h t, e = h :: t ∧ 128 ≤ h.toNat)
    (c : UInt8) (r : Bytes) (h1 : 33 ≤ c.toNat) (h2 : c.toNat < 128) : spaceWidth tbl (c :: r) = 0 := by
  unfold spaceWidth
  simp only [notSpace_of_toNat h1]
  have : tbl.find? (fun e => e.isPrefixOf (c :: r)) = none := by
    apply List.find?_eq_none.mpr
    intro e he
    obtain ⟨hh, t, rfl, hge⟩ := htbl e he
    have : hh ≠ c := ne_of_toNat_ne (by omega)
    simp [List.isPrefixOf, this]
  simp [this]

theorem trimLeftWith_stop (tbl : List Bytes) (fuel : Nat) (b : Bytes) (h : spaceWidth tbl b = 0) :
    trimLeftWith tbl fuel b = b := by
  cases fuel with
  | zero => rfl
  | succ f => simp [trimLeftWith, h]

theorem trimLeftWith_step (tbl : List Bytes) (f : Nat) (b : Bytes) (w : Nat)
    (h : spaceWidth tbl b = w) (hw : w ≠ 0) :
    trimLeftWith tbl (f + 1) b = trimLeftWith tbl f (b.drop w) := by
  simp [trimLeftWith, h, hw]

theorem spaceWidth_lf (tbl : List Bytes) (r : Bytes) : spaceWidth tbl (10 :: r) = 1 := by
  simp [spaceWidth, isAsciiSpace]

/-- the shape of a canonical encoding: `c :: mid ++ [d, LF]`, c and d printable ASCII -/
theorem trimSpace_shape (c d : UInt8) (mid : Bytes)
    (hc1 : 33 ≤ c.toNat) (hc2 : c.toNat < 128) (hd1 : 33 ≤ d.toNat) (hd2 : d.toNat < 128) :
    trimSpace (c :: mid ++ [d, 10]) = c :: mid ++ [d] := by
  unfold trimSpace
  have hl : trimLeft (c :: mid ++ [d, 10]) = c :: mid ++ [d, 10] := by
    unfold trimLeft
    exact trimLeftWith_stop _ _ _ (spaceWidth_zero _ tbl_heads c _ hc1 hc2)
  rw [hl]
  unfold trimRight
  have hr : (c :: mid ++ [d, 10]).reverse = 10 :: d :: (c :: mid).reverse := by simp
  rw [hr]
  have hlen : (c :: mid ++ [d, 10]).length = (mid.length + 1) + 1 + 1 := by simp
  rw [hlen, trimLeftWith_step _ _ _ 1 (spaceWidth_lf _ _) (by decide)]
  simp only [List.drop_succ_cons, List.drop_zero]
  rw [trimLeftWith_stop _ _ _ (spaceWidth_zero _ tblR_heads d _ hd1 hd2)]
  simp

#print axioms trimSpace_shape
#print axioms splitLF_unlines
end Lfs
