/-
Probe: github.com/git-lfs/pktline PktlineReader.Read over a packet list: it is a "full-or-EOF"
reader, so one Read of `cut` bytes sees the first `cut` bytes of the payload however Git packetised it.
-/
namespace Pkt
abbrev Bytes := List UInt8

/-- what is still to come on the wire: `some d` a data packet, `none` a flush packet;
the end of the list is the end of the underlying stream (ReadPacket fails) -/
abbrev Wire := List (Option Bytes)

structure Reader where
  buf : Bytes := []
  eof : Bool := false
  wire : Wire
deriving Repr

/-- the payload the reader is positioned in: buffered bytes, then data packets up to the first flush -/
def payloadOf : Wire → Bytes
  | [] => []
  | none :: _ => []
  | some d :: rest => if d.isEmpty then [] else d ++ payloadOf rest

def Reader.payload (r : Reader) : Bytes := if r.eof then [] else r.buf ++ payloadOf r.wire

/-- the `for len(r.buf) == 0` loop: returns (out, sawEnd, newBuf, eofFlag, wire) -/
def fill (n : Nat) : Bytes → Wire → Bytes × Bool × Bytes × Bool × Wire
  | out, [] => (out, true, [], false, [])
  | out, none :: rest => (out, true, [], true, rest)
  | out, some c :: rest =>
    if c.isEmpty then (out, true, [], true, rest) else
    let nn := min c.length (n - out.length)
    if (c.drop nn).isEmpty then fill n (out ++ c.take nn) rest
    else (out ++ c.take nn, false, c.drop nn, false, rest)

/-- PktlineReader.Read(p) with len(p) = n: bytes, "returned io.EOF / an error", new reader -/
def Reader.read (r : Reader) (n : Nat) : Bytes × Bool × Reader :=
  if r.eof then ([], true, r) else
  let out := r.buf.take n
  let b := r.buf.drop n
  if !b.isEmpty then (out, false, { r with buf := b }) else
  let (out', e, b', ef, w') := fill n out r.wire
  (out', e, { buf := b', eof := ef, wire := w' })

theorem fill_spec (n : Nat) : ∀ (w : Wire) (out : Bytes), out.length ≤ n →
    (fill n out w).1 = out ++ (payloadOf w).take (n - out.length) ∧
    ((fill n out w).2.2.2.1 = false →
        (fill n out w).2.2.1 ++ payloadOf (fill n out w).2.2.2.2 = (payloadOf w).drop (n - out.length)) ∧
    ((fill n out w).2.1 = false → (fill n out w).1.length = n) := by
  intro w
  induction w with
  | nil => intro out _; simp [fill, payloadOf]
  | cons p rest ih =>
    intro out hlen
    cases p with
    | none => simp [fill, payloadOf]
    | some c =>
      by_cases hc : c.isEmpty = true
      · simp [fill, payloadOf, hc]
      · have hc' : c.isEmpty = false := by simpa using hc
        simp only [fill, payloadOf, hc', Bool.false_eq_true, if_false]
        by_cases hd : (c.drop (min c.length (n - out.length))).isEmpty = true
        · -- the whole packet fitted: continue with the rest
          simp only [hd, if_true]
          have hle : c.length ≤ n - out.length := by
            have : (c.drop (min c.length (n - out.length))) = [] := by simpa using hd
            have hl := congrArg List.length this
            simp only [List.length_drop, List.length_nil] at hl
            omega
          have hmin : min c.length (n - out.length) = c.length := by omega
          have htake : c.take (min c.length (n - out.length)) = c := by rw [hmin]; simp
          rw [htake]
          have hlen' : (out ++ c).length ≤ n := by simp; omega
          have := ih (out ++ c) hlen'
          have hsub : n - (out ++ c).length = n - out.length - c.length := by simp; omega
          refine ⟨?_, ?_, this.2.2⟩
          · rw [this.1, hsub, List.take_append, List.take_of_length_le hle]
            simp [List.append_assoc]
          · intro he
            rw [this.2.1 he, hsub, List.drop_append, List.drop_of_length_le hle]
            simp
        · -- the packet overfills: stop, keep the remainder
          have hd' : (c.drop (min c.length (n - out.length))).isEmpty = false := by simpa using hd
          simp only [hd', Bool.false_eq_true, if_false]
          have hgt : n - out.length < c.length := by
            by_cases h : c.length ≤ n - out.length
            · have hmin : min c.length (n - out.length) = c.length := by omega
              rw [hmin] at hd'; simp at hd'
            · omega
          have hmin : min c.length (n - out.length) = n - out.length := by omega
          rw [hmin]
          have hk : n - out.length ≤ c.length := Nat.le_of_lt hgt
          refine ⟨?_, ?_, ?_⟩
          · rw [List.take_append_of_le_length hk]
          · intro _; rw [List.drop_append_of_le_length hk]
          · intro _; simp [List.length_take]; omega

/-- **C14.pkt_first_read**: whatever the packetisation, one `Read(n)` delivers the first `n` bytes
of the payload, leaves exactly the rest, and reports end-of-payload unless it delivered `n` bytes. -/
theorem read_spec (r : Reader) (n : Nat) (hn : 0 < n) (he : r.eof = false) :
    (r.read n).1 = r.payload.take n ∧
    ((r.read n).2.2.eof = false → (r.read n).2.2.payload = r.payload.drop n) ∧
    ((r.read n).2.1 = false → (r.read n).1.length = n) := by
  unfold Reader.read Reader.payload
  simp only [he, Bool.false_eq_true, if_false]
  by_cases hb : (r.buf.drop n).isEmpty = true
  · simp only [hb, Bool.not_true, Bool.false_eq_true, if_false]
    have hle : r.buf.length ≤ n := by
      have : r.buf.drop n = [] := by simpa using hb
      have hl := congrArg List.length this
      simp only [List.length_drop, List.length_nil] at hl
      omega
    have htake : r.buf.take n = r.buf := List.take_of_length_le hle
    have := fill_spec n r.wire (r.buf.take n) (by rw [htake]; exact hle)
    rw [htake] at this ⊢
    refine ⟨?_, ?_, this.2.2⟩
    · rw [this.1, List.take_append, List.take_of_length_le hle]
    · intro hf
      simp only [hf, Bool.false_eq_true, if_false]
      rw [this.2.1 hf, List.drop_append, List.drop_of_length_le hle]
      simp
  · have hb' : (r.buf.drop n).isEmpty = false := by simpa using hb
    simp only [hb', Bool.not_false, if_true, he, Bool.false_eq_true, if_false]
    have hlt : n < r.buf.length := by
      by_cases h : r.buf.length ≤ n
      · rw [List.drop_of_length_le h] at hb'; simp at hb'
      · omega
    have hk : n ≤ r.buf.length := Nat.le_of_lt hlt
    refine ⟨?_, ?_, ?_⟩
    · rw [List.take_append_of_le_length hk]
    · intro _; rw [List.drop_append_of_le_length hk]
    · intro _; simp [List.length_take]; omega

/-- 3 packets of sizes 2,1,3 read with a 4-byte buffer, then the rest -/
example : (Reader.read ⟨[], false, [some [1,2], some [3], some [4,5,6], none, some [9]]⟩ 4).1 = [1,2,3,4] := by decide
example : ((Reader.read ⟨[], false, [some [1,2], some [3], some [4,5,6], none, some [9]]⟩ 4).2.2.read 4).1 = [5,6] := by decide

#print axioms read_spec
end Pkt
