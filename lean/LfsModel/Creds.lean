/-
Probe: creds.Creds.buffer (the bytes written to `git credential`'s stdin) and the line grammar of
the credential protocol.  Core-only.
-/
namespace Cr
abbrev Bytes := List UInt8

def capAuthtype : Bytes := [99,97,112,97,98,105,108,105,116,121,91,93,61,97,117,116,104,116,121,112,101]  -- capability[]=authtype
def capState : Bytes := [99,97,112,97,98,105,108,105,116,121,91,93,61,115,116,97,116,101]                 -- capability[]=state

def bad (protect : Bool) (v : Bytes) : Bool := v.contains 10 || (protect && v.contains 13) || v.contains 0

/-- entries in the (arbitrary) order the Go map iteration yields them; each key has a list of values -/
abbrev Creds := List (Bytes × List Bytes)

def pairs (c : Creds) : List (Bytes × Bytes) := c.flatMap (fun kv => kv.2.map (fun v => (kv.1, v)))

def line (kv : Bytes × Bytes) : Bytes := kv.1 ++ [61] ++ kv.2 ++ [10]

/-- Creds.buffer: refuse on the first offending value, otherwise two capability lines then `k=v\n` each -/
def buffer (protect : Bool) (c : Creds) : Option Bytes :=
  if (pairs c).any (fun kv => bad protect kv.2) then none
  else some (capAuthtype ++ [10] ++ capState ++ [10] ++ ((pairs c).map line).flatten)

/-! the reader's side: split at LF, then at the first `=` -/
def splitLF : Bytes → Bytes → List Bytes
  | [], cur => if cur.isEmpty then [] else [cur.reverse]
  | c :: rest, cur => if c = 10 then cur.reverse :: splitLF rest [] else splitLF rest (c :: cur)

/-- strings.Split(s, "\n"): keeps empty fields, n LFs give n+1 fields -/
def splitLFAllAux : Bytes → Bytes → List Bytes
  | [], cur => [cur.reverse]
  | c :: rest, cur => if c = 10 then cur.reverse :: splitLFAllAux rest [] else splitLFAllAux rest (c :: cur)
def splitLFAll (b : Bytes) : List Bytes := splitLFAllAux b []

def splitEq : Bytes → Option (Bytes × Bytes)
  | [] => none
  | c :: rest => if c = 61 then some ([], rest) else
      match splitEq rest with
      | some (k, v) => some (c :: k, v)
      | none => none

def parse (b : Bytes) : List (Option (Bytes × Bytes)) := (splitLF b []).map splitEq

theorem splitLF_line (l rest : Bytes) (h : (10 : UInt8) ∉ l) (cur : Bytes) :
    splitLF (l ++ 10 :: rest) cur = (cur.reverse ++ l) :: splitLF rest [] := by
  induction l generalizing cur with
  | nil => simp [splitLF]
  | cons c cs ih =>
    have hc : c ≠ 10 := fun e => h (e ▸ List.mem_cons_self)
    have hcs : (10 : UInt8) ∉ cs := fun m => h (List.mem_cons_of_mem _ m)
    simp only [List.cons_append, splitLF, hc, if_false]
    rw [ih hcs]; simp

theorem splitLF_lines (ls : List Bytes) (h : ∀ l ∈ ls, (10 : UInt8) ∉ l) :
    splitLF ((ls.map (· ++ [10])).flatten) [] = ls := by
  induction ls with
  | nil => simp [splitLF]
  | cons l ls ih =>
    have : ((l :: ls).map (· ++ [10])).flatten = l ++ 10 :: (ls.map (· ++ [10])).flatten := by simp
    rw [this, splitLF_line l _ (h l List.mem_cons_self), ih (fun x hx => h x (List.mem_cons_of_mem _ hx))]
    simp

theorem splitEq_kv (k v : Bytes) (h : (61 : UInt8) ∉ k) : splitEq (k ++ 61 :: v) = some (k, v) := by
  induction k with
  | nil => simp [splitEq]
  | cons c cs ih =>
    have hc : c ≠ 61 := fun e => h (e ▸ List.mem_cons_self)
    simp [splitEq, hc, ih (fun m => h (List.mem_cons_of_mem _ m))]

/-- **C17.reject_iff** -/
theorem reject_iff (protect : Bool) (c : Creds) :
    buffer protect c = none ↔ ∃ kv ∈ pairs c, kv.2.contains 10 ∨ (protect = true ∧ kv.2.contains 13) ∨ kv.2.contains 0 := by
  unfold buffer
  constructor
  · intro h
    split at h
    · rename_i hany
      obtain ⟨kv, hm, hb⟩ := List.any_eq_true.mp hany
      refine ⟨kv, hm, ?_⟩
      simp only [bad, Bool.or_eq_true, Bool.and_eq_true] at hb
      rcases hb with (hb | hb) | hb
      · exact Or.inl hb
      · exact Or.inr (Or.inl hb)
      · exact Or.inr (Or.inr hb)
    · cases h
  · rintro ⟨kv, hm, hb⟩
    have : (pairs c).any (fun kv => bad protect kv.2) = true := by
      apply List.any_eq_true.mpr
      refine ⟨kv, hm, ?_⟩
      simp only [bad, Bool.or_eq_true, Bool.and_eq_true]
      rcases hb with hb | hb | hb
      · exact Or.inl (Or.inl hb)
      · exact Or.inl (Or.inr hb)
      · exact Or.inr hb
    simp [this]

/-- **C17.parse_buffer**: what the helper reads back is the two capability lines and exactly the
supplied pairs — no line more, none less, none altered — provided keys are attribute names
(no `=`, no LF; `GetCredentialHelper`'s key set satisfies this by `decide`). -/
theorem parse_buffer (protect : Bool) (c : Creds) (out : Bytes)
    (hk : ∀ kv ∈ pairs c, (61 : UInt8) ∉ kv.1 ∧ (10 : UInt8) ∉ kv.1)
    (h : buffer protect c = some out) :
    parse out = some ([99,97,112,97,98,105,108,105,116,121,91,93], [97,117,116,104,116,121,112,101])
              :: some ([99,97,112,97,98,105,108,105,116,121,91,93], [115,116,97,116,101])
              :: (pairs c).map some := by
  unfold buffer at h
  split at h
  · cases h
  · rename_i hany
    cases h
    have hv : ∀ kv ∈ pairs c, (10 : UInt8) ∉ kv.2 := by
      intro kv hm hmem
      apply hany
      apply List.any_eq_true.mpr
      exact ⟨kv, hm, by simp [bad, List.contains_iff_mem, hmem]⟩
    let ls : List Bytes := capAuthtype :: capState :: (pairs c).map (fun kv => kv.1 ++ [61] ++ kv.2)
    have hout : capAuthtype ++ [10] ++ capState ++ [10] ++ ((pairs c).map line).flatten
        = (ls.map (· ++ [10])).flatten := by
      have hmap : (pairs c).map line
          = ((pairs c).map (fun kv => kv.1 ++ [61] ++ kv.2)).map (· ++ [10]) := by
        rw [List.map_map]
        apply List.map_congr_left
        intro kv _
        rfl
      rw [hmap]
      simp [ls, List.append_assoc]
    have hls : ∀ l ∈ ls, (10 : UInt8) ∉ l := by
      intro l hl
      simp only [ls, List.mem_cons, List.mem_map] at hl
      rcases hl with rfl | rfl | ⟨kv, hm, rfl⟩
      · decide
      · decide
      · simp only [List.mem_append, List.mem_singleton, not_or]
        exact ⟨⟨(hk kv hm).2, by decide⟩, hv kv hm⟩
    unfold parse
    rw [hout, splitLF_lines ls hls]
    simp only [ls, List.map_cons, List.map_map]
    have h1 : splitEq capAuthtype = some ([99,97,112,97,98,105,108,105,116,121,91,93], [97,117,116,104,116,121,112,101]) := by decide
    have h2 : splitEq capState = some ([99,97,112,97,98,105,108,105,116,121,91,93], [115,116,97,116,101]) := by decide
    rw [h1, h2]
    congr 2
    apply List.map_congr_left
    intro kv hm
    simp only [Function.comp]
    rw [List.append_assoc]
    exact splitEq_kv kv.1 kv.2 (hk kv hm).1

#print axioms reject_iff
#print axioms parse_buffer
/-! ### The shared command helper of one `CredentialHelperContext`
`GetCredentialHelper(url)` stores on the context's single command helper the protection flag
configured for *that* URL (`credential.<url>.protectProtocol`, default `dflt`); every later `Fill`
serialises with the stored flag.  State = the stored flag. -/
inductive CtxOp where
  | get (configured : Option Bool)     -- GetCredentialHelper for a URL whose configuration says so
  | fill (c : Creds)                    -- Fill / Approve / Reject with this input

def ctxStep (dflt : Bool) (flag : Bool) : CtxOp → Bool × Option (Option Bytes)
  | .get cfg => (cfg.getD dflt, none)
  | .fill c => (flag, some (buffer flag c))

def ctxRun (dflt : Bool) : Bool → List CtxOp → List (Option Bytes)
  | _, [] => []
  | flag, op :: ops =>
    match ctxStep dflt flag op with
    | (flag', some out) => out :: ctxRun dflt flag' ops
    | (flag', none) => ctxRun dflt flag' ops

theorem ctxRun_append (dflt : Bool) (ops1 ops2 : List CtxOp) (f : Bool) :
    ∃ f', ctxRun dflt f (ops1 ++ ops2) = ctxRun dflt f ops1 ++ ctxRun dflt f' ops2 := by
  induction ops1 generalizing f with
  | nil => exact ⟨f, by simp [ctxRun]⟩
  | cons op ops ih =>
    cases op with
    | get cfg =>
      obtain ⟨f', h⟩ := ih (cfg.getD dflt)
      exact ⟨f', by simp [ctxRun, ctxStep, h]⟩
    | fill c =>
      obtain ⟨f', h⟩ := ih f
      exact ⟨f', by simp [ctxRun, ctxStep, h]⟩

/-- whatever happened on the context before (other URLs, other settings, any initial flag), a fill
    that follows `GetCredentialHelper(url)` is serialised under the protection configured for `url` -/
theorem fill_after_get (dflt f0 : Bool) (hist : List CtxOp) (cfg : Option Bool) (c : Creds) :
    (ctxRun dflt f0 (hist ++ [.get cfg, .fill c])).getLast? = some (buffer (cfg.getD dflt) c) := by
  obtain ⟨f', h⟩ := ctxRun_append dflt hist [.get cfg, .fill c] f0
  rw [h]; simp [ctxRun, ctxStep]

end Cr
