/-
C15 / C06 — how often lfsapi.Client.DoWithAuth submits one request (lfsapi/auth.go: DoWithAuth →
doWithAuthResubmit → doWithAuth).  A submission is answered; `again k` says whether the k-th answer is an
authentication error that left the request without an Authorization header (the credentials git-lfs had
filled in were rejected, or none had been sent yet) — the one case in which the request is submitted again.
`fuel` is the number of resubmissions still allowed.  Core-only.
-/
namespace AuthLoop

/-- the number of submissions, starting with the k-th -/
def submissions (again : Nat → Bool) : Nat → Nat → Nat
  | 0, _ => 1
  | fuel + 1, k => if again k then 1 + submissions again fuel (k + 1) else 1

/-- however the server and the credential helper behave, a request is submitted at most `fuel + 1` times -/
theorem submissions_le (again : Nat → Bool) (fuel k : Nat) : submissions again fuel k ≤ fuel + 1 := by
  induction fuel generalizing k with
  | zero => simp [submissions]
  | succ n ih =>
    unfold submissions
    split
    · have := ih (k + 1); omega
    · omega

/-- a server that refuses every time, with a helper that keeps answering: exactly `fuel + 1` submissions (D73:
    there used to be no fuel — the loop never ended) -/
theorem submissions_always (fuel k : Nat) : submissions (fun _ => true) fuel k = fuel + 1 := by
  induction fuel generalizing k with
  | zero => simp [submissions]
  | succ n ih => simp [submissions, ih (k + 1)]; omega

/-- the first answer that is not such an error ends it -/
theorem submissions_stop (again : Nat → Bool) (fuel k : Nat) (h : again k = false) : submissions again fuel k = 1 := by
  cases fuel <;> simp [submissions, h]

example : submissions (fun k => k < 2) 3 0 = 3 := by decide

end AuthLoop
