import LfsModel.AStream
namespace LfsA
open Stream

def cut : Nat := 8   -- small cutoff for the probe (1024 in the real model)

/-- stand-in for the pointer decoder: "pointer" = bytes all equal to 112 ('p'), non-empty, after no trimming -/
def isPtr (b : Bytes) : Bool := !b.isEmpty && b.all (· == 112)

inductive ReadKind | single | full deriving DecidableEq

/-- lfs.DecodeFrom: returns (parsedOk, bytes read first, eofSeen, rest) -/
def decodeFrom (k : ReadKind) (s : Stream) : Bool × Bytes × Bool × Stream :=
  let (buf, eof, s') := match k with
    | .single => s.read cut
    | .full => s.readFull cut
  (isPtr buf, buf, eof, s')

inductive CleanOut
  | passthrough (b : Bytes)      -- CleanPointerError: bytes written back verbatim
  | stored (content : Bytes)     -- content hashed+stored in full, pointer emitted
deriving Repr, DecidableEq

/-- copyToTemp + clean, abstracting the hash: what gets written / stored -/
def clean (k : ReadKind) (s : Stream) : CleanOut :=
  let (ok, buf, eof, s') := decodeFrom k s
  -- `by` = first Read of MultiReader(bytes.Reader(buf), reader) with a cut-sized buffer = buf (or nothing if buf empty & eof)
  let by_ := buf
  if by_.isEmpty && eof then .passthrough []          -- rerr != nil (EOF on empty)
  else if ok && by_.length < cut then .passthrough by_
  else .stored (by_ ++ s'.data)

def spec (b : Bytes) : CleanOut :=
  if b.isEmpty then .passthrough []
  else if isPtr b && b.length < cut then .passthrough b else .stored b

-- the defect: single Read depends on chunking
example : clean .single ⟨[[112,112,112],[1,2,3]], true⟩ = .passthrough [112,112,112] := by decide
example : spec (Stream.data ⟨[[112,112,112],[1,2,3]], true⟩) = .stored [112,112,112,1,2,3] := by decide
-- ReadFull variant agrees with the spec on the same stream
example : clean .full ⟨[[112,112,112],[1,2,3]], true⟩ = .stored [112,112,112,1,2,3] := by decide
end LfsA
