import LfsModel.TQ
namespace TQ

theorem set_same (f : Oid → α) (o : Oid) (v : α) : set f o v o = v := by simp [set]
theorem set_other (f : Oid → α) {o x : Oid} (v : α) (h : x ≠ o) : set f o v x = f x := by simp [set, h]

/-- counting over a duplicate-free list after a point update -/
theorem countP_set (l : List Oid) (hn : l.Nodup) (f : Oid → Status) (o : Oid) (v : Status)
    (p : Status → Bool) (ho : o ∈ l) :
    (l.countP (fun x => p (set f o v x)) : Int) =
      (l.countP (fun x => p (f x)) : Int) - (if p (f o) then 1 else 0) + (if p v then 1 else 0) := by
  induction l with
  | nil => cases ho
  | cons a as ih =>
    have hn' := List.nodup_cons.mp hn
    by_cases hao : a = o
    · subst hao
      have hrest : as.countP (fun x => p (set f a v x)) = as.countP (fun x => p (f x)) := by
        apply List.countP_congr
        intro x hx
        have : x ≠ a := fun e => hn'.1 (e ▸ hx)
        simp [set_other f v this]
      simp only [List.countP_cons, set_same, hrest]
      cases p (f a) <;> cases p v <;> simp <;> omega
    · have ho' : o ∈ as := by
        cases ho with
        | head => exact absurd rfl hao
        | tail _ h => exact h
      have := ih hn'.2 ho'
      simp only [List.countP_cons, set_other f v hao]
      cases p (f a) <;> simp <;> omega

theorem countP_set_notMem (l : List Oid) (f : Oid → Status) (o : Oid) (v : Status)
    (p : Status → Bool) (ho : o ∉ l) :
    l.countP (fun x => p (set f o v x)) = l.countP (fun x => p (f x)) := by
  apply List.countP_congr
  intro x hx
  have : x ≠ o := fun e => ho (e ▸ hx)
  simp [set_other f v this]

/-- generic: replace the status of a known oid, adjusting the counter like wait.Done() would -/
theorem inv_update {s : State} (h : Inv s) (o : Oid) (v : Status) (hv : v ≠ .unknown)
    (ho : s.st o ≠ .unknown) (c : Int)
    (hc : s.aborted = false → c = s.counter - (if (s.st o).live then 1 else 0) + (if v.live then 1 else 0))
    (hd : ∀ x ∈ s.delivered, x ≠ o) :
    Inv { s with st := set s.st o v, counter := c } := by
  have hmem : o ∈ s.known := (h.known_iff o).mpr ho
  refine ⟨h.nodup, ?_, ?_, ?_⟩
  · intro x
    by_cases hx : x = o
    · subst hx; simp [set_same, hv, hmem]
    · simp only [set_other s.st v hx]; exact h.known_iff x
  · intro ha
    have := countP_set s.known h.nodup s.st o v Status.live hmem
    have hacc := h.acc ha
    simp only [countSt] at hacc ⊢
    rw [this, hc ha, hacc]
  · intro x hx
    have := hd x hx
    simp only [set_other s.st v this]
    exact h.deliv x hx

theorem live_of_eq {st : Status} (h : st = .incoming ∨ st = .waiting ∨ st = .inBatch ∨ st = .job ∨ st = .retryOut) :
    st.live = true := by
  rcases h with h | h | h | h | h <;> subst h <;> rfl

theorem deliv_ne {s : State} (h : Inv s) {o : Oid} (ho : s.st o ≠ .term .delivered) :
    ∀ x ∈ s.delivered, x ≠ o := by
  intro x hx e
  subst e
  exact ho (h.deliv x hx)

/-- a live oid becomes terminal and Done() is called -/
theorem inv_done {s : State} (h : Inv s) (o : Oid) (t : Term) (hl : (s.st o).live = true)
    (e : Nat) (dl : List Oid) (hdl : ∀ x ∈ dl, x = o ∧ t = .delivered) :
    Inv (done { s with st := set s.st o (.term t), errors := e, delivered := s.delivered ++ dl }) := by
  have hne : s.st o ≠ .unknown := by intro e; rw [e] at hl; cases hl
  have hnd : s.st o ≠ .term .delivered := by intro e; rw [e] at hl; cases hl
  unfold done
  by_cases ha : s.aborted = true
  · simp only [ha, if_true]
    have := inv_update h o (.term t) (by simp) hne s.counter (by simp [ha]) (deliv_ne h hnd)
    refine ⟨this.nodup, this.known_iff, by simp [ha], ?_⟩
    intro x hx
    simp only [List.mem_append] at hx
    rcases hx with hx | hx
    · exact this.deliv x hx
    · obtain ⟨rfl, rfl⟩ := hdl x hx; simp [set_same]
  · have ha' : s.aborted = false := by simpa using ha
    simp only [ha', Bool.false_eq_true, if_false]
    have := inv_update h o (.term t) (by simp) hne (s.counter - 1)
      (by intro _; rw [if_pos hl]; simp [Status.live]) (deliv_ne h hnd)
    refine ⟨this.nodup, this.known_iff, fun _ => by have := this.acc ha'; simpa [countSt] using this, ?_⟩
    intro x hx
    simp only [List.mem_append] at hx
    rcases hx with hx | hx
    · exact this.deliv x hx
    · obtain ⟨rfl, rfl⟩ := hdl x hx; simp [set_same]

/-- a live oid moves to another live status, counter untouched -/
theorem inv_move {s : State} (h : Inv s) (o : Oid) (v : Status) (hl : (s.st o).live = true)
    (hv : v.live = true) : Inv { s with st := set s.st o v } := by
  have hne : s.st o ≠ .unknown := by intro e; rw [e] at hl; cases hl
  have hnd : s.st o ≠ .term .delivered := by intro e; rw [e] at hl; cases hl
  have hvu : v ≠ .unknown := by intro e; rw [e] at hv; cases hv
  exact inv_update h o v hvu hne s.counter (by intro _; simp [hl, hv]) (deliv_ne h hnd)

theorem inv_retryOrFail {s : State} (h : Inv s) (o : Oid) (hl : (s.st o).live = true) :
    Inv (retryOrFail s o) := by
  unfold retryOrFail
  split
  · have := inv_move h o .retryOut hl rfl
    exact ⟨this.nodup, this.known_iff, this.acc, this.deliv⟩
  · have := inv_done h o .errored hl (s.errors + 1) [] (by intro x hx; cases hx)
    simpa using this

end TQ
