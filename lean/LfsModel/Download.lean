/-
Probe: tq/basic_download.go (DoTransfer + download) as a total function over a server script.
Core-only.  `H` (SHA-256) is a parameter.
-/
namespace Dl

abbrev Bytes := List UInt8

/-- one scripted answer of the storage server -/
structure Resp where
  noResponse : Bool := false        -- transport error before any response
  status : Nat := 200
  rangeStart : Option (Option Nat) := none
    -- none: no Content-Range header; some none: header present but unparsable;
    -- some (some k): `bytes k-…` (after the regex and ParseInt; overflow ⇒ some MaxInt64)
  body : Bytes := []
  cutErr : Bool := false            -- the body ends with a read error after `body`
  retryAfterOk : Bool := false      -- 429 with a parsable Retry-After
deriving Repr

inductive Res
  | ok
  | fail (retriable : Bool) (later : Bool)
deriving DecidableEq, Repr

structure Files where
  part : Option Bytes      -- lfs/incomplete/<oid>.part
  final : Option Bytes     -- lfs/objects/aa/bb/<oid>
deriving DecidableEq, Repr

/-- state of one `download` call: temp file content and the bytes fed to the hasher so far -/
structure Tmp where
  file : Bytes
  hashed : Bytes
deriving DecidableEq, Repr

variable (H : Bytes → Bytes)

/-- the tail of `download` once a response body is going to be consumed (l.226–262) -/
def consume (oid : Bytes) (t : Tmp) (r : Resp) (final : Option Bytes) : Res × Tmp × Option Bytes :=
  let t' : Tmp := { file := t.file ++ r.body, hashed := t.hashed ++ r.body }
  if r.cutErr then (.fail true false, t', final)            -- wrapped copy error (RetriableReader)
  else if H t'.hashed ≠ oid then (.fail false false, t', final)
  else (.ok, t', some t'.file)      -- rename(2) into place, replacing whatever was there
  -- (a failing rename with an existing target also returns nil: that branch needs a file-system
  --  fault and keeps the old, by hypothesis intact, file; it is covered by `hfin` in the real model)

/-- error statuses (l.136–164) for a request made with `fromByte = 0` -/
def errorStatus (r : Resp) : Res :=
  if r.status = 429 ∧ r.retryAfterOk then .fail true true else .fail true false

/-- `download` with fromByte = 0 (no branch recurses) -/
def downloadFresh (oid : Bytes) (script : List Resp) (final : Option Bytes) : Res × Tmp × Option Bytes :=
  match script with
  | [] => (.fail true false, ⟨[], []⟩, final)                 -- no answer at all
  | r :: _ =>
    if r.noResponse then (.fail true false, ⟨[], []⟩, final)
    else if 400 ≤ r.status then (errorStatus r, ⟨[], []⟩, final)
    else consume H oid ⟨[], []⟩ r final

/-- `download` with fromByte = |t.file| > 0 and a preloaded hash (l.115–218) -/
def downloadResume (oid : Bytes) (t : Tmp) (script : List Resp) (final : Option Bytes) :
    Res × Tmp × Option Bytes :=
  match script with
  | [] => (.fail true false, t, final)
  | r :: rest =>
    if r.noResponse then (.fail true false, t, final)
    else if 400 ≤ r.status then
      if r.status = 416 then downloadFresh H oid rest final   -- truncate, start over
      else (errorStatus r, t, final)
    else
      let rangeOk := r.status = 206 ∧ r.rangeStart = some (some t.file.length)
      if rangeOk then consume H oid t r final
      else if r.status = 200 then consume H oid ⟨[], []⟩ r final   -- truncate, drop hash, use this body
      else downloadFresh H oid rest final                     -- truncate, re-request

/-- DoTransfer (l.40–107) -/
def doTransfer (oid : Bytes) (size : Nat) (fs : Files) (script : List Resp) : Res × Files :=
  let tmp0 : Bytes := fs.part.getD []
  -- "Ensure that partial file seems valid": 0 < from < size-1 resumes, otherwise truncate
  let (res, t, final) :=
    if 0 < tmp0.length ∧ tmp0.length + 1 < size then
      downloadResume H oid ⟨tmp0, tmp0⟩ script fs.final
    else downloadFresh H oid script fs.final
  match res with
  | .ok => (.ok, { part := none, final := final })
  | r => (r, { part := some t.file, final := final })       -- hand the temp over as the next .part

/-! ### theorems -/

/-- what C02 demands of one call's outcome, given the prior content of the final path -/
def Good (oid : Bytes) (final : Option Bytes) (out : Res × Tmp × Option Bytes) : Prop :=
  (out.1 = .ok → ∃ c, out.2.2 = some c ∧ H c = oid) ∧ (out.1 ≠ .ok → out.2.2 = final)

theorem good_fail (oid : Bytes) (final : Option Bytes) (a b : Bool) (t : Tmp) :
    Good H oid final (.fail a b, t, final) :=
  ⟨fun h => (by cases h), fun _ => rfl⟩

theorem good_errorStatus (oid : Bytes) (final : Option Bytes) (r : Resp) (t : Tmp) :
    Good H oid final (errorStatus r, t, final) := by
  unfold errorStatus; split <;> exact good_fail H oid final _ _ t

/-- the hash that is compared is the hash of the file that is renamed -/
theorem consume_spec (oid : Bytes) (t : Tmp) (r : Resp) (final : Option Bytes)
    (hinv : t.hashed = t.file) :
    Good H oid final (consume H oid t r final) := by
  unfold consume
  simp only
  split
  · exact good_fail H oid final _ _ _
  · split
    · exact good_fail H oid final _ _ _
    · rename_i hh
      have hh' : H (t.hashed ++ r.body) = oid := by simpa using hh
      refine ⟨fun _ => ⟨_, rfl, ?_⟩, fun h => absurd rfl h⟩
      rw [← hinv]; exact hh'

theorem fresh_spec (oid : Bytes) (script : List Resp) (final : Option Bytes) :
    Good H oid final (downloadFresh H oid script final) := by
  unfold downloadFresh
  split
  · exact good_fail H oid final _ _ _
  · rename_i r rest
    split
    · exact good_fail H oid final _ _ _
    · split
      · exact good_errorStatus H oid final r _
      · exact consume_spec H oid ⟨[], []⟩ r final rfl

theorem resume_spec (oid : Bytes) (t : Tmp) (script : List Resp) (final : Option Bytes)
    (hinv : t.hashed = t.file) :
    Good H oid final (downloadResume H oid t script final) := by
  unfold downloadResume
  split
  · exact good_fail H oid final _ _ _
  · rename_i r rest
    split
    · exact good_fail H oid final _ _ _
    · split
      · split
        · exact fresh_spec H oid rest final
        · exact good_errorStatus H oid final r _
      · simp only
        split
        · exact consume_spec H oid t r final hinv
        · split
          · exact consume_spec H oid ⟨[], []⟩ r final rfl
          · exact fresh_spec H oid rest final

/-- **C02.basic_success_hash / basic_failure_no_final_change**, for every script, every `.part`
state (absent, prefix, garbage, too long) and EVERY prior content of the final path, intact or not. -/
theorem doTransfer_spec (oid : Bytes) (size : Nat) (fs : Files) (script : List Resp) :
    ((doTransfer H oid size fs script).1 = .ok →
        ∃ c, (doTransfer H oid size fs script).2.final = some c ∧ H c = oid) ∧
    ((doTransfer H oid size fs script).1 ≠ .ok →
        (doTransfer H oid size fs script).2.final = fs.final) := by
  have key : Good H oid fs.final
      (if 0 < (fs.part.getD []).length ∧ (fs.part.getD []).length + 1 < size then
        downloadResume H oid ⟨fs.part.getD [], fs.part.getD []⟩ script fs.final
      else downloadFresh H oid script fs.final) := by
    split
    · exact resume_spec H oid _ script fs.final rfl
    · exact fresh_spec H oid script fs.final
  unfold doTransfer
  simp only
  generalize (if 0 < (fs.part.getD []).length ∧ (fs.part.getD []).length + 1 < size then
        downloadResume H oid ⟨fs.part.getD [], fs.part.getD []⟩ script fs.final
      else downloadFresh H oid script fs.final) = out at key
  obtain ⟨res, t, final⟩ := out
  cases res with
  | ok => exact ⟨fun _ => key.1 rfl, fun h => absurd rfl h⟩
  | fail a b => exact ⟨fun h => (by cases h), fun _ => key.2 (by intro h; cases h)⟩

/-- non-vacuity: a garbage `.part`, a wrong Content-Range, then the right body -/
example : (doTransfer (fun b => b) [1,2,3] 3 ⟨some [9], none⟩
    [{ status := 206, rangeStart := some (some 0), body := [7] }, { status := 200, body := [1,2,3] }]).1 = .ok := by
  decide

#print axioms doTransfer_spec
end Dl
