import LfsModel.Pointer
namespace Lfs

/-! ## C07.dec_sound and C07.canonical_iff : for every byte string -/

def StrictAsc (es : List Ext) : Prop := es.Pairwise (fun a b => a.prio < b.prio)

structure WellFormed (p : Ptr) : Prop where
  oid_ok : isOid p.oid = true
  size_le : p.size ≤ maxInt64
  exts_oid : ∀ e ∈ p.exts, isOid e.oid = true
  asc : StrictAsc p.exts

theorem parseOid_isOid {v o : Bytes} (h : parseOid v = some o) : isOid o = true := by
  unfold parseOid at h
  split at h
  · rename_i hc
    simp only [Bool.and_eq_true] at hc
    cases h; exact hc.2
  · cases h

theorem bind_le {o : Option Nat} {M n : Nat}
    (h : (o.bind fun m => if m ≤ M then some m else none) = some n) : n ≤ M := by
  cases o with
  | none => simp at h
  | some m =>
    simp only [Option.bind] at h
    split at h
    · cases h; assumption
    · cases h

theorem bind_zero {o : Option Nat} {n : Nat}
    (h : (o.bind fun m => if m = 0 then some 0 else none) = some n) : n = 0 := by
  cases o with
  | none => simp at h
  | some m =>
    simp only [Option.bind] at h
    split at h
    · cases h; rfl
    · cases h

theorem parseSize_le {v : Bytes} {n : Nat} (h : parseSize v = some n) : n ≤ maxInt64 := by
  unfold parseSize at h
  split at h
  · cases h
  · split at h
    · cases h
    · exact bind_le h
  · split at h
    · cases h
    · have := bind_zero h; omega
  · exact bind_le h

theorem parseExt_oid {kv : Bytes × Bytes} {e : Ext} (h : parseExt kv = some e) : isOid e.oid = true := by
  unfold parseExt at h
  split at h
  · split at h
    · rename_i o ho
      cases h
      exact parseOid_isOid ho
    · cases h
  · cases h

theorem parseExts_oid : ∀ {kvs : List (Bytes × Bytes)} {es : List Ext},
    parseExts kvs = some es → ∀ e ∈ es, isOid e.oid = true := by
  intro kvs
  induction kvs with
  | nil => intro es h e he; simp [parseExts] at h; subst h; cases he
  | cons kv rest ih =>
    intro es h e he
    unfold parseExts at h
    split at h
    · rename_i e0 es0 h0 hr
      cases h
      cases he with
      | head => exact parseExt_oid h0
      | tail _ hm => exact ih hr e hm
    · cases h

/-- insertion keeps membership -/
theorem mem_insertByPrio {e x : Ext} : ∀ {l : List Ext}, x ∈ insertByPrio e l ↔ x = e ∨ x ∈ l := by
  intro l
  induction l with
  | nil => simp [insertByPrio]
  | cons f fs ih =>
    unfold insertByPrio
    split
    · simp
    · simp [ih]; constructor
      · rintro (h | h | h)
        · exact Or.inr (Or.inl h)
        · exact Or.inl h
        · exact Or.inr (Or.inr h)
      · rintro (h | h | h)
        · exact Or.inr (Or.inl h)
        · exact Or.inl h
        · exact Or.inr (Or.inr h)

theorem mem_sortByPrio {x : Ext} : ∀ {l : List Ext}, x ∈ sortByPrio l ↔ x ∈ l := by
  intro l
  induction l with
  | nil => simp [sortByPrio]
  | cons f fs ih => simp [sortByPrio, mem_insertByPrio, ih]

theorem insertByPrio_asc {e : Ext} : ∀ {l : List Ext}, StrictAsc l → (∀ f ∈ l, f.prio ≠ e.prio) →
    StrictAsc (insertByPrio e l) := by
  intro l
  induction l with
  | nil => intro _ _; simp [insertByPrio, StrictAsc]
  | cons f fs ih =>
    intro hs hne
    unfold insertByPrio
    have hs' := List.pairwise_cons.mp hs
    split
    · rename_i hlt
      apply List.pairwise_cons.mpr
      refine ⟨?_, hs⟩
      intro a ha
      cases ha with
      | head => exact hlt
      | tail _ hm => exact Nat.lt_trans hlt (hs'.1 a hm)
    · rename_i hnlt
      apply List.pairwise_cons.mpr
      refine ⟨?_, ih hs'.2 (fun g hg => hne g (List.mem_cons_of_mem _ hg))⟩
      intro a ha
      rcases mem_insertByPrio.mp ha with h | h
      · subst h
        have := hne f (List.mem_cons_self)
        omega
      · exact hs'.1 a h

theorem prioNodup_spec : ∀ {l : List Ext}, prioNodup l = true →
    l.Pairwise (fun a b => a.prio ≠ b.prio) := by
  intro l
  induction l with
  | nil => intro _; exact List.Pairwise.nil
  | cons e es ih =>
    intro h
    simp only [prioNodup, Bool.and_eq_true, List.all_eq_true] at h
    apply List.pairwise_cons.mpr
    refine ⟨?_, ih h.2⟩
    intro a ha
    have := h.1 a ha
    simp at this
    exact fun heq => this heq.symm

theorem sortByPrio_asc : ∀ {l : List Ext}, l.Pairwise (fun a b => a.prio ≠ b.prio) →
    StrictAsc (sortByPrio l) := by
  intro l
  induction l with
  | nil => intro _; simp [sortByPrio, StrictAsc]
  | cons e es ih =>
    intro h
    have h' := List.pairwise_cons.mp h
    unfold sortByPrio
    apply insertByPrio_asc (ih h'.2)
    intro f hf
    exact fun heq => h'.1 f (mem_sortByPrio.mp hf) heq.symm

theorem decodeKV_wellFormed {d : Bytes} {p : Ptr} (h : decodeKV d = .ok p) : WellFormed p := by
  unfold decodeKV at h
  split at h
  · cases h
  · rename_i kv _
    split at h
    · cases h
    · split at h
      · cases h
      · split at h
        · cases h
        · split at h
          · cases h
          · rename_i oid hoid
            split at h
            · cases h
            · rename_i size hsize
              split at h
              · cases h
              · rename_i exts hexts
                split at h
                · rename_i hnd
                  cases h
                  refine ⟨?_, parseSize_le hsize, ?_, sortByPrio_asc (prioNodup_spec hnd)⟩
                  · cases hk : kv.oid with
                    | none => simp [hk] at hoid
                    | some v => simp [hk] at hoid; exact parseOid_isOid hoid
                  · intro e he
                    exact parseExts_oid hexts e (mem_sortByPrio.mp he)
                · cases h

theorem emptyPtr_wellFormed : WellFormed emptyPtr := by
  refine ⟨by decide, by simp [emptyPtr, maxInt64], ?_, ?_⟩
  · intro e he; cases he
  · exact List.Pairwise.nil

/-- **C07.dec_sound**: whatever the bytes, an accepted input yields a well-formed pointer. -/
theorem dec_sound (b : Bytes) {p : Ptr} {c : Bool} (h : dec b = .ok (p, c)) : WellFormed p := by
  unfold dec at h
  split at h
  · cases h
  unfold decodeBuf at h
  split at h
  · cases h; exact emptyPtr_wellFormed
  · split at h
    · cases h
    · rename_i q hq
      cases h
      exact decodeKV_wellFormed hq

/-- **C07.canonical_iff**: the canonical flag is exactly byte equality with the re-encoding. -/
theorem canonical_iff (b : Bytes) {p : Ptr} {c : Bool} (h : dec b = .ok (p, c)) :
    c = true ↔ enc p = b := by
  unfold dec at h
  split at h
  · cases h
  unfold decodeBuf at h
  split at h
  · rename_i he
    cases h
    have : b = [] := by simpa using he
    simp [this, enc, emptyPtr]
  · split at h
    · cases h
    · cases h
      simp

#print axioms dec_sound
#print axioms canonical_iff
end Lfs
