import LfsModel.FilterModel
/-
Model of `git-lfs filter-process` (commands/command_filter_process.go, git/filter_process_scanner.go,
the vendored pktline writer): pkt-line framing, the answer to one request, the delay rounds.
Core-only, executable.
-/
namespace FP
abbrev Bytes := List UInt8

/-! ### pkt-line framing -/
def hexDigit (n : Nat) : UInt8 := if n < 10 then UInt8.ofNat (48 + n) else UInt8.ofNat (87 + n)
def hexVal (c : UInt8) : Option Nat :=
  if 48 ≤ c ∧ c ≤ 57 then some (c.toNat - 48) else if 97 ≤ c ∧ c ≤ 102 then some (c.toNat - 87) else none

def hex4 (n : Nat) : Bytes := [hexDigit (n / 4096 % 16), hexDigit (n / 256 % 16), hexDigit (n / 16 % 16), hexDigit (n % 16)]
def parseHex4 : Bytes → Option Nat
  | [a, b, c, d] => do
    let a ← hexVal a; let b ← hexVal b; let c ← hexVal c; let d ← hexVal d
    pure (((a * 16 + b) * 16 + c) * 16 + d)
  | _ => none

inductive Pkt | data (d : Bytes) | flush
deriving DecidableEq, Repr

def maxData : Nat := 65516

def encPkt : Pkt → Bytes
  | .flush => [48, 48, 48, 48]
  | .data d => hex4 (d.length + 4) ++ d

def encode (ps : List Pkt) : Bytes := (ps.map encPkt).flatten

/-- the reader side (fuel = number of bytes) -/
def decode : Nat → Bytes → Option (List Pkt)
  | 0, b => if b.isEmpty then some [] else none
  | fuel+1, b =>
    if b.isEmpty then some [] else
    match parseHex4 (b.take 4) with
    | none => none
    | some n =>
      if n = 0 then (decode fuel (b.drop 4)).map (Pkt.flush :: ·)
      else if n < 4 then none
      else if (b.drop 4).length < n - 4 then none
      else (decode fuel ((b.drop 4).drop (n - 4))).map (Pkt.data ((b.drop 4).take (n - 4)) :: ·)

/-- PktlineWriter: content is cut into packets of at most `cap` bytes (cap > 0), none empty -/
def chunk (cap : Nat) : Nat → Bytes → List Bytes
  | 0, _ => []
  | fuel+1, d => if d.isEmpty then [] else d.take cap :: chunk cap fuel (d.drop cap)

def contentPkts (cap : Nat) (d : Bytes) : List Pkt := (chunk cap (d.length + 1) d).map Pkt.data

/-! ### one request -/
inductive Status | success | delayed | error
deriving DecidableEq, Repr

structure Resp where
  status : Status
  content : Bytes := []
  final : Option Status := none      -- trailing status list (none: nothing follows, as for `delayed`)
deriving DecidableEq, Repr

def statusLine : Status → Bytes
  | .success => [115, 116, 97, 116, 117, 115, 61, 115, 117, 99, 99, 101, 115, 115, 10]   -- "status=success\n"
  | .delayed => [115, 116, 97, 116, 117, 115, 61, 100, 101, 108, 97, 121, 101, 100, 10]   -- "status=delayed\n"
  | .error => [115, 116, 97, 116, 117, 115, 61, 101, 114, 114, 111, 114, 10]   -- "status=error\n"

/-- the bytes on the wire for an answer -/
def Resp.render (cap : Nat) (r : Resp) : List Pkt :=
  let st (s : Status) : Pkt := .data (statusLine s)
  match r.status with
  | .success => [st .success, .flush] ++ contentPkts cap r.content ++ [.flush] ++
      (match r.final with | some f => [st f] | none => []) ++ [.flush]
  | s => [st s, .flush]

/-- `stale`: the object is on the server, and at its path in local storage sits a file of ANOTHER SIZE
    (what an interrupted copy leaves): not the object -/
inductive Where | local | server | missing | failing | stale
deriving DecidableEq, Repr

/-- `clean` request: the content is exactly what the one-shot clean filter writes (Flt.clean) -/
def answerClean (H : Bytes → Bytes) (payload : LfsA.Stream) (st : Flt.Store) : Resp × Flt.Store :=
  let (r, st') := Flt.clean H payload st
  ({ status := .success, content := r.out, final := some .success }, st')

/-- `smudge` request.  `obj` = the bytes of the object the pointer names, as the local store or
the server would supply them; `wh` = where that object is when the request arrives. -/
def answerSmudge (canDelay skipErrs : Bool) (wh : Where) (obj : Bytes) (payload : LfsA.Stream) : Option Resp :=
  match Flt.smudge payload [] with
  | .bytes out _ => some { status := .success, content := out, final := some .success }   -- not a pointer (or empty)
  | .needDownload p =>          -- a pointer (the empty store stands for "look at `wh`")
    if wh = .local then some { status := .success, content := obj, final := some .success }
    else if canDelay then some { status := .delayed }
    else match wh with
      | .server => some { status := .success, content := obj, final := some .success }
      | .stale => some { status := .success, content := obj, final := some .success }
      | _ => if skipErrs then some { status := .success, content := Lfs.enc p, final := some .success }
             else none            -- os.Exit(2) in the middle of the exchange (known finding D22)

/-! ### the delay rounds: what `list_available_blobs` announces -/

/-- `queue` = the delayed paths in the order their downloads complete (C06: each exactly once);
`ks` = how many happen to be ready at each call (any schedule).  Each round announces a non-empty
batch until nothing is left, then the empty list. -/
def announce : List Nat → List String → List (List String)
  | _, [] => [[]]
  | [], a :: as => [a :: as, []]
  | k :: ks, a :: as => (a :: as.take k) :: announce ks (as.drop k)

end FP
