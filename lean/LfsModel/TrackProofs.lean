import LfsModel.Track
namespace Trk

/-- a character that is neither backslash nor `*`, `?`, `[` lexes as itself -/
theorem lex_plain (c : UInt8) (rest : Bytes) (h92 : c ≠ 92) (h42 : c ≠ 42) (h63 : c ≠ 63) (h91 : c ≠ 91) :
    lex (c :: rest) = .lit c :: lex rest := by
  conv => lhs; unfold lex
  split <;> simp_all

/-- lexing what `escapeGlobCharacters` emits for one character, followed by anything -/
theorem lex_escGlobChar (c : UInt8) (rest : Bytes) : lex (escGlobChar c ++ rest) = tokOf c :: lex rest := by
  unfold escGlobChar tokOf
  by_cases h92 : c = 92
  · subst h92; simp [lex]
  · simp only [h92, if_false]
    by_cases hg : isGlobChar c = true
    · simp only [hg, if_true]
      have : c ≠ 32 := by intro e; subst e; simp [isGlobChar] at hg
      simp [lex, this]
    · simp only [hg, if_false]
      by_cases h32 : c = 32
      · subst h32; simp [lex, spaceClass]
      · simp only [h32, if_false]
        by_cases h35 : c = 35
        · subst h35; simp [lex]
        · simp only [h35, if_false]
          -- a plain character: not backslash, not a glob character
          have h42 : c ≠ 42 := by intro e; subst e; simp [isGlobChar] at hg
          have h63 : c ≠ 63 := by intro e; subst e; simp [isGlobChar] at hg
          have h91 : c ≠ 91 := by intro e; subst e; simp [isGlobChar] at hg
          simpa using lex_plain c rest h92 h42 h63 h91

/-- **what `--filename` writes, lexed by Git's rules, is exactly the literal name** -/
theorem lex_escapeGlob (n : Bytes) : lex (escapeGlob n) = toks n := by
  induction n with
  | nil => simp [escapeGlob, toks, lex]
  | cons c cs ih =>
    have : escapeGlob (c :: cs) = escGlobChar c ++ escapeGlob cs := by simp [escapeGlob]
    rw [this, lex_escGlobChar, ih]
    simp [toks]

theorem isSpace_32 : isSpace 32 = true := by decide

/-- a literal name matches itself -/
theorem matchLit_self (n : Bytes) : matchLit (toks n) n = true := by
  induction n with
  | nil => simp [toks, matchLit]
  | cons c cs ih =>
    simp only [toks, List.map_cons, tokOf]
    by_cases h : c = 32
    · subst h; simp [matchLit, isSpace_32]; exact ih
    · simp [h, matchLit]; exact ih

/-- … and only names equal to it except, at the positions of its blanks, any whitespace character -/
def SameModuloSpace : Bytes → Bytes → Prop
  | [], [] => True
  | c :: cs, d :: ds => (if c = 32 then isSpace d = true else d = c) ∧ SameModuloSpace cs ds
  | _, _ => False

theorem matchLit_only (n : Bytes) : ∀ q, matchLit (toks n) q = true → SameModuloSpace n q := by
  induction n with
  | nil => intro q h; cases q <;> simp_all [toks, matchLit, SameModuloSpace]
  | cons c cs ih =>
    intro q h
    cases q with
    | nil =>
      simp only [toks, List.map_cons, tokOf] at h
      split at h <;> simp [matchLit] at h
    | cons d ds =>
      simp only [toks, List.map_cons, tokOf] at h
      by_cases h32 : c = 32
      · subst h32
        simp only [if_true, matchLit, Bool.and_eq_true] at h
        exact ⟨by simpa using h.1, ih ds h.2⟩
      · simp only [h32, if_false, matchLit, Bool.and_eq_true, decide_eq_true_eq] at h
        exact ⟨by simp [h32, h.1.symm], ih ds h.2⟩

theorem sameModuloSpace_noblank (n : Bytes) (hn : (32 : UInt8) ∉ n) : ∀ q, SameModuloSpace n q → q = n := by
  induction n with
  | nil => intro q h; cases q <;> simp_all [SameModuloSpace]
  | cons c cs ih =>
    intro q h
    cases q with
    | nil => simp [SameModuloSpace] at h
    | cons d ds =>
      have hc : c ≠ 32 := fun e => hn (e ▸ List.mem_cons_self)
      have hcs : (32 : UInt8) ∉ cs := fun m => hn (List.mem_cons_of_mem _ m)
      simp only [SameModuloSpace, hc, if_false] at h
      rw [h.1, ih hcs ds h.2]

/-- the escaped text contains neither a blank nor a tab (unless the name has a tab): Git's line
    tokeniser returns it whole as the pattern field -/
theorem escGlobChar_noblank (c : UInt8) (hc : c ≠ 9) : ∀ x ∈ escGlobChar c, x ≠ 32 ∧ x ≠ 9 := by
  intro x hx
  unfold escGlobChar at hx
  by_cases h92 : c = 92
  · simp [h92] at hx; subst hx; decide
  · simp only [h92, if_false] at hx
    by_cases hg : isGlobChar c = true
    · simp only [hg, if_true] at hx
      simp at hx
      rcases hx with rfl | rfl
      · decide
      · simp only [isGlobChar, Bool.or_eq_true, decide_eq_true_eq] at hg
        rcases hg with ((rfl | rfl) | rfl) | rfl <;> decide
    · simp only [hg, if_false] at hx
      by_cases h32 : c = 32
      · simp only [h32, if_true, spaceClass] at hx
        simp at hx
        rcases hx with rfl | rfl | rfl | rfl | rfl | rfl | rfl | rfl | rfl <;> decide
      · simp only [h32, if_false] at hx
        by_cases h35 : c = 35
        · simp [h35] at hx; rcases hx with rfl | rfl <;> decide
        · simp [h35] at hx; subst hx; exact ⟨h32, hc⟩

theorem firstField_append_noblank (a rest : Bytes) (ha : ∀ x ∈ a, x ≠ 32 ∧ x ≠ 9) :
    firstField (a ++ 32 :: rest) = a := by
  induction a with
  | nil => simp [firstField]
  | cons c cs ih =>
    have hc := ha c List.mem_cons_self
    simp only [List.cons_append, firstField]
    have : ¬ (c = 32 ∨ c = 9) := by intro h; rcases h with h | h <;> simp_all
    simp only [this, if_false]
    rw [ih (fun x hx => ha x (List.mem_cons_of_mem _ hx))]

theorem escapeGlob_noblank (n : Bytes) (hn : ∀ c ∈ n, c ≠ 9) : ∀ x ∈ escapeGlob n, x ≠ 32 ∧ x ≠ 9 := by
  intro x hx
  simp only [escapeGlob, List.mem_flatMap] at hx
  obtain ⟨c, hc, hxc⟩ := hx
  exact escGlobChar_noblank c (hn c hc) x hxc

/-- round trip of the pattern escaping used for ordinary (glob) arguments, on its own lexical terms -/
theorem unescape_escAttrChar (c : UInt8) (rest : Bytes) (hsafe : c ≠ 91 ∨ True) :
    unescapeAttr (escAttrChar c ++ rest) = (if c = 91 then unescapeAttr (91 :: rest) else c :: unescapeAttr rest) := by
  unfold escAttrChar
  by_cases h92 : c = 92
  · subst h92; simp [unescapeAttr]
  · simp only [h92, if_false]
    by_cases h32 : c = 32
    · subst h32; simp [unescapeAttr, spaceClass]
    · simp only [h32, if_false]
      by_cases h35 : c = 35
      · subst h35; simp [unescapeAttr]
      · simp only [h35, if_false]
        by_cases h91 : c = 91
        · simp [h91]
        · simp only [h91, if_false, List.singleton_append]
          conv => lhs; unfold unescapeAttr
          split <;> simp_all

end Trk
