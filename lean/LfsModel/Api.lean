/-
C18 — JSON values, the fragment of JSON-Schema (draft 4) that the published LFS API schemas use,
Go's `encoding/json` struct encoding driven by the struct-tag tables regenerated from /repo
(`Gen.*Fields`), and the request encoders of tq/api.go, tq/verify.go and locking/api.go.

Core-only and executable: the oracle re-encodes every request the harness provokes from the caller's
inputs and the harness compares the result with the captured body.
-/
namespace Api

/-! ## JSON values (mutual instead of nested, so that structural recursion is plain) -/
mutual
inductive J where
  | null
  | bool (b : Bool)
  | num (n : Int)
  | str (s : String)
  | arr (xs : JList)
  | obj (kvs : JObj)
inductive JList where
  | nil
  | cons (x : J) (xs : JList)
inductive JObj where
  | nil
  | cons (k : String) (v : J) (rest : JObj)
end

def JList.ofList : List J → JList
  | [] => .nil
  | x :: xs => .cons x (JList.ofList xs)

def JObj.ofList : List (String × J) → JObj
  | [] => .nil
  | (k, v) :: r => .cons k v (JObj.ofList r)

def JObj.get? : JObj → String → Option J
  | .nil, _ => none
  | .cons k v rest, q => if k == q then some v else rest.get? q

def JObj.has (o : JObj) (q : String) : Bool := (o.get? q).isSome

/-! ## Schemas -/
inductive Ty where
  | object | array | string | number | boolean | null
  deriving DecidableEq, Repr

/-- `props`, `required`, `items`, `minimum`, `additionalProperties` (true = allowed), as in the
    seven published schema files; `ty = none` = no `type` keyword -/
inductive Sch where
  | mk (ty : Option Ty) (props : List (String × Sch)) (required : List String)
       (items : Option Sch) (minimum : Option Int) (additional : Bool)

def Sch.ty : Sch → Option Ty | .mk t _ _ _ _ _ => t
def Sch.props : Sch → List (String × Sch) | .mk _ p _ _ _ _ => p
def Sch.required : Sch → List String | .mk _ _ r _ _ _ => r
def Sch.items : Sch → Option Sch | .mk _ _ _ i _ _ => i
def Sch.minimum : Sch → Option Int | .mk _ _ _ _ m _ => m
def Sch.additional : Sch → Bool | .mk _ _ _ _ _ a => a

def lookupSch : List (String × Sch) → String → Option Sch
  | [], _ => none
  | (k, s) :: r, q => if k == q then some s else lookupSch r q

def tyOk : Option Ty → J → Bool
  | none, _ => true
  | some .object, .obj _ => true
  | some .array, .arr _ => true
  | some .string, .str _ => true
  | some .number, .num _ => true
  | some .boolean, .bool _ => true
  | some .null, .null => true
  | _, _ => false

def minOk : Option Int → J → Bool
  | some m, .num n => decide (m ≤ n)
  | _, _ => true

-- validation, structurally recursive on the JSON value
mutual
def validate : Sch → J → Bool
  | s, .obj kvs =>
      tyOk s.ty (.obj kvs) && s.required.all (fun k => kvs.has k) && validateKvs s.props s.additional kvs
  | s, .arr xs =>
      tyOk s.ty (.arr xs) && (match s.items with | some it => validateAll it xs | none => true)
  | s, .null => tyOk s.ty .null
  | s, .bool b => tyOk s.ty (.bool b)
  | s, .num n => tyOk s.ty (.num n) && minOk s.minimum (.num n)
  | s, .str v => tyOk s.ty (.str v)
def validateKvs : List (String × Sch) → Bool → JObj → Bool
  | _, _, .nil => true
  | props, addl, .cons k v rest =>
      (match lookupSch props k with
       | some s => validate s v
       | none => addl) && validateKvs props addl rest
def validateAll : Sch → JList → Bool
  | _, .nil => true
  | s, .cons x xs => validate s x && validateAll s xs
end

/-! ## Go struct encoding driven by the regenerated tag tables
A table row is `(Go field name, JSON name, omitempty)`, in declaration order; fields tagged `-`
are not in the table. -/
abbrev FieldTbl := List (String × String × Bool)

/-- value of one Go field: the JSON it marshals to and whether it is the Go zero value ("empty") -/
abbrev FieldVals := List (String × J × Bool)

def lookupVal : FieldVals → String → Option (J × Bool)
  | [], _ => none
  | (k, v) :: r, q => if k == q then some v else lookupVal r q

/-- `encoding/json` on a struct: declaration order, `omitempty` drops zero values.  A table field the
    model has no value for is encoded as the marker key `?<field>` so that it can never go unnoticed. -/
def encodeFields : FieldTbl → FieldVals → List (String × J)
  | [], _ => []
  | (go, js, om) :: r, vals =>
    match lookupVal vals go with
    | some (v, empty) => if om && empty then encodeFields r vals else (js, v) :: encodeFields r vals
    | none => ("?" ++ go, .null) :: encodeFields r vals

def encodeStruct (tbl : FieldTbl) (vals : FieldVals) : J := .obj (JObj.ofList (encodeFields tbl vals))

def jstr (s : String) : J × Bool := (.str s, s == "")
def jint (n : Int) : J × Bool := (.num n, n == 0)
def jbool (b : Bool) : J × Bool := (.bool b, b == false)
def jstrs (l : List String) : J × Bool := (.arr (JList.ofList (l.map .str)), l.isEmpty)

/-! ## Canonical text (compared with the harness's canonical form of the captured body) -/
def hexDigit (n : Nat) : Char := if n < 10 then Char.ofNat (48 + n) else Char.ofNat (87 + n)
def hexStr (s : String) : String :=
  String.ofList (s.toUTF8.toList.flatMap fun b => [hexDigit (b.toNat / 16), hexDigit (b.toNat % 16)])

mutual
def render : J → String
  | .null => "null"
  | .bool b => if b then "true" else "false"
  | .num n => toString n
  | .str s => "s" ++ hexStr s
  | .arr xs => "[" ++ renderList xs ++ "]"
  | .obj kvs => "{" ++ renderObj kvs ++ "}"
def renderList : JList → String
  | .nil => ""
  | .cons x .nil => render x
  | .cons x xs => render x ++ "," ++ renderList xs
def renderObj : JObj → String
  | .nil => ""
  | .cons k v .nil => hexStr k ++ ":" ++ render v
  | .cons k v rest => hexStr k ++ ":" ++ render v ++ "," ++ renderObj rest
end

end Api
