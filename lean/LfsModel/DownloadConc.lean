/-
C02, the "1..2 concurrent git-lfs processes fetching the same object" dimension — for ANY number of
processes.  Each process runs the shape of tq/basic_download.go (and tq/ssh.go, which never touches
the `.part` file): a PRIVATE temp file (tools.TempFile: O_EXCL, random suffix), an optional rename
of the shared `.part` file onto it, a hasher fed with what the process itself wrote or read back,
and finally a rename onto the shared final path (after the hash matched) or back onto `.part`.
The processes share `part` and `final`; the schedule is an arbitrary list of (pid, action).
Core-only.  `H` (SHA-256) is a parameter.
-/
namespace DlConc

abbrev Bytes := List UInt8

structure Proc where
  tmp : Option Bytes := none     -- this process's private temp file (none: not created / renamed away)
  hashed : Bytes := []           -- the bytes fed to this process's hasher so far
  loaded : Bool := false         -- the hasher has seen everything that is in the temp file
deriving DecidableEq, Repr

structure St where
  part : Option Bytes            -- lfs/incomplete/<oid>.part   (shared)
  final : Option Bytes           -- lfs/objects/aa/bb/<oid>     (shared)
  procs : Nat → Proc

inductive Act
  | create                       -- tools.TempFile: a fresh, empty, private file
  | takePart                     -- RobustRename(.part → temp); silently nothing when there is no .part
  | load                         -- io.Copy(hash, f): read the temp file back into the hasher
  | truncate                     -- Seek(0) + Truncate(0) + `hash = nil`
  | recv (b : Bytes)             -- one burst of the response body: written to the file AND hashed
  | commit                       -- hash matched: rename(temp → final)
  | abort                        -- error path: rename(temp → .part)
deriving Repr

def setProc (s : St) (p : Nat) (v : Proc) : St :=
  { s with procs := fun q => if q = p then v else s.procs q }

variable (H : Bytes → Bytes)

/-- one action of process `p`; `none` = the code never does this in that state -/
def step (oid : Bytes) (s : St) (p : Nat) : Act → Option St
  | .create => some (setProc s p { tmp := some [], hashed := [], loaded := true })
  | .takePart =>
      match (s.procs p).tmp, s.part with
      | some _, some b => some { (setProc s p { tmp := some b, hashed := [], loaded := false }) with part := none }
      | some _, none => some s
      | none, _ => none
  | .load =>
      match (s.procs p).tmp with
      | some c => some (setProc s p { tmp := some c, hashed := c, loaded := true })
      | none => none
  | .truncate =>
      match (s.procs p).tmp with
      | some _ => some (setProc s p { tmp := some [], hashed := [], loaded := true })
      | none => none
  | .recv b =>
      match (s.procs p).tmp with
      | some c => if (s.procs p).loaded then
          some (setProc s p { tmp := some (c ++ b), hashed := (s.procs p).hashed ++ b, loaded := true })
        else none
      | none => none
  | .commit =>
      match (s.procs p).tmp with
      | some c => if (s.procs p).loaded ∧ H (s.procs p).hashed = oid then
          some { (setProc s p {}) with final := some c }
        else none
      | none => none
  | .abort =>
      match (s.procs p).tmp with
      | some c => some { (setProc s p {}) with part := some c }
      | none => none

def run (oid : Bytes) : St → List (Nat × Act) → Option St
  | s, [] => some s
  | s, (p, a) :: rest => match step H oid s p a with
    | some s' => run oid s' rest
    | none => none

/-- what every process knows about its own file: once loaded, the hasher has seen exactly the file -/
def Inv (s : St) : Prop := ∀ p, (s.procs p).loaded = true → (s.procs p).tmp = some (s.procs p).hashed

/-- the final path holds what it held at the start, or bytes that hash to the oid -/
def GoodFinal (oid : Bytes) (f0 : Option Bytes) (s : St) : Prop :=
  s.final = f0 ∨ ∃ c, s.final = some c ∧ H c = oid

theorem setProc_same (s : St) (p : Nat) (v : Proc) : (setProc s p v).procs p = v := by simp [setProc]
theorem setProc_other (s : St) (p q : Nat) (v : Proc) (h : q ≠ p) : (setProc s p v).procs q = s.procs q := by
  simp [setProc, h]

theorem inv_setProc (s : St) (p : Nat) (v : Proc) (h : Inv s) (hv : v.loaded = true → v.tmp = some v.hashed) :
    Inv (setProc s p v) := by
  intro q hq
  by_cases e : q = p
  · subst e; rw [setProc_same] at hq ⊢; exact hv hq
  · rw [setProc_other s p q v e] at hq ⊢; exact h q hq

theorem inv_congr (s t : St) (e : t.procs = s.procs) (h : Inv s) : Inv t := by
  intro q hq; rw [e] at hq ⊢; exact h q hq

theorem step_inv (oid : Bytes) (s s' : St) (p : Nat) (a : Act) (h : Inv s) (hs : step H oid s p a = some s') :
    Inv s' := by
  cases a with
  | create => simp only [step] at hs; cases hs; exact inv_setProc s p _ h (by intro _; rfl)
  | takePart =>
    simp only [step] at hs
    split at hs
    · cases hs
      exact inv_congr _ _ rfl (inv_setProc s p _ h (by intro h'; cases h'))
    · cases hs; exact h
    · cases hs
  | load =>
    simp only [step] at hs
    split at hs
    · cases hs; exact inv_setProc s p _ h (by intro _; rfl)
    · cases hs
  | truncate =>
    simp only [step] at hs
    split at hs
    · cases hs; exact inv_setProc s p _ h (by intro _; rfl)
    · cases hs
  | recv b =>
    simp only [step] at hs
    split at hs
    · rename_i c hc
      split at hs
      · rename_i hl
        cases hs
        apply inv_setProc s p _ h
        intro _
        have := h p hl
        rw [hc] at this
        cases this
        rfl
      · cases hs
    · cases hs
  | commit =>
    simp only [step] at hs
    split at hs
    · split at hs
      · cases hs
        exact inv_congr _ _ rfl (inv_setProc s p {} h (by intro h'; cases h'))
      · cases hs
    · cases hs
  | abort =>
    simp only [step] at hs
    split at hs
    · cases hs
      exact inv_congr _ _ rfl (inv_setProc s p {} h (by intro h'; cases h'))
    · cases hs

theorem step_final (oid : Bytes) (s s' : St) (p : Nat) (a : Act) (h : Inv s) (hs : step H oid s p a = some s') :
    s'.final = s.final ∨ ∃ c, s'.final = some c ∧ H c = oid := by
  cases a with
  | create => simp only [step] at hs; cases hs; left; rfl
  | takePart =>
    simp only [step] at hs
    split at hs <;> cases hs <;> (left; rfl)
  | load => simp only [step] at hs; split at hs <;> cases hs; left; rfl
  | truncate => simp only [step] at hs; split at hs <;> cases hs; left; rfl
  | recv b =>
    simp only [step] at hs
    split at hs
    · split at hs <;> cases hs; left; rfl
    · cases hs
  | commit =>
    simp only [step] at hs
    split at hs
    · rename_i c hc
      split at hs
      · rename_i hg
        cases hs
        right
        refine ⟨c, rfl, ?_⟩
        have := h p hg.1
        rw [hc] at this
        cases this
        exact hg.2
      · cases hs
    · cases hs
  | abort => simp only [step] at hs; split at hs <;> cases hs; left; rfl

theorem step_good (oid : Bytes) (f0 : Option Bytes) (s s' : St) (p : Nat) (a : Act) (h : Inv s)
    (hg : GoodFinal H oid f0 s) (hs : step H oid s p a = some s') : GoodFinal H oid f0 s' := by
  rcases step_final H oid s s' p a h hs with e | ⟨c, hc, hh⟩
  · rcases hg with g | ⟨c, hc, hh⟩
    · left; rw [e]; exact g
    · right; exact ⟨c, by rw [e]; exact hc, hh⟩
  · right; exact ⟨c, hc, hh⟩

/-- every reachable state of every schedule of every number of processes -/
theorem run_good (oid : Bytes) (f0 : Option Bytes) (tr : List (Nat × Act)) :
    ∀ s s', Inv s → GoodFinal H oid f0 s → run H oid s tr = some s' → Inv s' ∧ GoodFinal H oid f0 s' := by
  induction tr with
  | nil => intro s s' hi hg hr; simp only [run] at hr; cases hr; exact ⟨hi, hg⟩
  | cons pa rest ih =>
    intro s s' hi hg hr
    obtain ⟨p, a⟩ := pa
    simp only [run] at hr
    split at hr
    · rename_i s1 hs1
      exact ih s1 s' (step_inv H oid s s1 p a hi hs1) (step_good H oid f0 s s1 p a hi hg hs1) hr
    · cases hr

/-- a valid final file stays valid: nothing but a verified commit ever writes the final path -/
theorem run_keeps_valid (oid : Bytes) (tr : List (Nat × Act)) :
    ∀ s s', Inv s → (∃ c, s.final = some c ∧ H c = oid) → run H oid s tr = some s' →
      ∃ c, s'.final = some c ∧ H c = oid := by
  induction tr with
  | nil => intro s s' _ hv hr; simp only [run] at hr; cases hr; exact hv
  | cons pa rest ih =>
    intro s s' hi hv hr
    obtain ⟨p, a⟩ := pa
    simp only [run] at hr
    split at hr
    · rename_i s1 hs1
      refine ih s1 s' (step_inv H oid s s1 p a hi hs1) ?_ hr
      rcases step_final H oid s s1 p a hi hs1 with e | h2
      · obtain ⟨c, hc, hh⟩ := hv; exact ⟨c, by rw [e]; exact hc, hh⟩
      · exact h2
    · cases hr

def init (part final : Option Bytes) : St := { part := part, final := final, procs := fun _ => {} }

theorem init_inv (part final : Option Bytes) : Inv (init part final) := by
  intro p h; simp [init] at h

end DlConc
