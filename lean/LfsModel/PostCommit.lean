/-
C16, which files the post-commit hook looks at (commands/command_post_commit.go + git.GetFilesChanged):
`git diff-tree --no-commit-id --name-only -r --root -m HEAD` — the paths in which the commit's tree
differs from a parent's tree, for EVERY parent; a commit without parents is compared with the empty tree.
Trees are lists of (path, blob).  Core-only, executable (Oracle `C16 changed`).
-/
namespace PostCommit

abbrev Tree := List (Nat × Nat)

def lookup (t : Tree) (p : Nat) : Option Nat := (t.find? fun e => e.1 == p).map (·.2)

/-- paths whose entry differs between two trees (added, modified or removed) -/
def diffPaths (old new : Tree) : List Nat :=
  (new.filter fun e => lookup old e.1 != some e.2).map (·.1) ++
  (old.filter fun e => lookup new e.1 == none).map (·.1)

/-- the list the hook works on -/
def changed (parents : List Tree) (t : Tree) : List Nat :=
  match parents with
  | [] => diffPaths [] t
  | ps => ps.flatMap fun p => diffPaths p t

/-- every path of the commit's tree that some parent does not have with the same content is listed
    (for a root commit: every path) -/
theorem new_or_modified_is_listed (parents : List Tree) (t : Tree) (p b : Nat) (h : (p, b) ∈ t)
    (hdiff : parents = [] ∨ ∃ par ∈ parents, lookup par p ≠ some b) : p ∈ changed parents t := by
  have hin : ∀ old : Tree, lookup old p ≠ some b → p ∈ diffPaths old t := by
    intro old ho
    simp only [diffPaths, List.mem_append, List.mem_map, List.mem_filter]
    left
    exact ⟨(p, b), ⟨h, by simpa using ho⟩, rfl⟩
  rcases hdiff with he | ⟨par, hpar, hne⟩
  · subst he
    simp only [changed]
    exact hin [] (by simp [lookup])
  · cases parents with
    | nil => cases hpar
    | cons q qs =>
      simp only [changed, List.mem_flatMap]
      exact ⟨par, hpar, hin par hne⟩

/-- nothing is listed that is the same in the commit and in all its parents -/
theorem unchanged_not_listed (parents : List Tree) (hne : parents ≠ []) (t : Tree) (p : Nat)
    (h : p ∈ changed parents t) : ∃ par ∈ parents, lookup par p ≠ lookup t p ∨ (∃ b, (p, b) ∈ t ∧ lookup par p ≠ some b) := by
  cases parents with
  | nil => exact absurd rfl hne
  | cons q qs =>
    simp only [changed, List.mem_flatMap] at h
    obtain ⟨par, hpar, hd⟩ := h
    refine ⟨par, hpar, ?_⟩
    simp only [diffPaths, List.mem_append, List.mem_map, List.mem_filter] at hd
    rcases hd with ⟨⟨p', b⟩, ⟨hm, hx⟩, hp⟩ | ⟨⟨p', b⟩, ⟨hm, hx⟩, hp⟩
    · simp only at hp; subst hp
      right; exact ⟨b, hm, by simpa using hx⟩
    · simp only at hp; subst hp
      left
      have hx' : lookup t p' = none := by simpa using hx
      rw [hx']
      intro hc
      -- (p', b) ∈ par gives lookup par p' ≠ none
      simp only [lookup, Option.map_eq_none_iff, List.find?_eq_none] at hc
      have := hc (p', b) hm
      simp at this

/-- non-vacuity: a root commit, and a merge whose second parent lacks a file -/
example : changed [] [(1, 10), (2, 20)] = [1, 2] := by decide
example : changed [[(1, 10), (2, 20)], [(1, 10)]] [(1, 10), (2, 20)] = [2] := by decide

/-! ### which files the hook LOOKS AT (D87): the changed ones — or all of them when an attributes file changed -/

/-- `isAttr p`: the path is a .gitattributes file; `all`: every path of the work tree -/
def looked (isAttr : Nat → Bool) (all : List Nat) (chg : List Nat) : List Nat :=
  if chg.any isAttr then all else chg

/-- whenever an attributes file is among the changed paths every file is looked at — in particular the files that
    the new attributes make lockable although they did not change themselves -/
theorem attrs_change_looks_at_everything (isAttr : Nat → Bool) (all chg : List Nat) (a : Nat) (ha : a ∈ chg)
    (hattr : isAttr a = true) (f : Nat) (hf : f ∈ all) : f ∈ looked isAttr all chg := by
  have : chg.any isAttr = true := List.any_eq_true.mpr ⟨a, ha, hattr⟩
  simp [looked, this, hf]

/-- and nothing that changed is ever left out -/
theorem changed_is_looked_at (isAttr : Nat → Bool) (all chg : List Nat) (hsub : ∀ p ∈ chg, p ∈ all) (p : Nat) (hp : p ∈ chg) :
    p ∈ looked isAttr all chg := by
  unfold looked
  split
  · exact hsub p hp
  · exact hp

end PostCommit
