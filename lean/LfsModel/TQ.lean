/-
Probe: transfer-queue bookkeeping (tq/transfer_queue.go) as an event system over a per-oid
status map.  Core-only.  Oids are Nat.
-/
namespace TQ

abbrev Oid := Nat

inductive Term | delivered | noAction | errored
deriving DecidableEq, Repr

inductive Status
  | unknown                 -- never added
  | incoming                -- sitting in q.incoming
  | waiting                 -- in the collector's next/pending/collected lists
  | inBatch                 -- handed to enqueueAndCollectRetriesFor, reply not yet processed
  | job                     -- handed to the adapter, result not yet handled
  | retryOut                -- on the worker's `next` list, waiting for batchEnd
  | term (t : Term)
deriving DecidableEq, Repr

def Status.live : Status → Bool
  | .unknown => false
  | .term _ => false
  | _ => true

structure State where
  known : List Oid := []            -- first-add order (keys of q.transfers)
  st : Oid → Status := fun _ => .unknown
  adds : Oid → Nat := fun _ => 0    -- chain length
  rc : Oid → Nat := fun _ => 0      -- retry counter
  counter : Int := 0                -- abortableWaitGroup.counter
  aborted : Bool := false
  delivered : List Oid := []        -- one entry per tuple sent to the (single) watcher
  errors : Nat := 0
  waitCalled : Bool := false
  waitReturned : Bool := false
  cap : Nat := 1                    -- capacity of q.incoming
  batchSize : Nat := 1
  maxRetries : Nat := 8

def set (f : Oid → α) (o : Oid) (v : α) : Oid → α := fun x => if x = o then v else f x

def countSt (s : State) (p : Status → Bool) : Nat := s.known.countP (fun o => p (s.st o))

/-- what the server said about one object of the batch -/
inductive ReplyObj | action | noAction | error | expiredAction
deriving DecidableEq, Repr

/-- what the adapter said about one job -/
inductive Outcome | ok | retriable | fatal | unprocessable
deriving DecidableEq, Repr

inductive Ev
  | add (o : Oid)
  | collTake (o : Oid)                       -- collector moves o from q.incoming into next/pending
  | batchStart (os : List Oid)               -- collector hands `os` to a worker
  | reply (o : Oid) (r : ReplyObj)           -- worker processes one object of the batch response
  | batchCallFail (o : Oid) (retriable : Bool) -- batch API call failed: per-object handling
  | jobResult (o : Oid) (out : Outcome)
  | batchEnd (o : Oid)                       -- retries.Concat: o goes back to the collector
  | waitCall
  | waitReturn
deriving Repr

def done (s : State) : State := if s.aborted then s else { s with counter := s.counter - 1 }

/-- retry if budget allows (rc < maxRetries ⇒ rc+1, retryOut) else terminal error + Done -/
def retryOrFail (s : State) (o : Oid) : State :=
  if s.rc o < s.maxRetries then { s with rc := set s.rc o (s.rc o + 1), st := set s.st o .retryOut }
  else done { s with st := set s.st o (.term .errored), errors := s.errors + 1 }

def step (s : State) : Ev → Option State
  | .add o =>
    if s.waitCalled then none else
    match s.st o with
    | .unknown =>
      if countSt s (· == .incoming) < s.cap then
        some { s with known := s.known ++ [o], st := set s.st o .incoming, adds := set s.adds o 1,
                      counter := if s.aborted then s.counter else s.counter + 1 }
      else none                              -- Add blocks
    | .term .delivered =>
      some { s with adds := set s.adds o (s.adds o + 1), delivered := s.delivered ++ [o] }
    | _ => some { s with adds := set s.adds o (s.adds o + 1) }
  | .collTake o =>
    if s.st o = .incoming then some { s with st := set s.st o .waiting } else none
  | .batchStart os =>
    if os.length ≤ s.batchSize ∧ os ≠ [] ∧ os.Nodup ∧ (∀ o ∈ os, s.st o = .waiting)
       ∧ countSt s (fun x => x == .inBatch || x == .job || x == .retryOut) = 0 then
      some { s with st := fun x => if x ∈ os then .inBatch else s.st x }
    else none
  | .reply o r =>
    if s.st o = .inBatch then
      match r with
      | .action => some { s with st := set s.st o .job }
      | .noAction => some (done { s with st := set s.st o (.term .noAction) })
      | .error => some (done { s with st := set s.st o (.term .errored), errors := s.errors + 1 })
      | .expiredAction => some (retryOrFail s o)
    else none
  | .batchCallFail o retriable =>
    if s.st o = .inBatch then
      if retriable then some (retryOrFail s o)
      else some (done { s with st := set s.st o (.term .errored), errors := s.errors + 1 })
    else none
  | .jobResult o out =>
    if s.st o = .job then
      match out with
      | .ok => some (done { s with st := set s.st o (.term .delivered),
                                   delivered := s.delivered ++ List.replicate (s.adds o) o })
      | .retriable => some (retryOrFail s o)
      | .fatal => some (done { s with st := set s.st o (.term .errored), errors := s.errors + 1 })
      | .unprocessable => some (done { s with st := set s.st o (.term .errored), errors := s.errors + 1 })   -- HTTP 422: reported like any fatal outcome (D19 repair)
    else none
  | .batchEnd o =>
    if s.st o = .retryOut ∧ countSt s (fun x => x == .inBatch || x == .job) = 0 then
      some { s with st := set s.st o .waiting }
    else none
  | .waitCall => if s.waitCalled then none else some { s with waitCalled := true }
  | .waitReturn =>
    if s.waitCalled ∧ ¬ s.waitReturned ∧ (s.counter = 0 ∨ s.aborted) then some { s with waitReturned := true }
    else none

def run : State → List Ev → Option State
  | s, [] => some s
  | s, e :: es => match step s e with
    | some s' => run s' es
    | none => none

/-- the accounting invariant: known oids are distinct, unknown ↔ not in `known`,
and (unless aborted) the wait-group counter is the number of live oids -/
structure Inv (s : State) : Prop where
  nodup : s.known.Nodup
  known_iff : ∀ o, o ∈ s.known ↔ s.st o ≠ .unknown
  acc : s.aborted = false → s.counter = (countSt s Status.live : Int)
  deliv : ∀ o ∈ s.delivered, s.st o = .term .delivered

end TQ
