/-
commands/command_track.go trackCommand / command_untrack.go untrackCommand as operations on the lines of
the .gitattributes file of the current directory (top level, one argument per call).
A line is what the commands look at: its first field (unescaped), whether it assigns `filter` at all and
whether that is `filter=lfs`, whether it sets `lockable`, and a tag standing for everything else on it.
Lines without a field (blank lines) are dropped by the rewrite and are not part of the state.
Core-only, executable (Oracle `C19 seq`).
-/
namespace TrkSeq
abbrev Bytes := List UInt8

structure Line where
  pat : Bytes
  hasFilter : Bool
  lfs : Bool
  lockable : Bool
  tag : Nat
deriving DecidableEq, Repr

inductive Flag | none | lock | unlock
deriving DecidableEq, Repr

/-- git.GetAttributePaths lists a line when it assigns `filter` or sets `lockable` -/
def known (l : Line) : Bool := l.hasFilter || l.lockable

def flagOK : Flag → Line → Bool
  | .lock, l => l.lockable
  | .unlock, l => !l.lockable
  | .none, _ => true

/-- path.Join(".", p) for the patterns of interest: a leading slash goes -/
def joinDot : Bytes → Bytes
  | 47 :: rest => rest
  | p => p

/-- the comparison of a known pattern with the argument: with the argument joined to the current
    directory (which drops a leading slash), or — at the top level — with the argument as it stands -/
def sameAs (l : Line) (p : Bytes) : Bool := l.pat == joinDot p || l.pat == p

/-- a known line spells the argument exactly as given -/
def exact (ls : List Line) (p : Bytes) : Bool := ls.any fun l => known l && l.pat == p

/-- the known lines this call is about: those that spell the pattern exactly, and only when there is none
    those that merely cover it (`x.bin` for `/x.bin`) — D77 -/
def about (ls : List Line) (p : Bytes) (l : Line) : Bool :=
  known l && (if exact ls p then l.pat == p else sameAs l p)

/-- "already supported": a known line for this pattern that assigns filter=lfs and whose lockable
    state needs no change -/
def already (ls : List Line) (p : Bytes) (f : Flag) : Bool :=
  ls.any fun l => about ls p l && l.lfs && flagOK f l

/-- without --not-lockable, a lockable line for the pattern keeps the rewritten line lockable -/
def keepLock (ls : List Line) (p : Bytes) (f : Flag) : Bool :=
  f != .unlock && ls.any fun l => about ls p l && l.lockable

/-- the line `git lfs track` writes -/
def newLine (p : Bytes) (lockable : Bool) : Line := ⟨p, true, true, lockable, 0⟩

/-- the merge loop: the FIRST line whose first field is the pattern is replaced -/
def replaceFirst (p : Bytes) (nl : Line) : List Line → Option (List Line)
  | [] => none
  | l :: rest =>
    if l.pat == p then some (nl :: rest)
    else match replaceFirst p nl rest with
      | some r => some (l :: r)
      | none => none

def track (ls : List Line) (p : Bytes) (f : Flag) : List Line :=
  if already ls p f then ls
  else
    let nl := newLine p (f == .lock || keepLock ls p f)
    match replaceFirst p nl ls with
    | some r => r
    | none => ls ++ [nl]

/-- untrack drops the lines that carry filter=lfs for this pattern -/
def untrack (ls : List Line) (p : Bytes) : List Line := ls.filter fun l => !(l.lfs && l.pat == p)

inductive Op
  | track (p : Bytes) (f : Flag)
  | untrack (p : Bytes)

def step (ls : List Line) : Op → List Line
  | .track p f => track ls p f
  | .untrack p => untrack ls p

def run (ls : List Line) (ops : List Op) : List Line := ops.foldl step ls

/-! ### replaceFirst -/

theorem replaceFirst_filter_other (p q : Bytes) (hq : (q == p) = false) (nl : Line) (hn : nl.pat = p) (ls r : List Line)
    (h : replaceFirst p nl ls = some r) : r.filter (·.pat == q) = ls.filter (·.pat == q) := by
  induction ls generalizing r with
  | nil => simp [replaceFirst] at h
  | cons l rest ih =>
    simp only [replaceFirst] at h
    by_cases hl : (l.pat == p) = true
    · simp only [hl, if_true, Option.some.injEq] at h
      subst h
      have e1 : (nl.pat == q) = false := by
        rw [hn]; cases hpq : (p == q) with
        | false => rfl
        | true => have := beq_iff_eq.mp hpq; subst this; simp at hq
      have e2 : (l.pat == q) = false := by
        have := beq_iff_eq.mp hl; rw [this]
        cases hpq : (p == q) with
        | false => rfl
        | true => have := beq_iff_eq.mp hpq; subst this; simp at hq
      simp [List.filter_cons, e1, e2]
    · have hl' : (l.pat == p) = false := by simpa using hl
      simp only [hl', Bool.false_eq_true, if_false] at h
      cases hr : replaceFirst p nl rest with
      | none => rw [hr] at h; cases h
      | some r' =>
        rw [hr] at h
        simp only [Option.some.injEq] at h
        subst h
        simp [List.filter_cons, ih r' hr]

theorem replaceFirst_mem (p : Bytes) (nl : Line) (ls r : List Line) (h : replaceFirst p nl ls = some r) : nl ∈ r := by
  induction ls generalizing r with
  | nil => simp [replaceFirst] at h
  | cons l rest ih =>
    simp only [replaceFirst] at h
    by_cases hl : (l.pat == p) = true
    · simp only [hl, if_true, Option.some.injEq] at h; subst h; simp
    · have hl' : (l.pat == p) = false := by simpa using hl
      simp only [hl', Bool.false_eq_true, if_false] at h
      cases hr : replaceFirst p nl rest with
      | none => rw [hr] at h; cases h
      | some r' =>
        rw [hr] at h; simp only [Option.some.injEq] at h; subst h
        simp [ih r' hr]

/-! ### track -/

/-- lines of every OTHER pattern stay, in their order -/
theorem track_others (ls : List Line) (p q : Bytes) (f : Flag) (hq : (q == p) = false) :
    (track ls p f).filter (·.pat == q) = ls.filter (·.pat == q) := by
  unfold track
  split
  · rfl
  · simp only
    split
    · rename_i r hr
      exact replaceFirst_filter_other p q hq _ rfl ls r hr
    · have e : ((newLine p (f == .lock || keepLock ls p f)).pat == q) = false := by
        simp only [newLine]
        cases hpq : (p == q) with
        | false => rfl
        | true => have := beq_iff_eq.mp hpq; subst this; simp at hq
      simp [List.filter_append, List.filter_cons, e]

theorem sameAs_iff (l : Line) (p : Bytes) : sameAs l p = true ↔ (l.pat = joinDot p ∨ l.pat = p) := by
  simp [sameAs]

theorem about_same (ls : List Line) (p : Bytes) (l : Line) (h : about ls p l = true) :
    l.pat = joinDot p ∨ l.pat = p := by
  simp only [about, Bool.and_eq_true] at h
  obtain ⟨_, h2⟩ := h
  split at h2
  · exact Or.inr (beq_iff_eq.mp h2)
  · exact (sameAs_iff l p).mp h2

theorem about_self (ls : List Line) (p : Bytes) (l : Line) (hl : l ∈ ls) (hk : known l = true) (hp : l.pat = p) :
    about ls p l = true := by
  have hex : exact ls p = true := by
    simp only [exact, List.any_eq_true, Bool.and_eq_true]
    exact ⟨l, hl, hk, by simp [hp]⟩
  simp [about, hk, hex, hp]

/-- afterwards a line for the pattern — or for its unrooted spelling, which covers it — assigns filter=lfs -/
theorem track_tracked (ls : List Line) (p : Bytes) (f : Flag) :
    ∃ l ∈ track ls p f, (l.pat = joinDot p ∨ l.pat = p) ∧ l.lfs = true := by
  unfold track
  split
  · rename_i h
    simp only [already, List.any_eq_true, Bool.and_eq_true] at h
    obtain ⟨l, hl, ⟨⟨hab, hlfs⟩, _⟩⟩ := h
    exact ⟨l, hl, about_same ls p l hab, hlfs⟩
  · simp only
    split
    · rename_i r hr
      exact ⟨_, replaceFirst_mem p _ ls r hr, Or.inr rfl, rfl⟩
    · exact ⟨newLine p (f == .lock || keepLock ls p f), by simp, Or.inr rfl, rfl⟩

/-- with --lockable the line is lockable too -/
theorem track_lock (ls : List Line) (p : Bytes) :
    ∃ l ∈ track ls p .lock, (l.pat = joinDot p ∨ l.pat = p) ∧ l.lfs = true ∧ l.lockable = true := by
  unfold track
  split
  · rename_i h
    simp only [already, List.any_eq_true, Bool.and_eq_true, flagOK] at h
    obtain ⟨l, hl, ⟨⟨hab, hlfs⟩, hk⟩⟩ := h
    exact ⟨l, hl, about_same ls p l hab, hlfs, hk⟩
  · simp only
    split
    · rename_i r hr
      exact ⟨_, replaceFirst_mem p _ ls r hr, Or.inr rfl, rfl, by simp [newLine]⟩
    · exact ⟨newLine p (Flag.lock == .lock || keepLock ls p .lock), by simp, Or.inr rfl, rfl, by simp [newLine]⟩

/-- without a lock flag, a pattern that was lockable stays lockable -/
theorem track_none_keeps_lockable (ls : List Line) (p : Bytes)
    (h : ∃ l ∈ ls, l.pat = p ∧ known l = true ∧ l.lockable = true) :
    ∃ l ∈ track ls p .none, l.pat = p ∧ l.lockable = true := by
  obtain ⟨l0, hl0, hp0, hk0, hlk0⟩ := h
  unfold track
  split
  · exact ⟨l0, hl0, hp0, hlk0⟩
  · have hkeep : keepLock ls p .none = true := by
      simp only [keepLock, List.any_eq_true, Bool.and_eq_true]
      exact ⟨by decide, l0, hl0, about_self ls p l0 hl0 hk0 hp0, hlk0⟩
    simp only
    split
    · rename_i r hr
      exact ⟨_, replaceFirst_mem p _ ls r hr, rfl, by simp [newLine, hkeep]⟩
    · exact ⟨newLine p (Flag.none == .lock || keepLock ls p .none), by simp, rfl, by simp [newLine, hkeep]⟩

/-- `--not-lockable` for a pattern that a known line spells EXACTLY takes effect on a line with that very spelling,
    whatever other lines cover the same files (D77: `x.bin`, not lockable, beside `/x.bin lockable` made
    `track --not-lockable /x.bin` answer "already supported") -/
theorem track_unlock_exact (ls : List Line) (p : Bytes) (h : ∃ l ∈ ls, known l = true ∧ l.pat = p) :
    ∃ l ∈ track ls p .unlock, l.pat = p ∧ l.lfs = true ∧ l.lockable = false := by
  obtain ⟨l0, hl0, hk0, hp0⟩ := h
  have hex : exact ls p = true := by
    simp only [exact, List.any_eq_true, Bool.and_eq_true]
    exact ⟨l0, hl0, hk0, by simp [hp0]⟩
  unfold track
  split
  · rename_i ha
    simp only [already, List.any_eq_true, Bool.and_eq_true, flagOK] at ha
    obtain ⟨l, hl, ⟨⟨hab, hlfs⟩, hk⟩⟩ := ha
    simp only [about, hex, if_true, Bool.and_eq_true] at hab
    exact ⟨l, hl, beq_iff_eq.mp hab.2, hlfs, by simpa using hk⟩
  · simp only
    split
    · rename_i r hr
      exact ⟨_, replaceFirst_mem p _ ls r hr, rfl, rfl, by simp [newLine, keepLock]⟩
    · exact ⟨newLine p (Flag.unlock == .lock || keepLock ls p .unlock), by simp, rfl, rfl, by simp [newLine, keepLock]⟩

/-- the line that `track` writes satisfies "already supported" for the same flag -/
theorem already_after (ls : List Line) (p : Bytes) (f : Flag) : already (track ls p f) p f = true := by
  unfold track
  split
  · assumption
  · rename_i hna
    have hna' : already ls p f = false := by simpa using hna
    simp only
    have hflag : flagOK f (newLine p (f == .lock || keepLock ls p f)) = true := by
      cases f with
      | lock => simp [flagOK, newLine]
      | none => simp [flagOK]
      | unlock => simp [flagOK, newLine, keepLock]
    have hk : known (newLine p (f == .lock || keepLock ls p f)) = true := by simp [known, newLine]
    split
    · rename_i r hr
      have hm := replaceFirst_mem p _ ls r hr
      simp only [already, List.any_eq_true, Bool.and_eq_true]
      exact ⟨_, hm, ⟨about_self r p _ hm hk rfl, rfl⟩, hflag⟩
    · have hm : newLine p (f == .lock || keepLock ls p f) ∈ ls ++ [newLine p (f == .lock || keepLock ls p f)] := by simp
      simp only [already, List.any_eq_true, Bool.and_eq_true]
      exact ⟨_, hm, ⟨about_self _ p _ hm hk rfl, rfl⟩, hflag⟩

/-- running the same command again changes nothing -/
theorem track_idempotent (ls : List Line) (p : Bytes) (f : Flag) : track (track ls p f) p f = track ls p f := by
  have h := already_after ls p f
  generalize track ls p f = t at h ⊢
  unfold track
  simp [h]

/-! ### untrack -/

theorem untrack_gone (ls : List Line) (p : Bytes) : ∀ l ∈ untrack ls p, ¬ (l.pat = p ∧ l.lfs = true) := by
  intro l hl ⟨hp, hlfs⟩
  simp only [untrack, List.mem_filter] at hl
  simp [hp, hlfs] at hl

theorem untrack_keeps (ls : List Line) (p : Bytes) (l : Line) (hl : l ∈ ls) (h : ¬ (l.pat = p ∧ l.lfs = true)) :
    l ∈ untrack ls p := by
  simp only [untrack, List.mem_filter]
  refine ⟨hl, ?_⟩
  by_cases hlfs : l.lfs = true
  · have : l.pat ≠ p := fun e => h ⟨e, hlfs⟩
    simp [hlfs, this]
  · simp [hlfs]

theorem untrack_others (ls : List Line) (p q : Bytes) (hq : (q == p) = false) :
    (untrack ls p).filter (·.pat == q) = ls.filter (·.pat == q) := by
  simp only [untrack, List.filter_filter]
  apply List.filter_congr
  intro l _
  by_cases h : (l.pat == q) = true
  · have : (l.pat == p) = false := by
      have e := beq_iff_eq.mp h; rw [e]; exact hq
    simp [h, this]
  · have h' : (l.pat == q) = false := by simpa using h
    simp [h']

theorem untrack_idempotent (ls : List Line) (p : Bytes) : untrack (untrack ls p) p = untrack ls p := by
  simp [untrack, List.filter_filter]

/-- over any sequence of operations on OTHER patterns, the lines of a pattern are left alone -/
def opPat : Op → Bytes
  | .track p _ => p
  | .untrack p => p

theorem run_others (ops : List Op) (q : Bytes) (h : ∀ o ∈ ops, (q == opPat o) = false) :
    ∀ ls, (run ls ops).filter (·.pat == q) = ls.filter (·.pat == q) := by
  induction ops with
  | nil => intro ls; rfl
  | cons o rest ih =>
    intro ls
    simp only [run, List.foldl_cons]
    have h1 := ih (fun o' ho' => h o' (by simp [ho'])) (step ls o)
    simp only [run] at h1
    rw [h1]
    have ho := h o (by simp)
    cases o with
    | track p f => exact track_others ls p q f ho
    | untrack p => exact untrack_others ls p q ho

end TrkSeq
