import LfsModel.RedirectModel
namespace Rd2

theorem sameOrigin_refl (a : Lst) : sameOrigin a a = true := by simp [sameOrigin]

theorem sameOrigin_trans {a b c : Lst} (h1 : sameOrigin a b = true) (h2 : sameOrigin b c = true) :
    sameOrigin a c = true := by
  simp only [sameOrigin, Bool.and_eq_true, decide_eq_true_eq] at *
  exact ⟨⟨h1.1.1.trans h2.1.1, h1.1.2.trans h2.1.2⟩, h1.2.trans h2.2⟩

/-- the code's test implies the property's notion: same scheme, same host, same EFFECTIVE port -/
theorem sameOrigin_effective {a b : Lst} (h : sameOrigin a b = true) :
    a.scheme = b.scheme ∧ a.name = b.name ∧ a.effPort = b.effPort := by
  simp only [sameOrigin, Bool.and_eq_true, decide_eq_true_eq] at h
  refine ⟨h.1.1, h.1.2, ?_⟩
  unfold Lst.effPort; rw [h.2, h.1.1]

/-- a request is confined when the value it carries (if any) was obtained for the place it goes to -/
def Confined (w : World) (q : Req) : Prop :=
  ∀ l, q.auth = some l → sameOrigin (w.lst l) (w.lst q.lst) = true

theorem sent_confined {w : World} {r : Req} (h : Confined w r) : Confined w r.sent := by
  intro l hl
  unfold Req.sent at hl ⊢
  simp only at hl ⊢
  cases ha : r.auth with
  | some x => rw [ha] at hl; simp only at hl; exact h l (by rw [ha]; exact hl)
  | none =>
    rw [ha] at hl; simp only at hl
    split at hl
    · cases hl; exact sameOrigin_refl _
    · cases hl

theorem sent_lst (r : Req) : r.sent.lst = r.lst := rfl

theorem prepare_spec {access : Bool} {canFill : Nat → Bool} {r0 r : Req} (h : prepare access canFill r0 = some r) :
    r.lst = r0.lst ∧ r.node = r0.node ∧ (r.auth = r0.auth ∨ r.auth = some r0.lst) := by
  unfold prepare at h
  split at h
  · cases h; exact ⟨rfl, rfl, Or.inl rfl⟩
  · split at h
    · cases h; exact ⟨rfl, rfl, Or.inr rfl⟩
    · cases h

theorem prepare_confined {w : World} {access : Bool} {canFill : Nat → Bool} {r0 r : Req}
    (h : prepare access canFill r0 = some r) (hc : Confined w r0) : Confined w r := by
  obtain ⟨hl, _, ha⟩ := prepare_spec h
  intro l hq
  rw [hl]
  rcases ha with ha | ha
  · exact hc l (ha ▸ hq)
  · rw [ha] at hq; cases hq; exact sameOrigin_refl _

theorem nextReq_confined {w : World} {r nx : Req} {to : Nat} {loc : Loc}
    (h : nextReq w r to loc = some nx) (hc : Confined w r) : Confined w nx := by
  unfold nextReq at h
  cases loc with
  | bad => cases h
  | rel => simp only at h; cases h; exact hc
  | abs =>
    simp only at h
    split at h
    · cases h
    · cases h
      intro l hl
      simp only at hl ⊢
      split at hl
      · rename_i hso; exact sameOrigin_trans (hc l hl) hso
      · cases hl

theorem nextReq_noDowngrade {w : World} {r nx : Req} {to : Nat} {loc : Loc}
    (h : nextReq w r to loc = some nx) :
    ¬ ((w.lst r.lst).scheme = .https ∧ (w.lst nx.lst).scheme = .http) := by
  unfold nextReq at h
  cases loc with
  | bad => cases h
  | rel => simp only at h; cases h; simp only; intro ⟨h1, h2⟩; rw [h1] at h2; cases h2
  | abs =>
    simp only at h
    split at h
    · cases h
    · rename_i hnd; cases h; exact hnd

theorem chain_confined (w : World) (access : Bool) (canFill : Nat → Bool) :
    ∀ (fuel via : Nat) (r : Req), Confined w r → ∀ q ∈ (chain w access canFill fuel via r).1, Confined w q := by
  intro fuel
  induction fuel with
  | zero => intro via r _ q hq; simp [chain] at hq
  | succ fuel ih =>
    intro via r0 hr0 q hq
    rw [chain] at hq
    cases hp : prepare access canFill r0 with
    | none => simp [hp] at hq
    | some r =>
      have hr := prepare_confined hp hr0
      have hs := sent_confined hr
      simp only [hp] at hq
      cases ha : w.answer r.sent with
      | final => simp [ha] at hq; subst hq; exact hs
      | notFound => simp [ha] at hq; subst hq; exact hs
      | unauthorized => simp [ha] at hq; subst hq; exact hs
      | redirect to loc =>
        simp only [ha] at hq
        by_cases hv : via + 1 ≥ maxVia
        · simp [hv] at hq; subst hq; exact hs
        · simp only [hv, if_false] at hq
          cases hn : nextReq w r to loc with
          | none => simp [hn] at hq; subst hq; exact hs
          | some nx =>
            simp only [hn] at hq
            rcases List.mem_cons.mp hq with h | h
            · subst h; exact hs
            · exact ih (via + 1) nx (nextReq_confined hn hr) q h

theorem chain_length (w : World) (access : Bool) (canFill : Nat → Bool) :
    ∀ (fuel via : Nat) (r : Req), via < maxVia → (chain w access canFill fuel via r).1.length + via ≤ maxVia := by
  intro fuel
  induction fuel with
  | zero => intro via r h; simp [chain]; omega
  | succ fuel ih =>
    intro via r0 hv
    rw [chain]
    cases hp : prepare access canFill r0 with
    | none => simp; omega
    | some r =>
      simp only
      cases ha : w.answer r.sent with
      | final => simp; omega
      | notFound => simp; omega
      | unauthorized => simp; omega
      | redirect to loc =>
        simp only
        by_cases hlim : via + 1 ≥ maxVia
        · simp [hlim]; omega
        · simp only [hlim, if_false]
          cases hn : nextReq w r to loc with
          | none => simp; omega
          | some nx =>
            simp only [List.length_cons]
            have := ih (via + 1) nx (by omega)
            omega

/-- no two consecutive requests of a trace go from an https place to an http place -/
def NoDowngrade (w : World) : List Req → Prop
  | [] => True
  | [_] => True
  | a :: b :: rest => ¬ ((w.lst a.lst).scheme = .https ∧ (w.lst b.lst).scheme = .http) ∧ NoDowngrade w (b :: rest)

theorem chain_head (w : World) (access : Bool) (canFill : Nat → Bool) (fuel via : Nat) (r0 : Req) :
    ∀ q rest, (chain w access canFill fuel via r0).1 = q :: rest → q.lst = r0.lst := by
  intro q rest h
  cases fuel with
  | zero => simp [chain] at h
  | succ fuel =>
    rw [chain] at h
    cases hp : prepare access canFill r0 with
    | none => simp [hp] at h
    | some r =>
      have hl : r.sent.lst = r0.lst := (prepare_spec hp).1
      simp only [hp] at h
      cases ha : w.answer r.sent with
      | final => simp [ha] at h; rw [← h.1]; exact hl
      | notFound => simp [ha] at h; rw [← h.1]; exact hl
      | unauthorized => simp [ha] at h; rw [← h.1]; exact hl
      | redirect to loc =>
        simp only [ha] at h
        by_cases hv : via + 1 ≥ maxVia
        · simp [hv] at h; rw [← h.1]; exact hl
        · simp only [hv, if_false] at h
          cases hn : nextReq w r to loc with
          | none => simp [hn] at h; rw [← h.1]; exact hl
          | some nx => simp [hn] at h; rw [← h.1]; exact hl

theorem chain_noDowngrade (w : World) (access : Bool) (canFill : Nat → Bool) :
    ∀ (fuel via : Nat) (r : Req), NoDowngrade w (chain w access canFill fuel via r).1 := by
  intro fuel
  induction fuel with
  | zero => intro via r; simp [chain, NoDowngrade]
  | succ fuel ih =>
    intro via r0
    rw [chain]
    cases hp : prepare access canFill r0 with
    | none => simp [NoDowngrade]
    | some r =>
      simp only
      cases ha : w.answer r.sent with
      | final => simp [NoDowngrade]
      | notFound => simp [NoDowngrade]
      | unauthorized => simp [NoDowngrade]
      | redirect to loc =>
        simp only
        by_cases hv : via + 1 ≥ maxVia
        · simp [hv, NoDowngrade]
        · simp only [hv, if_false]
          cases hn : nextReq w r to loc with
          | none => simp [NoDowngrade]
          | some nx =>
            simp only
            have hrec := ih (via + 1) nx
            cases ht : (chain w access canFill fuel (via + 1) nx).1 with
            | nil => simp [NoDowngrade]
            | cons q rest =>
              have hq := chain_head w access canFill fuel (via + 1) nx q rest ht
              rw [ht] at hrec
              refine ⟨?_, hrec⟩
              rw [hq, sent_lst]
              exact nextReq_noDowngrade hn

theorem runAuth_confined (w : World) (canFill : Nat → Bool) :
    ∀ (fuel : Nat) (access : Bool) (orig : Req), Confined w orig → ∀ q ∈ runAuth w canFill fuel access orig, Confined w q := by
  intro fuel
  induction fuel with
  | zero => intro a o _ q hq; simp [runAuth] at hq
  | succ fuel ih =>
    intro access orig ho q hq
    rw [runAuth] at hq
    have hc := chain_confined w access canFill (maxVia + 1) 0 orig ho
    cases hch : chain w access canFill (maxVia + 1) 0 orig with
    | mk t o =>
      rw [hch] at hc hq
      simp only at hc hq
      cases o with
      | ok => exact hc q hq
      | plainErr => exact hc q hq
      | authErr =>
        simp only at hq
        rcases List.mem_append.mp hq with h | h
        · exact hc q h
        · exact ih true orig ho q h

end Rd2
