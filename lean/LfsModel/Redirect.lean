/-
Probe: lfshttp.doWithRedirects / newRequestForRetry and lfsapi.doWithAuth / getCreds as one
recursive function emitting the trace of requests.  Core-only.
-/
namespace Rd

inductive Scheme | http | https deriving DecidableEq, Repr

structure Origin where
  scheme : Scheme
  host : Nat            -- the textual `URL.Host` (name and, if written, port), abstracted to a Nat
deriving DecidableEq, Repr

/-- a request as the servers see it: where it goes, and for which origin the Authorization value
it carries (if any) was obtained or computed -/
structure Req where
  dst : Origin
  path : Nat
  auth : Option Origin
deriving DecidableEq, Repr

inductive Ans
  | final (status : Nat)
  | redirect (loc : Origin) (path : Nat)
  | unauthorized
deriving Repr

abbrev World := Req → Ans

/-- lfshttp.newRequestForRetry -/
def retryReq (r : Req) (loc : Origin) (path : Nat) : Option Req :=
  if r.dst.scheme = .https ∧ loc.scheme = .http then none            -- refusing insecure redirect
  else some { dst := loc, path := path,
              auth := if r.dst.host = loc.host then r.auth else none }   -- compares URL.Host only

/-- lfsapi.getCreds + setRequestAuth*: a request that has no Authorization gets one looked up under
`getCredURLForAPI`: its own URL when scheme or host differ from the API's, else the API / remote URL
(which has the API's, hence the request's, scheme and host).  `haveCreds` = the helper/netrc/URL
yields something. -/
def attach (haveCreds : Bool) (r : Req) : Req :=
  match r.auth with
  | some _ => r
  | none => if haveCreds then { r with auth := some r.dst } else r

/-- doWithAuth ∘ doWithCreds ∘ DoWithRedirect.  `threadVia` = whether the grown `via` is what the
recursion passes on (pinned code: false — the callee's append is lost).  Returns the trace. -/
def run (w : World) (haveCreds threadVia : Bool) (maxVia : Nat) : Nat → Nat → Nat → Req → List Req
  | 0, _, _, _ => []
  | fuel+1, via, authTries, r0 =>
    let r := attach haveCreds r0
    r :: match w r with
      | .final _ => []
      | .unauthorized =>
        -- creds rejected, header deleted; DoWithAuth resubmits (bounded here by authTries)
        if authTries = 0 then [] else run w haveCreds threadVia maxVia fuel via (authTries - 1) { r with auth := none }
      | .redirect loc p =>
        if via + 1 ≥ maxVia then []                                   -- "too many redirects"
        else match retryReq r loc p with
          | none => []
          | some r' => run w haveCreds threadVia maxVia fuel (if threadVia then via + 1 else via) authTries r'

/-- confinement in the code's own terms: same textual host; the scheme may only have been upgraded -/
def Confined (r : Req) : Prop :=
  match r.auth with
  | none => True
  | some o => o.host = r.dst.host ∧ (o.scheme = r.dst.scheme ∨ (o.scheme = .http ∧ r.dst.scheme = .https))

/-- confinement as the property states it: same scheme and host (hence same effective port) -/
def ConfinedStrict (r : Req) : Prop :=
  match r.auth with
  | none => True
  | some o => o = r.dst

theorem attach_confined (hc : Bool) (r : Req) (h : Confined r) : Confined (attach hc r) := by
  unfold attach
  cases hr : r.auth with
  | some o => simp only; exact h
  | none =>
    simp only
    split
    · simp [Confined]
    · exact h

theorem retry_confined (r r' : Req) (loc : Origin) (p : Nat) (h : Confined r)
    (hr : retryReq r loc p = some r') : Confined r' := by
  unfold retryReq at hr
  split at hr
  · cases hr
  · rename_i hnd
    cases hr
    unfold Confined at h ⊢
    simp only
    by_cases hh : r.dst.host = loc.host
    · simp only [hh, if_true]
      cases ha : r.auth with
      | none => trivial
      | some o =>
        rw [ha] at h
        simp only at h ⊢
        refine ⟨h.1.trans hh, ?_⟩
        rcases h.2 with e | ⟨e1, e2⟩
        · -- label scheme = old scheme; new scheme is not a downgrade
          cases hs : r.dst.scheme <;> cases hl : loc.scheme <;> simp_all
        · cases hl : loc.scheme <;> simp_all
    · simp [hh]

/-- **C10.auth_confined** (code's notion) for every world, fuel, via, number of 401 rounds -/
theorem run_confined (w : World) (hc tv : Bool) (mv : Nat) :
    ∀ (fuel via tries : Nat) (r : Req), Confined r → ∀ q ∈ run w hc tv mv fuel via tries r, Confined q := by
  intro fuel
  induction fuel with
  | zero => intro _ _ _ _ q hq; simp [run] at hq
  | succ fuel ih =>
    intro via tries r hr q hq
    simp only [run, List.mem_cons] at hq
    have ha := attach_confined hc r hr
    rcases hq with rfl | hq
    · exact ha
    · split at hq
      · cases hq
      · split at hq
        · cases hq
        · exact ih via (tries - 1) _ (by simp [Confined]) q hq
      · rename_i loc p _
        split at hq
        · cases hq
        · split at hq
          · cases hq
          · rename_i r' hr'
            exact ih _ tries r' (retry_confined _ _ loc p ha hr') q hq

/-- **C10.no_https_to_http**: a redirect never yields an http request from an https one -/
theorem retry_no_downgrade (r r' : Req) (loc : Origin) (p : Nat) (hr : retryReq r loc p = some r') :
    ¬ (r.dst.scheme = .https ∧ r'.dst.scheme = .http) := by
  unfold retryReq at hr
  split at hr
  · cases hr
  · rename_i h; cases hr; exact h

/-- **C10.hops_bounded** holds when `via` is threaded … -/
theorem run_length_threaded (w : World) (hc : Bool) (mv : Nat) :
    ∀ (fuel via : Nat) (r : Req), via ≤ mv → (run w hc true mv fuel via 0 r).length ≤ mv - via + 1 := by
  intro fuel
  induction fuel with
  | zero => intro _ _ _; simp [run]
  | succ fuel ih =>
    intro via r hv
    simp only [run, List.length_cons]
    split
    · simp
    · simp
    · split
      · simp
      · rename_i hlt
        split
        · simp
        · rename_i r' _
          have := ih (via + 1) r' (by omega)
          simp only [if_true] at this ⊢
          omega

/-- … and fails for the pinned code (`threadVia = false`): a world that always redirects to the same
origin is followed for as long as the fuel lasts (D6). -/
def loopWorld : World := fun r => .redirect r.dst (r.path + 1)
example : (run loopWorld false false 3 50 0 0 ⟨⟨.https, 1⟩, 0, none⟩).length = 50 := by decide

/-- D26: the strict reading fails on an http → https redirect to the same textual host -/
def upgradeWorld : World := fun r => if r.dst.scheme = .http then .redirect ⟨.https, r.dst.host⟩ 0 else .final 200
example : ∃ q ∈ run upgradeWorld true true 3 5 0 0 ⟨⟨.http, 7⟩, 0, none⟩, ¬ ConfinedStrict q := by
  refine ⟨⟨⟨.https, 7⟩, 0, some ⟨.http, 7⟩⟩, by decide, by simp [ConfinedStrict]⟩

#print axioms run_confined
#print axioms run_length_threaded
end Rd
