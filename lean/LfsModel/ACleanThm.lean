import LfsModel.AClean
import LfsModel.AStreamLemmas
namespace LfsA
open LfsA.Stream

theorem readFullAux_eof_of_empty : ∀ (fuel : Nat) (s : Stream) (n : Nat) (acc : Bytes),
    0 < fuel → 0 < n → s.data = [] → (readFullAux fuel s n acc).2.1 = true := by
  intro fuel s n acc hf hn hd
  cases fuel with
  | zero => omega
  | succ fuel =>
    unfold readFullAux
    have hn0 : n ≠ 0 := by omega
    simp only [hn0, if_false]
    have hrd := read_data s n
    generalize hr : s.read n = r at hrd
    obtain ⟨b, eof, s'⟩ := r
    simp only at hrd ⊢
    rw [hd] at hrd
    have hb : b = [] := by
      cases b with
      | nil => rfl
      | cons x xs => simp at hrd
    have := read_empty_eof s n hn (by rw [hr]; exact hb)
    rw [hr] at this
    simp only at this
    simp [this]

theorem clean_full_eq_spec (s : Stream) : clean .full s = spec s.data := by
  have hspec := readFull_spec s cut
  unfold clean decodeFrom
  simp only
  generalize hr : s.readFull cut = r at hspec
  obtain ⟨buf, eof, s'⟩ := r
  simp only at hspec ⊢
  obtain ⟨hbuf, hrest⟩ := hspec
  unfold spec
  by_cases hd : s.data = []
  · -- empty input
    have heof : eof = true := by
      have := readFullAux_eof_of_empty (s.chunks.length + cut + 1) s cut [] (by omega) (by decide) hd
      unfold readFull at hr
      rw [hr] at this
      exact this
    simp [hbuf, hd, heof]
  · have hne : s.data.isEmpty = false := by
      cases h : s.data with
      | nil => exact absurd h hd
      | cons x xs => rfl
    have hbne : buf.isEmpty = false := by
      rw [hbuf]
      cases h : s.data with
      | nil => exact absurd h hd
      | cons x xs => simp [cut]
    simp only [hbne, hne, Bool.false_and, Bool.false_eq_true, if_false]
    by_cases hlen : s.data.length < cut
    · have : buf = s.data := by rw [hbuf]; exact List.take_of_length_le (by omega)
      rw [this, hrest]
      have hdrop : s.data.drop cut = [] := List.drop_of_length_le (by omega)
      simp [hlen, hdrop]
    · have hbl : ¬ buf.length < cut := by
        rw [hbuf, List.length_take]; omega
      simp only [hbl, hlen, decide_false, Bool.and_false, Bool.false_eq_true, if_false]
      rw [hbuf, hrest, List.take_append_drop]

#print axioms clean_full_eq_spec

/-- chunk independence is a corollary -/
theorem clean_full_chunk_independent (s t : Stream) (h : s.data = t.data) : clean .full s = clean .full t := by
  rw [clean_full_eq_spec, clean_full_eq_spec, h]
end LfsA
