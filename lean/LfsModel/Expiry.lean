/-
tools/time_tools.go (TimeAtOrIn, IsExpiredAtOrIn) and tq/transfer.go (Action.IsExpiredWithin,
ActionSet.Get): when is an action that a batch response offered still usable?
Instants are integers (milliseconds on the client's clock); the zero time.Time is `none`.
Core-only, executable (Oracle `C15 expired`).
-/
namespace Expiry

structure Action where
  createdAt : Int            -- when the batch request was made (client clock)
  expiresAt : Option Int     -- `expires_at` (server clock), absent = none
  expiresInS : Int           -- `expires_in` in seconds, 0 = absent
deriving Repr

/-- TimeAtOrIn: the relative form is preferred — it does not depend on the server's clock -/
def expiration (a : Action) : Option Int :=
  if a.expiresInS = 0 then a.expiresAt else some (a.createdAt + a.expiresInS * 1000)

/-- IsExpiredAtOrIn with `until` = margin: expired when the expiration lies before now + margin -/
def expiredWithin (a : Action) (now margin : Int) : Bool :=
  match expiration a with
  | none => false
  | some e => decide (e < now + margin)

/-- ActionSet.Get hands the action out only when it is not expired within the margin -/
def usable (a : Action) (now margin : Int) : Bool := !expiredWithin a now margin

theorem usable_not_expired (a : Action) (now margin : Int) (hm : 0 ≤ margin) (h : usable a now margin = true) :
    ∀ e, expiration a = some e → now ≤ e := by
  intro e he
  simp only [usable, expiredWithin, he, Bool.not_eq_true', decide_eq_false_iff_not, Int.not_lt] at h
  omega

theorem usable_margin (a : Action) (now margin : Int) (h : usable a now margin = true) :
    ∀ e, expiration a = some e → now + margin ≤ e := by
  intro e he
  simp only [usable, expiredWithin, he, Bool.not_eq_true', decide_eq_false_iff_not, Int.not_lt] at h
  exact h

theorem expires_in_wins (a : Action) (h : a.expiresInS ≠ 0) :
    expiration a = some (a.createdAt + a.expiresInS * 1000) := by
  simp [expiration, h]

theorem no_expiry_always_usable (createdAt now margin : Int) :
    usable ⟨createdAt, none, 0⟩ now margin = true := by
  simp [usable, expiredWithin, expiration]

/-- once expired, expired at every later moment: waiting never revives an action -/
theorem expired_stays_expired (a : Action) (now now' margin : Int) (hle : now ≤ now')
    (h : expiredWithin a now margin = true) : expiredWithin a now' margin = true := by
  unfold expiredWithin at h ⊢
  cases he : expiration a with
  | none => rw [he] at h; cases h
  | some e =>
    rw [he] at h
    simp only [decide_eq_true_eq] at h ⊢
    omega

end Expiry
