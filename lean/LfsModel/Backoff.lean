/-
Probe: retryCounter.ReadyTime's delay arithmetic on uint64 (tq/transfer_queue.go l.68-82).
  maxDelayMs := 1000 * uint64(MaxRetryDelay)
  delay := uint64(250) * (1 << uint(count-1))      -- Go: shift ≥ 64 gives 0; product wraps mod 2^64
  if delay == 0 || delay > maxDelayMs { delay = maxDelayMs }
-/
namespace Backoff

def two64 : Nat := 2 ^ 64

/-- `1 << k` on uint64 -/
def shl1 (k : Nat) : Nat := if k < 64 then 2 ^ k else 0

/-- the delay in ms for retry number `count ≥ 1` -/
def delayMs (baseMs maxMs count : Nat) : Nat :=
  let d := (baseMs * shl1 (count - 1)) % two64
  if d = 0 ∨ d > maxMs then maxMs else d

/-- **C15.backoff_le_max** -/
theorem delay_le_max (b m c : Nat) : delayMs b m c ≤ m := by
  unfold delayMs
  simp only
  split
  · exact Nat.le_refl _
  · rename_i h
    simp only [not_or, Nat.not_lt] at h
    exact h.2

/-- **C15.backoff_exact_until_cap** -/
theorem delay_exact (b m c : Nat) (hc : 1 ≤ c) (hb : 0 < b) (hle : b * 2 ^ (c - 1) ≤ m) (hm : m < two64) :
    delayMs b m c = b * 2 ^ (c - 1) := by
  have hpos : 0 < b * 2 ^ (c - 1) := Nat.mul_pos hb (Nat.pow_pos (by decide))
  have hlt : b * 2 ^ (c - 1) < two64 := Nat.lt_of_le_of_lt hle hm
  have hk : c - 1 < 64 := by
    apply Nat.lt_of_not_le
    intro hge
    have : 2 ^ 64 ≤ 2 ^ (c - 1) := Nat.pow_le_pow_right (by decide) hge
    have : 2 ^ 64 ≤ b * 2 ^ (c - 1) := Nat.le_trans this (Nat.le_mul_of_pos_left _ hb)
    unfold two64 at hlt; omega
  unfold delayMs shl1
  simp only [hk, if_true, Nat.mod_eq_of_lt hlt]
  split
  · rename_i h; rcases h with h | h <;> omega
  · rfl

/-- **C15.backoff_capped_after**: once the true product exceeds the maximum, the (possibly wrapped)
uint64 product is 0 or still above the maximum, so the result is the maximum — provided the maximum
is below 2^57 ms and the base is 250. -/
theorem delay_capped (m c : Nat) (hc : 1 ≤ c) (hgt : m < 250 * 2 ^ (c - 1)) (hm : m < 2 ^ 57) :
    delayMs 250 m c = m := by
  unfold delayMs
  simp only
  split
  · rfl
  · rename_i h
    simp only [not_or, Nat.not_lt] at h
    exfalso
    obtain ⟨hne, hle⟩ := h
    unfold shl1 at hne hle
    by_cases hk : c - 1 < 64
    · simp only [hk, if_true] at hne hle
      by_cases hsmall : 250 * 2 ^ (c - 1) < two64
      · rw [Nat.mod_eq_of_lt hsmall] at hle; omega
      · -- wrapped: then c-1 ≥ 57, so 2^57 divides the product and the modulus, hence the remainder
        have hge : 57 ≤ c - 1 := by
          apply Nat.le_of_not_lt
          intro hlt
          have : 2 ^ (c - 1) ≤ 2 ^ 56 := Nat.pow_le_pow_right (by decide) (by omega)
          have : 250 * 2 ^ (c - 1) ≤ 250 * 2 ^ 56 := Nat.mul_le_mul_left _ this
          have h2 : 250 * 2 ^ 56 < two64 := by decide
          omega
        have hd1 : 2 ^ 57 ∣ 250 * 2 ^ (c - 1) :=
          Nat.dvd_trans (Nat.pow_dvd_pow 2 hge) (Nat.dvd_mul_left _ _)
        have hd2 : 2 ^ 57 ∣ two64 := Nat.pow_dvd_pow 2 (by decide)
        have hd : 2 ^ 57 ∣ (250 * 2 ^ (c - 1)) % two64 := (Nat.dvd_mod_iff hd2).mpr hd1
        have hpos : 0 < (250 * 2 ^ (c - 1)) % two64 := Nat.pos_of_ne_zero hne
        have := Nat.le_of_dvd hpos hd
        omega
    · simp [hk] at hne

#print axioms delay_capped
end Backoff
