import LfsModel.FilterProofs
import LfsModel.PtrRound4
/-
Round trip facts used by C08.no_pointer_to_pointer and C01: the pointer that clean emits is a
`Valid` pointer, so (C07.dec_enc) it decodes to itself.
-/
namespace Flt
open Lfs

theorem toDec_length_le : ∀ (k n : Nat), n < 10 ^ (k + 1) → (toDec n).length ≤ k + 1 := by
  intro k
  induction k with
  | zero =>
    intro n hn
    rw [toDec]; simp only [Nat.zero_add, Nat.pow_one] at hn
    simp [hn]
  | succ k ih =>
    intro n hn
    rw [toDec]
    by_cases h : n < 10
    · simp [h]
    · simp only [h, dite_false, List.length_append, List.length_singleton]
      have : n / 10 < 10 ^ (k + 1) := by
        rw [Nat.div_lt_iff_lt_mul (by decide)]
        calc n < 10 ^ (k + 1 + 1) := hn
          _ = 10 ^ (k + 1) * 10 := by rw [Nat.pow_succ]
      have := ih (n / 10) this
      omega

theorem toDec_length_int64 {n : Nat} (h : n ≤ maxInt64) : (toDec n).length ≤ 19 :=
  toDec_length_le 18 n (by unfold maxInt64 at h; omega)

/-- the pointer emitted by clean for non-empty content of a representable size -/
theorem emitted_valid {oid : Bytes} {n : Nat} (ho : isOid oid = true) (hn : n ≠ 0) (hle : n ≤ maxInt64) :
    Valid { oid := oid, size := n, exts := [] } := by
  refine ⟨ho, hn, hle, ?_, ?_, ?_⟩
  · intro e he; cases he
  · simp [StrictAsc]
  · have hl := toDec_length_int64 hle
    have ho' : oid.length = 64 := by
      simp only [isOid, Bool.and_eq_true, beq_iff_eq] at ho; exact ho.1
    simp only [enc, hn, if_false, List.map_nil, List.flatten_nil, List.length_append, List.length_cons,
      List.length_nil, kVersion, latest, kOid, sha256Colon, kSize, ho']
    show _ < 1024
    omega

theorem dec_emitted {oid : Bytes} {n : Nat} (ho : isOid oid = true) (hn : n ≠ 0) (hle : n ≤ maxInt64) :
    dec (enc { oid := oid, size := n, exts := [] }) = .ok ({ oid := oid, size := n, exts := [] }, true) :=
  Lfs.dec_enc (emitted_valid ho hn hle)

theorem enc_ne_nil {p : Ptr} (h : p.size ≠ 0) : enc p ≠ [] := by
  unfold enc; simp [h, kVersion]

end Flt
