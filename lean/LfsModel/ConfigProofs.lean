import LfsModel.Config
namespace Cfg

/-- what a stored key of an `OnlySafeKeys` source looks like -/
theorem decide_safe_store {safeKeys : List Bytes} {key : Bytes}
    (h : decide safeKeys true key = .store) : Documented safeKeys key := by
  unfold decide at h
  simp only at h
  split at h
  · simp only [if_true] at h; split at h <;> cases h
  · split at h
    · split at h <;> cases h
    · split at h
      · rename_i _ _ ha
        exact Or.inr (Or.inl ha)
      · split at h
        · cases h
        · rename_i hn
          left
          simpa using hn

theorem decide_safe_storeRemote {safeKeys : List Bytes} {key n : Bytes}
    (h : decide safeKeys true key = .storeRemote n) : Documented safeKeys key := by
  unfold decide at h
  simp only at h
  split at h
  · simp only [if_true] at h; split at h <;> cases h
  · split at h
    · rename_i _ hr
      split at h
      · cases h
      · rename_i hn
        simp only [true_and, not_or, Nat.not_lt, Decidable.not_not] at hn
        exact Or.inr (Or.inr ⟨by omega, hr.2, hn.2⟩)
    · split at h
      · cases h
      · split at h <;> cases h

theorem decide_safe_no_ext {safeKeys : List Bytes} {key n : Bytes} :
    decide safeKeys true key ≠ .storeExt n := by
  unfold decide
  simp only
  split
  · simp only [if_true]; split <;> simp
  · split
    · split <;> simp
    · split
      · simp
      · split <;> simp

/-- one line of a safe source: the value map only grows by documented keys, the extension table
    does not change -/
theorem stepLine_safe (safeKeys : List Bytes) (st : State) (line : Bytes) :
    (stepLine safeKeys true st line).exts = st.exts ∧
    ∃ add : List (Bytes × Bytes), (stepLine safeKeys true st line).vals = st.vals ++ add ∧
      ∀ kv ∈ add, Documented safeKeys kv.1 := by
  unfold stepLine
  split
  · exact ⟨rfl, [], by simp, by simp⟩
  unfold stepKV
  generalize kvOf line = kv0
  obtain ⟨key, val⟩ := kv0
  simp only
  cases hd : decide safeKeys true key with
  | skip => exact ⟨rfl, [], by simp, by simp⟩
  | ignore => exact ⟨rfl, [], by simp, by simp⟩
  | store =>
    refine ⟨rfl, [(key, val)], rfl, ?_⟩
    intro kv hkv; simp at hkv; subst hkv; exact decide_safe_store hd
  | storeExt n => exact absurd hd decide_safe_no_ext
  | storeRemote n =>
    refine ⟨rfl, [(key, val)], rfl, ?_⟩
    intro kv hkv; simp at hkv; subst hkv; exact decide_safe_storeRemote hd

theorem foldl_safe (safeKeys : List Bytes) (lines : List Bytes) (st : State) :
    (lines.foldl (stepLine safeKeys true) st).exts = st.exts ∧
    ∃ add : List (Bytes × Bytes), (lines.foldl (stepLine safeKeys true) st).vals = st.vals ++ add ∧
      ∀ kv ∈ add, Documented safeKeys kv.1 := by
  induction lines generalizing st with
  | nil => exact ⟨rfl, [], by simp, by simp⟩
  | cons l ls ih =>
    simp only [List.foldl_cons]
    obtain ⟨he, add1, hv1, hd1⟩ := stepLine_safe safeKeys st l
    obtain ⟨he2, add2, hv2, hd2⟩ := ih (stepLine safeKeys true st l)
    refine ⟨by rw [he2, he], add1 ++ add2, by rw [hv2, hv1, List.append_assoc], ?_⟩
    intro kv hkv
    rcases List.mem_append.mp hkv with h | h
    · exact hd1 kv h
    · exact hd2 kv h

/-- any source only appends to the value list -/
theorem stepLine_vals_append (safeKeys : List Bytes) (os : Bool) (st : State) (line : Bytes) :
    ∃ add, (stepLine safeKeys os st line).vals = st.vals ++ add ∧
      ∀ st', (stepLine safeKeys os st' line).vals = st'.vals ++ add := by
  unfold stepLine
  split
  · exact ⟨[], by simp, by simp⟩
  unfold stepKV
  generalize kvOf line = kv0
  obtain ⟨key, val⟩ := kv0
  simp only
  cases decide safeKeys os key with
  | skip => exact ⟨[], by simp, by simp⟩
  | ignore => exact ⟨[], by simp, by simp⟩
  | store => exact ⟨[(key, val)], rfl, fun _ => rfl⟩
  | storeExt n => exact ⟨[(key, val)], rfl, fun _ => rfl⟩
  | storeRemote n => exact ⟨[(key, val)], rfl, fun _ => rfl⟩

theorem readSource_vals_append (safeKeys : List Bytes) (src : Source) (st : State) :
    ∃ add, (readSource safeKeys st src).vals = st.vals ++ add ∧
      ∀ st', (readSource safeKeys st' src).vals = st'.vals ++ add := by
  unfold readSource
  generalize src.lines = lines
  induction lines generalizing st with
  | nil => exact ⟨[], by simp, by simp⟩
  | cons l ls ih =>
    simp only [List.foldl_cons]
    obtain ⟨a1, h1, h1'⟩ := stepLine_vals_append safeKeys src.onlySafe st l
    obtain ⟨a2, h2, h2'⟩ := ih (stepLine safeKeys src.onlySafe st l)
    refine ⟨a1 ++ a2, by rw [h2, h1, List.append_assoc], ?_⟩
    intro st'
    rw [h2' (stepLine safeKeys src.onlySafe st' l), h1' st', List.append_assoc]

theorem getLast?_filter_append {α} (p : α → Bool) (a b : List α) (h : (b.filter p) ≠ []) :
    ((a ++ b).filter p).getLast? = (b.filter p).getLast? := by
  rw [List.filter_append, List.getLast?_append]
  cases hb : (b.filter p).getLast? with
  | none => exact absurd (List.getLast?_eq_none_iff.mp hb) h
  | some x => rfl

/-! ### the extension table depends on the trusted sources only -/

/-- the extension table after a line is a function of the table before it (no other field of the state matters) -/
theorem stepLine_exts_congr (safeKeys : List Bytes) (os : Bool) (st st' : State) (line : Bytes)
    (h : st.exts = st'.exts) :
    (stepLine safeKeys os st line).exts = (stepLine safeKeys os st' line).exts := by
  unfold stepLine
  split
  · exact h
  unfold stepKV
  cases decide safeKeys os (kvOf line).1 <;> simp [h]

theorem readSource_exts_congr (safeKeys : List Bytes) (src : Source) (st st' : State)
    (h : st.exts = st'.exts) :
    (readSource safeKeys st src).exts = (readSource safeKeys st' src).exts := by
  unfold readSource
  generalize src.lines = lines
  induction lines generalizing st st' with
  | nil => exact h
  | cons l ls ih =>
    simp only [List.foldl_cons]
    exact ih _ _ (stepLine_exts_congr safeKeys src.onlySafe st st' l h)

/-- Take every safe-only source (every `.lfsconfig` location) out of the run: the extension table is the same. -/
theorem exts_of_trusted_sources_only (safeKeys : List Bytes) (srcs : List Source) (st st' : State)
    (h : st.exts = st'.exts) :
    (srcs.foldl (readSource safeKeys) st).exts
      = ((srcs.filter fun s => !s.onlySafe).foldl (readSource safeKeys) st').exts := by
  induction srcs generalizing st st' with
  | nil => exact h
  | cons s ss ih =>
    simp only [List.foldl_cons, List.filter_cons]
    cases hs : s.onlySafe with
    | true =>
      simp only [Bool.not_true, Bool.false_eq_true, if_false]
      apply ih
      have : (readSource safeKeys st s).exts = st.exts := by
        unfold readSource; rw [hs]; exact (foldl_safe safeKeys s.lines st).1
      rw [this, h]
    | false =>
      simp only [Bool.not_false, if_true, List.foldl_cons]
      exact ih _ _ (readSource_exts_congr safeKeys s st st' h)

end Cfg
