import LfsModel.FilterProcess
import LfsModel.FilterProofs
namespace FP

/-! ### hex length header round trip -/
theorem hexVal_hexDigit : ∀ d : Fin 16, hexVal (hexDigit d.val) = some d.val := by decide

theorem parseHex4_hex4 (n : Nat) (h : n < 65536) : parseHex4 (hex4 n) = some n := by
  unfold hex4 parseHex4
  have h1 := hexVal_hexDigit ⟨n / 4096 % 16, Nat.mod_lt _ (by decide)⟩
  have h2 := hexVal_hexDigit ⟨n / 256 % 16, Nat.mod_lt _ (by decide)⟩
  have h3 := hexVal_hexDigit ⟨n / 16 % 16, Nat.mod_lt _ (by decide)⟩
  have h4 := hexVal_hexDigit ⟨n % 16, Nat.mod_lt _ (by decide)⟩
  simp only at h1 h2 h3 h4
  simp only [h1, h2, h3, h4, Option.bind_eq_bind, Option.bind_some, Option.pure_def]
  congr 1
  omega

theorem hex4_length (n : Nat) : (hex4 n).length = 4 := rfl

/-- a packet list is well-formed when every data packet is non-empty and at most `maxData` long -/
def WF (ps : List Pkt) : Prop := ∀ p ∈ ps, ∀ d, p = .data d → 0 < d.length ∧ d.length ≤ maxData

theorem encPkt_length (p : Pkt) : 4 ≤ (encPkt p).length := by
  cases p with
  | flush => simp [encPkt]
  | data d => simp [encPkt, hex4_length]

/-- **pkt_roundtrip**: what the writer frames, the reader recovers — for every well-formed packet list -/
theorem decode_encode : ∀ (ps : List Pkt) (fuel : Nat), WF ps → (encode ps).length ≤ fuel →
    decode fuel (encode ps) = some ps := by
  intro ps
  induction ps with
  | nil =>
    intro fuel _ _
    cases fuel <;> simp [decode, encode]
  | cons p ps ih =>
    intro fuel hwf hlen
    have hwf' : WF ps := fun q hq d hd => hwf q (List.mem_cons_of_mem _ hq) d hd
    have henc : encode (p :: ps) = encPkt p ++ encode ps := by simp [encode]
    have hp4 := encPkt_length p
    cases fuel with
    | zero => rw [henc, List.length_append] at hlen; omega
    | succ fuel =>
      have hrest : (encode ps).length ≤ fuel := by rw [henc, List.length_append] at hlen; omega
      rw [henc]
      cases p with
      | flush =>
        simp only [encPkt, decode]
        have : parseHex4 ([48, 48, 48, 48] : Bytes) = some 0 := by decide
        simp [this, ih fuel hwf' hrest]
      | data d =>
        obtain ⟨hpos, hmax⟩ := hwf (.data d) List.mem_cons_self d rfl
        have hn : d.length + 4 < 65536 := by unfold maxData at hmax; omega
        simp only [encPkt, decode]
        have hne : ((hex4 (d.length + 4) ++ d) ++ encode ps).isEmpty = false := by simp [hex4]
        have htake : ((hex4 (d.length + 4) ++ d) ++ encode ps).take 4 = hex4 (d.length + 4) := by simp [hex4]
        have hdrop : ((hex4 (d.length + 4) ++ d) ++ encode ps).drop 4 = d ++ encode ps := by simp [hex4]
        simp only [hne, Bool.false_eq_true, if_false, htake, parseHex4_hex4 _ hn, hdrop]
        have h0 : ¬ (d.length + 4 = 0) := by omega
        have h4 : ¬ (d.length + 4 < 4) := by omega
        have hl : ¬ ((d ++ encode ps).length < d.length + 4 - 4) := by simp
        simp only [h0, h4, hl, if_false, Nat.add_sub_cancel]
        simp [ih fuel hwf' hrest]

/-! ### the writer: content packets are bounded and carry exactly the content -/
theorem chunk_flatten (cap : Nat) : ∀ (fuel : Nat) (d : Bytes), 0 < cap → d.length < fuel →
    (chunk cap fuel d).flatten = d := by
  intro fuel
  induction fuel with
  | zero => intro d _ h; omega
  | succ fuel ih =>
    intro d hc hl
    unfold chunk
    by_cases he : d.isEmpty = true
    · have : d = [] := by simpa using he
      simp [this]
    · have he' : d.isEmpty = false := by simpa using he
      simp only [he', Bool.false_eq_true, if_false, List.flatten_cons]
      have hne : d ≠ [] := by intro h; simp [h] at he
      have hpos : 0 < d.length := List.length_pos_iff.mpr hne
      rw [ih (d.drop cap) hc (by rw [List.length_drop]; omega), List.take_append_drop]

theorem chunk_bounded (cap : Nat) : ∀ (fuel : Nat) (d : Bytes), 0 < cap →
    ∀ c ∈ chunk cap fuel d, 0 < c.length ∧ c.length ≤ cap := by
  intro fuel
  induction fuel with
  | zero => intro d _ c hc; simp [chunk] at hc
  | succ fuel ih =>
    intro d hcap c hc
    unfold chunk at hc
    by_cases he : d.isEmpty = true
    · simp [he] at hc
    · have he' : d.isEmpty = false := by simpa using he
      simp only [he', Bool.false_eq_true, if_false, List.mem_cons] at hc
      rcases hc with rfl | hc
      · have hne : d ≠ [] := by intro h; simp [h] at he
        have hpos : 0 < d.length := List.length_pos_iff.mpr hne
        simp only [List.length_take]
        omega
      · exact ih _ hcap c hc

/-- every answer the model renders is a well-formed packet list (status lines are short and non-empty) -/
theorem render_wf (cap : Nat) (hcap : 0 < cap) (hmax : cap ≤ maxData) (r : Resp) : WF (r.render cap) := by
  intro p hp d hd
  subst hd
  unfold Resp.render at hp
  have hst : ∀ s : Status, 0 < (statusLine s).length ∧ (statusLine s).length ≤ maxData := by
    intro s; cases s <;> decide
  simp only at hp
  cases hs : r.status with
  | success =>
    rw [hs] at hp
    simp only [List.mem_append, List.mem_cons, List.mem_singleton, List.not_mem_nil, or_false] at hp
    rcases hp with (((hp | hp) | hp) | hp) | hp
    · rcases hp with hp | hp
      · cases hp; exact hst .success
      · cases hp
    · simp only [contentPkts, List.mem_map] at hp
      obtain ⟨c, hc, hcd⟩ := hp
      cases hcd
      have := chunk_bounded cap _ r.content hcap d hc
      exact ⟨this.1, Nat.le_trans this.2 hmax⟩
    · cases hp
    · cases hf : r.final with
      | none => rw [hf] at hp; cases hp
      | some f => rw [hf] at hp; simp at hp; cases hp; exact hst f
    · cases hp
  | delayed =>
    rw [hs] at hp
    simp only [List.mem_cons, List.mem_singleton, List.not_mem_nil, or_false] at hp
    rcases hp with hp | hp
    · cases hp; exact hst .delayed
    · cases hp
  | error =>
    rw [hs] at hp
    simp only [List.mem_cons, List.mem_singleton, List.not_mem_nil, or_false] at hp
    rcases hp with hp | hp
    · cases hp; exact hst .error
    · cases hp

/-! ### the delay rounds -/
theorem announce_flatten : ∀ (ks : List Nat) (q : List String), (announce ks q).flatten = q := by
  intro ks
  induction ks with
  | nil => intro q; cases q <;> simp [announce]
  | cons k ks ih =>
    intro q
    cases q with
    | nil => simp [announce]
    | cons a as => simp [announce, ih]

theorem announce_last_empty : ∀ (ks : List Nat) (q : List String), (announce ks q).getLast? = some [] := by
  intro ks
  induction ks with
  | nil => intro q; cases q <;> simp [announce]
  | cons k ks ih =>
    intro q
    cases q with
    | nil => simp [announce]
    | cons a as =>
      simp only [announce]
      have := ih (as.drop k)
      cases h : announce ks (as.drop k) with
      | nil => rw [h] at this; simp at this
      | cons x xs => rw [h] at this; simp [List.getLast?_cons_cons, this]

/-- every round but the last announces something -/
theorem announce_nonempty_rounds : ∀ (ks : List Nat) (q : List String),
    ∀ r ∈ (announce ks q).dropLast, r ≠ [] := by
  intro ks
  induction ks with
  | nil => intro q; cases q <;> simp [announce]
  | cons k ks ih =>
    intro q
    cases q with
    | nil => simp [announce]
    | cons a as =>
      intro r hr
      simp only [announce] at hr
      have hne : announce ks (as.drop k) ≠ [] := by
        have := announce_last_empty ks (as.drop k)
        intro h; rw [h] at this; simp at this
      rw [List.dropLast_cons_of_ne_nil hne] at hr
      rcases List.mem_cons.mp hr with rfl | h
      · simp
      · exact ih _ r h

end FP
