import LfsModel.PtrRound3
namespace Lfs

/-- decodeKVData on the canonical encoding minus its final LF -/
theorem decodeKVData_enc {p : Ptr} (hv : Valid p) :
    ∃ kv, decodeKVData (unlines (initLines p) ++ sizeLine p) = .ok kv ∧
      kv.version = some latest ∧ kv.oid = some (sha256Colon ++ p.oid) ∧
      kv.size = some (toDec p.size) ∧ kv.exts = p.exts.map kvOf := by
  unfold decodeKVData
  have hm : matcher (unlines (initLines p) ++ sizeLine p) = true := by
    have : unlines (initLines p) ++ sizeLine p = verLine ++ ([10] ++ unlines (p.exts.map extLine ++ [oidLine p]) ++ sizeLine p) := by
      simp [initLines, unlines_cons]
    rw [this]; exact matcher_verLine _
  simp only [hm, if_true]
  -- the lines
  have hsz_nolf : (10 : UInt8) ∉ sizeLine p := by
    simp only [sizeLine, List.mem_append, not_or]
    exact ⟨⟨by decide, by decide⟩, not_mem_of_range (digits_range p.size) (Or.inl (by decide))⟩
  have hsz_ne : sizeLine p ≠ [] := by simp [sizeLine, kSize]
  have hlines : scanLines (unlines (initLines p) ++ sizeLine p) = initLines p ++ [sizeLine p] := by
    unfold scanLines
    rw [splitLF_unlines _ _ (lf_free_initLines hv) hsz_nolf hsz_ne]
    exact dropCR_lines hv
  rw [hlines]
  -- version line
  have hver : stepLine {} verLine = .ok { line := 1, version := some latest } := by
    have hs : splitAtSpace verLine = some (kVersion, latest) := by
      unfold verLine; rw [List.append_assoc]; exact splitAtSpace_key _ _ (by decide)
    have hne : verLine.isEmpty = false := by decide
    unfold stepLine
    simp [hne, hs, keyAt]
  simp only [initLines, List.cons_append, foldLines, hver]
  -- extension lines
  rw [List.append_assoc]
  rw [foldLines_exts _ p.exts [] { line := 1, version := some latest } rfl rfl
    (by simpa using hv.exts_ok) (by simpa using strictAsc_ne hv.asc)]
  simp only [List.nil_append]
  -- oid line
  have hoid : ∀ st : KV, st.line = 1 →
      stepLine st (oidLine p) = .ok { st with line := 2, oid := some (sha256Colon ++ p.oid) } := by
    intro st hl
    have hs : splitAtSpace (oidLine p) = some (kOid, sha256Colon ++ p.oid) := by
      unfold oidLine; rw [List.append_assoc]; exact splitAtSpace_key _ _ (by decide)
    have hne : (oidLine p).isEmpty = false := by simp [oidLine, kOid]
    unfold stepLine
    simp [hne, hs, hl, keyAt]
  have hsize : ∀ st : KV, st.line = 2 →
      stepLine st (sizeLine p) = .ok { st with line := 3, size := some (toDec p.size) } := by
    intro st hl
    have hs : splitAtSpace (sizeLine p) = some (kSize, toDec p.size) := by
      unfold sizeLine; rw [List.append_assoc]; exact splitAtSpace_key _ _ (by decide)
    have hne : (sizeLine p).isEmpty = false := by simp [sizeLine, kSize]
    unfold stepLine
    simp [hne, hs, hl, keyAt]
  simp only [List.cons_append, List.nil_append, foldLines]
  rw [hoid _ rfl]
  simp only
  rw [hsize _ rfl]
  exact ⟨_, rfl, rfl, rfl, rfl, rfl⟩

theorem decodeKV_enc {p : Ptr} (hv : Valid p) :
    decodeKV (unlines (initLines p) ++ sizeLine p) = .ok p := by
  obtain ⟨kv, hkv, h1, h2, h3, h4⟩ := decodeKVData_enc hv
  unfold decodeKV
  rw [hkv]
  simp only [h1, h2, h3, h4]
  have hne : latest.isEmpty = false := by decide
  have hal : v1Aliases.contains latest = true := by decide
  simp only [hne, hal, Option.bind, parseOid_enc hv.oid_ok, Option.getD,
    parseSize_toDec hv.size_le, parseExts_kvOf hv.exts_ok, prioNodup_of_asc hv.asc,
    sortByPrio_of_asc hv.asc]
  simp

/-- **C07.dec_enc** : decoding the canonical encoding of any valid pointer returns that pointer,
flagged canonical. -/
theorem dec_enc {p : Ptr} (hv : Valid p) : dec (enc p) = .ok (p, true) := by
  have henc := enc_eq p hv.size_pos
  unfold dec
  rw [if_neg (by have := hv.short; omega)]
  unfold decodeBuf
  have hne : (enc p).isEmpty = false := by rw [henc]; simp
  simp only [hne]
  -- trimSpace
  obtain ⟨ys, d, hyd, hd⟩ := toDec_last p.size
  have hd' := digit_toNat hd
  have hshape : enc p = 118 :: ((verLine.drop 1) ++ [10] ++ unlines (p.exts.map extLine ++ [oidLine p]) ++ kSize ++ [32] ++ ys) ++ [d, 10] := by
    rw [henc]
    simp only [initLines, unlines_cons, sizeLine, hyd]
    have : verLine = 118 :: verLine.drop 1 := by decide
    rw [this]
    simp [List.append_assoc]
  have htrim : trimSpace (enc p) = unlines (initLines p) ++ sizeLine p := by
    rw [hshape, trimSpace_shape 118 d _ (by decide) (by decide) (by omega) (by omega)]
    simp only [initLines, unlines_cons, sizeLine, hyd]
    have : verLine = 118 :: verLine.drop 1 := by decide
    conv => rhs; rw [this]
    simp [List.append_assoc]
  rw [htrim, decodeKV_enc hv]
  simp

/-- the empty pointer round-trips too (`enc` maps it to the empty file) -/
theorem dec_enc_empty : dec (enc emptyPtr) = .ok (emptyPtr, true) := by
  simp [enc, emptyPtr, dec, decodeBuf, cut]

/-- non-vacuity: a concrete valid pointer with one extension -/
def sampleOid : Bytes := List.replicate 64 97
def samplePtr : Ptr := { oid := sampleOid, size := 12345, exts := [{ name := [102,111,111], prio := 3, oid := sampleOid }] }
set_option maxRecDepth 10000 in
theorem sample_valid : Valid samplePtr := by
  unfold samplePtr
  refine ⟨by decide, by decide, by decide, ?_, ?_, ?_⟩
  · intro e he
    simp at he; subst he
    exact ⟨by decide, by decide, ⟨102, [111,111], rfl, by decide⟩, by decide, by decide⟩
  · simp [StrictAsc]
  · have h5 : toDec 12345 = [49,50,51,52,53] := by
      rw [toDec]; simp only [show ¬ (12345 < 10) by decide, dite_false]
      rw [toDec]; simp only [show ¬ (12345 / 10 < 10) by decide, dite_false]
      rw [toDec]; simp only [show ¬ (12345 / 10 / 10 < 10) by decide, dite_false]
      rw [toDec]; simp only [show ¬ (12345 / 10 / 10 / 10 < 10) by decide, dite_false]
      rw [toDec]; simp only [show (12345 / 10 / 10 / 10 / 10 < 10) by decide, dite_true]
      decide
    have h3 : toDec 3 = [51] := by rw [toDec]; simp
    simp only [enc, List.map, encExt, h5, h3]
    decide

#print axioms dec_enc
end Lfs

namespace Lfs
/-- **C07.enc_injective** (uniqueness of the canonical form) is a corollary of the round trip. -/
theorem enc_injective {p q : Ptr} (hp : Valid p) (hq : Valid q) (h : enc p = enc q) : p = q := by
  have h1 := dec_enc hp
  have h2 := dec_enc hq
  rw [h] at h1
  rw [h1] at h2
  injection h2 with h2
  injection h2
#print axioms enc_injective
end Lfs
