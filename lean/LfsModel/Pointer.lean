/-
Probe: executable model of lfs/pointer.go (DecodeFrom / decodeKV / decodeKVData / Encoded).
Core-only.  Bytes are `List UInt8`; string literals are spelled as byte lists (the extractor will
emit them into Gen/ in the real project).
-/
namespace Lfs

abbrev Bytes := List UInt8

/-! ### literals (Gen in the real project) -/
def kVersion : Bytes := [118, 101, 114, 115, 105, 111, 110]
def kOid : Bytes := [111, 105, 100]
def kSize : Bytes := [115, 105, 122, 101]
def sha256Colon : Bytes := [115, 104, 97, 50, 53, 54, 58]
def extDash : Bytes := [101, 120, 116, 45]
def mGitMedia : Bytes := [103, 105, 116, 45, 109, 101, 100, 105, 97]
def mHawser : Bytes := [104, 97, 119, 115, 101, 114]
def mGitLfs : Bytes := [103, 105, 116, 45, 108, 102, 115]
def latest : Bytes := [104, 116, 116, 112, 115, 58, 47, 47, 103, 105, 116, 45, 108, 102, 115, 46, 103, 105, 116, 104, 117, 98, 46, 99, 111, 109, 47, 115, 112, 101, 99, 47, 118, 49]
def aliasAlpha : Bytes := [104, 116, 116, 112, 58, 47, 47, 103, 105, 116, 45, 109, 101, 100, 105, 97, 46, 105, 111, 47, 118, 47, 50]
def aliasHawser : Bytes := [104, 116, 116, 112, 115, 58, 47, 47, 104, 97, 119, 115, 101, 114, 46, 103, 105, 116, 104, 117, 98, 46, 99, 111, 109, 47, 115, 112, 101, 99, 47, 118, 49]
def v1Aliases : List Bytes := [aliasAlpha, aliasHawser, latest]
def cut : Nat := 1024
def maxInt64 : Nat := 9223372036854775807

/-! ### data -/
structure Ext where
  name : Bytes
  prio : Nat
  oid : Bytes
deriving DecidableEq, Repr

structure Ptr where
  oid : Bytes
  size : Nat
  exts : List Ext
deriving DecidableEq, Repr

inductive Err | notPtr | badKey | other
deriving DecidableEq, Repr

/-! ### small byte predicates -/
def isDigit (c : UInt8) : Bool := 48 ≤ c && c ≤ 57
def isLowerHex (c : UInt8) : Bool := isDigit c || (97 ≤ c && c ≤ 102)
def isWord (c : UInt8) : Bool := isDigit c || (65 ≤ c && c ≤ 90) || (97 ≤ c && c ≤ 122) || c == 95
def isAsciiSpace (c : UInt8) : Bool := c == 9 || c == 10 || c == 11 || c == 12 || c == 13 || c == 32

/-! ### bytes.TrimSpace (unicode.IsSpace on UTF-8) -/
/-- UTF-8 encodings of the non-ASCII runes with `unicode.IsSpace`. -/
def uniSpaces : List Bytes :=
  [[0xC2,0x85],[0xC2,0xA0],[0xE1,0x9A,0x80],
   [0xE2,0x80,0x80],[0xE2,0x80,0x81],[0xE2,0x80,0x82],[0xE2,0x80,0x83],[0xE2,0x80,0x84],
   [0xE2,0x80,0x85],[0xE2,0x80,0x86],[0xE2,0x80,0x87],[0xE2,0x80,0x88],[0xE2,0x80,0x89],
   [0xE2,0x80,0x8A],[0xE2,0x80,0xA8],[0xE2,0x80,0xA9],[0xE2,0x80,0xAF],[0xE2,0x81,0x9F],
   [0xE3,0x80,0x80]]

/-- width of the space rune at the head of `b` (0 = none), given the table `tbl` -/
def spaceWidth (tbl : List Bytes) (b : Bytes) : Nat :=
  match b with
  | [] => 0
  | c :: _ =>
    if isAsciiSpace c then 1
    else match tbl.find? (fun e => e.isPrefixOf b) with
      | some e => e.length
      | none => 0

def trimLeftWith (tbl : List Bytes) : Nat → Bytes → Bytes
  | 0, b => b
  | fuel+1, b =>
    let w := spaceWidth tbl b
    if w = 0 then b else trimLeftWith tbl fuel (b.drop w)

def trimLeft (b : Bytes) : Bytes := trimLeftWith uniSpaces b.length b
def trimRight (b : Bytes) : Bytes :=
  (trimLeftWith (uniSpaces.map List.reverse) b.length b.reverse).reverse
def trimSpace (b : Bytes) : Bytes := trimRight (trimLeft b)

/-! ### bufio.ScanLines -/
def splitLF : Bytes → Bytes → List Bytes
  | [], cur => if cur.isEmpty then [] else [cur.reverse]
  | c :: rest, cur => if c = 10 then cur.reverse :: splitLF rest [] else splitLF rest (c :: cur)

def dropCR (l : Bytes) : Bytes := if l.getLast? = some 13 then l.dropLast else l
def scanLines (d : Bytes) : List Bytes := (splitLF d []).map dropCR

/-! ### helpers -/
def isInfixOf (pat : Bytes) : Bytes → Bool
  | [] => pat.isEmpty
  | c :: rest => pat.isPrefixOf (c :: rest) || isInfixOf pat rest

def matcher (d : Bytes) : Bool := isInfixOf mGitMedia d || isInfixOf mHawser d || isInfixOf mGitLfs d

/-- strings.SplitN(text, " ", 2) when a blank exists -/
def splitAtSpace : Bytes → Option (Bytes × Bytes)
  | [] => none
  | c :: rest => if c = 32 then some ([], rest) else
      match splitAtSpace rest with
      | some (k, v) => some (c :: k, v)
      | none => none

/-- extRE = `\Aext-\d{1}-\w+` (a prefix match) -/
def isExtKey (k : Bytes) : Bool :=
  match k with
  | 101 :: 120 :: 116 :: 45 :: d :: 45 :: w :: _ => isDigit d && isWord w
  | _ => false

/-! ### strconv.ParseInt(v, 10, 64) followed by `size < 0` rejection -/
def parseDigits : Bytes → Nat → Option Nat
  | [], acc => some acc
  | c :: rest, acc => if isDigit c then parseDigits rest (acc * 10 + (c.toNat - 48)) else none

def parseSize (v : Bytes) : Option Nat :=
  match v with
  | [] => none
  | 43 :: ds => if ds.isEmpty then none else
      (parseDigits ds 0).bind fun n => if n ≤ maxInt64 then some n else none
  | 45 :: ds => if ds.isEmpty then none else
      (parseDigits ds 0).bind fun n => if n = 0 then some 0 else none
  | ds => (parseDigits ds 0).bind fun n => if n ≤ maxInt64 then some n else none

def toDec (n : Nat) : Bytes :=
  if h : n < 10 then [UInt8.ofNat (48 + n)] else toDec (n / 10) ++ [UInt8.ofNat (48 + n % 10)]
decreasing_by omega

/-! ### parseOid -/
def isOid (o : Bytes) : Bool := o.length == 64 && o.all isLowerHex
def parseOid (v : Bytes) : Option Bytes :=
  if sha256Colon.isPrefixOf v && isOid (v.drop 7) then some (v.drop 7) else none

/-! ### decodeKVData -/
structure KV where
  line : Nat := 0
  version : Option Bytes := none
  oid : Option Bytes := none
  size : Option Bytes := none
  exts : List (Bytes × Bytes) := []      -- Go map: later assignment to the same key wins

def keyAt : Nat → Bytes
  | 0 => kVersion
  | 1 => kOid
  | _ => kSize

def setExt (k v : Bytes) : List (Bytes × Bytes) → List (Bytes × Bytes)
  | [] => [(k, v)]
  | (k', v') :: rest => if k' = k then (k, v) :: rest else (k', v') :: setExt k v rest

def stepLine (st : KV) (text : Bytes) : Except Err KV :=
  if text.isEmpty then .ok st else
  match splitAtSpace text with
  | none => .error .notPtr
  | some (k, v) =>
    if 3 ≤ st.line then .error .notPtr
    else if k ≠ keyAt st.line then
      if isExtKey k then .ok { st with exts := setExt k v st.exts }
      else .error (if st.line = 0 then .notPtr else .badKey)
    else match st.line with
      | 0 => .ok { st with line := 1, version := some v }
      | 1 => .ok { st with line := 2, oid := some v }
      | _ => .ok { st with line := 3, size := some v }

def foldLines : KV → List Bytes → Except Err KV
  | st, [] => .ok st
  | st, l :: ls => match stepLine st l with
    | .ok st' => foldLines st' ls
    | .error e => .error e

def decodeKVData (d : Bytes) : Except Err KV :=
  if matcher d then foldLines {} (scanLines d) else .error .notPtr

/-! ### extensions -/
def parseExt (kv : Bytes × Bytes) : Option Ext :=
  -- key already matched extRE: "ext-" d "-" name
  match kv.1 with
  | _ :: _ :: _ :: _ :: d :: _ :: name =>
    match parseOid kv.2 with
    | some o => some { name := name, prio := d.toNat - 48, oid := o }
    | none => none
  | _ => none

def parseExts : List (Bytes × Bytes) → Option (List Ext)
  | [] => some []
  | kv :: rest => match parseExt kv, parseExts rest with
    | some e, some es => some (e :: es)
    | _, _ => none

def prioNodup : List Ext → Bool
  | [] => true
  | e :: es => es.all (fun f => f.prio != e.prio) && prioNodup es

def insertByPrio (e : Ext) : List Ext → List Ext
  | [] => [e]
  | f :: fs => if e.prio < f.prio then e :: f :: fs else f :: insertByPrio e fs
def sortByPrio : List Ext → List Ext
  | [] => []
  | e :: es => insertByPrio e (sortByPrio es)

/-! ### decodeKV -/
def decodeKV (d : Bytes) : Except Err Ptr :=
  match decodeKVData d with
  | .error e => .error e
  | .ok kv =>
    match kv.version with
    | none => .error .notPtr
    | some ver =>
      if ver.isEmpty then .error .notPtr
      else if !(v1Aliases.contains ver) then .error .other
      else match kv.oid.bind parseOid with
        | none => .error .other
        | some oid =>
          match (kv.size.getD []) |> parseSize with
          | none => .error .other
          | some size =>
            match parseExts kv.exts with
            | none => .error .other
            | some exts =>
              if prioNodup exts then .ok { oid := oid, size := size, exts := sortByPrio exts }
              else .error .other

/-! ### Pointer.Encoded -/
def encExt (e : Ext) : Bytes :=
  extDash ++ toDec e.prio ++ [45] ++ e.name ++ [32] ++ sha256Colon ++ e.oid ++ [10]

def enc (p : Ptr) : Bytes :=
  if p.size = 0 then [] else
    kVersion ++ [32] ++ latest ++ [10] ++ (p.exts.map encExt).flatten ++
    kOid ++ [32] ++ sha256Colon ++ p.oid ++ [10] ++ kSize ++ [32] ++ toDec p.size ++ [10]

def emptyOid : Bytes :=
  [101,51,98,48,99,52,52,50,57,56,102,99,49,99,49,52,57,97,102,98,102,52,99,56,57,57,54,102,98,57,50,52,
   50,55,97,101,52,49,101,52,54,52,57,98,57,51,52,99,97,52,57,53,57,57,49,98,55,56,53,50,98,56,53,53]
def emptyPtr : Ptr := { oid := emptyOid, size := 0, exts := [] }

/-! ### DecodeFrom on the bytes of the first read, and DecodePointer on a whole byte string -/
def decodeBuf (buf : Bytes) : Except Err (Ptr × Bool) :=
  if buf.isEmpty then .ok (emptyPtr, true) else
  match decodeKV (trimSpace buf) with
  | .error e => .error e
  | .ok p => .ok (p, enc p == buf)

/-- `lfs.DecodePointer` on a whole byte string (after the D1/D16 repairs: the window is read in
full, and a stream of `cut` bytes or more is never a pointer). -/
def dec (b : Bytes) : Except Err (Ptr × Bool) :=
  if cut ≤ b.length then .error .notPtr else decodeBuf b

end Lfs
