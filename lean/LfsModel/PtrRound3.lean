import LfsModel.PtrRound2
import LfsModel.PtrSound
namespace Lfs

/-! ### validity -/
structure ValidExt (e : Ext) : Prop where
  prio_lt : e.prio < 10
  oid_ok : isOid e.oid = true
  name_head : ∃ w rest, e.name = w :: rest ∧ isWord w = true
  name_nosp : (32 : UInt8) ∉ e.name
  name_nolf : (10 : UInt8) ∉ e.name

structure Valid (p : Ptr) : Prop where
  oid_ok : isOid p.oid = true
  size_pos : p.size ≠ 0
  size_le : p.size ≤ maxInt64
  exts_ok : ∀ e ∈ p.exts, ValidExt e
  asc : StrictAsc p.exts
  short : (enc p).length < cut

/-! ### byte-class facts -/
theorem hex_toNat {c : UInt8} (h : isLowerHex c = true) : 48 ≤ c.toNat ∧ c.toNat ≤ 102 := by
  simp only [isLowerHex, isDigit, Bool.or_eq_true, Bool.and_eq_true, decide_eq_true_eq,
    UInt8.le_iff_toNat_le] at h
  rcases h with h | h
  · have h1 := h.1; have h2 := h.2; simp at h1 h2; omega
  · have h1 := h.1; have h2 := h.2; simp at h1 h2; omega

theorem isOid_spec {o : Bytes} (h : isOid o = true) : o.length = 64 ∧ ∀ c ∈ o, isLowerHex c = true := by
  simp only [isOid, Bool.and_eq_true, beq_iff_eq, List.all_eq_true] at h
  exact h

theorem not_mem_of_range {l : Bytes} {x : UInt8} {lo hi : Nat}
    (h : ∀ c ∈ l, lo ≤ c.toNat ∧ c.toNat ≤ hi) (hx : x.toNat < lo ∨ hi < x.toNat) : x ∉ l := by
  intro hm
  have := h x hm
  omega

theorem oid_range {o : Bytes} (h : isOid o = true) : ∀ c ∈ o, 48 ≤ c.toNat ∧ c.toNat ≤ 102 :=
  fun c hc => hex_toNat ((isOid_spec h).2 c hc)

theorem oid_last {o : Bytes} (h : isOid o = true) : ∃ ys d, o = ys ++ [d] ∧ 48 ≤ d.toNat ∧ d.toNat ≤ 102 := by
  have hl := (isOid_spec h).1
  have hne : o ≠ [] := by intro e; rw [e] at hl; simp at hl
  refine ⟨o.dropLast, o.getLast hne, (List.dropLast_concat_getLast hne).symm, ?_⟩
  exact oid_range h _ (List.getLast_mem hne)

theorem digits_range (n : Nat) : ∀ c ∈ toDec n, 48 ≤ c.toNat ∧ c.toNat ≤ 57 :=
  fun c hc => digit_toNat (toDec_all_digits n c hc)

theorem toDec_small {k : Nat} (h : k < 10) : toDec k = [UInt8.ofNat (48 + k)] := by
  unfold toDec; simp [h]

/-! ### pieces of decodeKVData -/
theorem splitAtSpace_key (k v : Bytes) (h : (32 : UInt8) ∉ k) : splitAtSpace (k ++ 32 :: v) = some (k, v) := by
  induction k with
  | nil => simp [splitAtSpace]
  | cons c cs ih =>
    have hc : c ≠ 32 := fun e => h (e ▸ List.mem_cons_self)
    have := ih (fun m => h (List.mem_cons_of_mem _ m))
    simp [splitAtSpace, hc, this]

theorem dropCR_concat (xs : Bytes) (d : UInt8) (h : d ≠ 13) : dropCR (xs ++ [d]) = xs ++ [d] := by
  unfold dropCR
  simp [h]

theorem isPrefixOf_append (pat a b : Bytes) (h : pat.isPrefixOf a = true) : pat.isPrefixOf (a ++ b) = true := by
  induction pat generalizing a with
  | nil => simp [List.isPrefixOf]
  | cons p ps ih =>
    cases a with
    | nil => simp [List.isPrefixOf] at h
    | cons x xs =>
      simp only [List.isPrefixOf, List.cons_append, Bool.and_eq_true] at h ⊢
      exact ⟨h.1, ih xs h.2⟩

theorem isInfixOf_append (pat a b : Bytes) (h : isInfixOf pat a = true) : isInfixOf pat (a ++ b) = true := by
  induction a with
  | nil =>
    simp only [isInfixOf, List.isEmpty_iff] at h
    subst h
    cases b <;> simp [isInfixOf, List.isPrefixOf]
  | cons x xs ih =>
    simp only [isInfixOf, List.cons_append, Bool.or_eq_true] at h ⊢
    rcases h with h | h
    · exact Or.inl (isPrefixOf_append pat (x :: xs) b h)
    · exact Or.inr (ih h)

theorem matcher_verLine (rest : Bytes) : matcher (verLine ++ rest) = true := by
  unfold matcher
  have : isInfixOf mGitLfs verLine = true := by decide
  simp [isInfixOf_append _ _ rest this]

/-! ### the fold over the lines of a canonical encoding -/
def kvOf (e : Ext) : Bytes × Bytes := (extKey e, extVal e)

theorem extKey_shape {e : Ext} (h : ValidExt e) :
    ∃ w rest, e.name = w :: rest ∧ isWord w = true ∧
      extKey e = 101 :: 120 :: 116 :: 45 :: UInt8.ofNat (48 + e.prio) :: 45 :: w :: rest := by
  obtain ⟨w, rest, hn, hw⟩ := h.name_head
  refine ⟨w, rest, hn, hw, ?_⟩
  simp [extKey, extDash, toDec_small h.prio_lt, hn]

theorem extKey_nosp {e : Ext} (h : ValidExt e) : (32 : UInt8) ∉ extKey e := by
  unfold extKey
  simp only [List.mem_append, not_or]
  refine ⟨⟨⟨by decide, ?_⟩, by decide⟩, h.name_nosp⟩
  exact not_mem_of_range (digits_range e.prio) (Or.inl (by decide))

theorem extKey_prio {e f : Ext} (he : ValidExt e) (hf : ValidExt f) (h : extKey e = extKey f) : e.prio = f.prio := by
  obtain ⟨_, _, _, _, h1⟩ := extKey_shape he
  obtain ⟨_, _, _, _, h2⟩ := extKey_shape hf
  rw [h1, h2] at h
  simp only [List.cons.injEq, true_and] at h
  have := congrArg UInt8.toNat h.1
  rw [ofNat_digit he.prio_lt, ofNat_digit hf.prio_lt] at this
  omega

theorem setExt_append (k v : Bytes) (l : List (Bytes × Bytes)) (h : ∀ x ∈ l, x.1 ≠ k) :
    setExt k v l = l ++ [(k, v)] := by
  induction l with
  | nil => rfl
  | cons x xs ih =>
    have hx : x.1 ≠ k := h x List.mem_cons_self
    obtain ⟨k', v'⟩ := x
    simp only [setExt]
    simp only at hx
    simp [hx, ih (fun y hy => h y (List.mem_cons_of_mem _ hy))]

theorem stepLine_ext (st : KV) (hl : st.line = 1) {e : Ext} (he : ValidExt e) :
    stepLine st (extLine e) = .ok { st with exts := setExt (extKey e) (extVal e) st.exts } := by
  obtain ⟨w, rest, hn, hw, hk⟩ := extKey_shape he
  have hne : (extLine e).isEmpty = false := by simp [extLine, hk]
  unfold stepLine
  simp only [hne]
  have hs : splitAtSpace (extLine e) = some (extKey e, extVal e) := by
    unfold extLine
    rw [List.append_assoc]
    exact splitAtSpace_key _ _ (extKey_nosp he)
  rw [hs]
  have hkey : extKey e ≠ keyAt st.line := by
    rw [hl, hk]; simp [keyAt, kOid]
  have hext : isExtKey (extKey e) = true := by
    rw [hk]; simp only [isExtKey, isDigit_ofNat he.prio_lt, hw, Bool.and_self]
  simp [hl, hkey, hext]
  intro h; rw [hl] at hkey; exact absurd h hkey

theorem foldLines_exts (rest : List Bytes) : ∀ (es acc : List Ext) (st : KV), st.line = 1 →
    st.exts = acc.map kvOf → (∀ e ∈ acc ++ es, ValidExt e) →
    (acc ++ es).Pairwise (fun a b => a.prio ≠ b.prio) →
    foldLines st (es.map extLine ++ rest) = foldLines { st with exts := (acc ++ es).map kvOf } rest := by
  intro es
  induction es with
  | nil =>
    intro acc st _ hx _ _
    simp only [List.map_nil, List.nil_append, List.append_nil]
    rw [← hx]
  | cons e es ih =>
    intro acc st hl hx hv hp
    have he : ValidExt e := hv e (by simp)
    simp only [List.map_cons, List.cons_append, foldLines]
    rw [stepLine_ext st hl he]
    simp only
    have hfresh : ∀ x ∈ st.exts, x.1 ≠ extKey e := by
      intro x hxm
      rw [hx] at hxm
      obtain ⟨f, hf, rfl⟩ := List.mem_map.mp hxm
      intro heq
      have hpf := extKey_prio (hv f (by simp [hf])) he heq
      have := List.pairwise_append.mp hp
      exact this.2.2 f hf e List.mem_cons_self hpf
    rw [setExt_append _ _ _ hfresh]
    have := ih (acc ++ [e]) { st with exts := st.exts ++ [(extKey e, extVal e)] } hl
      (by simp [hx, kvOf]) (by simpa using hv) (by simpa using hp)
    simpa using this

theorem strictAsc_ne {es : List Ext} (h : StrictAsc es) : es.Pairwise (fun a b => a.prio ≠ b.prio) :=
  List.Pairwise.imp (fun hlt => Nat.ne_of_lt hlt) h

theorem lf_free_initLines {p : Ptr} (hv : Valid p) : ∀ l ∈ initLines p, (10 : UInt8) ∉ l := by
  intro l hl
  simp only [initLines, List.mem_cons, List.mem_append, List.mem_map, List.mem_singleton,
    List.not_mem_nil, or_false] at hl
  rcases hl with rfl | ⟨e, he, rfl⟩ | rfl
  · decide
  · have hve := hv.exts_ok e he
    simp only [extLine, extKey, extVal, List.mem_append, not_or]
    refine ⟨⟨⟨⟨⟨by decide, ?_⟩, by decide⟩, hve.name_nolf⟩, by decide⟩, by decide, ?_⟩
    · exact not_mem_of_range (digits_range e.prio) (Or.inl (by decide))
    · exact not_mem_of_range (oid_range hve.oid_ok) (Or.inl (by decide))
  · simp only [oidLine, List.mem_append, not_or]
    exact ⟨⟨by decide, by decide⟩, by decide, not_mem_of_range (oid_range hv.oid_ok) (Or.inl (by decide))⟩

theorem dropCR_oidEnd (pre : Bytes) {o : Bytes} (h : isOid o = true) : dropCR (pre ++ o) = pre ++ o := by
  obtain ⟨ys, d, rfl, hd1, _⟩ := oid_last h
  rw [← List.append_assoc]
  exact dropCR_concat _ d (ne_of_toNat_ne (by simp; omega))

theorem dropCR_lines {p : Ptr} (hv : Valid p) :
    (initLines p ++ [sizeLine p]).map dropCR = initLines p ++ [sizeLine p] := by
  suffices h : ∀ l ∈ initLines p ++ [sizeLine p], dropCR l = l by
    calc (initLines p ++ [sizeLine p]).map dropCR = (initLines p ++ [sizeLine p]).map id :=
          List.map_congr_left h
      _ = _ := List.map_id _
  intro l hl
  simp only [initLines, List.cons_append, List.mem_cons, List.mem_append, List.mem_map,
    List.mem_singleton, List.not_mem_nil, or_false] at hl
  rcases hl with rfl | (⟨e, he, rfl⟩ | rfl) | rfl
  · decide
  · have hve := hv.exts_ok e he
    have : extLine e = (extKey e ++ [32] ++ sha256Colon) ++ e.oid := by simp [extLine, extVal]
    rw [this]; exact dropCR_oidEnd _ hve.oid_ok
  · have : oidLine p = (kOid ++ [32] ++ sha256Colon) ++ p.oid := by simp [oidLine]
    rw [this]; exact dropCR_oidEnd _ hv.oid_ok
  · obtain ⟨ys, d, hyd, hd⟩ := toDec_last p.size
    have : sizeLine p = (kSize ++ [32] ++ ys) ++ [d] := by simp [sizeLine, hyd]
    rw [this]
    exact dropCR_concat _ d (ne_of_toNat_ne (by have := digit_toNat hd; simp; omega))

theorem parseOid_enc {o : Bytes} (h : isOid o = true) : parseOid (sha256Colon ++ o) = some o := by
  unfold parseOid
  have h1 : sha256Colon.isPrefixOf (sha256Colon ++ o) = true := isPrefixOf_append _ _ _ (by decide)
  have h2 : (sha256Colon ++ o).drop 7 = o := by simp [sha256Colon]
  simp [h1, h2, h]

theorem parseExt_kvOf {e : Ext} (he : ValidExt e) : parseExt (kvOf e) = some e := by
  obtain ⟨w, rest, hn, hw, hk⟩ := extKey_shape he
  unfold parseExt kvOf
  simp only [hk, extVal, parseOid_enc he.oid_ok, ofNat_digit he.prio_lt]
  cases e
  simp at hn ⊢
  exact hn.symm

theorem parseExts_kvOf : ∀ {es : List Ext}, (∀ e ∈ es, ValidExt e) → parseExts (es.map kvOf) = some es := by
  intro es
  induction es with
  | nil => intro _; rfl
  | cons e es ih =>
    intro h
    simp only [List.map_cons, parseExts, parseExt_kvOf (h e List.mem_cons_self),
      ih (fun x hx => h x (List.mem_cons_of_mem _ hx))]

theorem prioNodup_of_asc : ∀ {es : List Ext}, StrictAsc es → prioNodup es = true := by
  intro es
  induction es with
  | nil => intro _; rfl
  | cons e es ih =>
    intro h
    have h' := List.pairwise_cons.mp h
    simp only [prioNodup, Bool.and_eq_true, List.all_eq_true]
    refine ⟨?_, ih h'.2⟩
    intro f hf
    have := h'.1 f hf
    simp; omega

theorem sortByPrio_of_asc : ∀ {es : List Ext}, StrictAsc es → sortByPrio es = es := by
  intro es
  induction es with
  | nil => intro _; rfl
  | cons e es ih =>
    intro h
    have h' := List.pairwise_cons.mp h
    simp only [sortByPrio, ih h'.2]
    cases es with
    | nil => rfl
    | cons f fs => simp [insertByPrio, h'.1 f List.mem_cons_self]

end Lfs
