import LfsModel.Pointer
namespace Lfs

/-! ### UInt8 facts -/
theorem digit_toNat {c : UInt8} (h : isDigit c = true) : 48 ≤ c.toNat ∧ c.toNat ≤ 57 := by
  simp only [isDigit, Bool.and_eq_true, decide_eq_true_eq, UInt8.le_iff_toNat_le] at h
  exact h

theorem ne_of_toNat_ne {c d : UInt8} (h : c.toNat ≠ d.toNat) : c ≠ d := fun e => h (e ▸ rfl)

theorem notSpace_of_toNat {c : UInt8} (h : 33 ≤ c.toNat) : isAsciiSpace c = false := by
  simp only [isAsciiSpace, Bool.or_eq_false_iff, beq_eq_false_iff_ne, ne_eq]
  refine ⟨⟨⟨⟨⟨?_, ?_⟩, ?_⟩, ?_⟩, ?_⟩, ?_⟩ <;> apply ne_of_toNat_ne <;> simp <;> omega

theorem ofNat_digit {k : Nat} (hk : k < 10) : (UInt8.ofNat (48 + k)).toNat = 48 + k := by
  simp [UInt8.toNat_ofNat']; omega

theorem isDigit_ofNat {k : Nat} (hk : k < 10) : isDigit (UInt8.ofNat (48 + k)) = true := by
  simp only [isDigit, Bool.and_eq_true, decide_eq_true_eq, UInt8.le_iff_toNat_le, ofNat_digit hk]
  simp; omega

/-! ### decimal round trip -/
theorem parseDigits_append (xs ys : Bytes) (acc : Nat) :
    parseDigits (xs ++ ys) acc = (parseDigits xs acc).bind (fun a => parseDigits ys a) := by
  induction xs generalizing acc with
  | nil => simp [parseDigits]
  | cons c cs ih =>
    simp only [List.cons_append, parseDigits]
    split
    · exact ih _
    · rfl

theorem toDec_all_digits (n : Nat) : ∀ c ∈ toDec n, isDigit c = true := by
  induction n using Nat.strongRecOn with
  | _ n ih =>
    unfold toDec
    split
    · rename_i h
      intro c hc
      rw [List.mem_singleton.mp hc]; exact isDigit_ofNat h
    · rename_i h
      intro c hc
      rcases List.mem_append.mp hc with hc | hc
      · exact ih (n / 10) (by omega) c hc
      · rw [List.mem_singleton.mp hc]; exact isDigit_ofNat (Nat.mod_lt _ (by decide))

theorem toDec_last (n : Nat) : ∃ ys d, toDec n = ys ++ [d] ∧ isDigit d = true := by
  unfold toDec
  split
  · rename_i h; exact ⟨[], _, rfl, isDigit_ofNat h⟩
  · exact ⟨_, _, rfl, isDigit_ofNat (Nat.mod_lt _ (by decide))⟩

theorem toDec_ne_nil (n : Nat) : toDec n ≠ [] := by
  obtain ⟨ys, d, h, _⟩ := toDec_last n
  rw [h]; simp

theorem parseDigits_toDec (n : Nat) : parseDigits (toDec n) 0 = some n := by
  induction n using Nat.strongRecOn with
  | _ n ih =>
    unfold toDec
    split
    · rename_i h
      simp only [parseDigits, isDigit_ofNat h, if_true, ofNat_digit h]
      simp
    · rename_i h
      rw [parseDigits_append, ih (n / 10) (by omega)]
      have hm : n % 10 < 10 := Nat.mod_lt _ (by decide)
      simp only [Option.bind, parseDigits, isDigit_ofNat hm, if_true, ofNat_digit hm]
      congr 1; omega

theorem toDec_head (n : Nat) : ∃ c cs, toDec n = c :: cs ∧ isDigit c = true := by
  have hne := toDec_ne_nil n
  have hall := toDec_all_digits n
  cases h : toDec n with
  | nil => exact absurd h hne
  | cons c cs => exact ⟨c, cs, rfl, hall c (by rw [h]; exact List.mem_cons_self)⟩

theorem parseSize_toDec {n : Nat} (hn : n ≤ maxInt64) : parseSize (toDec n) = some n := by
  obtain ⟨c, cs, hcs, hd⟩ := toDec_head n
  have hpd := parseDigits_toDec n
  rw [hcs] at hpd
  have hc := digit_toNat hd
  have h43 : c ≠ 43 := ne_of_toNat_ne (by simp; omega)
  have h45 : c ≠ 45 := ne_of_toNat_ne (by simp; omega)
  rw [hcs]
  unfold parseSize
  split
  · rename_i heq; cases heq
  · rename_i heq; cases heq; exact absurd rfl h43
  · rename_i heq; cases heq; exact absurd rfl h45
  · rw [hpd]; simp [hn]

#print axioms parseSize_toDec
end Lfs
