import LfsModel.FilterModel
/-
Helper lemmas for C08 / C01: the stream-level filter equals the byte-level specification for
every chunking.
-/
namespace Flt
open LfsA LfsA.Stream

theorem dec_take (b : Bytes) : Lfs.dec (b.take cut) = Lfs.dec b := by
  by_cases h : b.length < cut
  · rw [List.take_of_length_le (by omega)]
  · have h1 : cut ≤ (b.take cut).length := by rw [List.length_take]; omega
    have h2 : cut ≤ b.length := by omega
    unfold Lfs.dec
    have e1 : (Lfs.cut ≤ (b.take cut).length) := h1
    have e2 : (Lfs.cut ≤ b.length) := h2
    simp [e1, e2]

theorem dec_ok_short {b : Bytes} {x} (h : Lfs.dec b = .ok x) : b.length < cut := by
  unfold Lfs.dec at h; split at h
  · cases h
  · show b.length < Lfs.cut; omega

theorem take_isEmpty (b : Bytes) : (b.take cut).isEmpty = b.isEmpty := by
  cases b with
  | nil => rfl
  | cons x xs => simp [cut, Lfs.cut]

/-- the decoded window and the rest, for every chunking -/
theorem decodeFrom_spec (s : Stream) :
    (decodeFrom s).1 = Lfs.dec s.data ∧ (decodeFrom s).2.1 = s.data.take cut ∧
    (decodeFrom s).2.2.data = s.data.drop cut := by
  have h := readFull_spec s cut
  unfold decodeFrom
  generalize s.readFull cut = r at h
  obtain ⟨buf, eof, s'⟩ := r
  simp only at h ⊢
  obtain ⟨h1, h2⟩ := h
  refine ⟨?_, h1, h2⟩
  rw [h1, dec_take]

theorem clean_eq_spec (H : Bytes → Bytes) (s : Stream) (st : Store) :
    clean H s st = cleanSpec H s.data st := by
  obtain ⟨h1, h2, h3⟩ := decodeFrom_spec s
  unfold clean
  generalize decodeFrom s = r at h1 h2 h3
  obtain ⟨v, buf, s'⟩ := r
  simp only at h1 h2 h3 ⊢
  unfold cleanSpec
  rw [h2, take_isEmpty]
  cases hb : s.data.isEmpty
  · simp only [Bool.false_eq_true, if_false]
    rw [h1]
    cases hd : Lfs.dec s.data with
    | ok x =>
      simp only
      have := dec_ok_short hd
      rw [List.take_of_length_le (by omega)]
    | error e =>
      simp only
      rw [h3, List.take_append_drop]
  · simp

theorem smudge_eq_spec (s : Stream) (st : Store) : smudge s st = smudgeSpec s.data st := by
  obtain ⟨h1, h2, h3⟩ := decodeFrom_spec s
  unfold smudge
  generalize decodeFrom s = r at h1 h2 h3
  obtain ⟨v, buf, s'⟩ := r
  simp only at h1 h2 h3 ⊢
  unfold smudgeSpec
  rw [h1]
  cases hd : Lfs.dec s.data with
  | ok x => rfl
  | error e => simp only; rw [h2, h3, List.take_append_drop]

end Flt
