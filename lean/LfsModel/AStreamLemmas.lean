import LfsModel.AStream
namespace LfsA
namespace Stream

theorem norm_flatten (cs : List Bytes) : (norm cs).flatten = cs.flatten := by
  induction cs with
  | nil => rfl
  | cons c cs ih =>
    cases c with
    | nil => simpa [norm] using ih
    | cons x xs => rfl

theorem norm_ne_nil_head (cs : List Bytes) : ∀ c rest, norm cs = c :: rest → c ≠ [] := by
  induction cs with
  | nil => intro c rest h; simp [norm] at h
  | cons d ds ih =>
    intro c rest h
    cases d with
    | nil => exact ih c rest (by simpa [norm] using h)
    | cons x xs =>
      simp [norm] at h
      rw [← h.1]; simp

/-- a read returns a prefix of the data and leaves the rest -/
theorem read_data (s : Stream) (n : Nat) :
    (s.read n).1 ++ (s.read n).2.2.data = s.data := by
  unfold read data
  split
  · rename_i h
    have := norm_flatten s.chunks
    rw [h] at this
    simp at this ⊢
    exact this
  · rename_i c cs h
    have hf := norm_flatten s.chunks
    rw [h] at hf
    split
    · simp [← hf]
    · simp [← hf, ← List.append_assoc, List.take_append_drop]

theorem read_len (s : Stream) (n : Nat) : (s.read n).1.length ≤ n := by
  unfold read
  split
  · simp
  · split
    · assumption
    · simp; omega

end Stream
end LfsA

namespace LfsA
namespace Stream

theorem norm_isEmpty_flatten (cs : List Bytes) (h : (norm cs).isEmpty = true) : cs.flatten = [] := by
  have := norm_flatten cs
  cases hn : norm cs with
  | nil => rw [hn] at this; simpa using this.symm
  | cons c r => rw [hn] at h; simp at h

theorem read_eof_rest (s : Stream) (n : Nat) (h : (s.read n).2.1 = true) : (s.read n).2.2.data = [] := by
  unfold read at h ⊢
  split
  · simp [data]
  · rename_i c cs hn
    split
    · rename_i hle
      simp [hn, hle] at h
      show cs.flatten = []
      exact norm_isEmpty_flatten cs (by simpa using h.1)
    · rename_i hle
      simp [hn, hle] at h

theorem read_empty_eof (s : Stream) (n : Nat) (hn : 0 < n) (h : (s.read n).1 = []) : (s.read n).2.1 = true := by
  unfold read at h ⊢
  split
  · rfl
  · rename_i c cs hc
    have hne := norm_ne_nil_head s.chunks c cs hc
    split
    · rename_i hle
      simp [hc, hle] at h
      exact absurd h hne
    · rename_i hle
      simp [hc, hle] at h
      rcases h with h | h
      · omega
      · exact absurd h hne

theorem readFullAux_spec : ∀ (fuel : Nat) (s : Stream) (n : Nat) (acc : Bytes), n < fuel →
    (readFullAux fuel s n acc).1 = acc ++ s.data.take n ∧
    (readFullAux fuel s n acc).2.2.data = s.data.drop n := by
  intro fuel
  induction fuel with
  | zero => intro s n acc h; omega
  | succ fuel ih =>
    intro s n acc hlt
    unfold readFullAux
    by_cases hn : n = 0
    · simp [hn]
    · simp only [hn, if_false]
      have hpos : 0 < n := Nat.pos_of_ne_zero hn
      have hd := read_data s n
      have hl := read_len s n
      generalize hr : s.read n = r at hd hl
      obtain ⟨b, eof, s'⟩ := r
      simp only at hd hl ⊢
      by_cases he : eof = true
      · have hrest := read_eof_rest s n (by rw [hr]; exact he)
        rw [hr] at hrest
        simp only at hrest
        simp only [he, if_true]
        rw [hrest, List.append_nil] at hd
        subst hd
        constructor
        · rw [List.take_of_length_le hl]
        · rw [hrest, List.drop_of_length_le hl]
      · simp only [he]
        by_cases hb : b.isEmpty = true
        · have : b = [] := by simpa using hb
          have := read_empty_eof s n hpos (by rw [hr]; exact this)
          rw [hr] at this
          exact absurd this he
        · simp only [hb]
          have hbl : 0 < b.length := by
            cases b with
            | nil => simp at hb
            | cons x xs => simp
          have := ih s' (n - b.length) (acc ++ b) (by omega)
          simp only [Bool.false_eq_true, if_false]
          rw [this.1, this.2]
          rw [← hd]
          constructor
          · rw [List.append_assoc]
            congr 1
            rw [List.take_append, List.take_of_length_le hl]
          · rw [List.drop_append, List.drop_of_length_le hl]
            simp

theorem readFull_spec (s : Stream) (n : Nat) :
    (s.readFull n).1 = s.data.take n ∧ (s.readFull n).2.2.data = s.data.drop n := by
  have := readFullAux_spec (s.chunks.length + n + 1) s n [] (by omega)
  simpa [readFull] using this

#print axioms readFull_spec
end Stream
end LfsA
