/-
C13 — `git lfs fsck` at set level (commands/command_fsck.go: fsckCommand, doFsckObjects,
doFsckPointers, fsckPointer).  Ids are natural numbers.
-/
namespace Fs

/-- state of the local object a checked pointer names -/
inductive ObjState where
  | intact            -- present, hashes to its name
  | corrupt           -- present, hashes to something else
  | missing           -- absent
  deriving DecidableEq, Repr

/-- one pointer of the checked revisions: (object id, size is zero, state of the local object) -/
structure Ref where
  oid : Nat
  sizeZero : Bool
  state : ObjState
  deriving Repr

/-- one path that the attributes say should be an LFS pointer -/
inductive Tracked where
  | canonical (id : Nat)
  | nonCanonical (id : Nat)     -- decodes, but is not the canonical text
  | notPointer (id : Nat)       -- raw content committed at a tracked path
  deriving Repr

structure Flags where
  objects : Bool
  pointers : Bool
  dryRun : Bool

/-- neither flag given = both checks -/
def Flags.norm (f : Flags) : Flags :=
  if !f.objects && !f.pointers then { f with objects := true, pointers := true } else f

/-- `fsckPointer`: is this reference fine? (an absent object of size zero is) -/
def refOk (r : Ref) : Bool :=
  match r.state with
  | .intact => true
  | .corrupt => false
  | .missing => r.sizeZero

def badRefs (refs : List Ref) : List Ref := refs.filter fun r => !refOk r

def trackedBad : Tracked → Bool
  | .canonical _ => false
  | _ => true

structure Outcome where
  exitOk : Bool
  reportedObjects : List Nat     -- ids named on `objects:` lines
  reportedPointers : List Nat    -- ids named on `pointer:` lines
  moved : List Nat               -- objects moved to lfs/bad
  deriving Repr

def trackedId : Tracked → Nat
  | .canonical i => i | .nonCanonical i => i | .notPointer i => i

def fsckWith (f : Flags) (bo : List Ref) (bp : List Tracked) : Outcome :=
  { exitOk := bo.isEmpty && bp.isEmpty
    reportedObjects := bo.map (·.oid)
    reportedPointers := bp.map trackedId
    -- corrupt objects are moved aside; a missing one has nothing to move
    moved := if (bo.isEmpty && bp.isEmpty) || f.dryRun then [] else (bo.filter fun r => r.state == .corrupt).map (·.oid) }

def fsck (f0 : Flags) (refs : List Ref) (tracked : List Tracked) : Outcome :=
  fsckWith f0.norm (if f0.norm.objects then badRefs refs else []) (if f0.norm.pointers then tracked.filter trackedBad else [])

end Fs
