import LfsModel.TQMeasure
namespace TQ

theorem countSt_zero_iff (s : State) (p : Status → Bool) :
    countSt s p = 0 ↔ ∀ o ∈ s.known, p (s.st o) = false := by
  unfold countSt
  rw [List.countP_eq_zero]
  constructor
  · intro h o ho; have := h o ho; simpa using this
  · intro h o ho; simp [h o ho]

/-- **C06.no_stuck_state**: once `Wait` has been called and has not returned, some event other than
`add` is enabled — the collector, a worker, the result handler or `Wait` itself can move. -/
theorem no_stuck_state (s : State) (h : Inv s) (hw : s.waitCalled = true) (hr : s.waitReturned = false)
    (hb : 1 ≤ s.batchSize) : ∃ e, (∀ o, e ≠ .add o) ∧ (step s e).isSome = true := by
  -- is there an object in q.incoming?
  by_cases h1 : ∃ o ∈ s.known, s.st o = .incoming
  · obtain ⟨o, _, ho⟩ := h1
    exact ⟨.collTake o, (by intro _ e; cases e), (by simp [step, ho])⟩
  by_cases h2 : ∃ o ∈ s.known, s.st o = .inBatch
  · obtain ⟨o, _, ho⟩ := h2
    exact ⟨.reply o .noAction, (by intro _ e; cases e), (by simp [step, ho])⟩
  by_cases h3 : ∃ o ∈ s.known, s.st o = .job
  · obtain ⟨o, _, ho⟩ := h3
    exact ⟨.jobResult o .ok, (by intro _ e; cases e), (by simp [step, ho])⟩
  have hnoBJ : countSt s (fun x => x == .inBatch || x == .job) = 0 := by
    rw [countSt_zero_iff]
    intro o ho
    have a : s.st o ≠ .inBatch := fun e => h2 ⟨o, ho, e⟩
    have b : s.st o ≠ .job := fun e => h3 ⟨o, ho, e⟩
    simp [a, b]
  by_cases h4 : ∃ o ∈ s.known, s.st o = .retryOut
  · obtain ⟨o, _, ho⟩ := h4
    exact ⟨.batchEnd o, (by intro _ e; cases e), (by simp [step, ho, hnoBJ])⟩
  by_cases h5 : ∃ o ∈ s.known, s.st o = .waiting
  · obtain ⟨o, hk, ho⟩ := h5
    have hnone : countSt s (fun x => x == .inBatch || x == .job || x == .retryOut) = 0 := by
      rw [countSt_zero_iff]
      intro x hx
      have a : s.st x ≠ .inBatch := fun e => h2 ⟨x, hx, e⟩
      have b : s.st x ≠ .job := fun e => h3 ⟨x, hx, e⟩
      have c : s.st x ≠ .retryOut := fun e => h4 ⟨x, hx, e⟩
      simp [a, b, c]
    refine ⟨.batchStart [o], (by intro _ e; cases e), ?_⟩
    simp only [step]
    have : ([o].length ≤ s.batchSize ∧ [o] ≠ [] ∧ [o].Nodup ∧ (∀ x ∈ [o], s.st x = .waiting) ∧
        countSt s (fun x => x == .inBatch || x == .job || x == .retryOut) = 0) :=
      ⟨by simpa using hb, by simp, by simp, by intro x hx; simp at hx; rw [hx]; exact ho, hnone⟩
    rw [if_pos this]; rfl
  -- nothing is live: the counter is zero (or the group was aborted), so Wait can return
  · have hlive : countSt s Status.live = 0 := by
      rw [countSt_zero_iff]
      intro o ho
      cases hst : s.st o with
      | unknown => rfl
      | term t => rfl
      | incoming => exact absurd ⟨o, ho, hst⟩ h1
      | waiting => exact absurd ⟨o, ho, hst⟩ h5
      | inBatch => exact absurd ⟨o, ho, hst⟩ h2
      | job => exact absurd ⟨o, ho, hst⟩ h3
      | retryOut => exact absurd ⟨o, ho, hst⟩ h4
    have hc : s.counter = 0 ∨ s.aborted = true := by
      by_cases ha : s.aborted = true
      · exact Or.inr ha
      · have := h.acc (by simpa using ha)
        rw [hlive] at this
        exact Or.inl (by simpa using this)
    refine ⟨.waitReturn, (by intro _ e; cases e), ?_⟩
    simp only [step]
    have : s.waitCalled = true ∧ ¬ s.waitReturned = true ∧ (s.counter = 0 ∨ s.aborted = true) :=
      ⟨hw, by simp [hr], hc⟩
    rw [if_pos this]; rfl

#print axioms no_stuck_state
end TQ
