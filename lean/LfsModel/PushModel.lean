import LfsModel.Push
/-
Executable model of the exclusion that `git lfs pre-push` / `git lfs push` hand to `git rev-list`
(lfs/gitscanner_remotes.go: calcSkippedRefs, git/rev_list_scanner.go: revListArgs in
ScanRangeToRemoteMode, commands/uploader.go: uploadForRefUpdates) and of what is uploaded.
Core-only.  Refs are (name, sha) pairs; shas are Nat.
-/
namespace PushM

abbrev Ref := String × Nat

/-- calcSkippedRefs: the cached remote-tracking refs whose NAME the remote still lists (whatever sha
the remote has for it now) -/
def calcSkipped (cached actual : List Ref) : List Nat :=
  (cached.filter fun c => actual.any fun a => a.1 == c.1).map (·.2)

/-- the commits excluded from the scan besides the remote shas Git passed on stdin: the verified
cached refs, or — when that list is empty — `--not --remotes=<remote>`: ALL cached refs -/
def excluded (cached actual : List Ref) : List Nat :=
  let sk := calcSkipped cached actual
  if sk.isEmpty then cached.map (·.2) else sk

/-- uploadForRefUpdates: the remote side of every update whose local sha differs -/
def updateExcludes (updates : List (Nat × Nat)) : List Nat :=
  (updates.filter fun u => u.1 != u.2).map (·.2)

/-- the client's cache is fresh when every cached ref is still on the remote at the cached sha -/
def Fresh (cached actual : List Ref) : Prop := ∀ c ∈ cached, c ∈ actual

/-- prepareUpload's per-pointer decision (commands/uploader.go): size-0 pointers and objects already
handled in this command are not enqueued -/
def enqueue (seen : List Nat) (oid size : Nat) : Bool := size != 0 && !(seen.contains oid)

end PushM
