// C16: file locks — others' locks block pushes, write bits and cache follow the server.
// Scenarios with the real binary against the fake lock server: sequences of lock / unlock (by path,
// by id, --force) / locks (--verify, --local, --cached) / edits / commits / checkouts / merges /
// pushes by the client under test ("alice") while another user ("bob") takes and releases locks on
// the server; server answers ok / 403 / 404 / 501 / 500 / paginated; locksverify true / false / unset;
// lfs.setlockablereadonly on / off.  The server's table is ground truth; the lock cache is read with
// `git lfs locks --local --json`; table and cache after every step are compared with the Lean model.
package main

import (
	"encoding/json"
	"fmt"
	"os"
	"path/filepath"
	"sort"
	"strings"
	"sync"
)

// directed: the scenario opens with three successful locks of the current user and a complete `locks --verify`
// against a server that answers in pages of one or two locks (regressing the saved seeds showed that the random
// sequences of the quick tier meet "several own locks + pagination + verification" for some seeds only).
func c16Scenario(c *Ctx, idx int, r *Rng, directed bool) (mline, mimpl, mcase string) {
	base := filepath.Join(c.Work, fmt.Sprintf("c16-%d", idx))
	defer os.RemoveAll(base)
	os.MkdirAll(base, 0o755)
	srv := newLfsServer()
	defer srv.srv.Close()
	srv.pageSize = Pick(r, []int{0, 0, 1, 2})
	if directed {
		srv.pageSize = 1 + r.Intn(2)
	}
	forcing := false
	remote := filepath.Join(base, "remote.git")
	runIn(base, nil, "git", "init", "-q", "--bare", remote)
	w, err := newScenRepo(c, filepath.Join(base, "w"), srv)
	if err != nil {
		c.R.Add(Finding{Kind: "diff", What: "scenario setup: " + err.Error(), Broken: "corr.C16.scenario"})
		return
	}
	for _, e := range w.env {
		if strings.HasPrefix(e, "GIT_CONFIG_GLOBAL=") {
			g := strings.TrimPrefix(e, "GIT_CONFIG_GLOBAL=")
			for k, v := range map[string]string{"filter.lfs.clean": "git-lfs clean -- %f", "filter.lfs.smudge": "git-lfs smudge -- %f", "filter.lfs.process": "git-lfs filter-process", "filter.lfs.required": "true"} {
				runIn(base, w.env, "git", "config", "--file", g, k, v)
			}
		}
	}
	w.git("remote", "add", "origin", remote)
	// Git's spellings of a boolean: true/yes/on/1 and false/no/off/0, in any case
	verify := Pick(r, []string{"true", "true", "unset", "false", "yes", "on", "True", "no"})
	gitTrue := func(v string) bool {
		switch strings.ToLower(v) {
		case "true", "yes", "on", "1":
			return true
		}
		return false
	}
	if verify != "unset" {
		w.git("config", "lfs."+srv.srv.URL+".locksverify", verify)
	}
	readonly := r.Chance(80)
	if !readonly {
		w.git("config", "lfs.setlockablereadonly", "false")
	}
	var steps []string
	log := func(f string, a ...interface{}) { steps = append(steps, fmt.Sprintf(f, a...)) }
	log("locksverify=%s setlockablereadonly=%v pagesize=%d", verify, readonly, srv.pageSize)
	w.write(".gitattributes", []byte("*.dat filter=lfs -text lockable\n*.bin filter=lfs -text\n*.txt lockable\n"))
	// a slash-less lockable pattern in the attributes file of a sub-directory applies at any depth below it (D80)
	w.write("nest/.gitattributes", []byte("*.cfg lockable\n"))
	lockables := []string{"a.dat", "b.dat", "dir/c.dat", "my file.dat", "t.txt", "nest/deep/k.cfg"}
	others := []string{"n.bin", "plain.md"}
	for _, f := range append(append([]string(nil), lockables...), others...) {
		w.write(f, r.Bytes(40))
	}
	w.git("add", "-A")
	w.git("commit", "-qm", "base")
	w.git("push", "-q", "--no-verify", "origin", "master")
	w.git("checkout", "-q", "-b", "side")
	w.write("side-only.dat", r.Bytes(30))
	w.git("add", "-A")
	w.git("commit", "-qm", "side")
	w.git("checkout", "-q", "master")
	pidx := map[string]int{}
	for i, f := range append(append([]string(nil), lockables...), "n.bin", "side-only.dat") {
		pidx[f] = i + 1
	}
	enc := func() string {
		return fmt.Sprintf("C16 scen seed=%d idx=%d steps=%s", c.Seed, idx, strings.Join(steps, " ; "))
	}
	fail := func(what, impl, sig string) {
		c.R.Add(Finding{Kind: "oracle", What: what, Case: clip(enc(), 2500), Impl: clip(impl, 500), Sig: sig})
	}
	table := func() map[string]string { // path -> owner
		srv.mu.Lock()
		defer srv.mu.Unlock()
		m := map[string]string{}
		for _, l := range srv.locks {
			m[l.Path] = l.Owner
		}
		return m
	}
	idOf := func(path string) string {
		srv.mu.Lock()
		defer srv.mu.Unlock()
		for _, l := range srv.locks {
			if l.Path == path {
				return l.ID
			}
		}
		return ""
	}
	cachePaths := func() []string {
		out, _ := w.runLfs("locks", "--local", "--json")
		var ls []struct {
			Path string `json:"path"`
		}
		json.Unmarshal([]byte(out), &ls)
		var p []string
		for _, l := range ls {
			p = append(p, l.Path)
		}
		sort.Strings(p)
		return p
	}
	writable := func(f string) (bool, bool) {
		fi, err := os.Stat(filepath.Join(w.dir, f))
		if err != nil {
			return false, false
		}
		return fi.Mode().Perm()&0o200 != 0, true
	}
	versions := map[string][][]byte{}
	modified := map[string]bool{}
	theirsSeen := map[string]bool{} // paths bob held at the time of a successful verification
	verifiedOnce := false           // a verification has run: the cache may hold bob's locks (D13)
	var mops, mobs []string
	observe := func() {
		t := table()
		var tp []string
		for p, o := range t {
			ow := "0"
			if o != "alice" {
				ow = "5"
			}
			tp = append(tp, fmt.Sprintf("%d/%s", pidx[p], ow))
		}
		sort.Strings(tp)
		var cp []string
		for _, p := range cachePaths() {
			cp = append(cp, fmt.Sprint(pidx[p]))
		}
		sort.Strings(cp)
		mobs = append(mobs, "t="+strings.Join(tp, ",")+" c="+strings.Join(cp, ","))
		// the property on the observation: own ⊆ cache; extras only bob's locks after a verification (D13)
		inCache := map[string]bool{}
		for _, p := range cachePaths() {
			inCache[p] = true
		}
		for p, o := range t {
			if o == "alice" && !inCache[p] {
				fail("a lock the server holds for the current user is missing from the local lock cache", p+" | cache="+strings.Join(cachePaths(), ","), "")
			}
		}
		for p := range inCache {
			if o, ok := t[p]; !ok {
				sig := ""
				if verifiedOnce && theirsSeen[p] {
					sig = "D13" // another user's lock cached by a verification, released since
				}
				fail("the local lock cache lists a lock the server no longer holds", p, sig)
			} else if o != "alice" {
				sig := ""
				if verifiedOnce {
					sig = "D13"
				}
				fail("the local lock cache (own locks) lists a lock held by another user", p+" owner="+o, sig)
			}
		}
	}
	srvMode := func() string {
		m := Pick(r, []string{"ok", "ok", "ok", "ok", "403", "404", "501", "500"})
		if forcing {
			m = "ok"
		}
		srv.mu.Lock()
		srv.lockMode = m
		srv.user = "alice"
		srv.mu.Unlock()
		return m
	}
	resetMode := func() {
		srv.mu.Lock()
		srv.lockMode = "ok"
		srv.mu.Unlock()
	}
	sv := func(m string) string {
		if m == "ok" {
			return "ok"
		}
		return "refuse"
	}
	b01 := func(b bool) string {
		if b {
			return "1"
		}
		return "0"
	}
	nops := 4 + r.Intn(12)
	committedSinceEdit := true
	_ = committedSinceEdit
	if directed && nops < 7 {
		nops = 7
	}
	for op := 0; op < nops; op++ {
		f := Pick(r, lockables)
		kind := r.Intn(15)
		forcing = directed && op < 4
		if forcing {
			kind = 0
			f = lockables[op%len(lockables)]
			if op == 3 {
				kind = 6
			}
		}
		switch kind {
		case 0, 1, 2: // lock
			mode := srvMode()
			out, code := w.runLfs("lock", f)
			resetMode()
			log("lock %q [%s] -> %d", f, mode, code)
			mops = append(mops, fmt.Sprintf("L:%d:%s", pidx[f], sv(mode)))
			observe()
			if code == 0 {
				if wr, ex := writable(f); ex && !wr {
					fail("after a successful `git lfs lock` the file is not writable", f, "")
				}
				if r.Chance(25) && table()[f] == "alice" && !modified[f] {
					// directed: the user's own lock, an unlock that the SERVER refuses (expired credentials, a proxy's
					// 403/404): nothing is released, so nothing may change locally either
					um := Pick(r, []string{"403", "404", "403", "500"})
					srv.mu.Lock()
					srv.user, srv.unlockMode = "alice", um
					srv.mu.Unlock()
					byId := r.Bool()
					args := []string{"unlock", f}
					if byId {
						args = []string{"unlock", "--id", idOf(f)}
					}
					_, ucode := w.runLfs(args...)
					srv.mu.Lock()
					reached := srv.unlockMode == ""
					srv.unlockMode = ""
					srv.mu.Unlock()
					if reached {
						log("%s [%s] -> %d", strings.Join(args, " "), um, ucode)
						if byId {
							var n int
							fmt.Sscan(strings.TrimLeft(idOf(f), "LB"), &n)
							mops = append(mops, fmt.Sprintf("I:%d:0:0:refuse", n))
						} else {
							mops = append(mops, fmt.Sprintf("U:%d:0:0:refuse", pidx[f]))
						}
						observe()
						c.R.Count("unlock.refused-by-server")
						found := false
						for _, cp := range cachePaths() {
							if cp == f {
								found = true
							}
						}
						if table()[f] == "alice" && !found {
							fail("the local lock cache no longer lists a lock the server still holds for the current user", f+" (the unlock request was refused with "+um+")", "")
						}
						if wr, ex := writable(f); ex && !wr && readonly {
							fail("a lockable file whose lock the current user holds is read-only", f+" (after a refused unlock)", "")
						}
					}
				}
				if r.Chance(45) {
					// directed: work on the locked file, then try to give the lock back without committing
					if fh, err := os.OpenFile(filepath.Join(w.dir, f), os.O_APPEND|os.O_WRONLY, 0); err == nil {
						fh.Write(r.Bytes(5))
						fh.Close()
						modified[f] = true
						if r.Chance(30) {
							w.git("add", f) // staged, not committed
						}
						log("edit %q", f)
						byId := r.Bool()
						id := idOf(f)
						args := []string{"unlock", f}
						if byId {
							args = []string{"unlock", "--id", id}
						}
						var ucode int
						if d := filepath.Dir(f); d != "." && r.Chance(70) {
							// from the file's own directory (by its name there / by id)
							a2 := args
							if !byId {
								a2 = []string{"unlock", filepath.Base(f)}
							}
							_, ucode = runIn(filepath.Join(w.dir, d), w.env, w.lfs, a2...)
							args = append([]string{"(cd " + d + ")"}, a2...)
							c.R.Count("unlock.from-subdirectory")
						} else {
							_, ucode = w.runLfs(args...)
						}
						log("%s (modified=true) -> %d", strings.Join(args, " "), ucode)
						if byId {
							var n int
							fmt.Sscan(strings.TrimLeft(id, "LB"), &n)
							mops = append(mops, fmt.Sprintf("I:%d:0:1:ok", n))
						} else {
							mops = append(mops, fmt.Sprintf("U:%d:0:1:ok", pidx[f]))
						}
						observe()
						if table()[f] != "alice" {
							fail("`git lfs unlock"+map[bool]string{true: " --id", false: ""}[byId]+"` without --force released the lock of a file with uncommitted changes", f, "")
						}
						c.R.Count("guarded-unlock")
					}
				}
			} else if table()[f] == "alice" && mode == "ok" && !strings.Contains(out, "already") {
				_ = out
			}
		case 14: // ONE command over several paths: some succeed, some are refused — the command exits 2
			var paths []string
			for _, pth := range lockables {
				if r.Chance(50) {
					paths = append(paths, pth)
				}
			}
			if len(paths) < 2 {
				continue
			}
			srv.mu.Lock()
			srv.lockMode, srv.user = "ok", "alice"
			srv.mu.Unlock()
			if r.Bool() {
				_, code := w.runLfs(append([]string{"lock"}, paths...)...)
				log("lock %q -> %d", paths, code)
				for k, pth := range paths {
					op := fmt.Sprintf("L:%d:ok", pidx[pth])
					if k < len(paths)-1 {
						op = "q" + op
					}
					mops = append(mops, op)
				}
				c.R.Count("multi-path.lock")
			} else {
				var held []string
				for _, pth := range paths {
					if !modified[pth] {
						held = append(held, pth)
					}
				}
				if len(held) < 2 {
					continue
				}
				_, code := w.runLfs(append([]string{"unlock"}, held...)...)
				log("unlock %q -> %d", held, code)
				for k, pth := range held {
					op := fmt.Sprintf("U:%d:0:0:ok", pidx[pth])
					if k < len(held)-1 {
						op = "q" + op
					}
					mops = append(mops, op)
				}
				c.R.Count("multi-path.unlock")
			}
			observe()
		case 3, 4: // unlock by path
			force := r.Chance(20)
			heldBefore := table()[f]
			mod := modified[f]
			args := []string{"unlock", f}
			if force {
				args = append(args, "--force")
			}
			umode := "ok"
			if r.Chance(25) {
				umode = Pick(r, []string{"403", "404", "500", "501"}) // the unlock request itself is refused: nothing is released
			}
			srv.mu.Lock()
			srv.user = "alice"
			srv.unlockMode = umode
			srv.mu.Unlock()
			var code int
			if d := filepath.Dir(f); d != "." && r.Chance(50) {
				// from the file's own directory, by its name there — as users do
				a2 := append([]string{"unlock", filepath.Base(f)}, args[2:]...)
				_, code = runIn(filepath.Join(w.dir, d), w.env, w.lfs, a2...)
				args = append([]string{"(cd " + d + ")"}, a2...)
				c.R.Count("unlock.from-subdirectory")
			} else {
				_, code = w.runLfs(args...)
			}
			srv.mu.Lock()
			reached := srv.unlockMode == "" // the one-shot refusal was consumed: the unlock request did reach the server
			srv.unlockMode = ""
			srv.mu.Unlock()
			if umode == "ok" || !reached {
				umode = "ok"
			}
			log("%s (modified=%v) [%s] -> %d", strings.Join(args, " "), mod, umode, code)
			mops = append(mops, fmt.Sprintf("U:%d:%s:%s:%s", pidx[f], b01(force), b01(mod), sv(umode)))
			observe()
			if umode != "ok" {
				c.R.Count("unlock.refused-by-server")
				if heldBefore == "alice" && table()[f] == "alice" {
					found := false
					for _, cp := range cachePaths() {
						if cp == f {
							found = true
						}
					}
					if !found {
						fail("the local lock cache no longer lists a lock the server still holds for the current user", f+" (the unlock request was refused with "+umode+")", "")
					}
				}
			}
			if mod && !force && heldBefore != "" && table()[f] != heldBefore {
				fail("`git lfs unlock` without --force released the lock of a file with uncommitted changes", f, "")
			}
			if heldBefore == "bob" && !force && table()[f] != "bob" {
				fail("`git lfs unlock` without --force released another user's lock", f, "")
			}
			if code == 0 && heldBefore == "alice" && readonly {
				if wr, ex := writable(f); ex && wr && table()[f] == "" {
					fail("after a successful unlock the lockable file is still writable", f, "")
				}
			}
		case 5: // unlock by id
			id := idOf(f)
			if id == "" {
				continue
			}
			force := r.Chance(20)
			heldBefore := table()[f]
			mod := modified[f]
			args := []string{"unlock", "--id", id}
			if force {
				args = append(args, "--force")
			}
			srv.mu.Lock()
			srv.user = "alice"
			srv.mu.Unlock()
			_, code := w.runLfs(args...)
			log("%s (%q modified=%v) -> %d", strings.Join(args, " "), f, mod, code)
			var n int
			fmt.Sscan(strings.TrimLeft(id, "LB"), &n)
			mops = append(mops, fmt.Sprintf("I:%d:%s:%s:ok", n, b01(force), b01(mod)))
			observe()
			if mod && !force && table()[f] != heldBefore {
				fail("`git lfs unlock --id` without --force released the lock of a file with uncommitted changes", f, "")
			}
		case 6: // listings
			args := Pick(r, [][]string{{"locks"}, {"locks", "--local"}, {"locks", "--cached"}, {"locks", "--path", f}, {"locks", "--verify"}, {"locks", "--verify"}, {"locks", "--verify", "--limit", fmt.Sprint(1 + r.Intn(3))}})
			nOwn := 0
			for _, o := range table() {
				if o == "alice" {
					nOwn++
				}
			}
			if forcing {
				args = []string{"locks", "--verify"} // directed: a complete, paginated listing while several own locks exist
				c.R.Count("verify.paged-with-several-own-locks")
			} else if nOwn >= 2 && r.Chance(50) {
				args = []string{"locks", "--verify", "--limit", "1"} // directed: a listing cut short while several own locks exist
			}
			mode := "ok"
			if len(args) > 1 && args[1] == "--verify" {
				mode = srvMode()
				if len(args) == 4 && nOwn >= 2 {
					mode = "ok"
					resetMode()
				}
			}
			if len(args) == 4 && mode == "ok" {
				// a listing cut short by the limit is not a complete listing: the cache must not be replaced by it
				var lim int
				fmt.Sscan(args[3], &lim)
				if lim <= len(table()) {
					mode = "limited"
				}
			}
			_, code := w.runLfs(args...)
			resetMode()
			log("%s [%s] -> %d", strings.Join(args, " "), mode, code)
			if len(args) > 1 && args[1] == "--verify" {
				mops = append(mops, "V:"+sv(mode))
				if mode == "ok" {
					verifiedOnce = true
					for p, o := range table() {
						if o != "alice" {
							theirsSeen[p] = true
						}
					}
				}
				observe()
			}
		case 7: // edit a file (only possible while it is writable)
			if wr, ex := writable(f); ex && wr {
				fh, err := os.OpenFile(filepath.Join(w.dir, f), os.O_APPEND|os.O_WRONLY, 0)
				if err == nil {
					fh.Write(r.Bytes(5))
					fh.Close()
					modified[f] = true
					log("edit %q", f)
				}
			}
		case 8: // commit everything (post-commit hook)
			w.git("add", "-A")
			if _, code := w.git("commit", "-qm", fmt.Sprintf("c%d", op)); code == 0 {
				for k := range modified {
					delete(modified, k)
				}
				log("commit")
			}
		case 9: // checkout the other branch and come back (post-checkout hook)
			if len(modified) == 0 && readonly && r.Chance(30) {
				// a user who ignores the protection edits a read-only lockable file, then throws the edit away with
				// `git checkout -f` (same commit before and after): Git re-creates the file writable, the hook runs
				if wr, ex := writable(f); ex && !wr && table()[f] != "alice" {
					os.Chmod(filepath.Join(w.dir, f), 0o644)
					if fh, err := os.OpenFile(filepath.Join(w.dir, f), os.O_APPEND|os.O_WRONLY, 0); err == nil {
						fh.Write([]byte("scratch"))
						fh.Close()
					}
					w.git("checkout", "-q", "-f")
					log("chmod +w, edit %q, checkout -f", f)
					c.R.Count("checkout.force-same-commit")
					if wr2, ex2 := writable(f); ex2 && wr2 {
						sig := ""
						if verifiedOnce && (table()[f] == "bob" || theirsSeen[f]) && strings.Contains("\n"+strings.Join(cachePaths(), "\n")+"\n", "\n"+f+"\n") {
							sig = "D13" // another user's lock, cached as an own one by a verification
						}
						fail("a lockable file is writable after the checkout hook although the current user does not hold its lock", f+" (restored by `git checkout -f`)", sig)
					}
					continue
				}
			}
			if len(modified) == 0 {
				w.git("checkout", "-q", "side")
				w.git("checkout", "-q", "master")
				log("checkout side ; checkout master")
			}
			if len(modified) == 0 && r.Chance(45) {
				// a merge that changes a lockable file nobody here holds the lock of: Git re-creates the file
				// writable, the post-merge hook — whatever kind of merge it was — protects it again
				var cand []string
				for _, l := range lockables {
					if _, ex := writable(l); ex && table()[l] != "alice" {
						cand = append(cand, l)
					}
				}
				if len(cand) > 0 {
					g := Pick(r, cand)
					head := w.must("rev-parse", "HEAD")
					w.git("checkout", "-q", "-b", "mergeme")
					os.Chmod(filepath.Join(w.dir, g), 0o644)
					w.write(g, r.Bytes(45))
					w.git("add", "-A")
					w.git("commit", "-qm", "change on a branch")
					w.git("checkout", "-q", "master")
					kind := Pick(r, []string{"--squash", "--squash", "--no-ff", "--ff-only"})
					_, mcode := w.git("merge", "-q", kind, "mergeme")
					log("merge %s of a branch that changed %q -> %d", kind, g, mcode)
					c.R.Count("merge." + kind)
					if mcode == 0 && readonly {
						for _, l := range lockables {
							if wr, ex := writable(l); ex && wr && table()[l] != "alice" {
								sig := ""
								if verifiedOnce && (table()[l] == "bob" || theirsSeen[l]) && strings.Contains("\n"+strings.Join(cachePaths(), "\n")+"\n", "\n"+l+"\n") {
									sig = "D13" // another user's lock, cached as an own one by a verification
								}
								fail("a lockable file is writable after a merge (post-merge hook) although the current user does not hold its lock", fmt.Sprintf("%s after `git merge %s`", l, kind), sig)
								break
							}
						}
					}
					// abandon the merge; reset runs no hook, the checkout that follows does
					w.git("reset", "-q", "--hard", head)
					w.git("branch", "-q", "-D", "mergeme")
					w.git("checkout", "-q", "-f", "master")
				}
			}
		case 10: // bob takes a lock
			if _, held := table()[f]; !held {
				srv.mu.Lock()
				srv.nextLock++
				srv.locks = append(srv.locks, lfsLock{ID: fmt.Sprintf("B%d", srv.nextLock), Path: f, Owner: "bob"})
				srv.mu.Unlock()
				log("bob locks %q", f)
				mops = append(mops, fmt.Sprintf("O:%d:5", pidx[f]))
				observe()
			}
		case 11: // bob releases one of his
			if table()[f] == "bob" {
				srv.mu.Lock()
				for i, l := range srv.locks {
					if l.Path == f {
						srv.locks = append(srv.locks[:i], srv.locks[i+1:]...)
						break
					}
				}
				srv.mu.Unlock()
				log("bob unlocks %q", f)
				mops = append(mops, fmt.Sprintf("R:%d", pidx[f]))
				observe()
			}
		case 12, 13: // push new commits
			if len(modified) > 0 {
				w.git("add", "-A")
				w.git("commit", "-qm", "wip")
				for k := range modified {
					delete(modified, k)
				}
			}
			// make sure there is something to push: touch one or two files (chmod +w as a user who ignores locks would)
			var touch []string
			reverted := map[string]bool{}
			if r.Chance(35) {
				// the other user takes a lock just before this push
				bf := Pick(r, lockables)
				if _, held := table()[bf]; !held {
					srv.mu.Lock()
					srv.nextLock++
					srv.locks = append(srv.locks, lfsLock{ID: fmt.Sprintf("B%d", srv.nextLock), Path: bf, Owner: "bob"})
					srv.mu.Unlock()
					log("bob locks %q", bf)
					mops = append(mops, fmt.Sprintf("O:%d:5", pidx[bf]))
					observe()
				}
			}
			var bobs []string
			for _, lf := range lockables {
				if table()[lf] == "bob" {
					bobs = append(bobs, lf)
				}
			}
			for k := 0; k < 1+r.Intn(2); k++ {
				g := Pick(r, append(append([]string(nil), lockables...), "n.bin"))
				if len(bobs) > 0 && r.Chance(50) {
					g = Pick(r, bobs) // the clause under test: a push that modifies a path the other user has locked
				}
				p := filepath.Join(w.dir, g)
				os.Chmod(p, 0o644)
				nb := r.Bytes(30 + op)
				if strings.HasSuffix(g, ".txt") && r.Chance(60) {
					// a lockable file that is NOT stored in LFS: its blob goes through the scanner's plain-blob
					// stages, whose size cutoff (1024 bytes) separates two code paths
					nb = r.Bytes(Pick(r, []int{1023, 1024, 1025, 3000, 70000}))
					c.R.Count("push.non-lfs-lockable-big")
				}
				if k == 1 && len(touch) == 1 && touch[0] != g && r.Chance(30) {
					// the SAME new content as the other file of this push (a copy): one blob, two paths —
					// rev-list names it once (D27: the lock check may never see this path)
					if b0, err := os.ReadFile(filepath.Join(w.dir, touch[0])); err == nil {
						nb = b0
						reverted[g] = true
						reverted[touch[0]] = true
						c.R.Count("push.same-content-two-paths")
					}
				} else if old := versions[g]; len(old) >= 2 && r.Chance(25) {
					nb = old[0] // back to a version the remote already has (D27: the blob is not listed as new)
					reverted[g] = true
				}
				os.WriteFile(p, nb, 0o644)
				versions[g] = append(versions[g], nb)
				touch = append(touch, g)
			}
			w.git("add", "-A")
			w.git("commit", "-qm", fmt.Sprintf("push%d", op))
			tout, _ := w.git("log", "--name-only", "--format=", "origin/master..master")
			touched := map[string]bool{}
			for _, l := range strings.Split(tout, "\n") {
				if l = strings.TrimSpace(l); l != "" {
					touched[strings.Trim(l, "\"")] = true
				}
			}
			t := table()
			var theirsTouched []string
			for p := range touched {
				if t[p] == "bob" {
					theirsTouched = append(theirsTouched, p)
				}
			}
			sort.Strings(theirsTouched)
			mode := srvMode()
			// the effective setting: a 404/501 answer to an earlier verification switches it off in the configuration
			if v, code := w.git("config", "lfs."+srv.srv.URL+".locksverify"); code == 0 {
				verify = strings.TrimSpace(v)
			}
			_, code := w.git("push", "origin", "master")
			resetMode()
			log("push (touched %v, theirs %v) locksverify=%s [%s] -> %d", touch, theirsTouched, verify, mode, code)
			// the hook's verification runs in a lock client whose cache is never saved: no cache effect
			observe0 := len(mobs)
			_ = observe0
			c.R.Count("push")
			if mode == "ok" {
				var tl, tt []string
				for p, o := range t {
					ow := "0"
					if o != "alice" {
						ow = "5"
					}
					tl = append(tl, fmt.Sprintf("%d/%s", pidx[p], ow))
				}
				for p := range touched {
					if pidx[p] > 0 {
						tt = append(tt, fmt.Sprint(pidx[p]))
					}
				}
				sort.Strings(tl)
				sort.Strings(tt)
				ans, err := c.Or.Ask([]string{fmt.Sprintf("C16 push %s %s %s", b01(gitTrue(verify)), joinOrDash(tl), joinOrDash(tt))})
				got := "accepted"
				if code != 0 {
					got = "rejected"
				}
				revOnly := len(theirsTouched) > 0
				for _, p := range theirsTouched {
					if !reverted[p] {
						revOnly = false
					}
				}
				if err == nil && ans[0] != got && !revOnly {
					c.R.Add(Finding{Kind: "diff", What: "push gate: model and implementation disagree", Case: clip(enc(), 2500), Impl: got, Model: ans[0], Broken: "corr.C16.push"})
				}
				if gitTrue(verify) && len(theirsTouched) > 0 && code == 0 {
					sig := "D27"
					for _, p := range theirsTouched {
						if !reverted[p] {
							sig = ""
						}
					}
					fail("with lock verification enabled a push that modifies a path locked by another user was accepted", strings.Join(theirsTouched, ","), sig)
				}
				if len(theirsTouched) == 0 && code != 0 {
					fail("a push that touches no path locked by another user was rejected", fmt.Sprint(touch), "")
				}
				if len(theirsTouched) > 0 {
					c.R.Count("push.theirs-touched")
				}
			}
			if code != 0 {
				// keep the histories in step for the next push
				w.git("push", "-q", "--no-verify", "origin", "master")
			}
		}
	}
	// ---- sync point: the checkout hook's full scan, then every lockable tracked file is judged
	if readonly {
		head := w.must("rev-parse", "HEAD")
		w.runLfs("post-checkout", "0000000000000000000000000000000000000000", head, "1")
		log("post-checkout (full scan)")
		t := table()
		for _, f := range lockables {
			wr, ex := writable(f)
			if !ex {
				continue
			}
			mine := t[f] == "alice"
			if mine && !wr {
				fail("a lockable file whose lock the current user holds is read-only after the checkout hook", f, "")
			}
			if !mine && wr {
				sig := ""
				if verifiedOnce && (t[f] == "bob" || theirsSeen[f]) {
					sig = "D13"
				}
				fail("a lockable file is writable after the checkout hook although the current user does not hold its lock", f+" owner="+t[f], sig)
			}
		}
		for _, f := range others {
			if wr, ex := writable(f); ex && !wr {
				fail("a file that is not lockable was made read-only", f, "")
			}
		}
		// a file BECOMES lockable although it does not change itself: a commit (post-commit hook), or a checkout of a
		// branch (post-checkout hook), that only brings a new attribute line — the file is lockable now, nobody holds
		// its lock, so it must not stay writable (D87)
		if len(modified) == 0 && r.Chance(50) {
			if wr, ex := writable("plain.md"); ex && wr {
				via := Pick(r, []string{"commit", "checkout"})
				if via == "commit" {
					attrs, _ := os.ReadFile(filepath.Join(w.dir, ".gitattributes"))
					w.write(".gitattributes", append(attrs, []byte("*.md lockable\n")...))
					w.git("add", ".gitattributes")
					w.git("commit", "-qm", "markdown files are lockable now")
				} else {
					w.git("checkout", "-q", "-b", "lockable-md")
					attrs, _ := os.ReadFile(filepath.Join(w.dir, ".gitattributes"))
					w.write(".gitattributes", append(attrs, []byte("*.md lockable\n")...))
					w.git("add", ".gitattributes")
					w.git("commit", "-qm", "markdown files are lockable now")
					os.Chmod(filepath.Join(w.dir, "plain.md"), 0o644) // as it is on master
					w.git("checkout", "-q", "master")
					os.Chmod(filepath.Join(w.dir, "plain.md"), 0o644)
					w.git("checkout", "-q", "lockable-md")
				}
				log("plain.md becomes lockable through a %s that changes .gitattributes only", via)
				c.R.Count("becomes-lockable." + via)
				if attr := checkAttrOf(w.dir, "lockable", []string{"plain.md"})["plain.md"]; attr == "set" {
					if wr2, ex2 := writable("plain.md"); ex2 && wr2 {
						fail("a file that became lockable through a changed attributes file stays writable after the "+via+" hook although nobody holds its lock", "plain.md", "")
					}
				}
			}
		}
	}
	c.R.Eval(enc(), len(mops) > 0)
	if len(mops) == 0 {
		return
	}
	mline = "C16 run " + strings.Join(mops, ";")
	mimpl = strings.Join(mobs, ";")
	mcase = enc()
	if idx%15 == 0 {
		c.R.Sample(map[string]interface{}{"steps": steps})
	}
	return
}

func c16(c *Ctx) {
	r := NewRng(c.Seed ^ 0xC16)
	c.R.Rule = "cases = sequences of 4-15 operations {lock, unlock, unlock --force, unlock --id, locks, locks --local/--cached/--path/--verify, edit, commit, checkout, push} by the client under test over 5 lockable paths (incl. a name with a blank and a non-LFS lockable file) and non-lockable files, interleaved with another user's lock/unlock on the server, server answers ok/403/404/501/500 and paginated lists, locksverify true/false/unset, lfs.setlockablereadonly on/off; after every step the server table and `git lfs locks --local --json` are compared with the model; push exits are judged against the table and `git log --name-only`; a final full-scan checkout hook run is followed by a write-bit check of every lockable file; non-trivial = sequence with >= 1 lock-state step; distinct = different (seed, index)"
	n := c.N(80, 1500)
	if c.Replay == "" {
		r1, r2 := r.Fork(), r.Fork()
		if os.Getenv("VERIF_IDX") == "" {
			c16CommitHook(c, r1)
			c16UnlockUncached(c, r2)
		}
	}
	var wg sync.WaitGroup
	sem := make(chan struct{}, 10)
	var mu sync.Mutex
	var lines, impl, cases []string
	only := os.Getenv("VERIF_IDX") // debugging aid: run the scenario of one index (same random stream)
	for i := 0; i < n+c.N(8, 80); i++ { // the last ones are the directed scenarios
		rs := r.Fork()
		if only != "" && only != fmt.Sprint(i) {
			continue
		}
		wg.Add(1)
		sem <- struct{}{}
		go func(i int, rs *Rng) {
			defer wg.Done()
			defer func() { <-sem }()
			defer func() {
				if x := recover(); x != nil {
					c.R.Add(Finding{Kind: "diff", What: fmt.Sprintf("scenario harness problem: %v", x), Broken: "corr.C16.scenario"})
				}
			}()
			l, m, cs := c16Scenario(c, i, rs, i >= n)
			if l != "" {
				mu.Lock()
				lines = append(lines, l)
				impl = append(impl, m)
				cases = append(cases, cs)
				mu.Unlock()
			}
		}(i, rs)
	}
	wg.Wait()
	ans, err := c.Or.Ask(lines)
	if err != nil {
		c.R.Add(Finding{Kind: "diff", What: "oracle process failed: " + err.Error(), Broken: "corr.C16.locks"})
		return
	}
	for i := range lines {
		if ans[i] != impl[i] {
			// first differing step
			a, b := strings.Split(ans[i], ";"), strings.Split(impl[i], ";")
			k := 0
			for k < len(a) && k < len(b) && a[k] == b[k] {
				k++
			}
			am, bm := "", ""
			if k < len(a) {
				am = a[k]
			}
			if k < len(b) {
				bm = b[k]
			}
			c.R.Add(Finding{Kind: "diff", What: "server table / lock cache after a step: model and implementation disagree", Case: clip(cases[i], 2500), Impl: fmt.Sprintf("step %d: %s", k+1, bm), Model: fmt.Sprintf("step %d: %s <= %s", k+1, am, clip(lines[i], 400)), Broken: "corr.C16.locks"})
		}
	}
}

func init() { campaigns["C16"] = c16 }
