// C09: SIGKILL at any storage-mutating step never leaves a bad object in local storage.
// Crash-point enumeration with the VerifFs/VerifWriter hooks: a first run logs the reached points,
// then the scenario is re-executed once per (point, occurrence) with VERIF_CRASH=<point>:<n>.
package main

import (
	"bytes"
	"fmt"
	"os"
	"os/exec"
	"path/filepath"
	"sort"
	"strings"
	"sync"
)

type crashScenario struct {
	Name  string
	// MayFail: the uninterrupted run is allowed to fail (e.g. a cross-device rename git-lfs refuses); the
	// property is judged all the same: no kill point leaves a bad object, a re-run ends like the uninterrupted run
	MayFail bool
	Setup func(dir string, srv *fpServer, r *Rng) error // builds the pre-state
	Run   func(dir string, env []string) (string, int)  // the command under test
}

func copyTree(src, dst string) error {
	return exec.Command("cp", "-a", src, dst).Run()
}

func lfsObjects(dir string) map[string]string { // oid -> sha of content
	out := map[string]string{}
	root := filepath.Join(dir, ".git", "lfs", "objects")
	filepath.Walk(root, func(p string, fi os.FileInfo, err error) error {
		if err == nil && !fi.IsDir() {
			b, _ := os.ReadFile(p)
			out[filepath.Base(p)] = sha(b)
		}
		return nil
	})
	return out
}

// strayFiles: files under .git/lfs outside the areas where leftovers are allowed
func strayFiles(dir string) []string {
	var out []string
	root := filepath.Join(dir, ".git", "lfs")
	filepath.Walk(root, func(p string, fi os.FileInfo, err error) error {
		if err != nil || fi.IsDir() {
			return nil
		}
		rel, _ := filepath.Rel(root, p)
		top := strings.SplitN(rel, string(filepath.Separator), 2)[0]
		switch top {
		case "objects", "tmp", "incomplete", "bad", "cache", "logs":
		default:
			out = append(out, rel)
		}
		return nil
	})
	return out
}

func objKeys(m map[string]string) string {
	var k []string
	for o := range m {
		k = append(k, o[:8])
	}
	sort.Strings(k)
	return strings.Join(k, ",")
}

func gitIn(dir string, env []string, args ...string) (string, int) {
	return runIn(dir, env, "git", args...)
}

func c09Scenarios(c *Ctx) []crashScenario {
	lfsEnv := func(dir string) []string {
		return []string{"PATH=" + filepath.Dir(c.Lfs) + ":" + os.Getenv("PATH")}
	}
	_ = lfsEnv
	commitPointers := func(dir string, srv *fpServer, r *Rng, n int, local bool) ([][]byte, error) {
		var contents [][]byte
		os.WriteFile(filepath.Join(dir, ".gitattributes"), []byte("*.bin filter=lfs diff=lfs merge=lfs -text\n"), 0o644)
		for i := 0; i < n; i++ {
			b := r.Bytes(Pick(r, []int{10, 3000, 40000, 70000, 200000}))
			contents = append(contents, b)
			oid := sha(b)
			os.WriteFile(filepath.Join(dir, fmt.Sprintf("f%d.bin", i)), canonicalPointer(oid, int64(len(b))), 0o644)
			if srv != nil {
				srv.mu.Lock()
				srv.objs[oid] = fpObject{Content: b, Where: "server"}
				srv.mu.Unlock()
			}
			if local {
				p := filepath.Join(dir, ".git", "lfs", "objects", oid[0:2], oid[2:4], oid)
				os.MkdirAll(filepath.Dir(p), 0o755)
				os.WriteFile(p, b, 0o644)
			}
		}
		// commit the pointer files as they are (no filter configured globally in this environment)
		if out, code := gitIn(dir, nil, "add", "."); code != 0 {
			return nil, fmt.Errorf("git add: %s", out)
		}
		if out, code := gitIn(dir, nil, "commit", "-qm", "pointers"); code != 0 {
			return nil, fmt.Errorf("git commit: %s", out)
		}
		return contents, nil
	}
	return []crashScenario{
		{Name: "clean-oneshot", Setup: func(dir string, srv *fpServer, r *Rng) error {
			os.WriteFile(filepath.Join(dir, "payload"), r.Bytes(Pick(r, []int{500, 40000, 150000})), 0o644)
			return nil
		}, Run: func(dir string, env []string) (string, int) {
			b, _ := os.ReadFile(filepath.Join(dir, "payload"))
			cmd := exec.Command(c.Lfs, "clean", "x.bin")
			cmd.Dir = dir
			cmd.Env = append(os.Environ(), env...)
			cmd.Stdin = bytes.NewReader(b)
			var out bytes.Buffer
			cmd.Stdout, cmd.Stderr = &out, &out
			err := cmd.Run()
			code := 0
			if err != nil {
				code = 1
				if ee, ok := err.(*exec.ExitError); ok {
					code = ee.ExitCode()
				}
			}
			return out.String(), code
		}},
		{Name: "git-add", Setup: func(dir string, srv *fpServer, r *Rng) error {
			os.WriteFile(filepath.Join(dir, ".gitattributes"), []byte("*.dat filter=lfs -text\n"), 0o644)
			for i := 0; i < 3; i++ {
				os.WriteFile(filepath.Join(dir, fmt.Sprintf("a%d.dat", i)), r.Bytes(Pick(r, []int{2000, 50000, 100000})), 0o644)
			}
			gitIn(dir, nil, "config", "filter.lfs.process", c.Lfs+" filter-process")
			gitIn(dir, nil, "config", "filter.lfs.clean", c.Lfs+" clean -- %f")
			gitIn(dir, nil, "config", "filter.lfs.smudge", c.Lfs+" smudge -- %f")
			gitIn(dir, nil, "config", "filter.lfs.required", "true")
			return nil
		}, Run: func(dir string, env []string) (string, int) {
			return gitIn(dir, env, "add", ".")
		}},
		{Name: "fetch", Setup: func(dir string, srv *fpServer, r *Rng) error {
			gitIn(dir, nil, "config", "lfs.url", srv.srv.URL)
			gitIn(dir, nil, "config", "lfs.concurrenttransfers", "1")
			_, err := commitPointers(dir, srv, r, 3, false)
			return err
		}, Run: func(dir string, env []string) (string, int) {
			return runIn(dir, env, c.Lfs, "fetch", "--all")
		}},
		{Name: "refetch", Setup: func(dir string, srv *fpServer, r *Rng) error {
			// the objects are already in local storage (an earlier, uninterrupted fetch by this binary) and are
			// downloaded AGAIN: whatever the first download left behind meets the second one
			gitIn(dir, nil, "config", "lfs.url", srv.srv.URL)
			gitIn(dir, nil, "config", "lfs.concurrenttransfers", "1")
			if _, err := commitPointers(dir, srv, r, 2, false); err != nil {
				return err
			}
			pathEnv := "PATH=" + filepath.Dir(c.Lfs) + ":" + os.Getenv("PATH")
			if out, code := runIn(dir, []string{pathEnv}, c.Lfs, "fetch", "--all"); code != 0 {
				return fmt.Errorf("first fetch: %s", out)
			}
			return nil
		}, Run: func(dir string, env []string) (string, int) {
			return runIn(dir, env, c.Lfs, "fetch", "--all", "--refetch")
		}},
		{Name: "smudge-download", Setup: func(dir string, srv *fpServer, r *Rng) error {
			gitIn(dir, nil, "config", "lfs.url", srv.srv.URL)
			_, err := commitPointers(dir, srv, r, 1, false)
			return err
		}, Run: func(dir string, env []string) (string, int) {
			b, _ := os.ReadFile(filepath.Join(dir, "f0.bin"))
			cmd := exec.Command(c.Lfs, "smudge", "f0.bin")
			cmd.Dir = dir
			cmd.Env = append(os.Environ(), env...)
			cmd.Stdin = bytes.NewReader(b)
			var out bytes.Buffer
			cmd.Stderr = &out
			err := cmd.Run()
			code := 0
			if err != nil {
				code = 1
				if ee, ok := err.(*exec.ExitError); ok {
					code = ee.ExitCode()
				}
			}
			return out.String(), code
		}},
		{Name: "prune", Setup: func(dir string, srv *fpServer, r *Rng) error {
			gitIn(dir, nil, "config", "lfs.url", srv.srv.URL)
			gitIn(dir, nil, "config", "lfs.fetchrecentrefsdays", "0")
			gitIn(dir, nil, "config", "lfs.fetchrecentcommitsdays", "0")
			gitIn(dir, nil, "config", "lfs.pruneoffsetdays", "0")
			if _, err := commitPointers(dir, srv, r, 3, true); err != nil {
				return err
			}
			// second commit replaces every file: the first versions become prunable once "pushed"
			for i := 0; i < 3; i++ {
				b := r.Bytes(500 + i)
				oid := sha(b)
				os.WriteFile(filepath.Join(dir, fmt.Sprintf("f%d.bin", i)), canonicalPointer(oid, int64(len(b))), 0o644)
				p := filepath.Join(dir, ".git", "lfs", "objects", oid[0:2], oid[2:4], oid)
				os.MkdirAll(filepath.Dir(p), 0o755)
				os.WriteFile(p, b, 0o644)
			}
			gitIn(dir, nil, "commit", "-qam", "v2")
			gitIn(dir, nil, "remote", "add", "origin", "http://unused.invalid/repo")
			gitIn(dir, nil, "update-ref", "refs/remotes/origin/master", "HEAD")
			return nil
		}, Run: func(dir string, env []string) (string, int) {
			return runIn(dir, env, c.Lfs, "prune")
		}},
		{Name: "fsck-repair", Setup: func(dir string, srv *fpServer, r *Rng) error {
			cs, err := commitPointers(dir, srv, r, 3, true)
			if err != nil {
				return err
			}
			for i := 0; i < 2; i++ { // corrupt two of the three objects
				oid := sha(cs[i])
				p := filepath.Join(dir, ".git", "lfs", "objects", oid[0:2], oid[2:4], oid)
				os.WriteFile(p, append(append([]byte(nil), cs[i]...), 'X'), 0o644)
			}
			return nil
		}, Run: func(dir string, env []string) (string, int) {
			out, _ := runIn(dir, env, c.Lfs, "fsck", "--objects")
			return out, 0 // fsck exits 1 when it found (and moved) corrupt objects: that is its success here
		}},
		{Name: "pull", Setup: func(dir string, srv *fpServer, r *Rng) error {
			gitIn(dir, nil, "config", "lfs.url", srv.srv.URL)
			_, err := commitPointers(dir, srv, r, 2, false)
			return err
		}, Run: func(dir string, env []string) (string, int) {
			return runIn(dir, env, c.Lfs, "pull")
		}},
		{Name: "fetch-reference-link", Setup: func(dir string, srv *fpServer, r *Rng) error {
			return c09ReferenceSetup(c, dir, srv, r, commitPointers, false)
		}, Run: func(dir string, env []string) (string, int) {
			return runIn(dir, env, c.Lfs, "fetch")
		}},
		{Name: "fetch-reference-copy", Setup: func(dir string, srv *fpServer, r *Rng) error {
			return c09ReferenceSetup(c, dir, srv, r, commitPointers, true)
		}, Run: func(dir string, env []string) (string, int) {
			return runIn(dir, env, c.Lfs, "fetch")
		}},
		{Name: "fetch-agent-other-filesystem", MayFail: true, Setup: func(dir string, srv *fpServer, r *Rng) error {
			// a custom transfer agent that leaves its files on ANOTHER file system (tmpfs): the final
			// rename into lfs/objects cannot be a rename(2)
			self, err := os.Executable()
			if err != nil {
				return err
			}
			scratch, err := os.MkdirTemp("/dev/shm", "verif-c09-")
			if err != nil {
				return nil // no second file system here: the scenario degenerates to "nothing to fetch"
			}
			c09RefDirs = append(c09RefDirs, scratch)
			store := filepath.Join(c.Work, "c09-agent-store")
			os.MkdirAll(store, 0o755)
			contents, err := commitPointers(dir, nil, r, 2, false)
			if err != nil {
				return err
			}
			for _, b := range contents {
				os.WriteFile(filepath.Join(store, sha(b)), b, 0o644)
			}
			script := filepath.Join(c.Work, "c09-agent-script")
			os.WriteFile(script, []byte("x/"+store+"|"+scratch+"\n"), 0o644)
			gitIn(dir, nil, "config", "lfs.url", "http://127.0.0.1:9/never-contacted")
			gitIn(dir, nil, "config", "lfs.standalonetransferagent", "otherfs")
			gitIn(dir, nil, "config", "lfs.customtransfer.otherfs.path", self)
			gitIn(dir, nil, "config", "lfs.customtransfer.otherfs.args", "custom-agent")
			gitIn(dir, nil, "config", "lfs.customtransfer.otherfs.concurrent", "false")
			return nil
		}, Run: func(dir string, env []string) (string, int) {
			e := append(append([]string(nil), env...), "VERIF_AGENT_SCRIPT="+filepath.Join(c.Work, "c09-agent-script"), "VERIF_AGENT_REPEAT=1")
			return runIn(dir, e, c.Lfs, "fetch", "--all")
		}},
		{Name: "fetch-agent-wrong-content", MayFail: true, Setup: func(dir string, srv *fpServer, r *Rng) error {
			// a custom transfer agent (what `git-lfs standalone-file` is for a file:// remote with a damaged
			// store) that hands over a file of the right size and the wrong content for one object: nothing
			// it delivers may sit under that object's name at ANY point a SIGKILL can land
			self, err := os.Executable()
			if err != nil {
				return err
			}
			scratch := filepath.Join(c.Work, "c09-liar-scratch")
			store := filepath.Join(c.Work, "c09-liar-store")
			os.MkdirAll(scratch, 0o755)
			os.MkdirAll(store, 0o755)
			contents, err := commitPointers(dir, nil, r, 3, false)
			if err != nil {
				return err
			}
			for i, b := range contents {
				nb := append([]byte(nil), b...)
				if i == 1 {
					nb[len(nb)/2] ^= 0x01 // same size, other content
				}
				os.WriteFile(filepath.Join(store, sha(b)), nb, 0o644)
			}
			script := filepath.Join(c.Work, "c09-liar-script")
			os.WriteFile(script, []byte("x/"+store+"|"+scratch+"\n"), 0o644)
			gitIn(dir, nil, "config", "lfs.url", "http://127.0.0.1:9/never-contacted")
			gitIn(dir, nil, "config", "lfs.standalonetransferagent", "liar")
			gitIn(dir, nil, "config", "lfs.customtransfer.liar.path", self)
			gitIn(dir, nil, "config", "lfs.customtransfer.liar.args", "custom-agent")
			gitIn(dir, nil, "config", "lfs.customtransfer.liar.concurrent", "false")
			return nil
		}, Run: func(dir string, env []string) (string, int) {
			e := append(append([]string(nil), env...), "VERIF_AGENT_SCRIPT="+filepath.Join(c.Work, "c09-liar-script"), "VERIF_AGENT_REPEAT=1")
			return runIn(dir, e, c.Lfs, "fetch", "--all")
		}},
		{Name: "migrate-import", Setup: func(dir string, srv *fpServer, r *Rng) error {
			for i := 0; i < 2; i++ {
				os.WriteFile(filepath.Join(dir, fmt.Sprintf("m%d.big", i)), r.Bytes(Pick(r, []int{3000, 80000})), 0o644)
			}
			gitIn(dir, nil, "add", ".")
			gitIn(dir, nil, "commit", "-qm", "raw")
			return nil
		}, Run: func(dir string, env []string) (string, int) {
			return runIn(dir, env, c.Lfs, "migrate", "import", "--everything", "--include=*.big", "--yes")
		}},
	}
}

// c09ReferenceSetup: the objects of the commit live in a reference store (objects/info/alternates).
// copy=false: the store is on the same file system, objects arrive by hard link.
// copy=true: the hard link cannot succeed — the store is on another file system (/dev/shm) when there
// is one, and in any case a stale file of the wrong size already sits at every object path (EEXIST) —
// so LinkOrCopy falls back to CopyFileContents (temp file + rename).
var c09RefDirs []string

func c09ReferenceSetup(c *Ctx, dir string, srv *fpServer, r *Rng, commitPointers func(string, *fpServer, *Rng, int, bool) ([][]byte, error), copy bool) error {
	gitIn(dir, nil, "config", "lfs.url", srv.srv.URL)
	cs, err := commitPointers(dir, nil, r, 3, false)
	if err != nil {
		return err
	}
	refRoot := dir + "-refstore"
	if copy {
		if fi, err := os.Stat("/dev/shm"); err == nil && fi.IsDir() {
			if d, err := os.MkdirTemp("/dev/shm", "verif-c09-ref-"); err == nil {
				refRoot = d
			}
		}
	}
	c09RefDirs = append(c09RefDirs, refRoot)
	os.MkdirAll(filepath.Join(refRoot, "objects"), 0o755) // the alternate object directory itself
	for _, b := range cs {
		oid := sha(b)
		p := filepath.Join(refRoot, "lfs", "objects", oid[0:2], oid[2:4], oid)
		os.MkdirAll(filepath.Dir(p), 0o755)
		os.WriteFile(p, b, 0o644)
		if copy {
			q := filepath.Join(dir, ".git", "lfs", "objects", oid[0:2], oid[2:4], oid)
			os.MkdirAll(filepath.Dir(q), 0o755)
			os.WriteFile(q, b[:len(b)/2], 0o644) // stale, wrong-sized file: os.Link fails with EEXIST
		}
	}
	os.MkdirAll(filepath.Join(dir, ".git", "objects", "info"), 0o755)
	return os.WriteFile(filepath.Join(dir, ".git", "objects", "info", "alternates"), []byte(filepath.Join(refRoot, "objects")+"\n"), 0o644)
}

func c09(c *Ctx) {
	defer func() {
		for _, d := range c09RefDirs {
			os.RemoveAll(d)
		}
	}()
	r := NewRng(c.Seed ^ 0xC09)
	c.R.Rule = "cases = (scenario, crash point, occurrence): every reached occurrence of every storage-mutating step (temp-file creation, each write burst of a copy, rename into place, .part hand-over, link, move to bad/, unlink) in the scenarios, each run with VERIF_CRASH=<point>:<n> (SIGKILL); non-trivial = crash point between the first write and the final rename/unlink; distinct = different (scenario, point, occurrence)"
	scen := c09Scenarios(c)
	maxPerScenario := 60
	if c.Tier == "thorough" {
		maxPerScenario = 100000
	}
	var wg sync.WaitGroup
	sem := make(chan struct{}, 12)
	for si, sc := range scen {
		rs := r.Fork()
		base := filepath.Join(c.Work, fmt.Sprintf("c09-%d-base", si))
		if err := gitInit(base); err != nil {
			c.R.Add(Finding{Kind: "diff", What: err.Error(), Broken: "corr.C09.crash"})
			continue
		}
		srv := newFpServer()
		defer srv.srv.Close()
		if err := sc.Setup(base, srv, rs); err != nil {
			c.R.Add(Finding{Kind: "diff", What: "scenario setup failed: " + sc.Name + ": " + err.Error(), Broken: "corr.C09.crash"})
			continue
		}
		// uninterrupted reference run, logging the reached points and the fs trace
		ref := filepath.Join(c.Work, fmt.Sprintf("c09-%d-ref", si))
		copyTree(base, ref)
		logf := filepath.Join(c.Work, fmt.Sprintf("c09-%d.points", si))
		tracef := filepath.Join(c.Work, fmt.Sprintf("c09-%d.trace", si))
		os.Remove(logf)
		os.Remove(tracef)
		pathEnv := "PATH=" + filepath.Dir(c.Lfs) + ":" + os.Getenv("PATH") // hooks installed by the commands call `git-lfs`
		out, code := sc.Run(ref, []string{"VERIF_CRASH_LOG=" + logf, "VERIF_TRACE=" + tracef, pathEnv})
		refCode := code
		if code != 0 && !sc.MayFail {
			c.R.Add(Finding{Kind: "diff", What: fmt.Sprintf("scenario %s does not succeed uninterrupted (exit %d): %s", sc.Name, code, clip(out, 300)), Broken: "corr.C09.crash"})
			continue
		}
		refObjs := lfsObjects(ref)
		preObjs := lfsObjects(base) // a scenario may START from a damaged store (fsck): only new damage counts
		for o, h := range refObjs {
			if o != h && preObjs[o] != h {
				c.R.Add(Finding{Kind: "oracle", What: "after an UNINTERRUPTED run an object does not hash to its name", Case: "C09 " + sc.Name})
			}
		}
		pb, _ := os.ReadFile(logf)
		counts := map[string]int{}
		type cp struct {
			point string
			n     int
		}
		var points []cp
		for _, l := range strings.Split(strings.TrimSpace(string(pb)), "\n") {
			if l == "" {
				continue
			}
			counts[l]++
			points = append(points, cp{l, counts[l]})
		}
		c.R.Count(fmt.Sprintf("points.%s=%d", sc.Name, len(points)))
		// the model side: the observed op list must run under the storage discipline
		tb, _ := os.ReadFile(tracef)
		c09ModelCheck(c, sc.Name, ref, string(tb), preObjs, base)
		// sample the crash points in quick mode (always keep the first and last occurrence of every label)
		sel := points
		if len(points) > maxPerScenario {
			keep := map[int]bool{}
			first := map[string]bool{}
			for i, p := range points {
				if !first[p.point] {
					first[p.point] = true
					keep[i] = true
				}
				if p.n == counts[p.point] {
					keep[i] = true
				}
			}
			for len(keep) < maxPerScenario {
				keep[rs.Intn(len(points))] = true
			}
			sel = nil
			for i, p := range points {
				if keep[i] {
					sel = append(sel, p)
				}
			}
		}
		for _, p := range sel {
			wg.Add(1)
			sem <- struct{}{}
			go func(sc crashScenario, si int, p cp) {
				defer wg.Done()
				defer func() { <-sem }()
				dir := filepath.Join(c.Work, fmt.Sprintf("c09-%d-%s-%d", si, strings.ReplaceAll(p.point, ".", "_"), p.n))
				defer os.RemoveAll(dir)
				copyTree(base, dir)
				caseID := fmt.Sprintf("C09 %s %s:%d", sc.Name, p.point, p.n)
				sc.Run(dir, []string{fmt.Sprintf("VERIF_CRASH=%s:%d", p.point, p.n), pathEnv})
				c.R.Eval(caseID, p.point == "write" || strings.HasPrefix(p.point, "rename") || strings.HasPrefix(p.point, "unlink") || strings.HasPrefix(p.point, "link"))
				c.R.Count("crash." + p.point)
				// 1. every object present hashes to its name
				for o, h := range lfsObjects(dir) {
					if o != h && preObjs[o] != h {
						c.R.Add(Finding{Kind: "oracle", What: "after SIGKILL an object in local storage does not hash to its name", Case: caseID, Impl: o[:12] + " has content " + h[:12]})
					}
				}
				// 2. leftovers only in the temporary/incomplete/bad areas
				if st := strayFiles(dir); len(st) > 0 {
					c.R.Add(Finding{Kind: "oracle", What: "after SIGKILL there are leftovers outside the temporary/incomplete areas", Case: caseID, Impl: strings.Join(st, ",")})
				}
				// 3. re-running completes and reaches the uninterrupted state
				out, code := sc.Run(dir, []string{pathEnv})
				if code != 0 && !(sc.MayFail && refCode != 0) {
					c.R.Add(Finding{Kind: "oracle", What: "re-running the command after SIGKILL does not complete", Case: caseID, Impl: clip(out, 300)})
					return
				}
				got := lfsObjects(dir)
				if objKeys(got) != objKeys(refObjs) {
					c.R.Add(Finding{Kind: "oracle", What: "after SIGKILL and a re-run local storage differs from an uninterrupted run", Case: caseID, Impl: "have " + objKeys(got) + " want " + objKeys(refObjs)})
				}
				for o, h := range got {
					if o != h && preObjs[o] != h {
						c.R.Add(Finding{Kind: "oracle", What: "after SIGKILL and a re-run an object does not hash to its name", Case: caseID, Impl: o[:12]})
					}
				}
			}(sc, si, p)
		}
		if len(points) > 0 {
			c.R.Sample(map[string]interface{}{"scenario": sc.Name, "points_reached": len(points), "points_crashed": len(sel), "labels": counts})
		}
	}
	wg.Wait()
}

// c09ModelCheck replays the traced file-system operations of the uninterrupted run in the Lean
// storage model: every rename/link into objects/ must carry content hashing to the target name
// (the harness supplies the hash of the file now sitting at the target).
func c09ModelCheck(c *Ctx, name, dir, trace string, preObjs map[string]string, base string) {
	var ops []string
	for o, h := range preObjs {
		ops = append(ops, "have:objects:"+o+":"+h)
	}
	// files of the temporary areas that exist before the run and are a second NAME (hard link) of an object
	for _, ar := range []string{"incomplete", "tmp"} {
		ents, _ := os.ReadDir(filepath.Join(base, ".git", "lfs", ar))
		for _, e := range ents {
			fi, err := os.Stat(filepath.Join(base, ".git", "lfs", ar, e.Name()))
			if err != nil || fi.IsDir() {
				continue
			}
			for o, h := range preObjs {
				if oi, err := os.Stat(filepath.Join(base, ".git", "lfs", "objects", o[0:2], o[2:4], o)); err == nil && os.SameFile(fi, oi) {
					ops = append(ops, fmt.Sprintf("link:objects:%s:%s:%s:%s", o, ar, e.Name(), h))
				}
			}
		}
	}
	for _, l := range strings.Split(trace, "\n") {
		f := strings.Fields(l)
		if len(f) < 2 || !strings.HasPrefix(f[0], "fs.") {
			continue
		}
		op := strings.TrimPrefix(f[0], "fs.")
		area := func(p string) string {
			if ap, err := filepath.Abs(p); err == nil && !strings.HasPrefix(ap, filepath.Join(dir, ".git", "lfs")+"/") {
				return "ext" // a file outside this repository's LFS storage (reference store, working tree)
			}
			for _, a := range []string{"objects", "incomplete", "tmp", "bad"} {
				if strings.Contains(p, "/lfs/"+a+"/") {
					return a
				}
			}
			return "other"
		}
		switch op {
		case "create":
			ops = append(ops, "create:"+area(f[1])+":"+filepath.Base(f[1]))
		case "rename", "link":
			if len(f) < 3 {
				continue
			}
			content := "-"
			if b, err := os.ReadFile(f[2]); err == nil {
				content = sha(b)
			} else if b, err := os.ReadFile(f[1]); err == nil {
				content = sha(b)
			}
			ops = append(ops, fmt.Sprintf("%s:%s:%s:%s:%s:%s", op, area(f[1]), filepath.Base(f[1]), area(f[2]), filepath.Base(f[2]), content))
		case "linkfail": // the hard link announced by the previous line did not happen
			if n := len(ops); n > 0 && strings.HasPrefix(ops[n-1], "link:") {
				ops = ops[:n-1]
			}
		case "unlink":
			ops = append(ops, "unlink:"+area(f[1])+":"+filepath.Base(f[1]))
		case "write": // an existing file was opened for writing (download resume: truncate and/or append)
			pth := f[len(f)-1]
			ops = append(ops, "write:"+area(pth)+":"+filepath.Base(pth))
		}
	}
	if len(ops) == 0 {
		return
	}
	line := "C09 exec " + strings.Join(ops, ",")
	ans, err := c.Or.Ask([]string{line})
	if err != nil {
		c.R.Add(Finding{Kind: "diff", What: "oracle process failed: " + err.Error(), Broken: "corr.C09.discipline"})
		return
	}
	c.R.Count("model.ops." + name)
	if !strings.HasPrefix(ans[0], "ok") {
		c.R.Add(Finding{Kind: "diff", What: "the observed file-system operations of scenario " + name + " do not run under the model's storage discipline", Case: clip(line, 1500), Model: ans[0], Broken: "corr.C09.discipline"})
	}
}

func init() { campaigns["C09"] = c09 }
