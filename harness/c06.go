// C06 / C15 campaign (parent side): generator, property oracles, trace -> model events.
package main

import (
	"fmt"
	"sort"
	"strings"
	"time"

	"github.com/git-lfs/git-lfs/v3/config"
	"github.com/git-lfs/git-lfs/v3/lfsapi"
	"github.com/git-lfs/git-lfs/v3/tq"
)

func genTqCase(r *Rng, c *Ctx, prop string) tqCase {
	maxN := 6
	if c.Tier == "thorough" {
		maxN = 14
	}
	tc := tqCase{N: 1 + r.Intn(maxN), MaxRetries: Pick(r, []int{1, 2, 3, 8}), MaxDelay: Pick(r, []int{0, 0, 1, 1, -1}), Upload: r.Chance(35), Workers: Pick(r, []int{1, 1, 2, 3, 4, 8})}
	if tc.MaxDelay < 0 && tc.MaxRetries > 3 {
		tc.MaxRetries = 3 // with the default cap of 10 s eight retries may rightly wait for most of a minute
	}
	tc.BatchSize = Pick(r, []int{1, 2, tc.N, tc.N + 1, 100, 3})
	if tc.BatchSize < 1 {
		tc.BatchSize = 1
	}
	for i := 0; i < tc.N; i++ {
		k := 1
		if r.Chance(25) {
			k = 2 + r.Intn(2)
		}
		for j := 0; j < k; j++ {
			tc.Adds = append(tc.Adds, i)
		}
	}
	for i := len(tc.Adds) - 1; i > 0; i-- {
		j := r.Intn(i + 1)
		tc.Adds[i], tc.Adds[j] = tc.Adds[j], tc.Adds[i]
	}
	if r.Chance(50) {
		for i := 0; i < tc.N; i++ {
			tc.Sizes = append(tc.Sizes, 1+r.Intn(9))
		}
	}
	tc.ExpStyle, tc.OkStyle = r.Intn(5), r.Intn(4)
	failing := prop == "C15" || r.Chance(70)
	for i := 0; i < tc.N; i++ {
		var sc []string
		n := 1 + r.Intn(4)
		retr := 0
		for k := 0; k < n; k++ {
			e := "action:ok"
			if failing && r.Chance(45) {
				e = Pick(r, []string{"action:retriable", "action:retriable", "action:retriable", "action:fatal", "action:later", "action:422", "noaction", "error", "omit", "dup:ok", "expired", "action:later", "dup:retriable"})
				if tc.Upload && r.Chance(8) {
					e = "missing"
				}
			}
			if strings.Contains(e, "retriable") || e == "expired" {
				retr++
				if retr > 3 {
					e = "action:ok"
				}
			}
			sc = append(sc, e)
			if e == "action:ok" || e == "noaction" || e == "error" || e == "action:fatal" || e == "action:422" || e == "omit" || e == "missing" {
				break
			}
		}
		last := sc[len(sc)-1]
		if strings.Contains(last, "retriable") || last == "expired" || strings.Contains(last, "later") {
			if r.Chance(70) {
				sc = append(sc, "action:ok")
			}
		}
		tc.Obj = append(tc.Obj, sc)
		last = sc[len(sc)-1]
		if (strings.Contains(last, "retriable") || last == "expired") && tc.MaxRetries > 3 {
			tc.MaxRetries = 3 // a script that fails for ever: keep the total back-off below the watchdog
		}
	}
	// late duplicate adds during delivery: only meaningful when batches start before Wait() (small batch size)
	if tc.BatchSize <= 2 && tc.N >= tc.BatchSize && r.Chance(60) {
		tc.SlowWatcherMs = Pick(r, []int{5, 15, 30})
		o := tc.Adds[0]
		tc.Obj[o] = []string{"action:ok"}
		k := 1 + r.Intn(3)
		for j := 0; j < k; j++ {
			tc.LateAdds = append(tc.LateAdds, o)
		}
		// the first object is added several times up front so that its deliveries fill the watcher channel
		tc.Adds = append([]int{o, o}, tc.Adds...)
	}
	if r.Chance(10) {
		// directed: a MIXED batch — one object that has used up its retry budget in the adapter shares
		// a batch with fresh objects, and that batch's API call fails: the exhausted object is given
		// up while its batch-mates are re-queued, and the failure must still be reported
		fresh := 1 + r.Intn(2)
		d := tqCase{N: 1 + fresh + 1, BatchSize: 2, MaxRetries: Pick(r, []int{1, 2}), MaxDelay: 0, Workers: 1 + r.Intn(2), Upload: r.Chance(30)}
		for i := 0; i < d.N; i++ {
			d.Adds = append(d.Adds, i)
			d.Obj = append(d.Obj, []string{"action:ok"})
		}
		d.Obj[0] = nil
		for k := 0; k < d.MaxRetries; k++ {
			d.Obj[0] = append(d.Obj[0], "action:retriable")
		}
		d.Obj[0] = append(d.Obj[0], "action:ok")
		for k := 0; k < 8; k++ {
			d.Calls = append(d.Calls, "200")
			d.Unknown = append(d.Unknown, false)
		}
		// the call that carries object 0 for the last time allowed fails
		d.Calls[d.MaxRetries] = Pick(r, []string{"429", "500", "429"})
		return d
	}
	if r.Chance(10) {
		// directed: ONE batch answer that mixes every per-object verdict — expired actions (retried at
		// once), omitted objects, errors, missing actions, duplicates — over objects of different sizes
		// (a batch is sorted by descending size, so every relative order of the verdicts occurs)
		d := tqCase{N: 2 + r.Intn(4), BatchSize: 100, MaxRetries: Pick(r, []int{1, 2, 3}), MaxDelay: 0, Workers: 1 + r.Intn(3), Upload: r.Chance(30)}
		verdicts := []string{"expired", "expired", "omit", "omit", "error", "noaction", "dup:ok", "action:retriable", "action:ok"}
		for i := 0; i < d.N; i++ {
			d.Adds = append(d.Adds, i)
			v := Pick(r, verdicts)
			if i == 0 {
				v = "expired"
			} else if i == 1 {
				v = Pick(r, []string{"omit", "omit", "error", "noaction"})
			}
			sc := []string{v}
			if v == "expired" || v == "action:retriable" {
				sc = append(sc, Pick(r, []string{"action:ok", "action:ok", "omit", "expired"}), "action:ok")
			}
			d.Obj = append(d.Obj, sc)
			d.Sizes = append(d.Sizes, 1+r.Intn(9))
		}
		for k := 0; k < 8; k++ {
			d.Calls = append(d.Calls, "200")
			d.Unknown = append(d.Unknown, false)
		}
		return d
	}
	if prop == "C06" && r.Chance(7) {
		// directed: an upload gives up on an object whose local file is missing while the server wants it;
		// the producer — which cannot know — goes on adding NEW objects afterwards, then waits
		d := tqCase{N: 3 + r.Intn(4), BatchSize: Pick(r, []int{1, 1, 2}), MaxRetries: 2, MaxDelay: 0, Workers: 1 + r.Intn(3), Upload: true}
		for i := 0; i < d.N; i++ {
			d.Adds = append(d.Adds, i)
			d.Obj = append(d.Obj, []string{"action:ok"})
		}
		d.Obj[r.Intn(d.BatchSize)] = []string{"missing"}
		d.AddGapAfter = d.BatchSize
		d.AddGapMs = Pick(r, []int{300, 600})
		for k := 0; k < 8; k++ {
			d.Calls = append(d.Calls, "200")
			d.Unknown = append(d.Unknown, false)
		}
		return d
	}
	if prop == "C15" && r.Chance(12) {
		// directed: several objects waiting at once with DIFFERENT ready times and nothing else ready
		d := tqCase{N: 2 + r.Intn(2), BatchSize: Pick(r, []int{2, 3, 100}), MaxRetries: 3, MaxDelay: Pick(r, []int{0, 1}), Workers: 2}
		waits := []string{"action:later2", "action:later1", "action:retriable", "action:later3"}
		for i := 0; i < d.N; i++ {
			d.Adds = append(d.Adds, i)
			d.Obj = append(d.Obj, []string{waits[(i+int(r.U64()%4))%4], "action:ok"})
		}
		for k := 0; k < 8; k++ {
			d.Calls = append(d.Calls, "200")
			d.Unknown = append(d.Unknown, false)
		}
		return d
	}
	nreq := 2 + r.Intn(6)
	for k := 0; k < nreq; k++ {
		call := "200"
		if failing && r.Chance(9) && len(tc.LateAdds) == 0 {
			call = Pick(r, []string{"429", "429:1", "500", "404", "429", "429:date", "429:garbage"})
		}
		tc.Calls = append(tc.Calls, call)
		tc.Unknown = append(tc.Unknown, failing && r.Chance(4))
	}
	return tc
}

// scripted entry an oid saw at its k-th appearance in a batch request
func (tc tqCase) entry(i, k int) string {
	sc := []string{"action:ok"}
	if i < len(tc.Obj) && len(tc.Obj[i]) > 0 {
		sc = tc.Obj[i]
	}
	if k >= len(sc) {
		k = len(sc) - 1
	}
	return sc[k]
}

func tqOidIndex(oid string) int {
	var v int
	fmt.Sscanf(oid, "%x", &v)
	return v - 1
}

// tqOracle: C06 (accounting, liveness) and C15 (retry discipline) judged on the observations alone.
func tqOracle(tc tqCase, o *tqObs) (c06, c15 []string) {
	if o.Panic != "" {
		c06 = append(c06, "the process panicked: "+strings.SplitN(o.Panic, "\n", 2)[0])
		return
	}
	if o.AddBlocked {
		c06 = append(c06, fmt.Sprintf("an Add call never returned (%d of %d returned)", o.AddsReturned, len(tc.Adds)))
		return
	}
	if !o.WaitReturned {
		c06 = append(c06, "Wait never returned")
		return
	}
	adds := map[string]int{}
	for _, i := range tc.Adds {
		adds[tqOid(i)]++
	}
	for k, i := range tc.LateAdds {
		if k < o.LateAdded {
			adds[tqOid(i)]++
		}
	}
	delivered := map[string]int{}
	for _, d := range o.Delivered {
		delivered[d]++
	}
	okCall := map[string]bool{}
	callsPer := map[string]int{}
	lastOutcome := map[string]string{}
	for _, cl := range o.Calls {
		callsPer[cl.Oid]++
		base := strings.TrimSuffix(cl.Outcome, "+overlap")
		lastOutcome[cl.Oid] = base
		if base == "ok" {
			okCall[cl.Oid] = true
		}
		if strings.HasSuffix(cl.Outcome, "+overlap") {
			c15 = append(c15, "two transfers of the same object were in progress at once")
		}
	}
	// what the server said last about each oid, and batch-call failures it was part of
	att := map[string]int{}
	lastEntry := map[string]string{}
	inFailedCall := map[string]bool{}
	reqPer := map[string]int{}
	terminalAt := map[string]int64{} // time after which the oid must not be requested again
	notBefore := map[string]int64{}  // Retry-After deferrals seen so far
	for _, b := range o.Batches {
		for _, oid := range b.Oids {
			k := att[oid]
			att[oid]++
			reqPer[oid]++
			if t, ok := terminalAt[oid]; ok && b.At >= t {
				c15 = append(c15, "an object was requested again after a non-retriable failure")
			}
			if nb, ok := notBefore[oid]; ok && b.At < nb {
				c15 = append(c15, fmt.Sprintf("an object deferred with Retry-After was requested again %d ms early", nb-b.At))
			}
			if p := strings.SplitN(b.Call, ":", 2); len(p) == 2 {
				switch p[1] {
				case "garbage": // no usable delay: nothing to wait for beyond the ordinary back-off
				case "date": // the server recorded the instant its HTTP-date names
					if nb := b.DateNB; nb > b.At && nb < b.At+2500 {
						notBefore[oid] = nb - 10
					}
				default:
					var secs int64
					fmt.Sscan(p[1], &secs)
					notBefore[oid] = b.At + secs*1000 - 60
				}
			}
			if b.Call == "200" {
				lastEntry[oid] = tc.entry(tqOidIndex(oid), k)
				if lastEntry[oid] == "error" {
					terminalAt[oid] = b.At + 1
				}
			} else {
				lastEntry[oid] = "callfail:" + b.Call
				inFailedCall[oid] = true
			}
		}
	}
	for _, cl := range o.Calls {
		base := strings.TrimSuffix(cl.Outcome, "+overlap")
		if base == "fatal" || base == "422" {
			if _, ok := terminalAt[cl.Oid]; !ok {
				terminalAt[cl.Oid] = cl.End + 1
			}
		}
	}
	// adapter-level deferrals (Retry-After on the transfer itself): the object must not appear in a
	// batch request that starts before the indicated time
	for _, cl := range o.Calls {
		nb := cl.NotBefore
		if nb == 0 {
			continue
		}
		for _, b := range o.Batches {
			if b.At <= cl.End {
				continue
			}
			for _, oid := range b.Oids {
				if oid == cl.Oid && b.At < nb {
					c15 = append(c15, fmt.Sprintf("an object whose transfer was deferred with Retry-After was requested again %d ms early", nb-b.At))
				}
			}
			break // only the first request after the deferral is bound by it
		}
	}
	// re-check the "requested again" rule now that adapter outcomes are known
	att2 := map[string]int{}
	for _, b := range o.Batches {
		for _, oid := range b.Oids {
			att2[oid]++
			if t, ok := terminalAt[oid]; ok && b.At > t+5 {
				c15 = append(c15, "an object was requested again after a non-retriable failure")
			}
		}
	}
	for oid, n := range callsPer {
		if n > 1+tc.MaxRetries {
			c15 = append(c15, fmt.Sprintf("an object was transferred %d times with lfs.transfer.maxretries=%d", n, tc.MaxRetries))
		}
		_ = oid
	}
	for _, n := range reqPer {
		if n > 1+tc.MaxRetries {
			c15 = append(c15, fmt.Sprintf("an object was requested %d times with lfs.transfer.maxretries=%d", n, tc.MaxRetries))
		}
	}
	// expired actions are never used: a transfer is only ever started on the LATEST batch answer for its object, and
	// when that answer's action had run out (in any of the five spellings, `expires_in` winning over `expires_at`)
	// the adapter must not have been called at all
	for _, cl := range o.Calls {
		att3 := 0
		lastExpired, seen := false, false
		for _, b := range o.Batches {
			if b.At > cl.Start {
				break
			}
			for _, oid := range b.Oids {
				if oid == cl.Oid {
					lastExpired = b.Call == "200" && tc.entry(tqOidIndex(oid), att3) == "expired"
					seen = true
					att3++
				}
			}
		}
		if seen && lastExpired {
			c15 = append(c15, fmt.Sprintf("an action whose advertised expiry had passed was used instead of being re-requested (expiry style %d)", tc.ExpStyle))
			break
		}
	}
	errText := strings.Join(o.Errors, "\n")
	// upload of an object whose local file is missing while the server wants it: the queue gives up
	// as a whole and reports that; every object it did not get to is covered by that error
	abortedWhole := false
	if tc.Upload {
		for i, sc := range tc.Obj {
			for _, e := range sc {
				if e == "missing" && strings.Contains(errText, tqOid(i)) {
					abortedWhole = true // this object was added with its local file missing
				}
			}
		}
	}
	for oid, n := range adds {
		idx := tqOidIndex(oid)
		d := delivered[oid]
		if d > 0 && !okCall[oid] {
			c06 = append(c06, "an object was delivered to the watcher although it was never transferred successfully")
			continue
		}
		if okCall[oid] {
			if d != n {
				c06 = append(c06, fmt.Sprintf("a successfully transferred object added %d time(s) was delivered %d time(s)", n, d))
			}
			continue
		}
		if lastEntry[oid] == "noaction" {
			// declared by the server to need no transfer (an upload it already has); a DOWNLOAD answered without
			// an action is reported as an error since D83 — both are outcomes C06 allows, C04 judges the fetch
			continue
		}
		covered := abortedWhole || strings.Contains(errText, oid) || strings.Contains(errText, fmt.Sprintf("name-%d", idx)) || (inFailedCall[oid] && len(o.Errors) > 0)
		if !covered {
			c06 = append(c06, fmt.Sprintf("an object was neither delivered, nor declared unneeded, nor covered by a reported error (last server answer %q, last adapter outcome %q)", lastEntry[oid], lastOutcome[oid]))
		}
	}
	for d := range delivered {
		if adds[d] == 0 {
			c06 = append(c06, "an object nobody added was delivered")
		}
	}
	return dedup(c06), dedup(c15)
}

func dedup(xs []string) []string {
	seen := map[string]bool{}
	var out []string
	for _, x := range xs {
		if !seen[x] {
			seen[x] = true
			out = append(out, x)
		}
	}
	return out
}

// traceEvents converts the VerifTrace lines into the model's trace-event words.
func traceEvents(tc tqCase, o *tqObs) []string {
	var ev []string
	var batch []string
	att := map[string]int{}
	cur := map[string]string{} // oid -> scripted adapter outcome of the current attempt
	for _, l := range o.Trace {
		f := strings.Fields(l)
		if len(f) == 0 {
			continue
		}
		idx := func(oid string) string { return fmt.Sprint(tqOidIndex(oid)) }
		switch f[0] {
		case "tq.add":
			ev = append(ev, "add:"+idx(f[1]))
		case "tq.take":
			ev = append(ev, "take:"+idx(f[1]))
		case "tq.batch":
			batch = append(batch, idx(f[1]))
			k := att[f[1]]
			att[f[1]]++
			e := tc.entry(tqOidIndex(f[1]), k)
			if p := strings.SplitN(e, ":", 2); len(p) == 2 {
				cur[f[1]] = p[1]
			} else {
				cur[f[1]] = "-"
			}
		case "tq.batchsent":
			ev = append(ev, "batch:"+strings.Join(batch, "+"))
			batch = nil
		case "tq.retry":
			ev = append(ev, "retry:"+idx(f[1])+":"+f[2])
		case "tq.callfail-drop":
			ev = append(ev, "cfdrop:"+idx(f[1]))
		case "tq.reply":
			if tqOidIndex(f[1]) >= tc.N || tqOidIndex(f[1]) < 0 {
				ev = append(ev, "replyunknown")
			} else {
				ev = append(ev, "reply:"+idx(f[1])+":"+f[2])
			}
		case "tq.result":
			out := cur[f[1]]
			if out == "" {
				out = "-"
			}
			ev = append(ev, "result:"+idx(f[1])+":"+out+":"+f[2])
		case "tq.requeue":
			ev = append(ev, "requeue:"+idx(f[1]))
		case "tq.abort":
			ev = append(ev, "abort")
		case "tq.wait":
			ev = append(ev, "wait")
		case "tq.waitret":
			ev = append(ev, "waitret")
		}
	}
	return ev
}

func tqCampaign(c *Ctx, prop string) {
	r := NewRng(c.Seed ^ 0xC06)
	n := c.N(700, 20000)
	if prop == "C15" {
		r = NewRng(c.Seed ^ 0xC15)
		n = c.N(500, 12000)
	}
	c.R.Rule = "cases = (multiset of adds over 1..N oids, batch size, maxretries, maxretrydelay, direction, workers) x per-object attempt scripts {action+adapter ok/retriable/fatal/retry-later/422, no action, object error, omitted, listed twice, expired action, missing local file} x per-request batch-call scripts {200, 429, 429+Retry-After, 500, 404} x unknown ids, run by the real TransferQueue in a child process; non-trivial = script with >= 1 failure, duplicate id or retry; distinct = different encoded case"
	var cases []tqCase
	for _, l := range corpusLines(c, "C06") {
		if tc, ok := decodeTqCase(l); ok {
			cases = append(cases, tc)
		}
	}
	if c.Replay != "" {
		cases = nil
		if tc, ok := decodeTqCase(replayCase(c)); ok {
			cases = append(cases, tc)
		}
		n = 0
	}
	for i := 0; i < n; i++ {
		cases = append(cases, genTqCase(r, c, prop))
	}
	obs := runTqCases(c, cases)
	var mlines []string
	var midx []int
	for i, tc := range cases {
		o := obs[i]
		enc := tc.encode()
		nontrivial := len(tc.Adds) > tc.N
		for _, sc := range tc.Obj {
			for _, e := range sc {
				if e != "action:ok" {
					nontrivial = true
				}
			}
		}
		for _, cl := range tc.Calls {
			if cl != "200" {
				nontrivial = true
			}
		}
		c.R.Eval(enc, nontrivial)
		if o == nil {
			c.R.Add(Finding{Kind: "diff", What: "no observation for this case (child process problem)", Case: enc, Broken: "corr." + prop + ".trace"})
			continue
		}
		if o.Inconclusive {
			c.R.Count("inconclusive")
			continue
		}
		for _, cl := range o.Calls {
			c.R.Count("adapter." + strings.TrimSuffix(cl.Outcome, "+overlap"))
		}
		for _, b := range o.Batches {
			c.R.Count("batchcall." + b.Call)
		}
		c.R.Count(fmt.Sprintf("wait_returned.%v", o.WaitReturned))
		if i%(len(cases)/5+1) == 0 {
			c.R.Sample(map[string]interface{}{"case": tc, "delivered": len(o.Delivered), "errors": len(o.Errors), "batches": len(o.Batches), "adapter_calls": len(o.Calls), "trace_events": len(o.Trace)})
		}
		v06, v15 := tqOracle(tc, o)
		vs := v06
		if prop == "C15" {
			vs = v15
			if o.Panic != "" || o.AddBlocked || !o.WaitReturned {
				vs = append(vs, v06...) // a hang or panic also breaks the retry discipline's observability
			}
		}
		for _, why := range vs {
			c.R.Add(Finding{Kind: "oracle", What: why, Case: enc, Impl: clip(fmt.Sprintf("delivered=%v errors=%v", o.Delivered, o.Errors), 500)})
		}
		if o.Panic == "" && len(o.Trace) > 0 {
			ev := traceEvents(tc, o)
			mlines = append(mlines, fmt.Sprintf("TQ trace %d %d %d %s", tc.N, tc.BatchSize, tc.MaxRetries, strings.Join(ev, ",")))
			midx = append(midx, i)
		}
	}
	model, err := c.Or.Ask(mlines)
	if err != nil {
		c.R.Add(Finding{Kind: "diff", What: "oracle process failed: " + err.Error(), Broken: "corr." + prop + ".trace"})
		return
	}
	for k, i := range midx {
		tc, o := cases[i], obs[i]
		// expected final line from the observation: per-oid class
		var cls []string
		dl := map[string]int{}
		for _, d := range o.Delivered {
			dl[d]++
		}
		for j := 0; j < tc.N; j++ {
			cls = append(cls, fmt.Sprintf("%d", dl[tqOid(j)]))
		}
		want := "ok delivered=" + strings.Join(cls, "/")
		got := model[k]
		if !strings.HasPrefix(got, "ok ") {
			c.R.Add(Finding{Kind: "diff", What: "trace validation: an observed event is not enabled in the model", Case: tc.encode(), Impl: clip(strings.Join(traceEvents(tc, o), ","), 700), Model: clip(got, 400), Broken: "corr." + prop + ".trace"})
			continue
		}
		if o.WaitReturned && strings.SplitN(got, " term=", 2)[0] != want {
			c.R.Add(Finding{Kind: "diff", What: "trace validation: the model's delivery counts differ from the watcher's", Case: tc.encode(), Impl: want, Model: clip(got, 400), Broken: "corr." + prop + ".trace"})
		}
		// error coverage: the model reports an error whenever an object ends as errored (theorem
		// C06.errored_objects_are_reported); the queue's Errors() must not be empty then
		c.R.Count("model.tail." + got[max(0, len(got)-14):])
		if strings.HasSuffix(got, "reported=true") {
			c.R.Count("model.reported")
			if len(o.Errors) == 0 {
				c.R.Count("model.reported+impl.no-errors")
			}
		}
		if o.WaitReturned && strings.HasSuffix(got, "reported=true") && len(o.Errors) == 0 {
			c.R.Add(Finding{Kind: "diff", What: "trace validation: the model reports an error for this run, the queue's Errors() is empty", Case: tc.encode(), Impl: "errors=[]", Model: clip(got, 400), Broken: "corr." + prop + ".errors"})
		}
	}
	if prop == "C15" && c.Replay == "" {
		c15Direct(c, r)
	}
}

// c15Direct: the retry-delay arithmetic and the manifest's reading of the two settings.
func c15Direct(c *Ctx, r *Rng) {
	var lines []string
	type dc struct{ count, max int }
	var dcs []dc
	for _, cnt := range []int{1, 2, 3, 4, 5, 6, 7, 8, 9, 10, 16, 32, 55, 56, 57, 58, 62, 63, 64, 65, 66, 100, 1000} {
		for _, mx := range []int{0, 1, 2, 5, 10, 60, 3600, 1 << 20, 1 << 31} {
			dcs = append(dcs, dc{cnt, mx})
		}
	}
	for i := 0; i < c.N(300, 5000); i++ {
		dcs = append(dcs, dc{1 + r.Intn(70), r.Intn(100)})
	}
	for _, d := range dcs {
		lines = append(lines, fmt.Sprintf("C15 delay %d %d", d.count, d.max))
	}
	model, err := c.Or.Ask(lines)
	if err != nil {
		c.R.Add(Finding{Kind: "diff", What: "oracle process failed: " + err.Error(), Broken: "corr.C15.delay"})
		return
	}
	for i, d := range dcs {
		got := tq.VerifReadyDelay(d.count, d.max)
		ms := (got + time.Millisecond/2) / time.Millisecond
		c.R.Eval(lines[i], true)
		c.R.Count("delay")
		impl := fmt.Sprintf("delay %d", int64(ms))
		if int64(ms) > int64(d.max)*1000 || ms < 0 {
			c.R.Add(Finding{Kind: "oracle", What: fmt.Sprintf("the wait before retry %d is %d ms although lfs.transfer.maxretrydelay=%d", d.count, int64(ms), d.max), Case: lines[i], Impl: impl})
		}
		if model[i] != impl {
			c.R.Add(Finding{Kind: "diff", What: "retry delay: model and implementation disagree", Case: lines[i], Impl: impl, Model: model[i], Broken: "corr.C15.delay"})
		}
	}
	// the manifest's reading of the settings
	for _, v := range []string{"unset", "0", "1", "2", "10", "30", "-1", "abc"} {
		git := map[string][]string{"lfs.url": {"http://127.0.0.1:1/"}}
		if v != "unset" {
			git["lfs.transfer.maxretrydelay"] = []string{v}
		}
		cfg := config.NewFrom(config.Values{Git: git})
		cl, err := lfsapi.NewClient(cfg)
		if err != nil {
			continue
		}
		m := tq.NewManifest(cfg.Filesystem(), cl, "download", "origin")
		got := m.MaxRetryDelay()
		cs := "C15 maxretrydelay " + v
		c.R.Eval(cs, true)
		c.R.Count("manifest")
		// manual (git-lfs-config): "lfs.transfer.maxretrydelay … Default 10 … use zero to disable delays altogether"
		want := map[string]int{"unset": 10, "0": 0, "1": 1, "2": 2, "10": 10, "30": 30, "-1": 10, "abc": 10}[v]
		if got != want {
			c.R.Add(Finding{Kind: "oracle", What: fmt.Sprintf("lfs.transfer.maxretrydelay=%s is read as %d (the manual: default 10, zero disables delays)", v, got), Case: cs, Impl: fmt.Sprint(got)})
		}
	}
	_ = sort.Strings
}

func init() {
	campaigns["C06"] = func(c *Ctx) {
		tqCampaign(c, "C06")
		if c.Replay == "" {
			c06Real(c, NewRng(c.Seed^0xC06A), "C06")
			c06AgentStart(c, NewRng(c.Seed^0xC06B))
			c06Awg(c, NewRng(c.Seed^0xC06C))
			c06Concat(c, NewRng(c.Seed^0xC06B))
		}
	}
	campaigns["C15"] = func(c *Ctx) {
		tqCampaign(c, "C15")
		if c.Replay == "" {
			c06Real(c, NewRng(c.Seed^0xC15A), "C15")
			c15Expiry(c, NewRng(c.Seed^0xC15E))
			c15RetryAfter(c, NewRng(c.Seed^0xC15F))
		}
	}
}
