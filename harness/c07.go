// C07: pointer codec. Correspondence lfs.DecodePointer / Pointer.Encoded vs Lfs.dec / Lfs.enc,
// plus the property oracle evaluated on the Go results alone.
package main

import (
	"bytes"
	"fmt"
	"regexp"
	"strings"

	"github.com/git-lfs/git-lfs/v3/errors"
	"github.com/git-lfs/git-lfs/v3/lfs"
)

const hexd = "0123456789abcdef"

func randOid(r *Rng) string {
	b := make([]byte, 64)
	for i := range b {
		b[i] = hexd[r.Intn(16)]
	}
	return string(b)
}

var sizesOfInterest = []int64{0, 1, 2, 9, 10, 99, 12345, 1 << 31, 1<<63 - 1, 1 << 62, 1000000007}

func randName(r *Rng) string {
	const first = "abcdefgzABZ019_"
	const rest = "abcxyzABZ019_-$.+é"
	n := 1 + r.Intn(6)
	s := string(first[r.Intn(len(first))])
	for i := 1; i < n; i++ {
		rs := []rune(rest)
		s += string(rs[r.Intn(len(rs))])
	}
	return s
}

// genPointer: a grammar-generated pointer; valid=true when it meets Valid of the model.
func genPointer(r *Rng) *lfs.Pointer {
	var size int64
	if r.Chance(60) {
		size = Pick(r, sizesOfInterest)
	} else {
		size = int64(r.U64() >> uint(1+r.Intn(62)))
	}
	var exts []*lfs.PointerExtension
	if r.Chance(45) {
		n := 1 + r.Intn(4)
		if r.Chance(10) {
			n = 10
		}
		prios := r.permPrefix(10, n)
		sortInts(prios)
		for _, p := range prios {
			exts = append(exts, lfs.NewPointerExtension(randName(r), p, randOid(r)))
		}
	}
	return lfs.NewPointer(randOid(r), size, exts)
}

func (r *Rng) permPrefix(n, k int) []int {
	p := make([]int, n)
	for i := range p {
		p[i] = i
	}
	for i := 0; i < k && i < n; i++ {
		j := i + r.Intn(n-i)
		p[i], p[j] = p[j], p[i]
	}
	if k > n {
		k = n
	}
	return p[:k]
}
func sortInts(a []int) {
	for i := 1; i < len(a); i++ {
		for j := i; j > 0 && a[j-1] > a[j]; j-- {
			a[j-1], a[j] = a[j], a[j-1]
		}
	}
}

var c07Frags = []string{" ", "\t", "\n", "\r", "\r\n", "\v", "\f", "\u0085", " ", " ", " ", " ", "　", "​", "\xc2", "\xe2\x80", "\x00", "\xff",
	"+", "-", "0", "007", "_", "9223372036854775808", "9223372036854775807", "-0", "+5",
	"version https://git-lfs.github.com/spec/v1\n", "version http://git-media.io/v/2\n", "version https://hawser.github.com/spec/v1\n", "version https://git-lfs.github.com/spec/v2\n",
	"ext-10-x sha256:", "ext-1- sha256:", "ext--1-x sha256:", "ext-1-foo sha256:0123456789abcdef0123456789abcdef0123456789abcdef0123456789abcdef\n",
	"oid sha256:", "oid md5:", "size ", "size 1_0\n", "git-lfs", "hawser", "git-media", "A", "F", "g", ":", "  ", "x y\n"}

func mutate(r *Rng, b []byte) []byte {
	b = append([]byte(nil), b...)
	lines := func() [][]byte { return bytes.SplitAfter(b, []byte("\n")) }
	switch r.Intn(14) {
	case 0: // delete a byte
		if len(b) > 0 {
			i := r.Intn(len(b))
			b = append(b[:i], b[i+1:]...)
		}
	case 1: // insert fragment
		f := []byte(Pick(r, c07Frags))
		i := r.Intn(len(b) + 1)
		b = append(b[:i], append(f, b[i:]...)...)
	case 2: // replace a byte
		if len(b) > 0 {
			b[r.Intn(len(b))] = byte(r.U64())
		}
	case 3: // case flip
		if len(b) > 0 {
			i := r.Intn(len(b))
			b[i] ^= 0x20
		}
	case 4: // delete a line
		ls := lines()
		if len(ls) > 1 {
			i := r.Intn(len(ls))
			ls = append(ls[:i:i], ls[i+1:]...)
			b = bytes.Join(ls, nil)
		}
	case 5: // duplicate a line
		ls := lines()
		i := r.Intn(len(ls))
		ls = append(ls[:i+1:i+1], ls[i:]...)
		b = bytes.Join(ls, nil)
	case 6: // swap two lines
		ls := lines()
		if len(ls) > 1 {
			i, j := r.Intn(len(ls)), r.Intn(len(ls))
			ls[i], ls[j] = ls[j], ls[i]
			b = bytes.Join(ls, nil)
		}
	case 7: // prepend fragment
		b = append([]byte(Pick(r, c07Frags)), b...)
	case 8: // append fragment
		b = append(b, Pick(r, c07Frags)...)
	case 9: // LF -> CRLF or CR
		if r.Bool() {
			b = bytes.ReplaceAll(b, []byte("\n"), []byte("\r\n"))
		} else {
			b = bytes.Replace(b, []byte("\n"), []byte("\r"), 1)
		}
	case 10: // pad up to / around the window
		target := 1024 + r.Intn(5) - 2
		pad := Pick(r, []string{"\n", " ", "\t", "x"})
		for len(b) < target {
			b = append(b, pad...)
		}
	case 11: // strip the final LF
		b = bytes.TrimSuffix(b, []byte("\n"))
	case 12: // space <-> tab
		if i := bytes.IndexByte(b, ' '); i >= 0 && r.Bool() {
			b[i] = '\t'
		} else {
			b = bytes.Replace(b, []byte(" "), []byte("  "), 1)
		}
	case 13: // change a digit / hex digit
		if len(b) > 0 {
			i := r.Intn(len(b))
			b[i] = "0123456789abcdefABCDEFg"[r.Intn(23)]
		}
	}
	return b
}

func fmtPtr(p *lfs.Pointer) string {
	var ex []string
	for _, e := range p.Extensions {
		ex = append(ex, fmt.Sprintf("%d:%s:%s", e.Priority, hx([]byte(e.Name)), hx([]byte(e.Oid))))
	}
	return fmt.Sprintf("%s %d [%s]", hx([]byte(p.Oid)), p.Size, strings.Join(ex, ","))
}

// implDecode runs the real decoder, recover-guarded.
func implDecode(b []byte) (line string, p *lfs.Pointer, panicked bool) {
	defer func() {
		if x := recover(); x != nil {
			line, panicked = fmt.Sprintf("panic %v", x), true
		}
	}()
	p, err := lfs.DecodePointer(bytes.NewReader(b))
	if err != nil {
		switch {
		case errors.IsNotAPointerError(err):
			return "err notptr", nil, false
		case errors.IsBadPointerKeyError(err):
			return "err badkey", nil, false
		default:
			return "err other", nil, false
		}
	}
	return fmt.Sprintf("ok %s canon=%v enc=%s", fmtPtr(p), p.Canonical, hx([]byte(p.Encoded()))), p, false
}

var oidReSpec = regexp.MustCompile(`^[0-9a-f]{64}$`)

// c07Oracle: the property itself on the implementation's answer (independent of the model).
func c07Oracle(b []byte, p *lfs.Pointer) string {
	if !oidReSpec.MatchString(p.Oid) {
		return "accepted pointer whose oid is not 64 lower-case hex digits"
	}
	if p.Size < 0 {
		return "accepted pointer with negative size"
	}
	last := -1
	for _, e := range p.Extensions {
		if e.Priority <= last {
			return "extension priorities not unique and ascending"
		}
		last = e.Priority
		if !oidReSpec.MatchString(e.Oid) {
			return "extension oid is not 64 lower-case hex digits"
		}
	}
	if p.Canonical != (specCanonical(p) == string(b)) {
		return "canonical flag differs from (input == canonical encoding of the decoded pointer)"
	}
	return ""
}

// specCanonical: the canonical form written from docs/spec.md, independently of Pointer.Encoded:
// version line first, remaining keys in byte order (ext-* < oid < size), one "key SP value LF" each;
// the empty file for size 0.
func specCanonical(p *lfs.Pointer) string {
	if p.Size == 0 {
		return ""
	}
	keys := []string{}
	vals := map[string]string{}
	for _, e := range p.Extensions {
		k := fmt.Sprintf("ext-%d-%s", e.Priority, e.Name)
		keys = append(keys, k)
		vals[k] = "sha256:" + e.Oid
	}
	keys = append(keys, "oid", "size")
	vals["oid"] = "sha256:" + p.Oid
	vals["size"] = fmt.Sprintf("%d", p.Size)
	sortStrings(keys)
	s := "version https://git-lfs.github.com/spec/v1\n"
	for _, k := range keys {
		s += k + " " + vals[k] + "\n"
	}
	return s
}
func sortStrings(a []string) {
	for i := 1; i < len(a); i++ {
		for j := i; j > 0 && a[j-1] > a[j]; j-- {
			a[j-1], a[j] = a[j], a[j-1]
		}
	}
}

func validForRoundTrip(p *lfs.Pointer) bool {
	if p.Size <= 0 {
		return false
	}
	return len(p.Encoded()) < 1024
}

func c07(c *Ctx) {
	r := NewRng(c.Seed)
	n := c.N(40000, 600000)
	c.R.Rule = "cases = corpus + grammar-generated pointers (10%), 1-3-step mutants of their encodings (80%), random bytes (10%); non-trivial = accepted input, or rejected input within 3 edits of an accepted one; distinct = different input bytes"
	var inputs [][]byte
	var kinds []string
	for _, s := range corpusLines(c, "C07") {
		inputs = append(inputs, unhx(s))
		kinds = append(kinds, "corpus")
	}
	// directed family: every extension priority 0..9 used twice under different names (alone, between
	// other extensions, in both orders), every single priority, and the full set of ten
	for p := 0; p <= 9; p++ {
		oid := randOid(r)
		line := func(pr int, name string) string { return fmt.Sprintf("ext-%d-%s sha256:%s\n", pr, name, oid) }
		head := "version https://git-lfs.github.com/spec/v1\n"
		tail := fmt.Sprintf("oid sha256:%s\nsize 12\n", oid)
		variants := []string{
			head + line(p, "foo") + line(p, "bar") + tail,
			head + line(p, "bar") + line(p, "foo") + tail,
			head + line(p, "only") + tail,
		}
		if p > 0 {
			variants = append(variants, head+line(p-1, "lo")+line(p, "foo")+line(p, "bar")+tail)
		}
		if p < 9 {
			variants = append(variants, head+line(p, "foo")+line(p, "bar")+line(p+1, "hi")+tail, head+line(p+1, "hi")+line(p, "foo")+tail)
		}
		for _, v := range variants {
			inputs = append(inputs, []byte(v))
			kinds = append(kinds, "directed-ext")
		}
	}
	// directed family: degenerate inputs — white space only (every kind, lengths up to and beyond the
	// cutoff), a valid pointer wrapped in white space, the empty input
	for _, ws := range []string{"\n", " ", "\r\n", "\t", "\v", "\f", "\n\n", " \n ", "\u0085", "\u00a0", "\u2028"} {
		for _, k := range []int{1, 2, 7, 200, 1023, 1024, 1025, 3000} {
			inputs = append(inputs, []byte(strings.Repeat(ws, k)))
			kinds = append(kinds, "directed-blank")
		}
		valid := fmt.Sprintf("version https://git-lfs.github.com/spec/v1\noid sha256:%s\nsize 5\n", randOid(r))
		for _, v := range []string{ws + valid, valid + ws, ws + valid + ws, strings.Replace(valid, "\n", "\n"+ws, 1)} {
			inputs = append(inputs, []byte(v))
			kinds = append(kinds, "directed-blank")
		}
	}
	inputs = append(inputs, []byte{})
	kinds = append(kinds, "directed-blank")
	// directed family: pointers whose canonical encoding is 1000..1030 bytes long (a long extension name),
	// alone and followed by a tail — the size cutoff of the decoder sits at 1024 bytes
	for L := 1000; L <= 1030; L++ {
		oid := randOid(r)
		mk := func(pad int) string {
			return fmt.Sprintf("version https://git-lfs.github.com/spec/v1\next-0-%s sha256:%s\noid sha256:%s\nsize 12345\n", strings.Repeat("a", pad), oid, oid)
		}
		pad := L - len(mk(0))
		if pad < 1 {
			continue
		}
		enc := mk(pad)
		for _, tail := range []string{"", "\n", "x", strings.Repeat("\n", 2000), "trailing data " + strings.Repeat("z", 900)} {
			inputs = append(inputs, []byte(enc+tail))
			kinds = append(kinds, "directed-cutoff")
		}
	}
	var ptrs []*lfs.Pointer
	for i := 0; i < n; i++ {
		k := r.Intn(10)
		switch {
		case k == 0:
			p := genPointer(r)
			ptrs = append(ptrs, p)
			inputs = append(inputs, []byte(p.Encoded()))
			kinds = append(kinds, "valid")
		case k == 1:
			m := r.Intn(300)
			if r.Chance(15) {
				m = 1000 + r.Intn(3000)
			}
			inputs = append(inputs, r.Bytes(m))
			kinds = append(kinds, "random")
		default:
			b := []byte(genPointer(r).Encoded())
			if len(b) == 0 {
				b = []byte(lfs.NewPointer(randOid(r), 7, nil).Encoded())
			}
			steps := 1 + r.Intn(3)
			for s := 0; s < steps; s++ {
				b = mutate(r, b)
			}
			inputs = append(inputs, b)
			kinds = append(kinds, "mutant")
		}
	}
	// decode side
	lines := make([]string, len(inputs))
	for i, b := range inputs {
		lines[i] = "C07 dec " + hx(b)
	}
	model, err := c.Or.Ask(lines)
	if err != nil {
		c.R.Add(Finding{Kind: "diff", What: "oracle process failed: " + err.Error(), Broken: "corr.C07.decode"})
	}
	for i, b := range inputs {
		il, p, panicked := implDecode(b)
		c.R.Count("kind." + kinds[i])
		if p != nil {
			c.R.Count("impl.accepted")
		} else {
			c.R.Count("impl." + strings.ReplaceAll(il, " ", "."))
		}
		c.R.Eval(string(b), p != nil || kinds[i] == "mutant" || kinds[i] == "corpus")
		if i%(len(inputs)/5+1) == 0 {
			c.R.Sample(map[string]string{"input_hex": clip(hx(b), 400), "impl": clip(il, 300)})
		}
		if panicked {
			c.R.Add(Finding{Kind: "oracle", What: "decoder panicked", Case: hx(b), Impl: il})
			continue
		}
		if p != nil {
			if p.Canonical {
				c.R.Count("accepted.canonical")
			}
			if why := c07Oracle(b, p); why != "" {
				c.R.Add(Finding{Kind: "oracle", What: why, Case: hx(b), Impl: il})
			}
		}
		if model != nil && il != model[i] {
			c.R.Add(Finding{Kind: "diff", What: "decode: model and implementation disagree", Case: hx(b), Impl: clip(il, 600), Model: clip(model[i], 600), Broken: "corr.C07.decode"})
		}
	}
	// encode side + round trip on the implementation
	elines := make([]string, len(ptrs))
	for i, p := range ptrs {
		elines[i] = "C07 enc " + fmtPtr(p)
	}
	emodel, err := c.Or.Ask(elines)
	if err != nil {
		c.R.Add(Finding{Kind: "diff", What: "oracle process failed: " + err.Error(), Broken: "corr.C07.encode"})
	}
	for i, p := range ptrs {
		enc := p.Encoded()
		c.R.Eval("enc:"+enc, true)
		if emodel != nil && emodel[i] != "enc "+hx([]byte(enc)) {
			c.R.Add(Finding{Kind: "diff", What: "encode: model and implementation disagree", Case: fmtPtr(p), Impl: hx([]byte(enc)), Model: emodel[i], Broken: "corr.C07.encode"})
		}
		if enc != specCanonical(p) {
			c.R.Add(Finding{Kind: "oracle", What: "encoder output is not the specification's canonical form", Case: fmtPtr(p), Impl: hx([]byte(enc))})
		}
		if validForRoundTrip(p) {
			c.R.Count("roundtrip")
			q, err := lfs.DecodePointer(strings.NewReader(enc))
			if err != nil || fmtPtr(q) != fmtPtr(p) || !q.Canonical {
				c.R.Add(Finding{Kind: "oracle", What: "decode(encode(p)) != p or not reported canonical", Case: fmtPtr(p), Impl: fmt.Sprint(err)})
			}
		}
	}
}

func init() { campaigns["C07"] = c07 }
