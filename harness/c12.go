// C12: migrate import/export rewrites history without changing any file's content.
// Scenarios with the real binary: histories with merges, annotated and lightweight tags, symlinks,
// executable files, mode-only changes, renames, nested .gitattributes, files already tracked by LFS
// and empty files; selections by --include/--exclude, --above, --include-ref, --everything,
// --no-rewrite; old and new histories are read with plumbing and compared commit by commit and path
// by path (mode, content after resolving pointers through local storage, representation), refs and
// tags must point at the images, export after import must restore the original blobs; the rewritten
// trees are compared with the Lean model's memoised rewrite.
package main

import (
	"bytes"
	"fmt"
	"os"
	"path/filepath"
	"sort"
	"strings"
	"sync"
)

type c12Entry struct {
	mode, typ, blob, path string
}

type c12Commit struct {
	id      string
	parents []string
	header  string // author, committer, encoding/gpgsig headers and message
	tree    []c12Entry
}

func c12ReadHistory(w *scenRepo) (map[string]*c12Commit, []string) {
	out := map[string]*c12Commit{}
	var order []string
	lines := strings.Split(strings.TrimSpace(w.must("rev-list", "--all", "--topo-order", "--reverse", "--parents")), "\n")
	for _, l := range lines {
		f := strings.Fields(l)
		if len(f) == 0 {
			continue
		}
		cm := &c12Commit{id: f[0], parents: f[1:]}
		raw, _ := w.git("cat-file", "commit", f[0])
		var hdr []string
		for i, hl := range strings.Split(raw, "\n") {
			if strings.HasPrefix(hl, "tree ") || strings.HasPrefix(hl, "parent ") {
				if i < 10 {
					continue
				}
			}
			hdr = append(hdr, hl)
		}
		cm.header = strings.Join(hdr, "\n")
		ls, _ := w.git("ls-tree", "-r", "-z", f[0])
		for _, ent := range strings.Split(ls, "\x00") {
			tab := strings.SplitN(ent, "\t", 2)
			ff := strings.Fields(tab[0])
			if len(tab) != 2 || len(ff) < 3 {
				continue
			}
			cm.tree = append(cm.tree, c12Entry{ff[0], ff[1], ff[2], tab[1]})
		}
		out[f[0]] = cm
		order = append(order, f[0])
	}
	return out, order
}

// resolve: the content a blob stands for (pointer -> local object)
func c12Resolve(w *scenRepo, cache map[string][]byte, blob string) ([]byte, bool, bool) {
	if b, ok := cache[blob]; ok {
		p, isp := isPointerText(b)
		if isp && p.Size > 0 {
			obj, err := os.ReadFile(w.objectPath(p.Oid))
			return obj, true, err == nil
		}
		return b, false, true
	}
	out, _ := w.git("cat-file", "blob", blob)
	cache[blob] = []byte(out)
	return c12Resolve(w, cache, blob)
}

type c12Sel struct {
	args  []string
	match func(path string, size int) bool
	name  string
}

func c12Selections(r *Rng) c12Sel {
	bin := func(p string, _ int) bool { return strings.HasSuffix(p, ".bin") }
	switch r.Intn(7) {
	case 6:
		// an exclude pattern without a slash is compared with the NAME OF A FILE: a directory that happens to be
		// called store.dat is not excluded by `*.dat`, and the *.bin files in it are selected
		return c12Sel{[]string{"--everything", "--include=*.bin", "--exclude=*.dat"}, bin, "*.bin minus *.dat (a directory is named store.dat)"}
	case 0:
		return c12Sel{[]string{"--everything", "--include=*.bin"}, bin, "*.bin"}
	case 1:
		return c12Sel{[]string{"--everything", "--include=*.bin,*.dat"}, func(p string, _ int) bool { return strings.HasSuffix(p, ".bin") || strings.HasSuffix(p, ".dat") }, "*.bin,*.dat"}
	case 2:
		return c12Sel{[]string{"--everything", "--include=*.bin", "--exclude=dir/c.bin"}, func(p string, n int) bool { return bin(p, n) && p != "dir/c.bin" }, "*.bin minus dir/c.bin"}
	case 3:
		return c12Sel{[]string{"--everything", "--above=1kb"}, func(p string, n int) bool { return n >= 1000 && filepath.Base(p) != ".gitattributes" }, "above 1kb"}
	case 4:
		return c12Sel{[]string{"--everything"}, func(p string, _ int) bool { return filepath.Base(p) != ".gitattributes" }, "everything"}
	default:
		return c12Sel{[]string{"--everything", "--include=*.dat"}, func(p string, _ int) bool { return strings.HasSuffix(p, ".dat") }, "*.dat"}
	}
}

func c12Scenario(c *Ctx, idx int, r *Rng) (mline, mimpl, mcase string) {
	base := filepath.Join(c.Work, fmt.Sprintf("c12-%d", idx))
	defer os.RemoveAll(base)
	os.MkdirAll(base, 0o755)
	w, err := newScenRepo(c, filepath.Join(base, "w"), nil)
	if err != nil {
		c.R.Add(Finding{Kind: "diff", What: "scenario setup: " + err.Error(), Broken: "corr.C12.scenario"})
		return
	}
	for _, e := range w.env {
		if strings.HasPrefix(e, "GIT_CONFIG_GLOBAL=") {
			g := strings.TrimPrefix(e, "GIT_CONFIG_GLOBAL=")
			for k, v := range map[string]string{"filter.lfs.clean": "git-lfs clean -- %f", "filter.lfs.smudge": "git-lfs smudge -- %f", "filter.lfs.process": "git-lfs filter-process", "filter.lfs.required": "true"} {
				runIn(base, w.env, "git", "config", "--file", g, k, v)
			}
		}
	}
	var steps []string
	log := func(f string, a ...interface{}) { steps = append(steps, fmt.Sprintf(f, a...)) }
	day := 1
	skew := false // the next commit carries dates OLDER than every commit so far (clock skew, imported history, git am)
	commit := func(msg string) {
		env := []string{fmt.Sprintf("GIT_AUTHOR_DATE=2023-03-%02dT10:00:00+0100", day), fmt.Sprintf("GIT_COMMITTER_DATE=2023-04-%02dT11:30:00-0500", day),
			"GIT_AUTHOR_NAME=" + Pick(r, []string{"Ann Author", "Bob Ü. Writer"}), "GIT_AUTHOR_EMAIL=a@example.invalid", "GIT_COMMITTER_NAME=Carl Committer"}
		day++
		if skew {
			env[0], env[1] = fmt.Sprintf("GIT_AUTHOR_DATE=2019-01-%02dT10:00:00+0100", day), fmt.Sprintf("GIT_COMMITTER_DATE=2019-01-%02dT11:30:00-0500", day)
			skew = false
		}
		w.gitEnv(env, "add", "-A")
		w.gitEnv(env, "commit", "-qm", msg+"\n\nbody line of "+msg+"\n", "--allow-empty")
	}
	preTracked := r.Chance(35)
	if preTracked {
		w.write(".gitattributes", []byte("*.pre filter=lfs diff=lfs merge=lfs -text\n"))
		w.write("old.pre", r.Bytes(1500))
		log("pre-tracked old.pre")
	}
	if r.Chance(30) {
		w.write("dir/.gitattributes", []byte("*.txt text\n"))
		log("nested .gitattributes")
	}
	files := []string{"a.bin", "b.bin", "dir/c.bin", "d.dat", "dir/sub/e.dat", "notes.txt", "tool.bin", "store.dat/inner.bin", "dir/store.dat/deep/more.bin"}
	write := func(f string) {
		w.write(f, r.Bytes(Pick(r, []int{5, 300, 2500, 6000})))
	}
	for _, f := range files {
		if r.Chance(75) {
			write(f)
		}
	}
	if r.Chance(40) {
		w.write("empty.bin", nil)
	}
	if r.Chance(40) {
		os.Symlink("a.bin", filepath.Join(w.dir, "link.bin"))
	}
	if r.Chance(50) {
		os.Chmod(filepath.Join(w.dir, "tool.bin"), 0o755)
	}
	commit("first")
	branches := []string{"master"}
	nops := 2 + r.Intn(6)
	for op := 0; op < nops; op++ {
		switch r.Intn(9) {
		case 0, 1, 2:
			write(Pick(r, files))
			commit(fmt.Sprintf("edit %d", op))
			log("edit")
		case 3: // mode-only change
			f := Pick(r, []string{"tool.bin", "a.bin", "d.dat"})
			p := filepath.Join(w.dir, f)
			if fi, err := os.Stat(p); err == nil {
				if fi.Mode()&0o100 != 0 {
					os.Chmod(p, 0o644)
				} else {
					os.Chmod(p, 0o755)
				}
				commit(fmt.Sprintf("chmod %s", f))
				log("chmod %s", f)
			}
		case 4:
			f := Pick(r, files)
			if _, err := os.Stat(filepath.Join(w.dir, f)); err == nil {
				w.git("mv", "-k", f, "renamed-"+filepath.Base(f))
				commit("rename")
				log("rename %s", f)
			}
		case 5:
			w.git("rm", "-q", "--ignore-unmatch", Pick(r, files))
			commit("remove")
			log("rm")
		case 6:
			cur := w.must("rev-parse", "--abbrev-ref", "HEAD")
			side := fmt.Sprintf("s%d", op)
			w.git("checkout", "-q", "-b", side)
			write(Pick(r, files))
			if r.Chance(45) {
				skew = true
				log("side commit with dates older than its ancestors")
			}
			commit("side work")
			w.git("checkout", "-q", cur)
			write(Pick(r, files))
			commit("main work")
			w.gitEnv([]string{fmt.Sprintf("GIT_AUTHOR_DATE=2023-03-%02dT10:00:00+0100", day), fmt.Sprintf("GIT_COMMITTER_DATE=2023-04-%02dT11:30:00-0500", day)}, "merge", "-q", "--no-ff", "--no-edit", "-X", "ours", side)
			day++
			branches = append(branches, side)
			log("merge %s", side)
		case 7:
			if ans := strings.Fields(w.must("tag", "-l", "an*")); len(ans) > 0 && r.Chance(35) {
				// a NESTED annotated tag: a tag object whose target is another tag object — whose own ref may have
				// been deleted since (a signed-off release tag on top of a build tag)
				inner := Pick(r, ans)
				w.gitEnv([]string{"GIT_COMMITTER_DATE=2023-06-01T00:00:00Z"}, "-c", "advice.nestedTag=false", "tag", "-a", "-m", fmt.Sprintf("outer %d", op), fmt.Sprintf("an%dn", op), inner)
				log("tag -a an%dn on tag %s", op, inner)
				c.R.Count("refs.nested-tag")
				if r.Chance(50) {
					w.git("tag", "-d", inner)
					log("tag -d %s", inner)
					c.R.Count("refs.nested-tag.inner-ref-deleted")
				}
			} else if r.Bool() {
				w.git("tag", fmt.Sprintf("lw%d", op))
				log("tag lw%d", op)
			} else {
				w.gitEnv([]string{"GIT_COMMITTER_DATE=2023-05-01T00:00:00Z"}, "tag", "-a", "-m", fmt.Sprintf("annotated %d\n\nwith body", op), fmt.Sprintf("an%d", op))
				log("tag -a an%d", op)
			}
		case 8:
			w.git("checkout", "-q", Pick(r, branches))
		}
	}
	if r.Chance(18) {
		// directed: a nested annotated tag whose inner tag has no ref of its own any more
		w.gitEnv([]string{"GIT_COMMITTER_DATE=2023-05-02T00:00:00Z"}, "tag", "-a", "-m", "build tag", "anbuild")
		w.gitEnv([]string{"GIT_COMMITTER_DATE=2023-06-02T00:00:00Z"}, "-c", "advice.nestedTag=false", "tag", "-a", "-m", "release tag", "anrelease", "anbuild")
		log("tag -a anbuild ; tag -a anrelease on tag anbuild")
		c.R.Count("refs.nested-tag")
		if r.Chance(65) {
			w.git("tag", "-d", "anbuild")
			log("tag -d anbuild")
			c.R.Count("refs.nested-tag.inner-ref-deleted")
		}
	}
	w.git("checkout", "-q", "master")
	// two refs in different namespaces with the same short name (release branch `v1` + release tag `v1`):
	// legal in Git, and each of them has to follow its commit
	if tl := strings.Fields(w.must("tag", "-l")); len(tl) > 0 && r.Chance(40) {
		tn := Pick(r, tl)
		at := Pick(r, strings.Fields(w.must("rev-list", "--all")))
		if _, code := w.git("branch", "-f", tn, at); code == 0 {
			log("branch %s (same short name as the tag) at %s", tn, at[:8])
			c.R.Count("refs.branch-and-tag-share-a-name")
		}
	}
	// ---- before
	oldH, oldOrder := c12ReadHistory(w)
	oldRefs := w.must("for-each-ref", "--format=%(refname) %(objecttype) %(objectname) %(*objectname)")
	oldCommitOf := map[string]string{} // ref -> the commit it leads to, through any number of tag objects
	for _, l := range strings.Split(oldRefs, "\n") {
		if f := strings.Fields(l); len(f) >= 3 {
			if cm, code := w.git("rev-parse", "-q", "--verify", f[0]+"^{commit}"); code == 0 {
				oldCommitOf[f[0]] = strings.TrimSpace(cm)
			}
		}
	}
	blobCache := map[string][]byte{}
	sel := c12Selections(r)
	noRewrite := r.Chance(12)
	mapFile := filepath.Join(base, "object-map")
	var args []string
	if noRewrite {
		var targets []string
		for _, e := range oldH[w.must("rev-parse", "HEAD")].tree {
			if strings.HasSuffix(e.path, ".bin") && e.typ == "blob" && (e.mode != "120000" || r.Chance(50)) {
				// a symbolic link whose NAME matches the tracked pattern may be among the paths the user names:
				// a link is never filtered, its blob is the target
				targets = append(targets, e.path)
				if e.mode == "120000" {
					c.R.Count("import.no-rewrite.symlink-named")
				}
			}
		}
		if len(targets) == 0 || !preTracked {
			noRewrite = false
		} else {
			// --no-rewrite needs the paths tracked in .gitattributes already
			w.write(".gitattributes", []byte("*.pre filter=lfs diff=lfs merge=lfs -text\n*.bin filter=lfs diff=lfs merge=lfs -text\n"))
			runIn(w.dir, append(append([]string(nil), w.env...), "GIT_LFS_SKIP_SMUDGE=1"), "git", "-c", "filter.lfs.clean=cat", "-c", "filter.lfs.process=", "-c", "filter.lfs.required=false", "add", ".gitattributes")
			w.git("commit", "-qm", "track bin", "--", ".gitattributes")
			oldH, oldOrder = c12ReadHistory(w)
			oldRefs = w.must("for-each-ref", "--format=%(refname) %(objecttype) %(objectname) %(*objectname)")
			args = append([]string{"migrate", "import", "--no-rewrite", "--yes"}, targets...)
			sel = c12Sel{nil, func(p string, _ int) bool { return strings.HasSuffix(p, ".bin") }, "no-rewrite *.bin"}
		}
	}
	// ---- which commits are in scope: everything, or the history of some refs minus the history of others
	var scope map[string]bool // nil = every commit
	refScope := ""
	if !noRewrite && r.Chance(30) {
		var heads []string
		for _, l := range strings.Split(w.must("for-each-ref", "--format=%(refname)", "refs/heads"), "\n") {
			if l = strings.TrimSpace(l); l != "" {
				heads = append(heads, l)
			}
		}
		sort.Strings(heads)
		inc := Pick(r, heads)
		exc := ""
		if len(heads) > 1 && r.Chance(60) {
			if exc = Pick(r, heads); exc == inc {
				exc = ""
			}
		}
		// refs that share their short name with a tag cannot be named by it
		short := func(ref string) string { return strings.TrimPrefix(ref, "refs/heads/") }
		ambiguous := func(ref string) bool {
			_, code := w.git("rev-parse", "-q", "--verify", "refs/tags/"+short(ref))
			return code == 0
		}
		var refArgs []string
		style := Pick(r, []string{"positional", "flags"})
		if ambiguous(inc) || (exc != "" && ambiguous(exc)) {
			style = "flags"
		}
		if style == "positional" {
			refArgs = append(refArgs, short(inc))
			if exc != "" {
				refArgs = append(refArgs, "^"+short(exc)) // the manual: "References beginning with ^ will be excluded"
			}
		} else {
			refArgs = append(refArgs, "--include-ref="+inc)
			if exc != "" {
				refArgs = append(refArgs, "--exclude-ref="+exc)
			}
		}
		rl := []string{"rev-list", inc}
		if exc != "" {
			rl = append(rl, "--not", exc)
		}
		scope = map[string]bool{}
		for _, cm := range strings.Fields(w.must(rl...)) {
			scope[cm] = true
		}
		var keep []string
		for _, a := range sel.args {
			if a != "--everything" {
				keep = append(keep, a)
			}
		}
		sel.args = append(keep, refArgs...)
		refScope = strings.Join(refArgs, " ")
		c.R.Count("import.ref-scope." + style)
	}
	if !noRewrite {
		args = append([]string{"migrate", "import", "--yes", "--object-map=" + mapFile}, sel.args...)
	}
	out, code := w.runLfs(args...)
	log("git lfs %s -> %d", strings.Join(args, " "), code)
	enc := fmt.Sprintf("C12 scen seed=%d idx=%d steps=%s", c.Seed, idx, strings.Join(steps, " ; "))
	c.R.Eval(enc, true)
	c.R.Count("import." + sel.name)
	fail := func(what, impl, sig string) {
		c.R.Add(Finding{Kind: "oracle", What: what, Case: clip(enc, 2500), Impl: clip(impl, 600), Sig: sig})
	}
	if code != 0 {
		fail("`git lfs migrate import` failed on a healthy repository", clip(out, 400), "")
		return
	}
	newH, _ := c12ReadHistory(w)
	img := map[string]string{}
	if mb, err := os.ReadFile(mapFile); err == nil {
		for _, l := range strings.Split(strings.TrimSpace(string(mb)), "\n") {
			p := strings.Split(l, ",")
			if len(p) == 2 {
				img[p[0]] = p[1]
			}
		}
	}
	image := func(old string) string {
		if n, ok := img[old]; ok {
			return n
		}
		return old
	}
	if noRewrite {
		// history before the new commit is untouched; the new tip has the same content
		head := w.must("rev-parse", "HEAD")
		nc := newH[head]
		oldHead := ""
		if nc != nil && len(nc.parents) == 1 {
			oldHead = nc.parents[0]
		}
		if oc, ok := oldH[oldHead]; !ok || nc == nil {
			fail("migrate import --no-rewrite did not add exactly one commit on top of the old tip", head, "")
		} else {
			for _, e := range oc.tree {
				var ne *c12Entry
				for i := range nc.tree {
					if nc.tree[i].path == e.path {
						ne = &nc.tree[i]
					}
				}
				if ne == nil || ne.mode != e.mode {
					fail("migrate import --no-rewrite changed the mode of / dropped a path", e.path, "")
					continue
				}
				a, _, _ := c12Resolve(w, blobCache, e.blob)
				b, _, okb := c12Resolve(w, blobCache, ne.blob)
				if !okb || string(a) != string(b) {
					fail("migrate import --no-rewrite changed a file's content", e.path, "")
				}
				if e.mode == "120000" && ne.blob != e.blob {
					fail("migrate import --no-rewrite changed a file's content", e.path+" (a symbolic link: its target is now LFS pointer text)", "")
				}
			}
		}
		for id, oc := range oldH {
			if nc2, ok := newH[id]; !ok || nc2.header != oc.header {
				fail("migrate import --no-rewrite rewrote an existing commit", id, "")
			}
		}
		return
	}
	// ---- commit by commit
	type bkey struct{ path, blob string }
	newBlobOf := map[bkey]string{}
	var modelCommits []string
	pathIdx := map[string]int{}
	blobIdx := map[string]int{}
	pid := func(p string) int {
		if _, ok := pathIdx[p]; !ok {
			pathIdx[p] = len(pathIdx) + 1
		}
		return pathIdx[p]
	}
	bid := func(b string) int {
		if _, ok := blobIdx[b]; !ok {
			blobIdx[b] = len(blobIdx) + 1
		}
		return blobIdx[b]
	}
	allowBits := map[int]bool{}
	convertible := map[string]bool{}
	var implCommits []string
	for _, oid := range oldOrder {
		oc := oldH[oid]
		nc, ok := newH[image(oid)]
		if !ok {
			fail("a commit of the original history has no image after migrate import", oid, "")
			continue
		}
		if scope != nil && !scope[oid] && image(oid) != oid {
			fail("migrate import rewrote a commit outside the references it was given", oid[:8]+" ("+refScope+")", "")
		}
		if nc.header != oc.header {
			fail("migrate import changed authorship, dates, extra headers or the message of a commit", fmt.Sprintf("%s:\n%s\n--- vs ---\n%s", oid[:8], clip(oc.header, 200), clip(nc.header, 200)), "")
		}
		inScope := scope == nil || scope[oid]
		var wantParents []string
		for _, p := range oc.parents {
			if inScope {
				wantParents = append(wantParents, image(p))
			} else {
				wantParents = append(wantParents, p) // a commit outside the given references is the same object as before
			}
		}
		if strings.Join(wantParents, " ") != strings.Join(nc.parents, " ") {
			fail("migrate import changed the shape of the commit graph (parents are not the images of the original parents)", oid[:8], "")
		}
		newByPath := map[string]c12Entry{}
		for _, e := range nc.tree {
			newByPath[e.path] = e
		}
		oldPaths := map[string]bool{}
		var mo, mi []string
		for _, e := range oc.tree {
			oldPaths[e.path] = true
			ne, ok := newByPath[e.path]
			if e.path == ".gitattributes" {
				continue
			}
			if !ok {
				fail("migrate import dropped a path from a commit", oid[:8]+" "+e.path, "")
				continue
			}
			if ne.mode != e.mode {
				fail("migrate import changed the mode of a path", fmt.Sprintf("%s %s: %s -> %s", oid[:8], e.path, e.mode, ne.mode), "")
			}
			a, aptr, _ := c12Resolve(w, blobCache, e.blob)
			b, bptr, okb := c12Resolve(w, blobCache, ne.blob)
			if !okb {
				fail("after migrate import a pointer's object is not in local storage", e.path, "")
			} else if string(a) != string(b) {
				fail("migrate import changed the content of a path (after resolving pointers through local storage)", fmt.Sprintf("%s %s: %d bytes -> %d bytes", oid[:8], e.path, len(a), len(b)), "")
			}
			raw, _ := blobCache[e.blob]
			selected := e.typ == "blob" && e.mode != "120000" && sel.match(e.path, len(raw)) && (scope == nil || scope[oid])
			conv := selected && !aptr && len(raw) > 0
			if conv && !bptr {
				fail("a selected path was not converted to an LFS pointer", fmt.Sprintf("%s %s", oid[:8], e.path), "")
			}
			if !conv && ne.blob != e.blob {
				fail("migrate import changed the representation of a path that was not selected", fmt.Sprintf("%s %s", oid[:8], e.path), "")
			}
			if inScope {
				if prev, ok := newBlobOf[bkey{e.path, e.blob}]; ok && prev != ne.blob {
					fail("the same (path, blob) was rewritten to two different blobs in two commits", e.path, "")
				}
				newBlobOf[bkey{e.path, e.blob}] = ne.blob
			}
			// model vocabulary
			if selected {
				allowBits[pid(e.path)] = true
			}
			if conv {
				convertible[fmt.Sprintf("%d:%d", pid(e.path), bid(e.blob))] = true
			}
			var modeN int
			fmt.Sscanf(e.mode, "%o", &modeN)
			mo = append(mo, fmt.Sprintf("%d:%d:%d", pid(e.path), modeN, bid(e.blob)))
			var modeM int
			fmt.Sscanf(ne.mode, "%o", &modeM)
			nb := fmt.Sprint(bid(e.blob))
			if ne.blob != e.blob {
				nb = fmt.Sprint(bid(e.blob) + 1000)
			}
			mi = append(mi, fmt.Sprintf("%d:%d:%s", pid(e.path), modeM, nb))
		}
		for p := range newByPath {
			if !oldPaths[p] && p != ".gitattributes" {
				fail("migrate import added a path other than the root .gitattributes to a commit", p, "")
			}
		}
		if inScope { // the model rewrites the commits it is given: those the command was asked to rewrite
			modelCommits = append(modelCommits, joinOrDash(mo))
			implCommits = append(implCommits, joinOrDash(mi))
		}
	}
	// ---- refs and tags
	for _, l := range strings.Split(oldRefs, "\n") {
		f := strings.Fields(l)
		if len(f) < 3 {
			continue
		}
		target := f[2]
		if f[1] == "tag" && len(f) == 4 {
			target = f[3]
		}
		if cm, ok := oldCommitOf[f[0]]; ok {
			target = cm
		}
		now, code := w.git("rev-parse", "-q", "--verify", f[0]+"^{commit}")
		if code != 0 || strings.TrimSpace(now) != image(target) {
			fail("after migrate import a ref does not point at the image of its commit", fmt.Sprintf("%s: %s want %s", f[0], strings.TrimSpace(now), image(target)), "")
		}
		if f[1] == "tag" {
			// the chain of tag objects between the ref and its commit, against the model TagRw.rewrite
			chain := func(obj string) (metas []string, commit string) {
				for depth := 0; depth < 8; depth++ {
					typ, _ := w.git("cat-file", "-t", obj)
					if strings.TrimSpace(typ) != "tag" {
						return metas, obj
					}
					body, _ := w.git("cat-file", "tag", obj)
					next := ""
					var keep []string
					for _, bl := range strings.Split(strings.TrimRight(body, "\n"), "\n") { // the final newline: D35 (known)
						if strings.HasPrefix(bl, "object ") && next == "" {
							next = strings.TrimPrefix(bl, "object ")
							continue
						}
						keep = append(keep, bl)
					}
					metas = append(metas, sha([]byte(strings.Join(keep, "\n"))))
					obj = next
				}
				return metas, obj
			}
			oldM, oldC := chain(f[2])
			nowSha, _ := w.git("rev-parse", "-q", "--verify", f[0])
			newM, newC := chain(strings.TrimSpace(nowSha))
			ids := map[string]int{}
			id := func(x string) int {
				if _, ok := ids[x]; !ok {
					ids[x] = len(ids) + 1
				}
				return ids[x]
			}
			encChain := func(ms []string, cm string) string {
				var t []string
				for _, m := range ms {
					t = append(t, fmt.Sprint(id(m)))
				}
				return strings.Join(t, ",") + ":" + fmt.Sprint(id(cm))
			}
			oldEnc := encChain(oldM, oldC)
			img := "-"
			if im := image(oldC); im != oldC {
				img = fmt.Sprintf("%d>%d", id(oldC), id(im))
			}
			newEnc := encChain(newM, newC)
			line := "C12 tagrw " + img + " " + oldEnc
			if ans, err := c.Or.Ask([]string{line}); err == nil && len(ans) == 1 {
				want := ans[0]
				if want == "none" {
					want = oldEnc
				}
				c.R.Count(fmt.Sprintf("tagchain.depth.%d", len(oldM)))
				if want != newEnc {
					c.R.Add(Finding{Kind: "diff", What: "a ref that reaches its commit through tag objects: the chain after migrate differs from the model's (TagRw.rewrite)", Case: clip(enc, 2500),
						Impl: f[0] + " " + newEnc, Model: want + " <= " + line, Broken: "corr.C12.tagchain"})
				}
			}
			typ, _ := w.git("cat-file", "-t", f[0])
			if strings.TrimSpace(typ) != "tag" {
				fail("an annotated tag did not stay an annotated tag", f[0], "")
			} else {
				oldMsg, _ := w.git("cat-file", "tag", f[2])
				newMsg, _ := w.git("cat-file", "tag", f[0])
				strip := func(s string) string {
					var keep []string
					for _, l := range strings.Split(s, "\n") {
						if !strings.HasPrefix(l, "object ") {
							keep = append(keep, l)
						}
					}
					return strings.Join(keep, "\n")
				}
				if strip(oldMsg) != strip(newMsg) {
					sig := ""
					if strip(oldMsg) == strip(newMsg)+"\n" {
						sig = "D35" // only the final newline of the tag message is gone (gitobj's tag codec)
					}
					fail("an annotated tag changed its tagger, date or message", f[0]+fmt.Sprintf(" %q vs %q", clip(strip(oldMsg), 120), clip(strip(newMsg), 120)), sig)
				}
			}
		}
	}
	// ---- export after import restores the original blobs
	if len(sel.args) >= 2 && strings.HasPrefix(sel.args[1], "--include=") {
		eargs := append([]string{"migrate", "export", "--yes"}, sel.args...)
		eout, ecode := w.runLfs(eargs...)
		log("git lfs %s -> %d", strings.Join(eargs, " "), ecode)
		if ecode != 0 {
			fail("`git lfs migrate export` of the selection just imported failed", clip(eout, 300), "")
		} else {
			expH, _ := c12ReadHistory(w)
			// commits are matched by header + position in topological order
			_, expOrder := c12ReadHistory(w)
			if len(expOrder) != len(oldOrder) {
				fail("export after import changed the number of commits", fmt.Sprint(len(expOrder), " vs ", len(oldOrder)), "")
			} else {
				byHeader := map[string]*c12Commit{}
				for _, id := range expOrder {
					byHeader[expH[id].header] = expH[id]
				}
				for _, oid := range oldOrder {
					oc := oldH[oid]
					ec := byHeader[oc.header]
					if ec == nil {
						fail("export after import lost a commit's metadata", oid[:8], "")
						continue
					}
					em := map[string]c12Entry{}
					for _, e := range ec.tree {
						em[e.path] = e
					}
					for _, e := range oc.tree {
						if e.path == ".gitattributes" {
							continue
						}
						if ne, ok := em[e.path]; !ok || ne.blob != e.blob || ne.mode != e.mode {
							fail("export after import of the same selection did not restore the original blob of a path", fmt.Sprintf("%s %s", oid[:8], e.path), "")
						}
					}
				}
			}
			c.R.Count("export-after-import")
		}
	}
	// ---- model line
	var ab []string
	for p := range allowBits {
		ab = append(ab, fmt.Sprint(p))
	}
	sort.Strings(ab)
	var cv []string
	for k := range convertible {
		cv = append(cv, k)
	}
	sort.Strings(cv)
	if len(modelCommits) == 0 {
		c.R.Count("import.ref-scope.empty")
		return "", "", "" // nothing was in scope: nothing to rewrite, nothing for the model to say
	}
	mline = fmt.Sprintf("C12 rewrite %s %s %s", joinOrDash(ab), joinOrDash(cv), strings.Join(modelCommits, "|"))
	mimpl = strings.Join(implCommits, "|")
	mcase = enc
	if idx%12 == 0 {
		c.R.Sample(map[string]interface{}{"steps": steps, "commits": len(oldOrder), "selection": sel.name})
	}
	return
}

// c12Fixup: `migrate import --fixup` converts, in every commit, the files that the commit's own
// .gitattributes declares as LFS but that are stored as plain blobs.  The history changes its
// attributes half-way: the decision for an unchanged (path, blob) differs between commits (D12).
func c12Fixup(c *Ctx, idx int, r *Rng) {
	base := filepath.Join(c.Work, fmt.Sprintf("c12f-%d", idx))
	defer os.RemoveAll(base)
	os.MkdirAll(base, 0o755)
	w, err := newScenRepo(c, filepath.Join(base, "w"), nil)
	if err != nil {
		return
	}
	// no LFS filter is configured globally here: `git add` stores raw blobs whatever .gitattributes says
	for _, k := range []string{"filter.lfs.clean", "filter.lfs.smudge", "filter.lfs.process", "filter.lfs.required"} {
		w.git("config", "--local", "--unset", k)
	}
	attrFirst := r.Bool()
	if attrFirst {
		w.write(".gitattributes", []byte("*.dat filter=lfs diff=lfs merge=lfs -text\n"))
	}
	w.write("x.dat", r.Bytes(2000))
	w.write("keep.txt", []byte("plain\n"))
	w.git("add", "-A")
	w.git("commit", "-qm", "c1")
	if !attrFirst {
		w.write(".gitattributes", []byte("*.dat filter=lfs diff=lfs merge=lfs -text\n"))
	} else {
		w.git("rm", "-q", ".gitattributes")
	}
	w.write("keep.txt", []byte("plain 2\n"))
	w.git("add", "-A")
	w.git("commit", "-qm", "c2 (attributes change, x.dat unchanged)")
	oldH, oldOrder := c12ReadHistory(w)
	out, code := w.runLfs("migrate", "import", "--fixup", "--everything", "--yes")
	enc := fmt.Sprintf("C12 fixup seed=%d idx=%d attributes-in-first-commit=%v", c.Seed, idx, attrFirst)
	c.R.Eval(enc, true)
	c.R.Count("import.fixup")
	if code != 0 {
		c.R.Add(Finding{Kind: "oracle", What: "`git lfs migrate import --fixup` failed", Case: enc, Impl: clip(out, 300)})
		return
	}
	newH, newOrder := c12ReadHistory(w)
	if len(newOrder) != len(oldOrder) {
		c.R.Add(Finding{Kind: "oracle", What: "migrate import --fixup changed the number of commits", Case: enc})
		return
	}
	cache := map[string][]byte{}
	for i, nid := range newOrder {
		tracked := false
		for _, e := range newH[nid].tree {
			if e.path == ".gitattributes" {
				b, _, _ := c12Resolve(w, cache, e.blob)
				tracked = strings.Contains(string(b), "*.dat filter=lfs")
			}
		}
		for _, e := range newH[nid].tree {
			if e.path != "x.dat" {
				continue
			}
			_, isPtr, _ := c12Resolve(w, cache, e.blob)
			if tracked && !isPtr {
				c.R.Add(Finding{Kind: "oracle", What: "after migrate import --fixup a path that the commit's .gitattributes declares as LFS is still a plain blob", Sig: "D12",
					Case: enc, Impl: fmt.Sprintf("commit %d of %d: x.dat", i+1, len(newOrder))})
			}
			if !tracked && isPtr {
				c.R.Add(Finding{Kind: "oracle", What: "migrate import --fixup converted a path in a commit whose .gitattributes does not declare it as LFS", Sig: "D12",
					Case: enc, Impl: fmt.Sprintf("commit %d of %d: x.dat", i+1, len(newOrder))})
			}
		}
	}
	_ = oldH
}

// c12FixupAttrs: `migrate import --fixup` decides per path from the repository's own attributes. Here the
// attribute files are fixed from the first commit on (so the entry cache of D12 has nothing to confuse)
// and several lines — later lines of the same file, nested .gitattributes files — speak about the same
// path with different `filter` values: Git's rule is that the LAST matching line wins. The judge is
// `git check-attr filter` in the final working tree.
func c12FixupAttrs(c *Ctx, idx int, r *Rng) {
	base := filepath.Join(c.Work, fmt.Sprintf("c12g-%d", idx))
	defer os.RemoveAll(base)
	os.MkdirAll(base, 0o755)
	w, err := newScenRepo(c, filepath.Join(base, "w"), nil)
	if err != nil {
		return
	}
	for _, k := range []string{"filter.lfs.clean", "filter.lfs.smudge", "filter.lfs.process", "filter.lfs.required"} {
		w.git("config", "--local", "--unset", k)
	}
	lfsLine := "*.bin filter=lfs diff=lfs merge=lfs -text\n"
	rootExtra := []string{"raw/*.bin !filter\n", "raw/*.bin -filter\n", "raw/x.bin filter=lfs diff=lfs merge=lfs -text\n", "sub/*.bin filter=other\n", "*.txt text\n", "a.bin -filter\n"}
	var root string
	if r.Chance(30) {
		// the overriding line first: then the general line wins again
		root = Pick(r, rootExtra) + lfsLine
	} else {
		root = lfsLine
	}
	for k := 0; k < r.Intn(3); k++ {
		root += Pick(r, rootExtra)
	}
	w.write(".gitattributes", []byte(root))
	nested := Pick(r, []string{"", "", "keep.bin -filter\n", "keep.bin !filter\n", "*.bin filter=lfs diff=lfs merge=lfs -text\n", "b.bin -filter\nb.bin filter=lfs diff=lfs merge=lfs -text\n"})
	if nested != "" {
		w.write("sub/.gitattributes", []byte(nested))
	}
	files := []string{"a.bin", "raw/x.bin", "raw/y.bin", "sub/keep.bin", "sub/b.bin", "c.txt"}
	want := map[string][][]byte{} // per commit index, per path content
	ncommits := 2 + r.Intn(2)
	var contents []map[string][]byte
	cur := map[string][]byte{}
	// the attributes may CHANGE in the course of the history: what a commit's files should be is decided
	// by that commit's own attribute files, whatever an earlier commit said about the same blob
	changeAt := -1
	if r.Chance(35) {
		changeAt = 1 + r.Intn(ncommits-1)
	}
	// … or the repository ADOPTED LFS midway: from some commit on the files are committed through the
	// real clean filter, so the rewrite finds those trees already in order and leaves them as they are —
	// below commits whose trees it has to change
	adoptAt := -1
	if changeAt < 0 && r.Chance(40) {
		adoptAt = 1 + r.Intn(ncommits-1)
		c.R.Count("import.fixup-attrs.adopted-midway")
	}
	var effPer []map[string]string
	for k := 0; k < ncommits; k++ {
		must := Pick(r, files)
		if k == changeAt {
			root = Pick(r, []string{"*.txt filter=lfs diff=lfs merge=lfs -text\n", "raw/*.bin filter=lfs diff=lfs merge=lfs -text\n", "*.bin -filter\n*.txt filter=lfs diff=lfs merge=lfs -text\n", "# nothing tracked any more\n"})
			w.write(".gitattributes", []byte(root))
			must = ""
		}
		for _, f := range files {
			if k == 0 || f == must || (k != changeAt && r.Chance(40)) || (k == changeAt && r.Chance(15)) {
				b := r.Bytes(Pick(r, []int{30, 1500}))
				if strings.HasSuffix(f, ".txt") {
					// `*.txt text` may be in force: keep Git's end-of-line conversion out of the comparison
					b = bytes.ReplaceAll(b, []byte("\r"), []byte("x"))
				}
				w.write(f, b)
				cur[f] = b
			}
		}
		snap := map[string][]byte{}
		for f, b := range cur {
			snap[f] = b
		}
		contents = append(contents, snap)
		if adoptAt >= 0 && k >= adoptAt {
			w.git("-c", "filter.lfs.clean=git-lfs clean -- %f", "-c", "filter.lfs.smudge=git-lfs smudge --skip -- %f", "-c", "filter.lfs.required=true", "add", "--renormalize", "-A")
		} else {
			w.git("add", "-A")
		}
		w.git("commit", "-qm", fmt.Sprintf("c%d", k), "--allow-empty")
		effPer = append(effPer, checkAttr(w.dir, files))
	}
	_ = want
	eff := effPer[len(effPer)-1]
	if changeAt >= 0 {
		c.R.Count("import.fixup-attrs.changing")
	}
	_, oldOrder := c12ReadHistory(w)
	out, code := w.runLfs("migrate", "import", "--fixup", "--everything", "--yes")
	enc := fmt.Sprintf("C12 fixup-attrs seed=%d idx=%d root=%q nested=%q attrs-change-at=%d adopted-at=%d", c.Seed, idx, root, nested, changeAt, adoptAt)
	c.R.Eval(enc, true)
	c.R.Count("import.fixup-attrs")
	if code != 0 {
		c.R.Add(Finding{Kind: "oracle", What: "`git lfs migrate import --fixup` failed", Case: enc, Impl: clip(out, 300)})
		return
	}
	newH, newOrder := c12ReadHistory(w)
	if len(newOrder) != len(oldOrder) || len(newOrder) != len(contents) {
		c.R.Add(Finding{Kind: "oracle", What: "migrate import --fixup changed the number of commits", Case: enc})
		return
	}
	// the model's decision per path: the lines that speak about `filter`, in Git's reading order, with
	// "does this line's pattern match the path" asked of Git itself one line at a time (a probe attribute)
	type aline struct{ loc, pat, val string } // val: "" = unset/unspecified
	var alines []aline
	collect := func(loc, text string) {
		for _, l := range strings.Split(text, "\n") {
			f := strings.Fields(l)
			if len(f) < 2 {
				continue
			}
			for _, a := range f[1:] {
				switch {
				case strings.HasPrefix(a, "filter="):
					alines = append(alines, aline{loc, f[0], strings.TrimPrefix(a, "filter=")})
				case a == "-filter" || a == "!filter":
					alines = append(alines, aline{loc, f[0], ""})
				}
			}
		}
	}
	collect("", root)
	collect("sub", nested)
	modelConv := map[string]string{}
	if changeAt < 0 {
		probe := filepath.Join(base, "probe")
		matches := make([]map[string]string, len(alines))
		for k, al := range alines {
			os.RemoveAll(probe)
			if gitInit(probe) != nil {
				continue
			}
			os.MkdirAll(filepath.Join(probe, al.loc), 0o755)
			os.WriteFile(filepath.Join(probe, al.loc, ".gitattributes"), []byte(al.pat+" probe\n"), 0o644)
			matches[k] = checkAttrOf(probe, "probe", files)
		}
		var qs []string
		for _, f := range files {
			var ts []string
			for k, al := range alines {
				m := "0"
				if matches[k] != nil && matches[k][f] == "set" {
					m = "1"
				}
				v := "none"
				if al.val != "" {
					v = hx([]byte(al.val))
				}
				ts = append(ts, m+":"+v)
			}
			qs = append(qs, "C12 fixupattr "+joinOrDash(ts))
		}
		if ans, err := c.Or.Ask(qs); err == nil {
			for k, f := range files {
				modelConv[f] = ans[k]
				// the model's reading of the attribute files agrees with Git's own lookup (spec validation)
				if (ans[k] == "1") != (eff[f] == "lfs") {
					c.R.Add(Finding{Kind: "diff", What: "effective filter attribute: the model's last-matching-line rule disagrees with git check-attr", Case: enc, Impl: f + " check-attr=" + eff[f], Model: ans[k] + " <= " + qs[k], Broken: "corr.C12.fixupattr"})
				}
			}
		}
	}
	cache := map[string][]byte{}
	for i, nid := range newOrder {
		for _, e := range newH[nid].tree {
			orig, ok := contents[i][e.path]
			if !ok {
				continue
			}
			b, isPtr, have := c12Resolve(w, cache, e.blob)
			wantPtr := effPer[i][e.path] == "lfs"
			sig := ""
			if changeAt >= 0 && i >= changeAt {
				if prev, ok := contents[changeAt-1][e.path]; ok && bytes.Equal(prev, orig) && (effPer[changeAt-1][e.path] == "lfs") == isPtr {
					sig = "D59" // the blob was decided on in an earlier commit, under other attributes, and is reused
				}
			}
			if mc, ok := modelConv[e.path]; ok && (mc == "1") != isPtr {
				c.R.Add(Finding{Kind: "diff", What: "migrate import --fixup: representation differs from the model's decision (last matching filter line)", Case: enc,
					Impl: fmt.Sprintf("commit %d: %s pointer=%v", i+1, e.path, isPtr), Model: mc, Broken: "corr.C12.fixupattr"})
			}
			if wantPtr {
				c.R.Count("import.fixup-attrs.selected")
			} else if strings.HasSuffix(e.path, ".bin") {
				c.R.Count("import.fixup-attrs.overridden")
			}
			if isPtr != wantPtr {
				c.R.Add(Finding{Kind: "oracle", What: "migrate import --fixup: a path changed representation against Git's effective `filter` attribute (last matching line wins)", Case: enc, Sig: sig,
					Impl: fmt.Sprintf("commit %d: %s is pointer=%v, git check-attr filter says %q", i+1, e.path, isPtr, effPer[i][e.path])})
			}
			if !have || !bytes.Equal(b, orig) {
				c.R.Add(Finding{Kind: "oracle", What: "migrate import --fixup changed the content of a file", Case: enc, Impl: fmt.Sprintf("commit %d: %s", i+1, e.path)})
			}
		}
	}
}

func c12(c *Ctx) {
	r := NewRng(c.Seed ^ 0xC12)
	c.R.Rule = "cases = histories of 2-12 commits (edits, mode-only changes, renames, removals, real merges, lightweight and annotated tags, symlinks, executables, empty files, nested .gitattributes, a file already tracked by LFS, varying authors/dates/messages) x selections (--include/--exclude patterns, --above, --everything, --no-rewrite); old and new histories compared through plumbing (graph shape, headers, per-path mode, content after resolving pointers, representation changed exactly on selected convertible paths, refs and annotated tags at the images), export after import compared blob for blob, the rewritten trees compared with the model; non-trivial = every scenario; distinct = different (seed, index)"
	n := c.N(60, 1200)
	var wg sync.WaitGroup
	sem := make(chan struct{}, 10)
	var mu sync.Mutex
	var lines, impl, cases []string
	for i := 0; i < n; i++ {
		rs := r.Fork()
		wg.Add(1)
		sem <- struct{}{}
		go func(i int, rs *Rng) {
			defer wg.Done()
			defer func() { <-sem }()
			defer func() {
				if x := recover(); x != nil {
					c.R.Add(Finding{Kind: "diff", What: fmt.Sprintf("scenario harness problem: %v", x), Broken: "corr.C12.scenario"})
				}
			}()
			if i%5 == 3 {
				c12FixupAttrs(c, i, rs)
				return
			}
			if i%10 == 6 {
				c12Export(c, i, rs)
				return
			}
			if i%15 == 14 {
				c12Fixup(c, i, rs)
				return
			}
			l, m, cs := c12Scenario(c, i, rs)
			if l != "" {
				mu.Lock()
				lines = append(lines, l)
				impl = append(impl, m)
				cases = append(cases, cs)
				mu.Unlock()
			}
		}(i, rs)
	}
	wg.Wait()
	ans, err := c.Or.Ask(lines)
	if err != nil {
		c.R.Add(Finding{Kind: "diff", What: "oracle process failed: " + err.Error(), Broken: "corr.C12.rewrite"})
		return
	}
	for i := range lines {
		if ans[i] != impl[i] {
			c.R.Add(Finding{Kind: "diff", What: "rewritten trees (path, mode, changed blob): model and implementation disagree", Case: clip(cases[i], 2500), Impl: clip(impl[i], 500), Model: clip(ans[i], 500) + " <= " + clip(lines[i], 300), Broken: "corr.C12.rewrite"})
		}
	}
}

func init() { campaigns["C12"] = c12 }
