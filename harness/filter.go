// C08 / C01: the clean and smudge filters over chunked streams, through the real command path
// (`git-lfs verif-filter`, built from /repo with -tags verif), lock-step with store inspection.
package main

import (
	"bufio"
	"bytes"
	"fmt"
	"io"
	"os"
	"os/exec"
	"path/filepath"
	"strconv"
	"strings"

	"github.com/git-lfs/git-lfs/v3/lfs"
)

const cutSpec = 1024 // docs/spec.md: "pointer files must be less than 1024 bytes" (Spec constant, never Gen)

type filterSession struct {
	dir       string
	cmd       *exec.Cmd
	in        io.WriteCloser
	out       *bufio.Reader
	known     map[string][]byte // objects the harness knows to be in the store (oid -> content)
	tmpBefore int               // files under .git/lfs/tmp before the current operation
}

func (s *filterSession) tmpFiles() int {
	n := 0
	filepath.Walk(filepath.Join(s.dir, ".git", "lfs", "tmp"), func(p string, fi os.FileInfo, err error) error {
		if err == nil && !fi.IsDir() {
			n++
		}
		return nil
	})
	return n
}

func gitInit(dir string) error {
	os.MkdirAll(dir, 0o755)
	c := exec.Command("git", "init", "-q", dir)
	c.Env = os.Environ()
	if b, err := c.CombinedOutput(); err != nil {
		return fmt.Errorf("git init: %v %s", err, b)
	}
	return nil
}

func newFilterSession(c *Ctx, name string, extraEnv ...string) (*filterSession, error) {
	dir := filepath.Join(c.Work, name)
	if err := gitInit(dir); err != nil {
		return nil, err
	}
	s := &filterSession{dir: dir, known: map[string][]byte{}}
	// a pointer whose object is neither local nor downloadable must not kill the batch process
	// (that path is C14's subject, known finding D22); there is no remote in these repositories.
	exec.Command("git", "-C", dir, "config", "lfs.skipdownloaderrors", "true").Run()
	s.cmd = exec.Command(c.Lfs, "verif-filter")
	s.cmd.Dir = dir
	s.cmd.Env = append(os.Environ(), extraEnv...)
	s.cmd.Stderr = io.Discard
	var err error
	s.in, err = s.cmd.StdinPipe()
	if err != nil {
		return nil, err
	}
	op, _ := s.cmd.StdoutPipe()
	s.out = bufio.NewReaderSize(op, 1<<22)
	if err := s.cmd.Start(); err != nil {
		return nil, err
	}
	return s, nil
}

func (s *filterSession) close() {
	s.in.Close()
	s.cmd.Wait()
}

type filterCase struct {
	Op      string `json:"op"`
	Name    string `json:"name"`   // file name argument ("" = none)
	AtPath  string `json:"atpath"` // what sits at that path: "none", or hex content length marker
	PathLen int    `json:"pathlen"`
	Hint    int64  `json:"hint"`
	Chunks  []int  `json:"chunks"`
	EofLast bool   `json:"eoflast"`
	Data    []byte `json:"-"`
	DataHex string `json:"data"`
}

func (fc *filterCase) line() string {
	ch := "-"
	if len(fc.Chunks) > 0 {
		var p []string
		for _, c := range fc.Chunks {
			p = append(p, strconv.Itoa(c))
		}
		ch = strings.Join(p, ",")
	}
	e := "0"
	if fc.EofLast {
		e = "1"
	}
	return fmt.Sprintf("%s %s %d %s %s %s", fc.Op, hx([]byte(fc.Name)), fc.Hint, ch, e, hx(fc.Data))
}

// corpus / replay encoding of a case
func (fc *filterCase) encode() string {
	return fmt.Sprintf("%s pathlen=%d", fc.line(), fc.PathLen)
}
func decodeFilterCase(s string) (*filterCase, bool) {
	f := strings.Fields(s)
	if len(f) != 7 {
		return nil, false
	}
	fc := &filterCase{Op: f[0], Name: string(unhx(f[1])), Data: unhx(f[5]), EofLast: f[4] == "1"}
	fc.Hint, _ = strconv.ParseInt(f[2], 10, 64)
	if f[3] != "-" {
		for _, c := range strings.Split(f[3], ",") {
			n, _ := strconv.Atoi(c)
			fc.Chunks = append(fc.Chunks, n)
		}
	}
	fc.PathLen, _ = strconv.Atoi(strings.TrimPrefix(f[6], "pathlen="))
	return fc, true
}

type filterObs struct {
	Out  []byte
	Err  string
	Rest int
	Died bool
}

func (s *filterSession) run(fc *filterCase) filterObs {
	if fc.Name != "" {
		p := filepath.Join(s.dir, fc.Name)
		if fc.PathLen < 0 {
			os.Remove(p)
		} else {
			os.WriteFile(p, bytes.Repeat([]byte("p"), fc.PathLen), 0o644)
		}
	}
	if _, err := io.WriteString(s.in, fc.line()+"\n"); err != nil {
		return filterObs{Died: true}
	}
	l, err := s.out.ReadString('\n')
	if err != nil || !strings.HasPrefix(l, "out=") {
		return filterObs{Died: true, Err: strings.TrimSpace(l)}
	}
	f := strings.Fields(l)
	o := filterObs{Out: unhx(strings.TrimPrefix(f[0], "out=")), Err: strings.TrimPrefix(f[1], "err=")}
	o.Rest, _ = strconv.Atoi(strings.TrimPrefix(f[2], "rest="))
	return o
}

func (s *filterSession) objectPath(oid string) string {
	return filepath.Join(s.dir, ".git", "lfs", "objects", oid[0:2], oid[2:4], oid)
}
func (s *filterSession) storeFiles() map[string]int64 {
	m := map[string]int64{}
	filepath.Walk(filepath.Join(s.dir, ".git", "lfs", "objects"), func(p string, fi os.FileInfo, err error) error {
		if err == nil && !fi.IsDir() {
			m[filepath.Base(p)] = fi.Size()
		}
		return nil
	})
	return m
}

// isPointerText: "the bytes are themselves a well-formed pointer (shorter than 1024 bytes)".
// Uses the decoder on the complete byte string in one piece (C07 owns the decoder).
func isPointerText(b []byte) (*lfs.Pointer, bool) {
	if len(b) >= cutSpec {
		return nil, false
	}
	// necessary conditions taken from docs/spec.md, independent of the decoder under test: a pointer has
	// the three required keys (the empty file is the pointer of the empty object)
	if len(b) > 0 && !(bytes.Contains(b, []byte("version ")) && bytes.Contains(b, []byte("oid sha256:")) && bytes.Contains(b, []byte("size "))) {
		return nil, false
	}
	// docs/spec.md: "The first key is always version", the others follow in alphabetical order — ext-*, oid, size:
	// the first non-blank line is the version line and the LAST non-blank line is the size line
	if len(b) > 0 {
		var first, last string
		for _, l := range strings.Split(string(b), "\n") {
			l = strings.TrimSpace(l)
			if l == "" {
				continue
			}
			if first == "" {
				first = l
			}
			last = l
		}
		if !strings.HasPrefix(first, "version ") || !strings.HasPrefix(last, "size ") {
			return nil, false
		}
	}
	p, err := lfs.DecodePointer(bytes.NewReader(b))
	return p, err == nil && p != nil
}

func canonicalPointer(oid string, size int64) []byte {
	if size == 0 {
		return nil
	}
	return []byte(fmt.Sprintf("version https://git-lfs.github.com/spec/v1\noid sha256:%s\nsize %d\n", oid, size))
}

// ---- payload and chunking generators

func samplePointerText(r *Rng, canonical bool) []byte {
	oid := randOid(r)
	size := int64(1 + r.Intn(1<<20))
	b := canonicalPointer(oid, size)
	if canonical {
		return b
	}
	switch r.Intn(5) {
	case 0:
		return bytes.TrimSuffix(b, []byte("\n"))
	case 1:
		return bytes.ReplaceAll(b, []byte("\n"), []byte("\r\n"))
	case 2:
		return append([]byte("\n"), b...)
	case 3:
		return []byte(strings.Replace(string(b), "git-lfs.github.com/spec/v1", "hawser.github.com/spec/v1", 1))
	default:
		return append(b, ' ', '\n')
	}
}

func genPayload(r *Rng, known [][]byte) ([]byte, string) {
	switch r.Intn(13) {
	case 12: // degenerate text: only whitespace / NULs, below and at the window
		return Pick(r, [][]byte{[]byte("\n"), []byte(" "), []byte("\r\n"), []byte("\t\t\n"), []byte(" \n \t\n"), bytes.Repeat([]byte(" "), 1023),
			bytes.Repeat([]byte("\n"), 1024), bytes.Repeat([]byte("\n"), 1025), []byte("\x00"), bytes.Repeat([]byte{0}, 700), []byte("\xc2\xa0"), []byte("\xe2\x80\x83\n")}), "degenerate"
	case 0:
		return nil, "empty"
	case 1:
		return samplePointerText(r, true), "pointer.canonical"
	case 2:
		return samplePointerText(r, false), "pointer.noncanonical"
	case 3: // pointer + extra bytes / lines
		b := samplePointerText(r, r.Bool())
		extra := Pick(r, []string{"EXTRA DATA", "\nmore\n", "x", "extra line here\n", "\x00\x01\x02",
			// extra lines that are themselves well-formed lines of a pointer, in a place where they do not belong
			"ext-0-foo sha256:" + sha(r.Bytes(4)) + "\n", "ext-3-notes sha256:" + sha(r.Bytes(4)) + "\next-4-more sha256:" + sha(r.Bytes(4)) + "\n",
			"size 5\n", "oid sha256:" + sha(r.Bytes(4)) + "\n", "version https://git-lfs.github.com/spec/v1\n"})
		return append(b, extra...), "pointer+extra"
	case 4: // pointer + whitespace padding up to / beyond the window
		b := samplePointerText(r, true)
		target := cutSpec + Pick(r, []int{-2, -1, 0, 1, 2, 50, 4000})
		pad := Pick(r, []string{"\n", " ", "\t"})
		for len(b) < target {
			b = append(b, pad...)
		}
		if r.Bool() {
			b = append(b, "TAIL CONTENT AFTER THE WINDOW\n"...)
		}
		return b, "pointer+padding"
	case 5: // lengths around the cutoff
		n := cutSpec + Pick(r, []int{-2, -1, 0, 1, 2})
		return r.Bytes(n), "random.cutoff"
	case 6: // around the pkt-line boundary
		n := 65516 + Pick(r, []int{-1, 0, 1})
		return r.Bytes(n), "random.pktline"
	case 7:
		return r.Bytes(1 + r.Intn(300)), "random.small"
	case 8:
		return r.Bytes(1025 + r.Intn(8000)), "random.medium"
	case 9: // text that begins like a pointer
		return []byte("version https://git-lfs.github.com/spec/v1\nthis is not really a pointer\n" + strings.Repeat("line\n", r.Intn(400))), "lookalike"
	case 10:
		if len(known) > 0 {
			return Pick(r, known), "repeat"
		}
		return r.Bytes(10), "random.small"
	default:
		return bytes.Repeat([]byte{byte(r.U64())}, 1+r.Intn(5000)), "constant"
	}
}

func genChunks(r *Rng, n int, interesting []int) []int {
	if n == 0 || r.Chance(25) {
		return nil
	}
	k := 1 + r.Intn(3)
	var cs []int
	for i := 0; i < k; i++ {
		var c int
		if len(interesting) > 0 && r.Chance(60) {
			c = Pick(r, interesting) + Pick(r, []int{0, 0, 0, -1, 1})
		} else {
			c = 1 + r.Intn(n)
		}
		if c < 1 {
			c = 1
		}
		cs = append(cs, c)
	}
	return cs
}

// checkClean: the dichotomy of C08 + the storage clauses of C01, from the bytes alone.
func (s *filterSession) checkClean(fc *filterCase, o filterObs, before map[string]int64) string {
	b := fc.Data
	if o.Died {
		return "filter process died during clean: " + o.Err
	}
	after := s.storeFiles()
	if len(b) == 0 {
		if len(o.Out) != 0 {
			return "clean of the empty file did not produce the empty pointer"
		}
		return ""
	}
	if _, isPtr := isPointerText(b); isPtr {
		if !bytes.Equal(o.Out, b) {
			return "pointer text was not passed through clean unchanged"
		}
		if len(after) != len(before) {
			return "cleaning a pointer added an object to local storage (pointer to a pointer)"
		}
		if n := s.tmpFiles(); n > s.tmpBefore {
			return fmt.Sprintf("cleaning a pointer left a file behind in .git/lfs/tmp (%d -> %d): nothing is to be added for a pointer", s.tmpBefore, n)
		}
		return ""
	}
	oid := sha(b)
	want := canonicalPointer(oid, int64(len(b)))
	if !bytes.Equal(o.Out, want) {
		p, ok := isPointerText(o.Out)
		switch {
		case ok && p.Size != int64(len(b)):
			return fmt.Sprintf("content of %d bytes was cleaned to a pointer of size %d (truncated or mis-sized)", len(b), p.Size)
		case ok && p.Oid != oid:
			return "emitted pointer does not name the SHA-256 of the content"
		case bytes.Equal(o.Out, b[:min(len(b), len(o.Out))]) && len(o.Out) < len(b):
			return fmt.Sprintf("content that merely begins like a pointer was passed through as a pointer (%d of %d bytes, rest dropped)", len(o.Out), len(b))
		default:
			return "clean output is not the canonical pointer of the content"
		}
	}
	st, err := os.ReadFile(s.objectPath(oid))
	if err != nil {
		return "pointer emitted but no object stored under its oid"
	}
	if !bytes.Equal(st, b) {
		return "object stored under the pointer's oid differs from the content"
	}
	s.known[oid] = b
	for name, sz := range after {
		if _, was := before[name]; !was && name != oid {
			return fmt.Sprintf("clean added an unexpected object %s (%d bytes)", name, sz)
		}
	}
	return ""
}

func (s *filterSession) checkSmudge(fc *filterCase, o filterObs) string {
	b := fc.Data
	if o.Died {
		return "filter process died during smudge: " + o.Err
	}
	p, isPtr := isPointerText(b)
	if !isPtr {
		if !bytes.Equal(o.Out, b) {
			return fmt.Sprintf("bytes that do not parse as a pointer were not passed through smudge unchanged (%d in, %d out)", len(b), len(o.Out))
		}
		return ""
	}
	if p.Size == 0 {
		if len(o.Out) != 0 {
			return "smudge of an empty pointer produced bytes"
		}
		return ""
	}
	if c, ok := s.known[p.Oid]; ok && int64(len(c)) == p.Size {
		if !bytes.Equal(o.Out, c) {
			return "smudge of a pointer did not yield the stored object's bytes"
		}
	}
	return ""
}

func filterCampaign(c *Ctx, prop string) {
	r := NewRng(c.Seed ^ 0xC08)
	nSessions := 8
	perSession := c.N(700, 25000) / nSessions
	if prop == "C01" {
		perSession = c.N(500, 20000) / nSessions
	}
	c.R.Rule = "cases = corpus + generated (payload class x chunking x EOF style x file-at-path state) through the real clean()/smudge() of git-lfs verif-filter; " +
		"non-trivial = pointer-prefixed content, or length within 2 of the 1024 cutoff, or >= 2 chunks, or a file at the named path; distinct = different case line"
	type job struct {
		fc   *filterCase
		kind string
	}
	var corpus []*filterCase
	for _, l := range corpusLines(c, "C08") {
		if fc, ok := decodeFilterCase(l); ok {
			corpus = append(corpus, fc)
		}
	}
	if c.Replay != "" {
		corpus = nil
		if fc, ok := decodeFilterCase(replayCase(c)); ok {
			corpus = append(corpus, fc)
		}
		nSessions, perSession = 1, 0
	}
	var modelLines []string
	var modelCases []*filterCase
	var modelObs []filterObs
	for si := 0; si < nSessions; si++ {
		rs := r.Fork()
		s, err := newFilterSession(c, fmt.Sprintf("repo%d", si))
		if err != nil {
			c.R.Add(Finding{Kind: "diff", What: "cannot start git-lfs verif-filter: " + err.Error(), Broken: "corr." + prop + ".filter"})
			return
		}
		var knownList [][]byte
		doCase := func(fc *filterCase, kind string) filterObs {
			before := s.storeFiles()
			s.tmpBefore = s.tmpFiles()
			o := s.run(fc)
			c.R.Count("op." + fc.Op)
			c.R.Count("payload." + kind)
			if len(fc.Chunks) > 0 {
				c.R.Count("chunked")
			}
			if fc.Name != "" {
				c.R.Count(fmt.Sprintf("path.%s", map[bool]string{true: "absent", false: "present"}[fc.PathLen < 0]))
			}
			nt := strings.HasPrefix(kind, "pointer") || kind == "lookalike" || kind == "corpus" || (len(fc.Data) >= cutSpec-2 && len(fc.Data) <= cutSpec+2) || len(fc.Chunks) >= 1 || fc.Name != ""
			c.R.Eval(fc.encode(), nt)
			var why string
			if fc.Op == "clean" {
				why = s.checkClean(fc, o, before)
			} else {
				why = s.checkSmudge(fc, o)
			}
			if why == "" && o.Rest != 0 && !o.Died {
				why = fmt.Sprintf("filter returned leaving %d payload bytes unread in the stream", o.Rest)
			}
			if why != "" {
				c.R.Count("oracle." + fc.Op)
				c.R.Add(Finding{Kind: "oracle", What: why, Case: fc.encode(), Impl: fmt.Sprintf("out=%s err=%s rest=%d", clip(hx(o.Out), 300), o.Err, o.Rest)})
			}
			if o.Died { // restart the session
				s.close()
				s, _ = newFilterSession(c, fmt.Sprintf("repo%d-r%d", si, c.R.Evaluations))
			}
			modelLines = append(modelLines, modelFilterLine(fc, s))
			modelCases = append(modelCases, fc)
			modelObs = append(modelObs, o)
			return o
		}
		if si == 0 {
			for _, fc := range corpus {
				doCase(fc, "corpus")
			}
		}
		for i := 0; i < perSession; i++ {
			data, kind := genPayload(rs, knownList)
			fc := &filterCase{Op: "clean", Data: data, Hint: -1, PathLen: -1}
			if rs.Chance(20) {
				fc.Op = "smudge"
			}
			interesting := []int{cutSpec, 130, 65516}
			if strings.HasPrefix(kind, "pointer") {
				// the end of the pointer text proper is the interesting split point
				if i := bytes.Index(data, []byte("\nsize ")); i >= 0 {
					if j := bytes.IndexByte(data[i+1:], '\n'); j >= 0 {
						interesting = append(interesting, i+1+j+1, i+1+j+1, i+1+j+1)
					}
				}
			}
			fc.Chunks = genChunks(rs, len(data), interesting)
			fc.EofLast = rs.Bool()
			if fc.Op == "clean" && rs.Chance(45) {
				fc.Name = fmt.Sprintf("f%d.bin", rs.Intn(4))
				fc.PathLen = Pick(rs, []int{-1, 0, 5, len(data), len(data) / 2, cutSpec, cutSpec + 1, len(data) + 10, cutSpec - 1})
				if rs.Chance(10) {
					fc.Hint = int64(Pick(rs, []int{0, len(data), 5}))
				}
			}
			o := doCase(fc, kind)
			// C01 round trip: smudge the emitted pointer with a fresh chunking
			if fc.Op == "clean" && !o.Died && len(o.Out) > 0 && len(data) > 0 {
				if _, isPtr := isPointerText(data); !isPtr {
					if len(data) < 20000 {
						knownList = append(knownList, data)
					}
					sm := &filterCase{Op: "smudge", Data: o.Out, Hint: -1, PathLen: -1, Chunks: genChunks(rs, len(o.Out), []int{len(o.Out) - 1, 43}), EofLast: rs.Bool()}
					so := s.run(sm)
					c.R.Count("roundtrip")
					c.R.Eval(sm.encode(), true)
					if !bytes.Equal(so.Out, data) {
						c.R.Add(Finding{Kind: "oracle", What: fmt.Sprintf("clean then smudge did not return the original bytes (%d in, %d back)", len(data), len(so.Out)), Case: fc.encode(),
							Impl: fmt.Sprintf("pointer=%s smudged=%s", clip(hx(o.Out), 300), clip(hx(so.Out), 200))})
					}
				}
			}
			if i%(perSession/2+1) == 0 {
				c.R.Sample(map[string]interface{}{"op": fc.Op, "payload_class": kind, "len": len(data), "chunks": fc.Chunks, "eof_with_last": fc.EofLast, "file_at_path_len": fc.PathLen, "out_len": len(o.Out), "err": o.Err})
			}
		}
		s.close()
	}
	// correspondence with the Lean model (clean/smudge over Stream with the real decoder model)
	model, err := c.Or.Ask(modelLines)
	if err != nil {
		c.R.Add(Finding{Kind: "diff", What: "oracle process failed: " + err.Error(), Broken: "corr." + prop + ".filter"})
		return
	}
	for i, fc := range modelCases {
		o := modelObs[i]
		if o.Died {
			continue
		}
		il := fmt.Sprintf("out=%s err=%s", shaOrDash(o.Out), o.Err)
		if model[i] != il {
			c.R.Add(Finding{Kind: "diff", What: fc.Op + ": model and implementation disagree", Case: fc.encode(), Impl: il, Model: model[i], Broken: "corr." + prop + "." + fc.Op})
		}
	}
}

func shaOrDash(b []byte) string {
	if len(b) == 0 {
		return "-"
	}
	return sha(b)
}

// model line: `FLT clean|smudge <chunks> <eof> <hex data> <known objects: oid:len,...>`; the model answers
// `out=<sha256 of output|-> err=<class>`; for smudge the model needs the objects the pointer may name.
func modelFilterLine(fc *filterCase, s *filterSession) string {
	ch := "-"
	if len(fc.Chunks) > 0 {
		var p []string
		for _, c := range fc.Chunks {
			p = append(p, strconv.Itoa(c))
		}
		ch = strings.Join(p, ",")
	}
	e := "0"
	if fc.EofLast {
		e = "1"
	}
	obj := "-"
	if fc.Op == "smudge" {
		if p, ok := isPointerText(fc.Data); ok && s != nil {
			if cnt, ok := s.known[p.Oid]; ok {
				obj = hx(cnt)
			}
		}
	}
	return fmt.Sprintf("FLT %s %s %s %s %s", fc.Op, ch, e, hx(fc.Data), obj)
}

func replayCase(c *Ctx) string {
	b, err := os.ReadFile(c.Replay)
	if err != nil {
		return ""
	}
	var m struct {
		Case interface{} `json:"case"`
	}
	jsonUnmarshal(b, &m)
	s, _ := m.Case.(string)
	return s
}

// c01MergeDriver: `git lfs merge-driver` run for real.  The three inputs are pointers to stored
// objects, the merge program combines them, and --output names a file that already holds a pointer
// (git passes the current version's file, %A): afterwards it must hold exactly the canonical pointer
// of the merged content, and that content must be in local storage.
// c01OneShotEnv: the one-shot filters as Git runs them (`git-lfs smudge -- <path>`, `git-lfs clean -- <path>`,
// exit status and stdout are all Git sees) under environment settings users have: GIT_LFS_PROGRESS as an
// absolute path, a relative one, a path in a missing directory; GIT_LFS_SKIP_SMUDGE. Exit status 0 means
// "stdout is the file's content".
func c01OneShotEnv(c *Ctx, r *Rng) {
	n := c.N(40, 600)
	dir := filepath.Join(c.Work, "c01-env")
	if gitInit(dir) != nil {
		return
	}
	for i := 0; i < n; i++ {
		content := r.Bytes(Pick(r, []int{1, 200, 5000, 70000}))
		ptrOut, code := runInStdin(dir, string(content), c.Lfs, "clean", "--", "x.bin")
		if code != 0 {
			continue
		}
		prog := Pick(r, []string{"", "", filepath.Join(c.Work, "c01-env-progress.log"), "progress.log", "sub/progress.log", filepath.Join(c.Work, "no-such-dir", "p.log")})
		skip := r.Chance(20)
		env := []string{}
		if prog != "" {
			env = append(env, "GIT_LFS_PROGRESS="+prog)
		}
		if skip {
			env = append(env, "GIT_LFS_SKIP_SMUDGE=1")
		}
		cmd := exec.Command(c.Lfs, "smudge", "--", "x.bin")
		cmd.Dir = dir
		cmd.Env = append(os.Environ(), env...)
		cmd.Stdin = strings.NewReader(ptrOut)
		var so, se bytes.Buffer
		cmd.Stdout, cmd.Stderr = &so, &se
		err := cmd.Run()
		enc := fmt.Sprintf("C01 oneshot-env size=%d env=%v", len(content), env)
		c.R.Eval(enc, prog != "")
		c.R.Count("oneshot-env")
		want := content
		if skip {
			want = []byte(ptrOut)
		}
		if err == nil && !bytes.Equal(so.Bytes(), want) {
			c.R.Add(Finding{Kind: "oracle", What: "one-shot smudge exited 0 but its output is not the object's bytes (Git takes the output for the file's content)", Case: enc,
				Impl: fmt.Sprintf("%d bytes on stdout, want %d; stderr: %s", so.Len(), len(want), clip(se.String(), 200))})
		}
		// clean under the same environment: exit 0 means stdout is the pointer of the content
		cmd2 := exec.Command(c.Lfs, "clean", "--", "x.bin")
		cmd2.Dir = dir
		cmd2.Env = append(os.Environ(), env...)
		cmd2.Stdin = bytes.NewReader(content)
		var so2 bytes.Buffer
		cmd2.Stdout = &so2
		if err2 := cmd2.Run(); err2 == nil && so2.String() != string(canonicalPointer(sha(content), int64(len(content)))) {
			c.R.Add(Finding{Kind: "oracle", What: "one-shot clean exited 0 but its output is not the pointer of the content", Case: enc, Impl: clip(so2.String(), 200)})
		}
	}
}

func c01MergeDriver(c *Ctx, r *Rng) {
	n := c.N(40, 600)
	dir := filepath.Join(c.Work, "c01-merge")
	if gitInit(dir) != nil {
		return
	}
	env := []string{"PATH=" + filepath.Dir(c.Lfs) + ":" + os.Getenv("PATH"), "GIT_CONFIG_GLOBAL=" + filepath.Join(c.Work, "c01-merge.gitconfig")}
	os.WriteFile(filepath.Join(c.Work, "c01-merge.gitconfig"), []byte("[user]\n\tname = v\n\temail = v@example.invalid\n"), 0o644)
	var lines, impl, cases []string
	for i := 0; i < n; i++ {
		sizes := []int{1, 7, 60, 700, 5000, 123456}
		var cont [3][]byte
		var ptr [3][]byte
		okc := true
		for k := 0; k < 3; k++ {
			cont[k] = r.Bytes(Pick(r, sizes))
			out, code := runInStdin(dir, string(cont[k]), c.Lfs, "clean", "x.bin")
			if code != 0 {
				okc = false
			}
			ptr[k] = []byte(out)
			os.WriteFile(filepath.Join(dir, []string{"O", "A", "B"}[k]+".ptr"), ptr[k], 0o644)
		}
		if !okc {
			continue
		}
		prog := Pick(r, []string{"cp %B %D", "cp %O %D", "cat %A %B > %D", "cat %O %A %B > %D", "head -c 3 %B > %D", "cp %A %D",
			// programs that save atomically: the result is a NEW file renamed over %D
			"cp %B %D.part && mv %D.part %D", "cat %A %B > %D.new && mv -f %D.new %D", "rm -f %D && cp %O %D",
			// programs that work IN PLACE on their inputs, as Git's own merge drivers do (the result is left in %A):
			// the temporary files they are handed are theirs to scribble on — the stored objects are not
			"cat %B >> %A && cp %A %D", "printf scribble >> %O && printf scribble >> %B && cp %A %D"})
		var merged []byte
		switch prog {
		case "cat %B >> %A && cp %A %D":
			merged = append(append([]byte(nil), cont[1]...), cont[2]...)
		case "printf scribble >> %O && printf scribble >> %B && cp %A %D":
			merged = cont[1]
		case "cp %B %D.part && mv %D.part %D":
			merged = cont[2]
		case "cat %A %B > %D.new && mv -f %D.new %D":
			merged = append(append([]byte(nil), cont[1]...), cont[2]...)
		case "rm -f %D && cp %O %D":
			merged = cont[0]
		case "cp %B %D":
			merged = cont[2]
		case "cp %O %D":
			merged = cont[0]
		case "cat %A %B > %D":
			merged = append(append([]byte(nil), cont[1]...), cont[2]...)
		case "cat %O %A %B > %D":
			merged = append(append(append([]byte(nil), cont[0]...), cont[1]...), cont[2]...)
		case "head -c 3 %B > %D":
			merged = cont[2][:min(3, len(cont[2]))]
		case "cp %A %D":
			merged = cont[1]
		}
		outFile := "A.ptr" // git hands the driver the current version's file as %A and expects the result there
		if r.Chance(25) {
			outFile = "result.ptr"
			os.Remove(filepath.Join(dir, outFile))
			if r.Bool() {
				os.WriteFile(filepath.Join(dir, outFile), []byte("stale content of an earlier merge, longer than any pointer ........................................................................................................................\n"), 0o644)
			}
		}
		old, _ := os.ReadFile(filepath.Join(dir, outFile))
		// one of the three versions is neither in local storage nor to be had (there is no remote): there is nothing
		// to merge, and an empty file is not that version — the driver must fail and leave the output alone (D84)
		gone := -1
		if r.Chance(10) {
			gone = r.Intn(3)
			if o := sha(cont[gone]); len(cont[gone]) > 0 && o != sha(cont[(gone+1)%3]) && o != sha(cont[(gone+2)%3]) {
				os.Remove(filepath.Join(dir, ".git", "lfs", "objects", o[0:2], o[2:4], o))
				c.R.Count("mergedriver.input-object-missing")
			} else {
				gone = -1
			}
		}
		out, code := runIn(dir, env, c.Lfs, "merge-driver", "--ancestor", "O.ptr", "--current", "A.ptr", "--other", "B.ptr", "--output", outFile, "--program", prog)
		if gone >= 0 {
			after, _ := os.ReadFile(filepath.Join(dir, outFile))
			encG := fmt.Sprintf("C01 mergedriver input-missing=%s sizes=%d/%d/%d program=%q output=%s", []string{"ancestor", "current", "other"}[gone], len(cont[0]), len(cont[1]), len(cont[2]), prog, outFile)
			c.R.Eval(encG, true)
			if code == 0 {
				c.R.Add(Finding{Kind: "oracle", What: "merge-driver succeeded although the object of one version was neither in local storage nor downloadable: the merge program ran on an empty file in its place", Case: encG,
					Impl: fmt.Sprintf("exit 0; output file now %q", clip(string(after), 200))})
			}
			// put the object back for the following cases
			o := sha(cont[gone])
			os.MkdirAll(filepath.Join(dir, ".git", "lfs", "objects", o[0:2], o[2:4]), 0o755)
			os.WriteFile(filepath.Join(dir, ".git", "lfs", "objects", o[0:2], o[2:4], o), cont[gone], 0o644)
			continue
		}
		got, _ := os.ReadFile(filepath.Join(dir, outFile))
		want := canonicalPointer(sha(merged), int64(len(merged)))
		enc := fmt.Sprintf("C01 mergedriver sizes=%d/%d/%d program=%q output=%s oldlen=%d", len(cont[0]), len(cont[1]), len(cont[2]), prog, outFile, len(old))
		c.R.Eval(enc, len(old) != len(want))
		c.R.Count("mergedriver")
		if len(old) > len(want) {
			c.R.Count("mergedriver.shorter-result")
		}
		if code != 0 {
			c.R.Add(Finding{Kind: "oracle", What: "merge-driver failed on stored objects with a succeeding merge program", Case: enc, Impl: clip(out, 300)})
			continue
		}
		if !bytes.Equal(got, want) {
			c.R.Add(Finding{Kind: "oracle", What: "after merge-driver the --output file is not the canonical pointer of the merged content", Case: enc, Impl: fmt.Sprintf("got %q want %q", clip(string(got), 300), string(want))})
		}
		if b, err := os.ReadFile(filepath.Join(dir, ".git", "lfs", "objects", sha(merged)[0:2], sha(merged)[2:4], sha(merged))); err != nil || !bytes.Equal(b, merged) {
			c.R.Add(Finding{Kind: "oracle", What: "after merge-driver the merged content is not in local storage under its SHA-256", Case: enc})
		}
		// the three versions that went into the merge are still what local storage holds under their ids
		for k := 0; k < 3; k++ {
			o := sha(cont[k])
			if b, err := os.ReadFile(filepath.Join(dir, ".git", "lfs", "objects", o[0:2], o[2:4], o)); len(cont[k]) > 0 && (err != nil || !bytes.Equal(b, cont[k])) {
				c.R.Add(Finding{Kind: "oracle", What: "after merge-driver an object that went INTO the merge is no longer what local storage holds under its id (the merge program worked on the stored file itself)", Case: enc,
					Impl: fmt.Sprintf("%s version: %d bytes stored, %d expected", []string{"ancestor", "current", "other"}[k], len(b), len(cont[k]))})
				// repair for the following cases
				os.Chmod(filepath.Join(dir, ".git", "lfs", "objects", o[0:2], o[2:4], o), 0o644)
				os.WriteFile(filepath.Join(dir, ".git", "lfs", "objects", o[0:2], o[2:4], o), cont[k], 0o644)
				break
			}
		}
		lines = append(lines, fmt.Sprintf("C01 mergeout %s %s", hx(old), hx(want)))
		impl = append(impl, hx(got))
		cases = append(cases, enc)
	}
	ans, err := c.Or.Ask(lines)
	if err != nil {
		c.R.Add(Finding{Kind: "diff", What: "oracle process failed: " + err.Error(), Broken: "corr.C01.mergedriver"})
		return
	}
	for i := range lines {
		if ans[i] != impl[i] {
			c.R.Add(Finding{Kind: "diff", What: "merge-driver output file: model and implementation disagree", Case: cases[i], Impl: clip(impl[i], 400), Model: clip(ans[i], 400), Broken: "corr.C01.mergedriver"})
		}
	}
}

// c08Extension: the filters with a pointer extension configured (lfs.extension.<n>.clean/smudge/priority).
// Content must round-trip through the extension pair; a pointer handed to clean must pass through
// unchanged without anything being stored (D20, repaired: with an extension clean did not sniff for a pointer).
func c08Extension(c *Ctx, prop string, r *Rng) {
	for round := 0; round < 3; round++ {
		c08ExtensionKind(c, prop, NewRng(r.U64()), round)
	}
}

func c08ExtensionKind(c *Ctx, prop string, r *Rng, round int) {
	// the stored form may keep, shrink or grow the size: the pointer's size is the STORED size
	kinds := [][3]string{{"same-size", "tr a-z A-Z", "tr A-Z a-z"}, {"shrinking", "gzip -c", "gzip -dc"}, {"growing", "base64 -w0", "base64 -d"}}
	kind := kinds[round%3]
	dir := filepath.Join(c.Work, "c08-ext-"+prop+"-"+kind[0])
	if gitInit(dir) != nil {
		return
	}
	for k, v := range map[string]string{"lfs.extension.up.clean": kind[1], "lfs.extension.up.smudge": kind[2], "lfs.extension.up.priority": "0"} {
		runIn(dir, nil, "git", "config", k, v)
	}
	c.R.Count("extension.kind." + kind[0])
	countObjs := func() int {
		n := 0
		filepath.Walk(filepath.Join(dir, ".git", "lfs", "objects"), func(p string, fi os.FileInfo, err error) error {
			if err == nil && !fi.IsDir() {
				n++
			}
			return nil
		})
		return n
	}
	n := c.N(6, 80)
	for i := 0; i < n; i++ {
		content := []byte(strings.Repeat("lower case text ", 1+r.Intn(200)))
		if r.Chance(30) {
			content = []byte(hx(r.Bytes(50 + r.Intn(3000)))) // hardly compressible, still lower-case text
		}
		ptr, code := runInStdin(dir, string(content), c.Lfs, "clean", "x.bin")
		enc := fmt.Sprintf("%s extension kind=%s len=%d", prop, kind[0], len(content))
		c.R.Eval(enc, true)
		c.R.Count("extension.clean")
		if code != 0 || !strings.Contains(ptr, "ext-0-up sha256:") {
			c.R.Add(Finding{Kind: "oracle", What: "clean with a configured pointer extension did not emit a pointer carrying the extension line", Case: enc, Impl: clip(ptr, 300)})
			continue
		}
		back, code2 := runInStdin(dir, ptr, c.Lfs, "smudge", "x.bin")
		if code2 != 0 || back != string(content) {
			c.R.Add(Finding{Kind: "oracle", What: "clean then smudge through a pointer extension pair did not return the original bytes", Case: enc, Impl: clip(back, 200)})
		}
		if prop == "C08" {
			before := countObjs()
			again, code3 := runInStdin(dir, ptr, c.Lfs, "clean", "x.bin")
			after := countObjs()
			c.R.Count("extension.clean-of-pointer")
			if code3 != 0 || again != ptr || after != before {
				c.R.Add(Finding{Kind: "oracle", What: "a well-formed pointer given to clean was not written back unchanged (pointer to a pointer) / something was added to local storage", Sig: "D20",
					Case: enc + " (pointer extension configured)", Impl: fmt.Sprintf("objects %d -> %d; output %q", before, after, clip(again, 200))})
			}
		}
	}
}

func init() {
	campaigns["C08"] = func(c *Ctx) {
		filterCampaign(c, "C08")
		if c.Replay == "" {
			c08Extension(c, "C08", NewRng(c.Seed^0xC08E))
			c08BigThroughPipes(c, NewRng(c.Seed^0xC08F))
		}
	}
	campaigns["C01"] = func(c *Ctx) {
		filterCampaign(c, "C01")
		if c.Replay == "" {
			c01MergeDriver(c, NewRng(c.Seed^0xC01D))
			c01OneShotEnv(c, NewRng(c.Seed^0xC01A))
			c01StaleObject(c, NewRng(c.Seed^0xC01B))
			c08Extension(c, "C01", NewRng(c.Seed^0xC01E))
			// smudging into a named file over {no file, same file, same length, shorter, longer}
			smudgeToFileCampaign(c, NewRng(c.Seed^0xC01F), "C01")
		}
	}
}

// c08BigThroughPipes: content far larger than the pipes between Git and a long-running filter hold — raw
// files committed at tracked paths, look-alikes that begin like a pointer — through the real
// `git-lfs filter-process`, spoken to the way Git does (the whole request is written before a byte of
// the answer is read), with and without the delay capability.  Pass-through means: all of it comes back.
func c08BigThroughPipes(c *Ctx, r *Rng) {
	n := c.N(4, 40)
	for i := 0; i < n; i++ {
		p := fpProgram{Delay: i%2 == 0, SkipErrs: true}
		p.Objects = []fpObject{{Content: r.Bytes(50), Where: "local"}}
		for k := 0; k < 2; k++ {
			big := r.Bytes(Pick(r, []int{250000, 600000, 1100000}))
			if r.Bool() {
				big = append(canonicalPointer(sha(big), int64(len(big))), big...)
			}
			cmd := Pick(r, []string{"smudge", "smudge", "clean"})
			p.Reqs = append(p.Reqs, fpReq{Cmd: cmd, Path: fmt.Sprintf("dir/big%d.bin", k), Obj: -1, CanDelay: cmd == "smudge" && p.Delay, PktSize: 65516, Payload: big})
		}
		runFpProgram(c, 900000+i, p)
		c.R.Count("big-through-pipes")
	}
}

// c01StaleObject: at the path where the object of the content belongs, local storage already holds a file
// that is NOT that object (another length: what a power loss shortly after an earlier clean leaves, nothing
// being synced).  Whatever clean does — refuse, or replace the file — a pointer it emits with exit 0 must
// name what is stored under that id.
func c01StaleObject(c *Ctx, r *Rng) {
	n := c.N(24, 400)
	dir := filepath.Join(c.Work, "c01-stale")
	if gitInit(dir) != nil {
		return
	}
	for i := 0; i < n; i++ {
		content := r.Bytes(Pick(r, []int{200, 5000, 70000, 300000}))
		oid := sha(content)
		obj := filepath.Join(dir, ".git", "lfs", "objects", oid[0:2], oid[2:4], oid)
		os.MkdirAll(filepath.Dir(obj), 0o755)
		stale := Pick(r, []string{"empty", "truncated", "longer", "none", "intact"})
		switch stale {
		case "empty":
			os.WriteFile(obj, nil, 0o644)
		case "truncated":
			os.WriteFile(obj, content[:len(content)/3], 0o644)
		case "longer":
			os.WriteFile(obj, append(append([]byte(nil), content...), []byte("tail")...), 0o644)
		case "intact":
			os.WriteFile(obj, content, 0o644)
		default:
			os.Remove(obj)
		}
		cmd := exec.Command(c.Lfs, "clean", "--", "x.bin")
		cmd.Dir = dir
		cmd.Stdin = bytes.NewReader(content)
		var so, se bytes.Buffer
		cmd.Stdout, cmd.Stderr = &so, &se
		err := cmd.Run()
		enc := fmt.Sprintf("C01 stale-object size=%d at-object-path=%s", len(content), stale)
		c.R.Eval(enc, stale != "none" && stale != "intact")
		c.R.Count("stale-object." + stale)
		if err == nil {
			if so.String() != string(canonicalPointer(oid, int64(len(content)))) {
				c.R.Add(Finding{Kind: "oracle", What: "one-shot clean exited 0 but its output is not the pointer of the content", Case: enc, Impl: clip(so.String(), 200)})
			}
			if b, rerr := os.ReadFile(obj); rerr != nil || sha(b) != oid {
				c.R.Add(Finding{Kind: "oracle", What: "the pointer that clean emitted names an id under which local storage does not hold the content", Case: enc,
					Impl: fmt.Sprintf("stored: %d bytes (err %v), content: %d bytes; stderr: %s", len(b), rerr, len(content), clip(se.String(), 150))})
			}
		} else if stale == "none" || stale == "intact" {
			c.R.Add(Finding{Kind: "oracle", What: "one-shot clean failed on a healthy store", Case: enc, Impl: clip(se.String(), 200)})
		}
		os.Remove(obj)
		// a pointer that names a stored object with ANOTHER size (a hand-edited or damaged pointer file): the
		// smudge of that text may fail, but it must leave the object alone — the real pointer still smudges
		if i%3 == 0 {
			if _, code := runInStdin(dir, string(content), c.Lfs, "clean", "--", "y.bin"); code != 0 {
				continue
			}
			wrong := canonicalPointer(oid, int64(len(content)+Pick(r, []int{1, -1, 1000})))
			runInStdin(dir, string(wrong), c.Lfs, "smudge", "--", "y.bin")
			out, code := runInStdin(dir, string(canonicalPointer(oid, int64(len(content)))), c.Lfs, "smudge", "--", "y.bin")
			c.R.Count("stale-object.wrong-size-pointer")
			if code != 0 || out != string(content) {
				c.R.Add(Finding{Kind: "oracle", What: "clean then smudge did not return the original bytes", Case: fmt.Sprintf("C01 wrong-size-pointer size=%d", len(content)),
					Impl: fmt.Sprintf("after the smudge of a pointer naming the same object with another size: exit %d, %d bytes back", code, len(out))})
			}
			os.Remove(obj)
		}
	}
}
