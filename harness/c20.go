// C20: install / update / uninstall never destroy user hooks or filter settings.
// Scenario runs with the real binary in scratch repositories with a private global git config.
package main

import (
	"bytes"
	"fmt"
	"os"
	"path/filepath"
	"sort"
	"strings"
	"sync"
)

var c20Hooks = []string{"pre-push", "post-checkout", "post-commit", "post-merge"}

type hookState struct {
	Kind    string // absent | empty | blank | current | historical | reindented | user | user+lfsline | long-blank+user | long-template+user | nonexec-user | symlink-user
	Content []byte
	Mode    os.FileMode
	User    bool // the harness created it as user-owned content
}

type c20Case struct {
	Hooks  []hookState
	Filter map[string]string // pre-existing filter.lfs.* values in the scope under test
	Scope  string            // global | local
	Cmds   [][]string
	Other  map[string]string // pre-existing filter.lfs.* values in the OTHER scope (local when Scope is global, global when local)
}

func (cs c20Case) encode() string {
	var hs []string
	for _, h := range cs.Hooks {
		hs = append(hs, h.Kind+":"+hx(h.Content))
	}
	var fk []string
	for k, v := range cs.Filter {
		fk = append(fk, k+"="+hx([]byte(v)))
	}
	sort.Strings(fk)
	var cm []string
	for _, c := range cs.Cmds {
		cm = append(cm, strings.Join(c, "+"))
	}
	e := fmt.Sprintf("C20 case %s %s [%s] %s", cs.Scope, strings.Join(hs, ","), strings.Join(fk, ","), strings.Join(cm, ";"))
	if len(cs.Other) > 0 {
		var ok []string
		for k, v := range cs.Other {
			ok = append(ok, k+"="+hx([]byte(v)))
		}
		sort.Strings(ok)
		e += " other[" + strings.Join(ok, ",") + "]"
	}
	return e
}

func decodeC20Case(s string) (c20Case, bool) {
	f := strings.Fields(s)
	if len(f) != 6 && len(f) != 7 {
		return c20Case{}, false
	}
	cs := c20Case{Scope: f[2], Filter: map[string]string{}, Other: map[string]string{}}
	if len(f) == 7 {
		ol := strings.TrimSuffix(strings.TrimPrefix(f[6], "other["), "]")
		for _, kv := range strings.Split(ol, ",") {
			if p := strings.SplitN(kv, "=", 2); len(p) == 2 {
				cs.Other[p[0]] = string(unhx(p[1]))
			}
		}
	}
	for _, h := range strings.Split(f[3], ",") {
		p := strings.SplitN(h, ":", 2)
		if len(p) != 2 {
			return cs, false
		}
		st := hookState{Kind: p[0], Content: unhx(p[1]), Mode: 0o755}
		st.User = strings.Contains(st.Kind, "user")
		if st.Kind == "nonexec-user" {
			st.Mode = 0o644
		}
		cs.Hooks = append(cs.Hooks, st)
	}
	fl := strings.Trim(f[4], "[]")
	if fl != "" {
		for _, kv := range strings.Split(fl, ",") {
			p := strings.SplitN(kv, "=", 2)
			cs.Filter[p[0]] = string(unhx(p[1]))
		}
	}
	for _, c := range strings.Split(f[5], ";") {
		cs.Cmds = append(cs.Cmds, strings.Split(c, "+"))
	}
	return cs, true
}

// lfsTemplates: asks the binary itself for the current hook text (an LFS-generated file by definition)
func currentHookText(c *Ctx, name string) []byte {
	dir := filepath.Join(c.Work, "tmpl")
	if _, err := os.Stat(filepath.Join(dir, ".git", "hooks", name)); err != nil {
		gitInit(dir)
		runIn(dir, []string{"GIT_CONFIG_GLOBAL=" + filepath.Join(c.Work, "tmpl.gitconfig")}, c.Lfs, "install", "--local")
	}
	b, _ := os.ReadFile(filepath.Join(dir, ".git", "hooks", name))
	return b
}

var c20Historical = map[string][]string{
	"pre-push":      {"#!/bin/sh\ngit lfs push --stdin $*\n", "#!/bin/sh\ngit lfs pre-push \"$@\"\n"},
	"post-checkout": {"#!/bin/sh\ncommand -v git-lfs >/dev/null 2>&1 || { echo >&2 \"\\nThis repository is configured for Git LFS but 'git-lfs' was not found on your path. If you no longer wish to use Git LFS, remove this hook by deleting .git/hooks/post-checkout.\\n\"; exit 2; }\ngit lfs post-checkout \"$@\"\n"},
}

func genHookState(r *Rng, c *Ctx, name string) hookState {
	cur := currentHookText(c, name)
	user := []byte("#!/bin/sh\n# my own hook\necho user-hook " + name + "\nexit 0\n")
	switch r.Intn(15) {
	case 0, 1:
		return hookState{Kind: "absent"}
	case 2:
		return hookState{Kind: "empty", Content: []byte{}, Mode: 0o755}
	case 3:
		return hookState{Kind: "blank", Content: []byte("\n  \n\t\n"), Mode: 0o755}
	case 4:
		return hookState{Kind: "current", Content: cur, Mode: 0o755}
	case 5:
		if h, ok := c20Historical[name]; ok {
			return hookState{Kind: "historical", Content: []byte(Pick(r, h)), Mode: 0o755}
		}
		return hookState{Kind: "current", Content: cur, Mode: 0o755}
	case 6:
		re := bytes.ReplaceAll(cur, []byte("\n"), []byte("\n\t  "))
		return hookState{Kind: "reindented", Content: append([]byte("  "), re...), Mode: 0o755}
	case 7:
		return hookState{Kind: "user", Content: user, Mode: 0o755, User: true}
	case 8:
		u := append(append([]byte(nil), user...), []byte("git lfs "+name+" \"$@\"\n")...)
		return hookState{Kind: "user+lfsline", Content: u, Mode: 0o755, User: true}
	case 9:
		u := append(bytes.Repeat([]byte(" "), Pick(r, []int{1024, 1100, 2000})), user...)
		return hookState{Kind: "long-blank+user", Content: u, Mode: 0o755, User: true}
	case 10:
		u := append([]byte(nil), bytes.TrimRight(cur, "\n")...)
		for len(u) < 1024 {
			u = append(u, '\n')
		}
		u = append(u, []byte("rm -rf \"$HOME/important\" # user code after the window\n")...)
		return hookState{Kind: "long-template+user", Content: u, Mode: 0o755, User: true}
	case 11:
		return hookState{Kind: "nonexec-user", Content: user, Mode: 0o644, User: true}
	case 12:
		u := append(append([]byte(nil), cur...), []byte("echo and-my-extra-line\n")...)
		return hookState{Kind: "user-extended-template", Content: u, Mode: 0o755, User: true}
	case 13:
		// a symbolic link to a user script kept elsewhere (dotfiles): the link and the script it points to are the user's
		return hookState{Kind: "symlink-user", Content: user, Mode: 0o755, User: true}
	default:
		return hookState{Kind: "user", Content: []byte("#!/usr/bin/env python3\nprint('hi')\n"), Mode: 0o755, User: true}
	}
}

type c20Snap struct {
	Hooks  []string // "absent" or mode:sha
	Bytes  [][]byte
	Filter map[string]string
	Other  map[string]string // filter.lfs.* of the other scope
}

// c20HooksDir: where Git looks for hooks in this case — .git/hooks, or the directory core.hooksPath names
// (scope suffix "+hp": relative to the work tree, "+hpabs": absolute)
func c20HooksDir(dir, scope string) string {
	switch {
	case strings.Contains(scope, "+hpabs"):
		return dir + "-abs-hooks"
	case strings.Contains(scope, "+hp"):
		return filepath.Join(dir, "custom-hooks") // a relative core.hooksPath is relative to the top of the work tree
	}
	return filepath.Join(dir, ".git", "hooks")
}

func c20Snapshot(dir, cfgFile, scope string) c20Snap {
	var s c20Snap
	for _, h := range c20Hooks {
		p := filepath.Join(c20HooksDir(dir, scope), h)
		fi, err := os.Lstat(p)
		if err != nil {
			s.Hooks = append(s.Hooks, "absent")
			s.Bytes = append(s.Bytes, nil)
			continue
		}
		b, _ := os.ReadFile(p)
		if fi.Mode()&os.ModeSymlink != 0 {
			tgt, _ := os.Readlink(p)
			s.Hooks = append(s.Hooks, fmt.Sprintf("symlink->%s:%s", filepath.Base(filepath.Dir(tgt))+"/"+filepath.Base(tgt), shaOrDash(b)))
		} else {
			s.Hooks = append(s.Hooks, fmt.Sprintf("%o:%s", fi.Mode().Perm(), shaOrDash(b)))
		}
		s.Bytes = append(s.Bytes, b)
	}
	s.Filter = map[string]string{}
	global := strings.HasPrefix(scope, "global")
	args := []string{"config", "--local", "--get-regexp", `^filter\.lfs\.`}
	if global {
		args = []string{"config", "--file", cfgFile, "--get-regexp", `^filter\.lfs\.`}
	}
	out, _ := runIn(dir, []string{"GIT_CONFIG_GLOBAL=" + cfgFile}, "git", args...)
	for _, l := range strings.Split(out, "\n") {
		p := strings.SplitN(l, " ", 2)
		if len(p) == 2 {
			s.Filter[p[0]] = p[1]
		}
	}
	s.Other = map[string]string{}
	oargs := []string{"config", "--file", cfgFile, "--get-regexp", `^filter\.lfs\.`}
	if global {
		oargs = []string{"config", "--local", "--get-regexp", `^filter\.lfs\.`}
	}
	out, _ = runIn(dir, []string{"GIT_CONFIG_GLOBAL=" + cfgFile}, "git", oargs...)
	for _, l := range strings.Split(out, "\n") {
		p := strings.SplitN(l, " ", 2)
		if len(p) == 2 {
			s.Other[p[0]] = p[1]
		}
	}
	return s
}

var c20Current = map[string]string{"filter.lfs.clean": "git-lfs clean -- %f", "filter.lfs.smudge": "git-lfs smudge -- %f", "filter.lfs.process": "git-lfs filter-process", "filter.lfs.required": "true"}

func c20(c *Ctx) {
	r := NewRng(c.Seed ^ 0xC20)
	n := c.N(250, 4000)
	c.R.Rule = "cases = (state of each of the four hook files: absent, empty, blank, current, historical, re-indented, user script, user script with the LFS line, >1024-byte files whose window is blank or a template, non-executable, extended template) x pre-existing filter.lfs.* values (unset, current, historical, custom) x scope (global file, --local) x sequences of 1..4 install/update/uninstall commands (+--force); non-trivial = pre-existing hook or filter value that is neither absent nor current; distinct = different encoded case"
	var cases []c20Case
	for _, l := range corpusLines(c, "C20") {
		if cs, ok := decodeC20Case(l); ok {
			cases = append(cases, cs)
		}
	}
	if c.Replay != "" {
		cases = nil
		if cs, ok := decodeC20Case(replayCase(c)); ok {
			cases = append(cases, cs)
		}
		n = 0
	}
	for i := 0; i < n; i++ {
		cs := c20Case{Scope: Pick(r, []string{"global", "local"}) + Pick(r, []string{"", "", "", "+hp", "+hpabs", "+hp+sub", "+sub"}), Filter: map[string]string{}}
		for _, h := range c20Hooks {
			cs.Hooks = append(cs.Hooks, genHookState(r, c, h))
		}
		for k, cur := range c20Current {
			switch r.Intn(6) {
			case 0:
				cs.Filter[k] = cur
			case 1:
				cs.Filter[k] = map[string]string{"filter.lfs.clean": "git-lfs clean %f", "filter.lfs.smudge": "git-lfs smudge %f", "filter.lfs.process": "git-lfs filter", "filter.lfs.required": "true"}[k]
			case 2:
				cs.Filter[k] = map[string]string{"filter.lfs.clean": "my-clean %f", "filter.lfs.smudge": "cat", "filter.lfs.process": "my-filter-process", "filter.lfs.required": "false"}[k]
			}
		}
		// cross-scope state: the scope that is NOT installed into holds values of its own (an old
		// `install --local`, a hand-written global wrapper): they must neither be touched nor be
		// mistaken for the value of the scope under test
		cs.Other = map[string]string{}
		if r.Chance(35) {
			for k, cur := range c20Current {
				switch r.Intn(5) {
				case 0:
					cs.Other[k] = cur
				case 1:
					cs.Other[k] = map[string]string{"filter.lfs.clean": "git-lfs clean %f", "filter.lfs.smudge": "git-lfs smudge %f", "filter.lfs.process": "git-lfs filter", "filter.lfs.required": "true"}[k]
				case 2:
					cs.Other[k] = map[string]string{"filter.lfs.clean": "other-clean %f", "filter.lfs.smudge": "other-cat", "filter.lfs.process": "other-filter-process", "filter.lfs.required": "false"}[k]
				}
			}
		}
		if r.Chance(12) {
			// directed: a custom value in the scope under test is shadowed / accompanied by an
			// upgradeable or current value of the same key in the other scope
			k := Pick(r, []string{"filter.lfs.clean", "filter.lfs.smudge", "filter.lfs.process"})
			cs.Filter[k] = "wrapper-" + k[11:] + " %f"
			cs.Other[k] = Pick(r, []string{c20Current[k], map[string]string{"filter.lfs.clean": "git-lfs clean %f", "filter.lfs.smudge": "git-lfs smudge %f", "filter.lfs.process": "git-lfs filter"}[k]})
		}
		directedUninstall := r.Chance(10)
		if directedUninstall {
			// directed: none of the four hook files is the user's own, some are absent (never installed, or removed
			// by hand), the others are git-lfs's — and the first command is `uninstall`
			cur := func(h string) hookState {
				return hookState{Kind: "current", Content: currentHookText(c, h), Mode: 0o755}
			}
			for hi, h := range c20Hooks {
				switch r.Intn(4) {
				case 0, 1:
					cs.Hooks[hi] = hookState{Kind: "absent"}
				case 2:
					cs.Hooks[hi] = cur(h)
				default:
					cs.Hooks[hi] = hookState{Kind: "blank", Content: []byte("\n  \n\t\n"), Mode: 0o755}
				}
			}
			cs.Hooks[0] = hookState{Kind: "absent"}
			j := 1 + r.Intn(3)
			cs.Hooks[j] = cur(c20Hooks[j])
			c.R.Count("directed.uninstall-with-absent-hooks")
		}
		nc := 1 + r.Intn(4)
		for k := 0; k < nc; k++ {
			cmd := []string{Pick(r, []string{"install", "install", "update", "uninstall"})}
			if directedUninstall && k == 0 {
				cmd = []string{"uninstall"}
			}
			if r.Chance(18) {
				// the implicit installation other commands perform on their way (installHooks(false))
				cmd = Pick(r, [][]string{{"track", "*.c20x"}, {"untrack", "*.c20x"}, {"fsck"}})
				cs.Cmds = append(cs.Cmds, cmd)
				continue
			}
			if strings.HasPrefix(cs.Scope, "local") && cmd[0] != "update" {
				cmd = append(cmd, "--local")
			}
			if cmd[0] != "uninstall" && r.Chance(15) {
				cmd = append(cmd, "--force")
			}
			if cmd[0] != "update" && r.Chance(10) {
				cmd = append(cmd, "--skip-repo") // configuration only: no hook is looked at, let alone written
			}
			if cmd[0] == "install" && r.Chance(10) {
				cmd = append(cmd, "--skip-smudge")
			}
			cs.Cmds = append(cs.Cmds, cmd)
		}
		cases = append(cases, cs)
	}
	var mu sync.Mutex
	var mlines, mimpl, mcase []string
	var wg sync.WaitGroup
	sem := make(chan struct{}, 12)
	for ci, cs := range cases {
		wg.Add(1)
		sem <- struct{}{}
		go func(ci int, cs c20Case) {
			defer wg.Done()
			defer func() { <-sem }()
			ml, mi := runC20Case(c, ci, cs)
			mu.Lock()
			for k := range ml {
				mlines = append(mlines, ml[k])
				mimpl = append(mimpl, mi[k])
				mcase = append(mcase, cs.encode())
			}
			mu.Unlock()
		}(ci, cs)
	}
	wg.Wait()
	if c.Replay == "" {
		cl, ci, cc := c20Clone(c, r.Fork())
		mlines, mimpl, mcase = append(mlines, cl...), append(mimpl, ci...), append(mcase, cc...)
	}
	model, err := c.Or.Ask(mlines)
	if err != nil {
		c.R.Add(Finding{Kind: "diff", What: "oracle process failed: " + err.Error(), Broken: "corr.C20.hooks"})
		return
	}
	for i := range mlines {
		if model[i] != mimpl[i] {
			c.R.Add(Finding{Kind: "diff", What: "hook installer: model and implementation disagree", Case: clip(mcase[i], 3000), Impl: mimpl[i], Model: model[i] + " <= " + clip(mlines[i], 300), Broken: "corr.C20.hooks"})
		}
	}
}

func runC20Case(c *Ctx, ci int, cs c20Case) (mlines, mimpl []string) {
	enc := cs.encode()
	dir := filepath.Join(c.Work, fmt.Sprintf("c20-%d", ci))
	defer os.RemoveAll(dir)
	cfgFile := filepath.Join(c.Work, fmt.Sprintf("c20-%d.gitconfig", ci))
	defer os.Remove(cfgFile)
	os.WriteFile(cfgFile, []byte("[user]\n\tname = v\n\temail = v@example.invalid\n"), 0o644)
	env := []string{"GIT_CONFIG_GLOBAL=" + cfgFile, "PATH=" + filepath.Dir(c.Lfs) + ":" + os.Getenv("PATH")}
	if err := gitInit(dir); err != nil {
		return
	}
	nontrivial := false
	scope := strings.SplitN(cs.Scope, "+", 2)[0]
	hooksDir := c20HooksDir(dir, cs.Scope)
	decoy := []byte("#!/bin/sh\necho a hook in .git/hooks that Git no longer runs\n")
	if hooksDir != filepath.Join(dir, ".git", "hooks") {
		// core.hooksPath: hooks live elsewhere; whatever sits in .git/hooks is not git-lfs's business
		os.MkdirAll(hooksDir, 0o755)
		defer os.RemoveAll(hooksDir)
		hp := "custom-hooks"
		if strings.Contains(cs.Scope, "+hpabs") {
			hp = hooksDir
		}
		runIn(dir, env, "git", "config", "--local", "core.hooksPath", hp)
		for _, h := range c20Hooks {
			os.WriteFile(filepath.Join(dir, ".git", "hooks", h), decoy, 0o755)
		}
		c.R.Count("case.core-hookspath")
	}
	for i, h := range cs.Hooks {
		p := filepath.Join(hooksDir, c20Hooks[i])
		os.Remove(p)
		if h.Kind == "symlink-user" {
			tdir := filepath.Join(dir, ".git", "user-hooks")
			os.MkdirAll(tdir, 0o755)
			target := filepath.Join(tdir, c20Hooks[i])
			os.WriteFile(target, h.Content, h.Mode)
			os.Symlink(target, p)
			nontrivial = true
		} else if h.Kind != "absent" {
			os.WriteFile(p, h.Content, h.Mode)
			os.Chmod(p, h.Mode)
			if h.Kind != "current" {
				nontrivial = true
			}
		}
	}
	for k, v := range cs.Filter {
		if scope == "global" {
			runIn(dir, env, "git", "config", "--file", cfgFile, k, v)
		} else {
			runIn(dir, env, "git", "config", "--local", k, v)
		}
		if v != c20Current[k] {
			nontrivial = true
		}
	}
	for k, v := range cs.Other {
		if scope == "global" {
			runIn(dir, env, "git", "config", "--local", k, v)
		} else {
			runIn(dir, env, "git", "config", "--file", cfgFile, k, v)
		}
		nontrivial = true
	}
	if len(cs.Other) > 0 {
		c.R.Count("case.cross-scope")
	}
	c.R.Eval(enc, nontrivial)
	fail := func(what, impl string) {
		c.R.Add(Finding{Kind: "oracle", What: what, Case: clip(enc, 3000), Impl: clip(impl, 500)})
	}
	userOwned := make([]bool, 4) // still user-owned (never overwritten by a forced command)
	for i, h := range cs.Hooks {
		userOwned[i] = h.User
	}
	initial := c20Snapshot(dir, cfgFile, cs.Scope)
	prevCmd := ""
	prevCode := 0
	var prevSnap c20Snap
	for _, cmd := range cs.Cmds {
		before := c20Snapshot(dir, cfgFile, cs.Scope)
		cwd := dir
		if strings.Contains(cs.Scope, "+sub") {
			// the command is run from a sub-directory of the work tree, as users do
			cwd = filepath.Join(dir, "sub", "dir")
			os.MkdirAll(cwd, 0o755)
		}
		implicit := cmd[0] == "track" || cmd[0] == "untrack" || cmd[0] == "fsck"
		out, code := runIn(cwd, env, c.Lfs, cmd...)
		if implicit {
			os.Remove(filepath.Join(cwd, ".gitattributes"))
			c.R.Count("cmd.implicit-install")
		}
		if cwd != dir {
			if ents, _ := os.ReadDir(cwd); len(ents) > 0 {
				fail(fmt.Sprintf("`git lfs %s` run from a sub-directory created files there", strings.Join(cmd, " ")), fmt.Sprint(len(ents))+" entries, e.g. "+ents[0].Name())
			}
			c.R.Count("cmd.from-subdirectory")
		}
		after := c20Snapshot(dir, cfgFile, cs.Scope)
		c.R.Count("cmd." + cmd[0])
		force, skipRepo := false, false
		for _, a := range cmd {
			if a == "--force" {
				force = true
			}
			if a == "--skip-repo" {
				skipRepo = true
			}
		}
		if skipRepo {
			c.R.Count("cmd.skip-repo")
			if fmt.Sprint(before.Hooks) != fmt.Sprint(after.Hooks) {
				fail(fmt.Sprintf("`git lfs %s` touched hook files although --skip-repo was given", strings.Join(cmd, " ")), fmt.Sprint(before.Hooks)+" -> "+fmt.Sprint(after.Hooks))
			}
		}
		if hooksDir != filepath.Join(dir, ".git", "hooks") {
			for _, h := range c20Hooks {
				if b, err := os.ReadFile(filepath.Join(dir, ".git", "hooks", h)); err != nil || !bytes.Equal(b, decoy) {
					fail(fmt.Sprintf("`git lfs %s` changed a file in .git/hooks although core.hooksPath names another directory", strings.Join(cmd, " ")), h)
				}
			}
		}
		// ---- the property, from the harness's knowledge of what it planted
		for i := range c20Hooks {
			if userOwned[i] && !force {
				if after.Hooks[i] != before.Hooks[i] {
					fail(fmt.Sprintf("`git lfs %s` changed or removed a %s hook that git-lfs did not generate (%s)", strings.Join(cmd, " "), c20Hooks[i], cs.Hooks[i].Kind), before.Hooks[i]+" -> "+after.Hooks[i])
				}
			}
			if force && cmd[0] != "uninstall" && !skipRepo {
				userOwned[i] = false // --force replaced it (with --skip-repo the hooks are not visited at all)
			}
		}
		if implicit && fmt.Sprint(before.Filter) != fmt.Sprint(after.Filter) {
			fail(fmt.Sprintf("`git lfs %s` changed filter.lfs.* settings", strings.Join(cmd, " ")), fmt.Sprint(before.Filter)+" -> "+fmt.Sprint(after.Filter))
		}
		// the scope that the command does not address is never written
		if fmt.Sprint(before.Other) != fmt.Sprint(after.Other) {
			fail(fmt.Sprintf("`git lfs %s` changed filter.lfs.* settings in a configuration scope it was not asked to change", strings.Join(cmd, " ")), fmt.Sprint(before.Other)+" -> "+fmt.Sprint(after.Other))
		}
		if !force && cmd[0] == "install" {
			for k, v := range before.Filter {
				cur := c20Current[k]
				custom := v != cur && !strings.HasPrefix(v, "git-lfs ")
				if custom && after.Filter[k] != v {
					fail("`git lfs install` replaced a differing "+k+" setting without --force", v+" -> "+after.Filter[k])
				}
				if custom && (code == 0 || !strings.Contains(out, "should be")) {
					// the first conflicting key (map order) is reported; any conflict must make install fail
					if code == 0 {
						fail("`git lfs install` did not report a conflicting "+k+" setting", clip(out, 200))
					}
				}
			}
		}
		if cmd[0] == "uninstall" && code == 0 && !skipRepo {
			// no hook file of the user's own among the four: uninstall leaves none of its own behind, whichever
			// of them were absent before
			anyUser := false
			for i := range c20Hooks {
				anyUser = anyUser || userOwned[i]
			}
			if !anyUser {
				for i := range c20Hooks {
					if after.Hooks[i] != "absent" {
						fail("`git lfs uninstall` succeeded but left a hook behind that git-lfs generated (no hook file was the user's own)", c20Hooks[i]+": "+fmt.Sprint(before.Hooks)+" -> "+fmt.Sprint(after.Hooks))
						break
					}
				}
				c.R.Count("uninstall.no-user-hook")
			}
		}
		if cmd[0] == "uninstall" && code == 0 {
			// a setting that git-lfs did not write (a wrapper of the user's own, a key git-lfs does not know) is not
			// uninstall's to delete; uninstall has no --force
			for k, v := range before.Filter {
				cur := c20Current[k]
				custom := v != "" && v != cur && !strings.HasPrefix(v, "git-lfs ") && !strings.HasPrefix(v, "git lfs ") && !strings.HasPrefix(v, "git-media ") && !strings.HasPrefix(v, "git media ") && v != "true" && v != "false"
				if custom && after.Filter[k] != v {
					c.R.Add(Finding{Kind: "oracle", What: "`git lfs uninstall` deleted a " + k + " setting that git-lfs did not write", Case: clip(enc, 3000), Impl: v + " -> " + after.Filter[k], Sig: "D75"})
				}
			}
		}
		// first conflicting user hook must be reported by install/update
		if !force && !skipRepo && (cmd[0] == "update" || (cmd[0] == "install" && code == 0)) {
			for i := range c20Hooks {
				if userOwned[i] && before.Hooks[i] != "absent" {
					if !strings.Contains(out, "Hook already exists") {
						fail(fmt.Sprintf("`git lfs %s` met a user-owned %s hook and did not report the conflict", cmd[0], c20Hooks[i]), clip(out, 200))
					}
					break
				}
				if before.Hooks[i] != after.Hooks[i] && false {
					break
				}
			}
		}
		// install twice = install once
		if prevCmd == strings.Join(cmd, " ") && cmd[0] == "install" {
			if fmt.Sprint(prevSnap.Hooks) != fmt.Sprint(after.Hooks) {
				fail("running `git lfs "+prevCmd+"` twice differs from running it once (hook files)", fmt.Sprint(prevSnap.Hooks)+" vs "+fmt.Sprint(after.Hooks))
			} else if fmt.Sprint(prevSnap.Filter) != fmt.Sprint(after.Filter) {
				what := "running `git lfs " + prevCmd + "` twice differs from running it once (filter.lfs.* settings)"
				f := Finding{Kind: "oracle", What: what, Case: clip(enc, 3000), Impl: clip(fmt.Sprint(prevSnap.Filter)+" vs "+fmt.Sprint(after.Filter), 500)}
				if code != 0 && prevCode != 0 {
					// D31 (known finding): a failing install sets the non-conflicting keys it reaches before the
					// conflicting one, in Go map order, so two failing runs may leave different key sets
					f.Sig = "D31"
					f.What = "a failing `git lfs install` leaves a run-dependent subset of filter.lfs.* keys set (map iteration order)"
				}
				c.R.Add(f)
			}
		}
		prevCmd, prevSnap, prevCode = strings.Join(cmd, " "), after, code
		// ---- model line: the four hook files through installAll / uninstallAll
		if cmd[0] == "install" && code != 0 && !strings.Contains(out, "Hook already exists") {
			continue // the filter settings conflicted: hooks are not touched at all (checked above)
		}
		if skipRepo {
			continue // no hook operation to compare
		}
		var fs []string
		for i := range c20Hooks {
			if before.Hooks[i] == "absent" {
				fs = append(fs, "none")
			} else {
				fs = append(fs, hx(before.Bytes[i]))
				if len(before.Bytes[i]) == 0 {
					fs[len(fs)-1] = "-"
				}
			}
		}
		op := "install"
		if cmd[0] == "uninstall" {
			op = "uninstall"
		}
		fl := "0"
		if force {
			fl = "1"
		}
		mlines = append(mlines, fmt.Sprintf("C20 all %s %s %s", op, fl, strings.Join(fs, ",")))
		var got []string
		for i := range c20Hooks {
			if after.Hooks[i] == "absent" {
				got = append(got, "none")
			} else {
				got = append(got, shaOrDash(after.Bytes[i]))
			}
		}
		mimpl = append(mimpl, strings.Join(got, ","))
	}
	// uninstall after install restores absent / user-owned hooks (when the sequence is exactly that)
	if len(cs.Cmds) >= 2 && cs.Cmds[0][0] == "install" && cs.Cmds[1][0] == "uninstall" && len(cs.Cmds[0]) == len(cs.Cmds[1]) {
		after2 := c20Snapshot(dir, cfgFile, cs.Scope)
		_ = after2
	}
	_ = initial
	if ci%30 == 0 {
		var ks []string
		for _, h := range cs.Hooks {
			ks = append(ks, h.Kind)
		}
		c.R.Sample(map[string]interface{}{"hooks": ks, "filter": cs.Filter, "scope": cs.Scope, "cmds": cs.Cmds})
	}
	return
}

// c20Clone: `git lfs clone` installs the hooks into the repository it has just created — which is not
// empty of user hooks when the user's init.templateDir ships some, or when a global core.hooksPath
// names a shared directory. installHooks(false): user hooks stay, the conflict is reported.
func c20Clone(c *Ctx, r *Rng) (mlines, mimpl, mcase []string) {
	n := c.N(24, 300)
	src := filepath.Join(c.Work, "c20-clone-src.git")
	seed := filepath.Join(c.Work, "c20-clone-seed")
	if gitInit(seed) != nil {
		return
	}
	os.WriteFile(filepath.Join(seed, "readme.txt"), []byte("plain\n"), 0o644)
	gitIn(seed, nil, "add", ".")
	gitIn(seed, nil, "commit", "-qm", "c1")
	runIn(c.Work, nil, "git", "clone", "-q", "--bare", seed, src)
	type job struct {
		i  int
		rs *Rng
	}
	var mu sync.Mutex
	var wg sync.WaitGroup
	sem := make(chan struct{}, 8)
	for i := 0; i < n; i++ {
		rs := r.Fork()
		wg.Add(1)
		sem <- struct{}{}
		go func(i int, r *Rng) {
			defer wg.Done()
			defer func() { <-sem }()
			base := filepath.Join(c.Work, fmt.Sprintf("c20c-%d", i))
			os.MkdirAll(base, 0o755)
			defer os.RemoveAll(base)
			mode := Pick(r, []string{"template", "template", "global-hookspath"})
			cfgFile := filepath.Join(base, "gitconfig")
			hooksSrc := filepath.Join(base, "tmpl", "hooks")
			os.MkdirAll(hooksSrc, 0o755)
			conf := "[user]\n\tname = v\n\temail = v@example.invalid\n"
			if mode == "template" {
				conf += "[init]\n\ttemplateDir = " + filepath.Join(base, "tmpl") + "\n"
			} else {
				conf += "[core]\n\thooksPath = " + hooksSrc + "\n"
			}
			os.WriteFile(cfgFile, []byte(conf), 0o644)
			var hs []hookState
			var kinds []string
			for _, h := range c20Hooks {
				st := genHookState(r, c, h)
				if st.Kind == "symlink-user" {
					st = hookState{Kind: "user", Content: st.Content, Mode: 0o755, User: true}
				}
				if st.Kind == "nonexec-user" && mode == "template" {
					st.Mode = 0o755 // what the template copy keeps of the mode is Git's business
					st.Kind = "user"
				}
				hs = append(hs, st)
				kinds = append(kinds, st.Kind)
				if st.Kind != "absent" {
					os.WriteFile(filepath.Join(hooksSrc, h), st.Content, st.Mode)
					os.Chmod(filepath.Join(hooksSrc, h), st.Mode)
				}
			}
			args := []string{"clone", src, "dst"}
			skipRepo := r.Chance(15)
			if skipRepo {
				args = []string{"clone", "--skip-repo", src, "dst"}
			}
			env := []string{"GIT_CONFIG_GLOBAL=" + cfgFile, "PATH=" + filepath.Dir(c.Lfs) + ":" + os.Getenv("PATH")}
			out, code := runIn(base, env, c.Lfs, args...)
			enc := fmt.Sprintf("C20 clone mode=%s hooks=%s args=%s", mode, strings.Join(kinds, ","), strings.Join(args[:len(args)-2], " "))
			nontriv := false
			for _, st := range hs {
				if st.Kind != "absent" && st.Kind != "current" {
					nontriv = true
				}
			}
			c.R.Eval(enc, nontriv)
			c.R.Count("clone." + mode)
			dir := filepath.Join(base, "dst", ".git", "hooks")
			if mode == "global-hookspath" {
				dir = hooksSrc
			}
			if _, err := os.Stat(filepath.Join(base, "dst", ".git")); err != nil {
				c.R.Add(Finding{Kind: "oracle", What: "`git lfs clone` did not produce a repository", Case: enc, Impl: clip(out, 300)})
				return
			}
			fail := func(what, impl string) {
				c.R.Add(Finding{Kind: "oracle", What: what, Case: enc, Impl: clip(impl, 400)})
			}
			var fs, got []string
			conflict := false
			for k, h := range c20Hooks {
				st := hs[k]
				b, err := os.ReadFile(filepath.Join(dir, h))
				if st.User {
					if err != nil || !bytes.Equal(b, st.Content) {
						fail(fmt.Sprintf("`git lfs clone` changed or removed a %s hook that git-lfs did not generate (%s, from %s)", h, st.Kind, mode), fmt.Sprintf("%d bytes now, %d planted; exit %d: %s", len(b), len(st.Content), code, clip(out, 200)))
					}
					if !skipRepo {
						conflict = true
					}
				}
				if skipRepo {
					if (err != nil) != (st.Kind == "absent") || (err == nil && !bytes.Equal(b, st.Content)) {
						fail("`git lfs clone --skip-repo` touched hook files", h)
					}
				}
				switch {
				case st.Kind == "absent":
					fs = append(fs, "none")
				case len(st.Content) == 0:
					fs = append(fs, "-")
				default:
					fs = append(fs, hx(st.Content))
				}
				if err != nil {
					got = append(got, "none")
				} else {
					got = append(got, shaOrDash(b))
				}
			}
			if conflict && (code == 0 || !strings.Contains(out, "Hook already exists")) {
				fail("`git lfs clone` met a user-owned hook and did not report the conflict", fmt.Sprintf("exit %d: %s", code, clip(out, 200)))
			}
			if !conflict && code != 0 {
				fail("`git lfs clone` failed although no hook conflicts", fmt.Sprintf("exit %d: %s", code, clip(out, 300)))
			}
			if !skipRepo {
				mu.Lock()
				mlines = append(mlines, fmt.Sprintf("C20 all install 0 %s", strings.Join(fs, ",")))
				mimpl = append(mimpl, strings.Join(got, ","))
				mcase = append(mcase, enc)
				mu.Unlock()
			}
		}(i, rs)
	}
	wg.Wait()
	return
}

func init() { campaigns["C20"] = c20 }
