// C10: credentials only go to the host they were obtained for.
// In-process lfsapi.Client against several real listeners (plain/TLS, distinct ports and host
// spellings, and — when bindable — the implicit ports 80/443).  Every credential handed out by the
// recording helper names the (scheme, host) it was asked for inside the user name, so every
// Authorization value a server receives can be decoded back to the place it was obtained for.
package main

import (
	"crypto/tls"
	"encoding/base64"
	"fmt"
	"github.com/git-lfs/git-lfs/v3/tq"
	"io"
	"net"
	"net/http"
	"net/http/httptest"
	"net/url"
	"strconv"
	"strings"
	"sync"
	"time"

	"github.com/git-lfs/git-lfs/v3/config"
	"github.com/git-lfs/git-lfs/v3/creds"
	"github.com/git-lfs/git-lfs/v3/lfsapi"
	"github.com/git-lfs/git-lfs/v3/lfshttp"
)

const specMaxRedirects = 3 // "cut off after a small fixed number of hops": the constant in the source (Spec copy)

type rdListener struct {
	Scheme   string
	HostText string // how URLs spell it (name[:port]); the code compares this text
	EffPort  string // effective port
	Name     string // ip/name without port
	srv      *httptest.Server
}

type rdNode struct {
	L      int    `json:"l"`      // listener
	Kind   string `json:"kind"`   // final | redirect | needauth
	Status int    `json:"status"` // redirect status
	To     int    `json:"to"`     // redirect target node
	Loc    string `json:"loc"`    // abs | rel | bad
	Then   string `json:"then"`   // for needauth: final | redirect (behaviour once an Authorization is present)
}

type rdCase struct {
	ID     int      `json:"id"`
	Nodes  []rdNode `json:"nodes"`
	Entry  string   `json:"entry"`  // api | header | withauth
	Access string   `json:"access"` // none | basic
	Creds  bool     `json:"creds"`  // the helper can fill
	Source string   `json:"source"` // "" = credential helper only; "userinfo" = the LFS URL carries user:password (helper refuses)
}

type rdSeen struct {
	L    int
	Node int
	Auth string // "" | label "scheme|hosttext" | "raw:<value>"
}

type rdWorld struct {
	mu    sync.Mutex
	ls    []*rdListener
	cases map[int]*rdCase
	log   map[int][]rdSeen
}

func (w *rdWorld) url(l int, id, node int, suffix string) string {
	return fmt.Sprintf("%s://%s/c%d/n%d%s", w.ls[l].Scheme, w.ls[l].HostText, id, node, suffix)
}

func decodeAuthLabel(v string) string {
	if v == "" {
		return ""
	}
	if strings.HasPrefix(v, "Basic ") {
		b, err := base64.StdEncoding.DecodeString(strings.TrimPrefix(v, "Basic "))
		if err == nil {
			up := strings.SplitN(string(b), ":", 2)
			if strings.HasPrefix(up[0], "u|") {
				return strings.ReplaceAll(strings.TrimPrefix(up[0], "u|"), "~", ":")
			}
		}
	}
	return "raw:" + v
}

func (w *rdWorld) handler(l int) http.Handler {
	return http.HandlerFunc(func(rw http.ResponseWriter, r *http.Request) {
		var id, node int
		p := strings.Split(strings.TrimPrefix(r.URL.Path, "/"), "/")
		if len(p) < 2 {
			rw.WriteHeader(404)
			return
		}
		id, _ = strconv.Atoi(strings.TrimPrefix(p[0], "c"))
		node, _ = strconv.Atoi(strings.TrimPrefix(p[1], "n"))
		w.mu.Lock()
		cs := w.cases[id]
		w.log[id] = append(w.log[id], rdSeen{L: l, Node: node, Auth: decodeAuthLabel(r.Header.Get("Authorization"))})
		w.mu.Unlock()
		if cs == nil || node >= len(cs.Nodes) {
			rw.WriteHeader(404)
			return
		}
		n := cs.Nodes[node]
		kind := n.Kind
		if kind == "needauth" {
			if r.Header.Get("Authorization") == "" {
				rw.Header().Set("Lfs-Authenticate", "Basic realm=\"verif\"")
				rw.WriteHeader(401)
				return
			}
			kind = n.Then
		}
		switch kind {
		case "redirect":
			suffix := strings.TrimPrefix(r.URL.Path, fmt.Sprintf("/c%d/n%d", id, node))
			loc := w.url(cs.Nodes[n.To].L, id, n.To, suffix)
			switch n.Loc {
			case "rel":
				loc = fmt.Sprintf("/c%d/n%d%s", id, n.To, suffix)
			case "net": // network-path reference (RFC 3986 4.2): keeps the scheme, names another authority
				loc = fmt.Sprintf("//%s/c%d/n%d%s", w.ls[cs.Nodes[n.To].L].HostText, id, n.To, suffix)
			case "bad":
				loc = "http://[::1"
			}
			rw.Header().Set("Location", loc)
			rw.WriteHeader(n.Status)
		case "fail500":
			rw.WriteHeader(500)
		default:
			rw.Header().Set("Content-Type", "application/vnd.git-lfs+json")
			rw.WriteHeader(200)
			rw.Write([]byte(`{"objects":[]}`))
		}
	})
}

func newRdWorld() *rdWorld {
	w := &rdWorld{cases: map[int]*rdCase{}, log: map[int][]rdSeen{}}
	add := func(scheme, name string, fixedPort int) {
		idx := len(w.ls)
		srv := httptest.NewUnstartedServer(w.handler(idx))
		if fixedPort != 0 {
			ln, err := net.Listen("tcp", fmt.Sprintf("127.0.0.1:%d", fixedPort))
			if err != nil {
				return
			}
			srv.Listener.Close()
			srv.Listener = ln
		}
		// every case builds a client of its own; connections kept alive for clients that are gone would pile
		// up (tens of thousands of cases in the thorough tier exhausted the descriptors): idle ones are dropped
		srv.Config.IdleTimeout = time.Second
		if scheme == "https" {
			srv.StartTLS()
		} else {
			srv.Start()
		}
		_, port, _ := net.SplitHostPort(srv.Listener.Addr().String())
		l := &rdListener{Scheme: scheme, Name: name, EffPort: port, HostText: name + ":" + port, srv: srv}
		if fixedPort != 0 {
			l.HostText = name // implicit port
		}
		w.ls = append(w.ls, l)
	}
	add("http", "127.0.0.1", 0)
	add("http", "127.0.0.1", 0)
	add("http", "localhost", 0)
	add("https", "127.0.0.1", 0)
	add("https", "localhost", 0)
	add("http", "127.0.0.1", 80)
	add("https", "127.0.0.1", 443)
	return w
}

func (w *rdWorld) close() {
	for _, l := range w.ls {
		l.srv.Close()
	}
}

type rdHelper struct {
	can   bool
	mu    sync.Mutex
	fills []string
}

func (h *rdHelper) Fill(in creds.Creds) (creds.Creds, error) {
	label := creds.FirstEntryForKey(in, "protocol") + "|" + creds.FirstEntryForKey(in, "host")
	h.mu.Lock()
	h.fills = append(h.fills, label)
	h.mu.Unlock()
	if !h.can {
		return nil, fmt.Errorf("no credentials")
	}
	out := creds.Creds{}
	for k, v := range in {
		out[k] = v
	}
	out["username"] = []string{"u|" + strings.ReplaceAll(label, ":", "~")}
	out["password"] = []string{"pw"}
	return out, nil
}
func (h *rdHelper) Reject(creds.Creds) error  { return nil }
func (h *rdHelper) Approve(creds.Creds) error { return nil }

func (cs *rdCase) encode() string {
	var ns []string
	for _, n := range cs.Nodes {
		ns = append(ns, fmt.Sprintf("%d:%s:%d:%d:%s:%s", n.L, n.Kind, n.Status, n.To, n.Loc, orDash(n.Then)))
	}
	cr := "0"
	if cs.Creds {
		cr = "1"
	}
	if cs.Source == "userinfo" {
		cr = "u"
	}
	return fmt.Sprintf("C10 run %s %s %s %s", cs.Entry, cs.Access, cr, strings.Join(ns, ","))
}
func orDash(s string) string {
	if s == "" {
		return "-"
	}
	return s
}
func decodeRdCase(s string) (*rdCase, bool) {
	f := strings.Fields(s)
	if len(f) != 6 {
		return nil, false
	}
	cs := &rdCase{Entry: f[2], Access: f[3], Creds: f[4] == "1"}
	if f[4] == "u" {
		cs.Source = "userinfo"
	}
	for _, ns := range strings.Split(f[5], ",") {
		p := strings.Split(ns, ":")
		if len(p) != 6 {
			return nil, false
		}
		n := rdNode{Kind: p[1], Loc: p[4], Then: p[5]}
		n.L, _ = strconv.Atoi(p[0])
		n.Status, _ = strconv.Atoi(p[2])
		n.To, _ = strconv.Atoi(p[3])
		if n.Then == "-" {
			n.Then = ""
		}
		cs.Nodes = append(cs.Nodes, n)
	}
	return cs, true
}

func (w *rdWorld) label(l int) string { return w.ls[l].Scheme + "|" + w.ls[l].HostText }

// effective place of a label / listener: scheme + name + effective port
func effPlace(label string) string {
	p := strings.SplitN(label, "|", 2)
	if len(p) != 2 {
		return label
	}
	host, port, err := net.SplitHostPort(p[1])
	if err != nil {
		host = p[1]
		port = map[string]string{"http": "80", "https": "443"}[p[0]]
	}
	return p[0] + "://" + host + ":" + port
}

func (w *rdWorld) urls(cs *rdCase) (apiURL, cfgURL string) {
	start := cs.Nodes[0]
	apiURL = w.url(start.L, cs.ID, 0, "")
	cfgURL = apiURL
	if cs.Source == "userinfo" {
		// the LFS URL itself carries credentials: they belong to the API's own place
		u, _ := url.Parse(apiURL)
		u.User = url.UserPassword("u|"+strings.ReplaceAll(w.label(start.L), ":", "~"), "pw")
		cfgURL = u.String()
	}
	return
}

// newClient: one lfsapi.Client for the given cases (the first one's URL is lfs.url). With `cache`
// the credential source is git-lfs's own chain shape: its in-process credential cache in front of
// the (scripted) helper, kept for the life of the client.
func (w *rdWorld) newClient(cases []*rdCase, cache bool) (*lfsapi.Client, *rdHelper, error) {
	_, cfg0 := w.urls(cases[0])
	git := map[string][]string{
		"lfs.url":        {cfg0},
		"http.sslverify": {"false"},
	}
	can := false
	for _, cs := range cases {
		apiURL, cfgURL := w.urls(cs)
		if cs.Access == "basic" {
			git["lfs."+apiURL+".access"] = []string{"basic"}
			git["lfs."+cfgURL+".access"] = []string{"basic"}
		}
		if cs.Creds && cs.Source != "userinfo" {
			can = true
		}
	}
	cfg := config.NewFrom(config.Values{Git: git})
	client, err := lfsapi.NewClient(cfg)
	if err != nil {
		return nil, nil, err
	}
	helper := &rdHelper{can: can}
	client.Credentials = helper
	if cache {
		client.Credentials = creds.NewCredentialHelpers([]creds.CredentialHelper{creds.NewCredentialCacher(), helper})
	}
	return client, helper, nil
}

func (w *rdWorld) runCase(cs *rdCase) (trace []rdSeen, fills []string, errText string, timedOut bool) {
	w.mu.Lock()
	w.cases[cs.ID] = cs
	delete(w.log, cs.ID)
	w.mu.Unlock()
	client, helper, err := w.newClient([]*rdCase{cs}, false)
	if err != nil {
		return nil, nil, "client: " + err.Error(), false
	}
	return w.exec(cs, client, helper)
}

// runSession: several requests, one after the other, on ONE client whose credential cache persists —
// what a git-lfs command does (batch, then storage, then verify / locks, possibly on other hosts).
func (w *rdWorld) runSession(cases []*rdCase) (traces [][]rdSeen, errs []string, timedOut []bool) {
	w.mu.Lock()
	for _, cs := range cases {
		w.cases[cs.ID] = cs
		delete(w.log, cs.ID)
	}
	w.mu.Unlock()
	client, helper, err := w.newClient(cases, true)
	for _, cs := range cases {
		if err != nil {
			traces, errs, timedOut = append(traces, nil), append(errs, "client: "+err.Error()), append(timedOut, false)
			continue
		}
		tr, _, e, to := w.exec(cs, client, helper)
		traces, errs, timedOut = append(traces, tr), append(errs, e), append(timedOut, to)
	}
	return
}

func (w *rdWorld) exec(cs *rdCase, client *lfsapi.Client, helper *rdHelper) (trace []rdSeen, fills []string, errText string, timedOut bool) {
	w.mu.Lock()
	w.cases[cs.ID] = cs
	w.mu.Unlock()
	start := cs.Nodes[0]
	apiURL, cfgURL := w.urls(cs)
	done := make(chan string, 1)
	go func() {
		defer func() {
			if x := recover(); x != nil {
				done <- fmt.Sprintf("panic: %v", x)
			}
		}()
		var res *http.Response
		var err error
		switch cs.Entry {
		case "api":
			req, rerr := client.NewRequest("POST", lfshttp.Endpoint{Url: cfgURL}, "objects/batch", map[string]string{"operation": "download"})
			if rerr != nil {
				done <- "newrequest: " + rerr.Error()
				return
			}
			res, err = client.DoAPIRequestWithAuth("origin", req)
		case "header":
			// a storage request with the header a batch action supplied for the start node's host
			// … built and sent the way the basic transfer adapters do (tq.VerifStorageRequest: newHTTPRequest +
			// doHTTP), with the header NAME spelled as a server may spell it (HTTP header names are case-insensitive)
			name := []string{"Authorization", "authorization", "AUTHORIZATION", "aUTHORIZATIOn"}[cs.ID%4]
			rel := &tq.Action{Href: apiURL + "/obj", Header: map[string]string{name: "Basic " + base64.StdEncoding.EncodeToString([]byte("u|"+strings.ReplaceAll(w.label(start.L), ":", "~")+":pw"))}}
			res, err = tq.VerifStorageRequest(client, "origin", tq.Download, "GET", rel, strings.Repeat("ab", 32), true)
		case "resend":
			// the SAME request object submitted again after a failure that is not an authentication error, as
			// tq.verifyUpload does (lfs.transfer.maxverifies): what an earlier submission and its redirects left on
			// the request must not travel with the next one
			req, _ := http.NewRequest("POST", apiURL+"/obj", strings.NewReader("{}"))
			for k := 0; k < 3; k++ {
				if res != nil && res.Body != nil {
					res.Body.Close()
				}
				req.Body = io.NopCloser(strings.NewReader("{}"))
				res, err = client.DoWithAuth("origin", client.Endpoints.AccessFor(cfgURL), req)
				if err == nil && res != nil && res.StatusCode < 300 {
					break
				}
			}
		default:
			req, _ := http.NewRequest("GET", apiURL+"/obj", nil)
			res, err = client.DoWithAuth("origin", client.Endpoints.AccessFor(cfgURL), req)
		}
		if res != nil && res.Body != nil {
			res.Body.Close()
		}
		if err != nil {
			done <- "err"
		} else {
			done <- "ok"
		}
	}()
	select {
	case errText = <-done:
	case <-time.After(8 * time.Second):
		timedOut = true
	}
	w.mu.Lock()
	trace = append(trace, w.log[cs.ID]...)
	delete(w.cases, cs.ID)
	w.mu.Unlock()
	helper.mu.Lock()
	fills = append(fills, helper.fills...)
	helper.mu.Unlock()
	return
}

func (w *rdWorld) oracle(cs *rdCase, trace []rdSeen) string {
	hops := 0
	for i, s := range trace {
		if s.Auth != "" {
			if strings.HasPrefix(s.Auth, "raw:") {
				return "a server received an Authorization value the harness never issued"
			}
			if effPlace(s.Auth) != effPlace(w.label(s.L)) {
				return fmt.Sprintf("an Authorization value obtained for %s was sent to %s", effPlace(s.Auth), effPlace(w.label(s.L)))
			}
		}
		if i > 0 {
			prev := trace[i-1]
			pn := cs.Nodes[prev.Node]
			wasRedirect := pn.Kind == "redirect" || (pn.Kind == "needauth" && pn.Then == "redirect" && prev.Auth != "")
			if wasRedirect && s.Node == pn.To {
				hops++
				if w.ls[prev.L].Scheme == "https" && w.ls[s.L].Scheme == "http" {
					return "a redirect from https to http was followed"
				}
			} else {
				hops = 0 // the chain was restarted from the original request
			}
			if hops >= specMaxRedirects {
				return fmt.Sprintf("a redirect chain was followed for %d hops (limit %d)", hops, specMaxRedirects)
			}
		}
	}
	return ""
}

func fmtTrace(w *rdWorld, tr []rdSeen) string {
	var p []string
	for _, s := range tr {
		a := "none"
		if s.Auth != "" {
			a = "other"
			for li := range w.ls {
				if s.Auth == w.label(li) {
					a = fmt.Sprintf("L%d", li)
				}
			}
		}
		p = append(p, fmt.Sprintf("L%d/n%d/%s", s.L, s.Node, a))
	}
	if len(p) == 0 {
		return "-"
	}
	return strings.Join(p, " ")
}

func genRdCase(r *Rng, w *rdWorld) *rdCase {
	nl := len(w.ls)
	cs := &rdCase{Entry: Pick(r, []string{"api", "api", "header", "withauth"}), Access: Pick(r, []string{"none", "basic", "basic"}), Creds: r.Chance(80)}
	if cs.Entry != "header" && r.Chance(30) {
		cs.Source = "userinfo"
	}
	depth := Pick(r, []int{0, 1, 1, 1, 2, 2, 2, 3, 4})
	if r.Chance(8) {
		depth = 5 + r.Intn(3)
	}
	for d := 0; d <= depth; d++ {
		nd := rdNode{L: r.Intn(nl), Kind: "redirect", Status: Pick(r, []int{301, 302, 303, 307, 308}), To: d + 1, Loc: "abs"}
		if d > 0 && r.Chance(35) {
			nd.L = cs.Nodes[d-1].L // same listener as the previous hop
		}
		if d == depth {
			nd.Kind = "final"
		}
		if r.Chance(25) {
			nd.Then = nd.Kind
			nd.Kind = "needauth"
			if !cs.Creds && cs.Entry != "header" {
				nd.Kind = nd.Then // without credentials a 401 just ends the exchange; keep some of those
				if r.Chance(30) {
					nd.Kind = "needauth"
				}
			}
		}
		cs.Nodes = append(cs.Nodes, nd)
	}
	for d := 0; d < depth; d++ {
		if cs.Nodes[d].L == cs.Nodes[d+1].L && r.Chance(40) {
			cs.Nodes[d].Loc = "rel"
		}
		if r.Chance(3) {
			cs.Nodes[d].Loc = "bad"
		}
		if cs.Nodes[d].Loc == "abs" && w.ls[cs.Nodes[d].L].Scheme == w.ls[cs.Nodes[d+1].L].Scheme && r.Chance(30) {
			cs.Nodes[d].Loc = "net" // `Location: //host:port/path` — not absolute, yet it may leave the host
		}
	}
	if r.Chance(8) && depth > 0 { // a loop
		cs.Nodes[depth].Kind = "redirect"
		cs.Nodes[depth].To = r.Intn(depth + 1)
		cs.Nodes[depth].Status = 307
		cs.Nodes[depth].Loc = "abs"
	}
	return cs
}

func c10(c *Ctx) {
	r := NewRng(c.Seed ^ 0xC10)
	n := c.N(1500, 20000)
	w := newRdWorld()
	defer w.close()
	tls0 := http.DefaultTransport.(*http.Transport).TLSClientConfig
	_ = tls0
	_ = tls.Config{}
	c.R.Rule = "cases = redirect graphs (depth 0..6, statuses 301/302/303/307/308, absolute/relative/malformed Location) over up to 7 real listeners (http/https, two ports, two host spellings, implicit ports 80/443) x entry {API request, storage request with action header, authenticated storage request} x access {none, basic} x helper {fills, fails}; non-trivial = trace with >= 1 cross-host or cross-scheme hop while credentials are present; distinct = different encoded case"
	c.R.Notes = append(c.R.Notes, fmt.Sprintf("listeners: %d (implicit-port listeners bound: %v)", len(w.ls), len(w.ls) == 7))
	var cases []*rdCase
	for _, l := range corpusLines(c, "C10") {
		if cs, ok := decodeRdCase(l); ok {
			cases = append(cases, cs)
		}
	}
	if c.Replay != "" {
		cases = nil
		if cs, ok := decodeRdCase(replayCase(c)); ok {
			cases = append(cases, cs)
		}
		n = 0
	}
	for i := 0; i < n; i++ {
		cs := genRdCase(r, w)
		cases = append(cases, cs)
	}
	lines := make([]string, len(cases))
	impl := make([]string, len(cases))
	type job struct{ i int }
	var wg sync.WaitGroup
	sem := make(chan struct{}, 12)
	for i, cs := range cases {
		cs.ID = i + 1
		lines[i] = cs.encode()
		wg.Add(1)
		sem <- struct{}{}
		go func(i int, cs *rdCase) {
			defer wg.Done()
			defer func() { <-sem }()
			trace, fills, errText, timedOut := w.runCase(cs)
			if timedOut { // re-run alone once before reporting (deadline policy)
				time.Sleep(200 * time.Millisecond)
				trace, fills, errText, timedOut = w.runCase(cs)
			}
			_ = fills
			cross := false
			for j := 1; j < len(trace); j++ {
				if trace[j].L != trace[j-1].L && (trace[j-1].Auth != "" || trace[j].Auth != "") {
					cross = true
				}
			}
			c.R.Eval(lines[i], cross)
			c.R.Count("entry." + cs.Entry)
			c.R.Count("result." + errText)
			impl[i] = fmtTrace(w, trace)
			if i%(len(cases)/5+1) == 0 {
				c.R.Sample(map[string]interface{}{"case": lines[i], "trace": impl[i], "result": errText})
			}
			if timedOut {
				c.R.Add(Finding{Kind: "oracle", What: "the request did not finish within the deadline (unbounded redirect/auth loop)", Case: lines[i], Impl: clip(impl[i], 400)})
				return
			}
			if why := w.oracle(cs, trace); why != "" {
				c.R.Add(Finding{Kind: "oracle", What: why, Case: lines[i], Impl: clip(impl[i], 600)})
			}
		}(i, cs)
	}
	wg.Wait()
	// correspondence: listener table first, then the case
	var lt []string
	for _, l := range w.ls {
		imp := "0"
		if !strings.Contains(l.HostText, ":") {
			imp = "1"
		}
		lt = append(lt, fmt.Sprintf("%s:%s:%s", l.Scheme, l.Name, map[bool]string{true: "implicit", false: l.EffPort}[imp == "1"]))
	}
	mlines := make([]string, len(cases))
	for i := range cases {
		mlines[i] = lines[i] + " " + strings.Join(lt, ",")
	}
	model, err := c.Or.Ask(mlines)
	if err != nil {
		c.R.Add(Finding{Kind: "diff", What: "oracle process failed: " + err.Error(), Broken: "corr.C10.trace"})
		return
	}
	for i := range cases {
		if model[i] != impl[i] {
			c.R.Add(Finding{Kind: "diff", What: "request trace: model and implementation disagree", Case: lines[i], Impl: clip(impl[i], 500), Model: clip(model[i], 500), Broken: "corr.C10.trace"})
		}
	}
	if c.Replay == "" {
		c10Sessions(c, r, w, len(cases)+10)
		c10Cache(c, r)
		c10Resend(c, r, w, len(cases)+100000)
	}
}

// c10Resend: one request object submitted up to three times (entry "resend"), over redirect graphs whose later
// hops fail: every Authorization value a listener receives — on the first submission or a later one — was
// obtained for that listener's place.
func c10Resend(c *Ctx, r *Rng, w *rdWorld, firstID int) {
	n := c.N(120, 2500)
	var cases []*rdCase
	for i := 0; i < n; i++ {
		cs := genRdCase(r, w)
		cs.Source, cs.Entry, cs.Access, cs.Creds = "", "resend", "basic", true
		if r.Chance(60) && len(w.ls) > 1 {
			// directed: the start answers with a redirect to ANOTHER place, which fails with a server error
			a := r.Intn(len(w.ls))
			b := r.Intn(len(w.ls))
			for tries := 0; b == a && tries < 8; tries++ {
				b = r.Intn(len(w.ls))
			}
			cs.Nodes = []rdNode{{L: a, Kind: "redirect", Status: Pick(r, []int{307, 308, 301}), To: 1, Loc: "abs"}, {L: b, Kind: "fail500", Loc: "abs"}}
		}
		cs.ID = firstID + i
		cases = append(cases, cs)
	}
	var wg sync.WaitGroup
	sem := make(chan struct{}, 12)
	for _, cs := range cases {
		wg.Add(1)
		sem <- struct{}{}
		go func(cs *rdCase) {
			defer wg.Done()
			defer func() { <-sem }()
			traces, _, tos := w.runSession([]*rdCase{cs})
			enc := "C10 resend " + cs.encode()
			c.R.Eval(enc, len(traces[0]) > 1)
			c.R.Count("resend")
			if tos[0] {
				return
			}
			for _, sn := range traces[0] {
				if sn.Auth == "" {
					continue
				}
				if strings.HasPrefix(sn.Auth, "raw:") {
					c.R.Add(Finding{Kind: "oracle", What: "a server received an Authorization value the harness never issued (request submitted again)", Case: enc, Impl: clip(fmtTrace(w, traces[0]), 600)})
					break
				}
				if effPlace(sn.Auth) != effPlace(w.label(sn.L)) {
					c.R.Add(Finding{Kind: "oracle", What: fmt.Sprintf("an Authorization value obtained for %s was sent to %s when the same request was submitted again", effPlace(sn.Auth), effPlace(w.label(sn.L))), Case: enc, Impl: clip(fmtTrace(w, traces[0]), 600)})
					break
				}
			}
		}(cs)
	}
	wg.Wait()
}

// c10Sessions: the credential source "cache". A git-lfs command keeps ONE client, whose in-process
// credential cache is filled by every approved request; later requests of the same command go to other
// places (batch action hrefs, redirects, lock API). Whatever the cache answers, an Authorization value
// must only ever reach the place it was obtained for.
func c10Sessions(c *Ctx, r *Rng, w *rdWorld, firstID int) {
	n := c.N(150, 3000)
	type sess struct{ cases []*rdCase }
	var all []sess
	id := firstID
	for i := 0; i < n; i++ {
		var s sess
		k := 2 + r.Intn(2)
		for j := 0; j < k; j++ {
			cs := genRdCase(r, w)
			cs.Source = ""
			if cs.Entry == "header" {
				cs.Entry = "withauth"
			}
			cs.Access, cs.Creds = "basic", true
			if j == 0 || r.Chance(40) {
				// a request that ends in an approved 2xx on its own listener: this is what fills the cache
				cs.Nodes = []rdNode{{L: r.Intn(len(w.ls)), Kind: "needauth", Then: "final", Loc: "abs"}}
			}
			if j > 0 && r.Chance(60) {
				// start where an earlier request of the session was approved, but on another port / spelling / scheme
				prev := s.cases[r.Intn(len(s.cases))].Nodes[0].L
				var cand []int
				for li, l := range w.ls {
					if li != prev && l.Name == w.ls[prev].Name {
						cand = append(cand, li)
					}
				}
				if len(cand) > 0 {
					cs.Nodes[0].L = Pick(r, cand)
				}
			}
			id++
			cs.ID = id
			s.cases = append(s.cases, cs)
		}
		all = append(all, s)
	}
	var wg sync.WaitGroup
	sem := make(chan struct{}, 12)
	for _, s := range all {
		wg.Add(1)
		sem <- struct{}{}
		go func(s sess) {
			defer wg.Done()
			defer func() { <-sem }()
			traces, errs, tos := w.runSession(s.cases)
			var encs []string
			for _, cs := range s.cases {
				encs = append(encs, cs.encode())
			}
			enc := "C10 session " + strings.Join(encs, " ;; ")
			places := map[string]bool{}
			for _, cs := range s.cases {
				places[effPlace(w.label(cs.Nodes[0].L))] = true
			}
			c.R.Eval(enc, len(places) > 1)
			c.R.Count("session")
			for k, cs := range s.cases {
				c.R.Count("session.result." + errs[k])
				if tos[k] {
					c.R.Add(Finding{Kind: "oracle", What: "the request did not finish within the deadline (unbounded redirect/auth loop)", Case: enc, Impl: clip(fmtTrace(w, traces[k]), 400)})
					continue
				}
				if why := w.oracle(cs, traces[k]); why != "" {
					c.R.Add(Finding{Kind: "oracle", What: why + " (request " + fmt.Sprint(k+1) + " of a session on one client with its credential cache)", Case: enc, Impl: clip(fmtTrace(w, traces[k]), 600)})
				}
			}
		}(s)
	}
	wg.Wait()
}

// c10Cache: the real credentialCacher in process against CredCache.run: sequences of Fill / Approve /
// Reject over keys that differ only in port, host spelling, protocol or path.
func c10Cache(c *Ctx, r *Rng) {
	n := c.N(600, 20000)
	protos := []string{"https", "http"}
	hosts := []string{"git.example", "git.example:8080", "git.example:9090", "git.example:443", "GIT.example", "other.example", "127.0.0.1:8080", "127.0.0.1:9090", "127.0.0.1"}
	paths := []string{"", "", "", "org/repo", "org/other"}
	var mlines, mimpl []string
	for i := 0; i < n; i++ {
		cache := creds.NewCredentialCacher()
		var ops, outs []string
		k := 2 + r.Intn(7)
		hs := []string{Pick(r, hosts), Pick(r, hosts), Pick(r, hosts)}
		var used [][3]string
		for j := 0; j < k; j++ {
			p, h, pa := Pick(r, protos), Pick(r, hs), Pick(r, paths)
			if len(used) > 0 && r.Chance(55) {
				u := Pick(r, used) // a key seen before in this sequence, or one that differs from it in one component
				p, h, pa = u[0], u[1], u[2]
				switch r.Intn(6) {
				case 0:
					h = Pick(r, hs)
				case 1:
					p = Pick(r, protos)
				case 2:
					pa = Pick(r, paths)
				}
			}
			used = append(used, [3]string{p, h, pa})
			in := creds.Creds{"protocol": []string{p}, "host": []string{h}}
			if pa != "" {
				in["path"] = []string{pa}
			}
			switch r.Intn(5) {
			case 0, 1:
				sec := 1 + r.Intn(1000)
				in["username"] = []string{"u"}
				in["password"] = []string{fmt.Sprint(sec)}
				cache.Approve(in)
				ops = append(ops, fmt.Sprintf("A:%s:%s:%s:%d", hexOrDash(p), hexOrDash(h), hexOrDash(pa), sec))
				outs = append(outs, "-")
			case 2:
				cache.Reject(in)
				ops = append(ops, fmt.Sprintf("R:%s:%s:%s", hexOrDash(p), hexOrDash(h), hexOrDash(pa)))
				outs = append(outs, "-")
			default:
				got, err := cache.Fill(in)
				ops = append(ops, fmt.Sprintf("F:%s:%s:%s", hexOrDash(p), hexOrDash(h), hexOrDash(pa)))
				if err != nil || got == nil {
					outs = append(outs, "miss")
					c.R.Count("cache.miss")
				} else {
					outs = append(outs, "hit:"+creds.FirstEntryForKey(got, "password"))
					c.R.Count("cache.hit")
					// the property, on the implementation alone: what comes out was approved for this very key
					if creds.FirstEntryForKey(got, "protocol") != p || creds.FirstEntryForKey(got, "host") != h || creds.FirstEntryForKey(got, "path") != pa {
						c.R.Add(Finding{Kind: "oracle", What: "the credential cache answered a request for one place with a credential approved for another", Case: "C10 cache " + strings.Join(ops, ","),
							Impl: fmt.Sprintf("asked %s://%s/%s got %s://%s/%s", p, h, pa, creds.FirstEntryForKey(got, "protocol"), creds.FirstEntryForKey(got, "host"), creds.FirstEntryForKey(got, "path"))})
					}
				}
			}
		}
		line := "C10 cache " + strings.Join(ops, ",")
		c.R.Eval(line, true)
		mlines = append(mlines, line)
		mimpl = append(mimpl, strings.Join(outs, ","))
	}
	model, err := c.Or.Ask(mlines)
	if err != nil {
		c.R.Add(Finding{Kind: "diff", What: "oracle process failed: " + err.Error(), Broken: "corr.C10.cache"})
		return
	}
	for i := range mlines {
		if model[i] != mimpl[i] {
			c.R.Add(Finding{Kind: "diff", What: "credential cache: model and implementation disagree", Case: mlines[i], Impl: mimpl[i], Model: model[i], Broken: "corr.C10.cache"})
		}
	}
}

func init() { campaigns["C10"] = c10 }
