// C06, the counter Wait() blocks on: tq's abortableWaitGroup (hook 60f8726) driven by scripts of
// Add / Done / Abort — at most one Abort, as the queue does — against the model TQAbort.
package main

import (
	"strings"

	"github.com/git-lfs/git-lfs/v3/tq"
)

func c06Awg(c *Ctx, r *Rng) {
	n := c.N(150, 3000)
	var lines, impl []string
	for i := 0; i < n; i++ {
		var sb strings.Builder
		out := 0 // outstanding, so that Done is only scripted for something that was added (before the abort)
		aborted := false
		k := 1 + r.Intn(10)
		for j := 0; j < k; j++ {
			switch x := r.Intn(10); {
			case x < 4:
				sb.WriteByte('a')
				if !aborted {
					out++
				}
			case x == 4:
				sb.WriteByte('A')
				if !aborted {
					out += 3
				}
			case x < 8:
				if out > 0 || aborted {
					sb.WriteByte('d')
					if !aborted {
						out--
					}
				}
			default:
				if !aborted {
					sb.WriteByte('x')
					aborted = true
				}
			}
		}
		script := sb.String()
		if script == "" {
			script = "a"
		}
		lines = append(lines, "C06 awg "+script)
		impl = append(impl, tq.VerifAbortableWaitGroup(script))
		c.R.Eval(lines[len(lines)-1], aborted)
		c.R.Count("awg." + impl[len(impl)-1])
		// the property itself: after the abort, waiting returns
		if aborted && impl[len(impl)-1] != "returns" {
			c.R.Add(Finding{Kind: "oracle", What: "Wait never returned", Case: lines[len(lines)-1], Impl: "abortableWaitGroup after Abort(): " + impl[len(impl)-1]})
		}
	}
	ans, err := c.Or.Ask(lines)
	if err != nil {
		c.R.Add(Finding{Kind: "diff", What: "oracle process failed: " + err.Error(), Broken: "corr.C06.awg"})
		return
	}
	for i := range lines {
		if ans[i] != impl[i] {
			c.R.Add(Finding{Kind: "diff", What: "the queue's wait group: model and implementation disagree", Case: lines[i], Impl: impl[i], Model: ans[i], Broken: "corr.C06.awg"})
		}
	}
}
