// C06 / C15: the transfer queue.  The real tq.TransferQueue runs in a CHILD process (a panic in one
// of its goroutines must not kill the campaign) against a scripted batch server and a scripted fake
// adapter; the child reports watchdog results, deliveries, errors, server/adapter logs and the
// VerifTrace event list, which the parent validates against the Lean event system.
package main

import (
	"bufio"
	"encoding/json"
	"fmt"
	"io"
	"net/http"
	"net/http/httptest"
	"os"
	"os/exec"
	"path/filepath"
	"sort"
	"strconv"
	"strings"
	"sync"
	"time"

	"github.com/git-lfs/git-lfs/v3/config"
	"github.com/git-lfs/git-lfs/v3/errors"
	"github.com/git-lfs/git-lfs/v3/lfsapi"
	"github.com/git-lfs/git-lfs/v3/tq"
)

type tqCase struct {
	N          int        `json:"n"`
	Adds       []int      `json:"adds"`
	BatchSize  int        `json:"batch"`
	MaxRetries int        `json:"maxretries"`
	MaxDelay   int        `json:"maxdelay"` // lfs.transfer.maxretrydelay (-1 = unset)
	Upload     bool       `json:"upload"`
	Obj        [][]string `json:"obj"`     // per oid, per attempt: action:<ok|retriable|fatal|later|422> | noaction | error | omit | dup:<…> | expired | missing
	Calls      []string   `json:"calls"`   // per batch request: 200 | 429 | 429:<secs> | 500 | 404
	Unknown    []bool     `json:"unknown"` // per batch request: add an object nobody asked about
	Workers    int        `json:"workers"`
	// schedule perturbation: the watcher's consumer sleeps between reads, and further (duplicate) adds
	// of an object are issued right after its first delivery has been observed
	SlowWatcherMs int   `json:"slow_watcher_ms,omitempty"`
	LateAdds      []int `json:"late_adds,omitempty"`
	Sizes         []int `json:"sizes,omitempty"` // per oid (default 3): batches are sorted by descending size
	// how expiry is spelled: expired actions {0 expires_at an hour ago, 1 expires_at in 2 s (inside the 5 s
	// margin), 2 expires_in 2, 3 expires_in -30, 4 expires_in 2 beside a far-future expires_at (expires_in wins)};
	// usable actions {0 no expiry, 1 expires_at in an hour, 2 expires_in 3600, 3 expires_in 3600 beside a past expires_at}
	ExpStyle int `json:"exp_style,omitempty"`
	OkStyle  int `json:"ok_style,omitempty"`
	// the producer pauses after its k-th Add (k = AddGapAfter > 0) for AddGapMs: what it adds afterwards
	// meets the queue in whatever state the first batches have left it (e.g. given up on a missing file)
	AddGapAfter int `json:"add_gap_after,omitempty"`
	AddGapMs    int `json:"add_gap_ms,omitempty"`
}

func (tc tqCase) size(i int) int64 {
	if i >= 0 && i < len(tc.Sizes) && tc.Sizes[i] > 0 {
		return int64(tc.Sizes[i])
	}
	return 3
}

func (tc tqCase) encode() string {
	b, _ := json.Marshal(tc)
	return "TQ " + string(b)
}
func decodeTqCase(s string) (tqCase, bool) {
	var tc tqCase
	if !strings.HasPrefix(s, "TQ ") {
		return tc, false
	}
	return tc, json.Unmarshal([]byte(s[3:]), &tc) == nil
}

type tqAdapterCall struct {
	Oid        string `json:"oid"`
	Start, End int64  // ms since case start
	Outcome    string `json:"outcome"`
	NotBefore  int64  `json:"not_before,omitempty"` // the adapter deferred this object until then (Retry-After on the transfer)
}
type tqBatchReq struct {
	At     int64             `json:"at"`
	Oids   []string          `json:"oids"`
	Call   string            `json:"call"`
	Raw    string            `json:"raw,omitempty"`
	Hdr    map[string]string `json:"hdr,omitempty"`
	DateNB int64             `json:"date_nb,omitempty"` // a 429 answered with an HTTP-date: the instant that date names (ms since start)
}
type tqObs struct {
	AddsReturned int              `json:"adds_returned"`
	LateAdded    int              `json:"late_added"`
	Inconclusive bool             `json:"inconclusive,omitempty"`
	AddBlocked   bool             `json:"add_blocked"`
	WaitReturned bool             `json:"wait_returned"`
	Delivered    []string         `json:"delivered"`
	Errors       []string         `json:"errors"`
	Calls        []tqAdapterCall  `json:"adapter_calls"`
	Batches      []tqBatchReq     `json:"batches"`
	Trace        []string         `json:"trace"`
	Panic        string           `json:"panic,omitempty"`
	NotBefore    map[string]int64 `json:"not_before,omitempty"` // oid -> earliest allowed re-batch time (Retry-After), ms
}

func tqOid(i int) string { return fmt.Sprintf("%064x", i+1) }

type fakeAdapter struct {
	dir  tq.Direction
	w    *tqWorld
	jobs chan func()
	wg   sync.WaitGroup
}

type tqWorld struct {
	mu       sync.Mutex
	tc       tqCase
	start    time.Time
	attempt  map[string]int    // oid -> number of batch answers so far
	pending  map[string]string // oid -> adapter outcome for the current attempt
	obs      *tqObs
	inflight map[string]int
	reqNo    int
}

func (w *tqWorld) ms() int64 { return time.Since(w.start).Milliseconds() }

func (a *fakeAdapter) Name() string            { return "fake" }
func (a *fakeAdapter) Direction() tq.Direction { return a.dir }
func (a *fakeAdapter) Begin(cfg tq.AdapterConfig, cb tq.ProgressCallback) error {
	n := a.w.tc.Workers
	if n < 1 {
		n = 1
	}
	a.jobs = make(chan func(), 64)
	for i := 0; i < n; i++ {
		a.wg.Add(1)
		go func() {
			defer a.wg.Done()
			for j := range a.jobs {
				j()
			}
		}()
	}
	return nil
}
func (a *fakeAdapter) End() { close(a.jobs); a.wg.Wait() }
func (a *fakeAdapter) Add(ts ...*tq.Transfer) <-chan tq.TransferResult {
	ch := make(chan tq.TransferResult, len(ts))
	var wg sync.WaitGroup
	for _, t := range ts {
		t := t
		wg.Add(1)
		a.jobs <- func() {
			defer wg.Done()
			w := a.w
			w.mu.Lock()
			out := w.pending[t.Oid]
			w.inflight[t.Oid]++
			overlap := w.inflight[t.Oid] > 1
			st := w.ms()
			w.mu.Unlock()
			time.Sleep(2 * time.Millisecond)
			var err error
			switch out {
			case "ok":
			case "retriable":
				err = errors.NewRetriableError(fmt.Errorf("scripted retriable failure [%s]", t.Oid))
			case "later":
				err = errors.NewRetriableLaterError(fmt.Errorf("scripted retry-later [%s]", t.Oid), "0")
			case "later1", "later2", "later3":
				// the storage server defers THIS object by 1..3 seconds (HTTP 429 + Retry-After on the transfer)
				err = errors.NewRetriableLaterError(fmt.Errorf("scripted retry-later [%s]", t.Oid), out[5:])
			case "422":
				err = errors.NewUnprocessableEntityError(fmt.Errorf("scripted 422 [%s]", t.Oid))
			default:
				err = fmt.Errorf("scripted fatal failure [%s]", t.Oid)
			}
			w.mu.Lock()
			w.inflight[t.Oid]--
			o := out
			if overlap {
				o += "+overlap"
			}
			var nb int64
			if strings.HasPrefix(out, "later") && len(out) == 6 {
				secs, _ := strconv.Atoi(out[5:])
				nb = w.ms() + int64(secs)*1000 - 60
				o = "later" // same outcome class as an undelayed deferral
			}
			w.obs.Calls = append(w.obs.Calls, tqAdapterCall{Oid: t.Oid, Start: st, End: w.ms(), Outcome: o, NotBefore: nb})
			w.mu.Unlock()
			ch <- tq.TransferResult{Transfer: t, Error: err}
		}
	}
	go func() { wg.Wait(); close(ch) }()
	return ch
}

func (w *tqWorld) batchHandler(rw http.ResponseWriter, r *http.Request) {
	body, _ := io.ReadAll(r.Body)
	var req struct {
		Operation string `json:"operation"`
		Objects   []struct {
			Oid  string `json:"oid"`
			Size int64  `json:"size"`
		} `json:"objects"`
	}
	json.Unmarshal(body, &req)
	w.mu.Lock()
	defer w.mu.Unlock()
	rn := w.reqNo
	w.reqNo++
	call := "200"
	if rn < len(w.tc.Calls) {
		call = w.tc.Calls[rn]
	}
	var oids []string
	for _, o := range req.Objects {
		oids = append(oids, o.Oid)
	}
	hdr := map[string]string{"Accept": r.Header.Get("Accept"), "Content-Type": r.Header.Get("Content-Type")}
	w.obs.Batches = append(w.obs.Batches, tqBatchReq{At: w.ms(), Oids: oids, Call: call, Raw: string(body), Hdr: hdr})
	// every appearance in a batch request consumes one attempt of the object's script
	att := map[string]int{}
	for _, o := range req.Objects {
		att[o.Oid] = w.attempt[o.Oid]
		w.attempt[o.Oid]++
	}
	rw.Header().Set("Content-Type", "application/vnd.git-lfs+json")
	if call != "200" {
		p := strings.SplitN(call, ":", 2)
		code, _ := strconv.Atoi(p[0])
		if len(p) == 2 {
			switch p[1] {
			case "date": // Retry-After as an HTTP-date (whole seconds): 1-2 s from now
				t := time.Now().Add(2 * time.Second).Truncate(time.Second)
				rw.Header().Set("Retry-After", t.UTC().Format(http.TimeFormat))
				for _, o := range oids {
					w.obs.NotBefore[o] = t.Sub(w.start).Milliseconds() - 50
				}
				// per request too: a later 429 for the same object overwrites the per-object entry
				w.obs.Batches[len(w.obs.Batches)-1].DateNB = t.Sub(w.start).Milliseconds() - 50
			case "garbage": // not a delay at all: the ordinary back-off applies
				rw.Header().Set("Retry-After", "soon")
			default:
				rw.Header().Set("Retry-After", p[1])
				secs, _ := strconv.Atoi(p[1])
				for _, o := range oids {
					w.obs.NotBefore[o] = w.ms() + int64(secs)*1000 - 50
				}
			}
		}
		rw.WriteHeader(code)
		rw.Write([]byte(`{"message":"scripted batch failure"}`))
		return
	}
	type act struct {
		Href      string `json:"href"`
		ExpiresAt string `json:"expires_at,omitempty"`
		ExpiresIn int    `json:"expires_in,omitempty"`
	}
	type oerr struct {
		Code    int    `json:"code"`
		Message string `json:"message"`
	}
	type obj struct {
		Oid     string         `json:"oid"`
		Size    int64          `json:"size"`
		Actions map[string]act `json:"actions,omitempty"`
		Error   *oerr          `json:"error,omitempty"`
	}
	out := struct {
		Transfer string `json:"transfer"`
		Objects  []obj  `json:"objects"`
	}{Transfer: "fake", Objects: []obj{}}
	rel := "download"
	if w.tc.Upload {
		rel = "upload"
	}
	for _, o := range req.Objects {
		idx := -1
		fmt.Sscanf(o.Oid, "%x", &idx)
		idx--
		script := []string{"action:ok"}
		if idx >= 0 && idx < len(w.tc.Obj) && len(w.tc.Obj[idx]) > 0 {
			script = w.tc.Obj[idx]
		}
		k := att[o.Oid]
		if k >= len(script) {
			k = len(script) - 1
		}
		ent := script[k]
		ob := obj{Oid: o.Oid, Size: o.Size}
		kind := strings.SplitN(ent, ":", 2)
		switch kind[0] {
		case "omit":
			continue
		case "noaction":
		case "error":
			ob.Error = &oerr{404, "scripted object error"}
		case "expired":
			a := act{Href: "http://storage.invalid/" + o.Oid}
			switch w.tc.ExpStyle {
			case 1:
				a.ExpiresAt = time.Now().Add(2 * time.Second).Format(time.RFC3339)
			case 2:
				a.ExpiresIn = 2
			case 3:
				a.ExpiresIn = -30
			case 4:
				a.ExpiresIn, a.ExpiresAt = 2, time.Now().Add(24*time.Hour).Format(time.RFC3339)
			default:
				a.ExpiresAt = time.Now().Add(-time.Hour).Format(time.RFC3339)
			}
			ob.Actions = map[string]act{rel: a}
		case "action", "dup", "missing":
			a := act{Href: "http://storage.invalid/" + o.Oid}
			switch w.tc.OkStyle {
			case 1:
				a.ExpiresAt = time.Now().Add(time.Hour).Format(time.RFC3339)
			case 2:
				a.ExpiresIn = 3600
			case 3:
				a.ExpiresIn, a.ExpiresAt = 3600, time.Now().Add(-time.Hour).Format(time.RFC3339)
			}
			ob.Actions = map[string]act{rel: a}
			if len(kind) == 2 {
				w.pending[o.Oid] = kind[1]
			} else {
				w.pending[o.Oid] = "ok"
			}
		}
		out.Objects = append(out.Objects, ob)
		if kind[0] == "dup" {
			out.Objects = append(out.Objects, ob)
		}
	}
	if rn < len(w.tc.Unknown) && w.tc.Unknown[rn] {
		out.Objects = append(out.Objects, obj{Oid: fmt.Sprintf("%064x", 0xdead0000+rn), Size: 3, Actions: map[string]act{rel: {Href: "http://storage.invalid/x"}}})
	}
	json.NewEncoder(rw).Encode(out)
}

// runTqCase executes one case in this process (the child).
func runTqCase(tc tqCase, workdir string) *tqObs {
	obs := &tqObs{NotBefore: map[string]int64{}}
	w := &tqWorld{tc: tc, start: time.Now(), attempt: map[string]int{}, pending: map[string]string{}, obs: obs, inflight: map[string]int{}}
	srv := httptest.NewServer(http.HandlerFunc(w.batchHandler))
	defer srv.Close()
	tracef := filepath.Join(workdir, fmt.Sprintf("trace-%d", time.Now().UnixNano()))
	os.Setenv("VERIF_TRACE", tracef)
	defer os.Remove(tracef)
	git := map[string][]string{"lfs.url": {srv.URL}, "lfs.transfer.maxretries": {strconv.Itoa(tc.MaxRetries)}}
	if tc.MaxDelay >= 0 {
		git["lfs.transfer.maxretrydelay"] = []string{strconv.Itoa(tc.MaxDelay)}
	}
	stdout := os.Stdout
	devnull, _ := os.OpenFile(os.DevNull, os.O_WRONLY, 0)
	os.Stdout = devnull // config.NewFrom prints its values
	cfg := config.NewFrom(config.Values{Git: git})
	client, err := lfsapi.NewClient(cfg)
	os.Stdout = stdout
	if err != nil {
		obs.Panic = "client: " + err.Error()
		return obs
	}
	dir := tq.Download
	op := "download"
	if tc.Upload {
		dir, op = tq.Upload, "upload"
	}
	m := tq.NewManifest(cfg.Filesystem(), client, op, "origin")
	m.RegisterNewAdapterFunc("fake", dir, func(name string, d tq.Direction) tq.Adapter { return &fakeAdapter{dir: d, w: w} })
	q := tq.NewTransferQueue(dir, m, "origin", tq.WithBatchSize(tc.BatchSize))
	watch := q.Watch()
	var dmu sync.Mutex
	watchDone := make(chan struct{})
	lateDone := make(chan struct{})
	lateAdded := 0
	go func() {
		fired := false
		for t := range watch {
			dmu.Lock()
			obs.Delivered = append(obs.Delivered, t.Oid)
			dmu.Unlock()
			if !fired && len(tc.LateAdds) > 0 && t.Oid == tqOid(tc.LateAdds[0]) {
				fired = true
				go func() {
					time.Sleep(time.Duration(1+tc.SlowWatcherMs/3) * time.Millisecond)
					for _, i := range tc.LateAdds {
						q.Add(fmt.Sprintf("name-%d", i), "", tqOid(i), tc.size(i), false, nil)
						dmu.Lock()
						lateAdded++
						dmu.Unlock()
					}
					close(lateDone)
				}()
			}
			if tc.SlowWatcherMs > 0 {
				time.Sleep(time.Duration(tc.SlowWatcherMs) * time.Millisecond)
			}
		}
		close(watchDone)
	}()
	// files for uploads (partitionTransfers stats them)
	paths := map[int]string{}
	for i := 0; i < tc.N; i++ {
		p := filepath.Join(workdir, fmt.Sprintf("obj-%d", i))
		missing := false
		if i < len(tc.Obj) {
			for _, e := range tc.Obj[i] {
				if e == "missing" {
					missing = true
				}
			}
		}
		if missing {
			os.Remove(p)
		} else {
			os.WriteFile(p, []byte("abcdefghijklmnopqrstuvwxyz")[:tc.size(i)], 0o644)
		}
		paths[i] = p
	}
	added := make(chan int, 1)
	go func() {
		for k, i := range tc.Adds {
			missing := false
			if tc.Upload && i < len(tc.Obj) {
				for _, e := range tc.Obj[i] {
					if e == "missing" {
						missing = true
					}
				}
			}
			q.Add(fmt.Sprintf("name-%d", i), paths[i], tqOid(i), tc.size(i), missing, nil)
			added <- k + 1
			if tc.AddGapAfter > 0 && k+1 == tc.AddGapAfter {
				time.Sleep(time.Duration(tc.AddGapMs) * time.Millisecond)
			}
		}
		close(added)
	}()
	deadline := time.After(6 * time.Second)
addLoop:
	for {
		select {
		case n, ok := <-added:
			if !ok {
				break addLoop
			}
			obs.AddsReturned = n
		case <-deadline:
			obs.AddBlocked = true
			break addLoop
		}
	}
	if !obs.AddBlocked && len(tc.LateAdds) > 0 {
		select { // the late adds must have returned before Wait() may be called (Add after Wait is API misuse)
		case <-lateDone:
		case <-time.After(6 * time.Second):
			obs.Inconclusive = true
			return obs
		}
	}
	dmu.Lock()
	obs.LateAdded = lateAdded
	dmu.Unlock()
	if !obs.AddBlocked {
		waited := make(chan struct{})
		go func() { q.Wait(); close(waited) }()
		select {
		case <-waited:
			obs.WaitReturned = true
			<-watchDone
		case <-time.After(6*time.Second + tc.legitimateWaits()):
		}
	}
	if obs.WaitReturned {
		for _, e := range q.Errors() {
			obs.Errors = append(obs.Errors, e.Error())
		}
	}
	if b, err := os.ReadFile(tracef); err == nil {
		for _, l := range strings.Split(strings.TrimSpace(string(b)), "\n") {
			if l != "" {
				obs.Trace = append(obs.Trace, l)
			}
		}
	}
	dmu.Lock()
	sort.Strings(obs.Delivered)
	dmu.Unlock()
	return obs
}

// legitimateWaits: the longest time the queue may rightly spend WAITING on this case — the back-off before the
// k-th retry of an object is 250 ms · 2^k, capped by lfs.transfer.maxretrydelay (10 s when unset, none when 0),
// and every scripted Retry-After is honoured in full.  "Wait never returned" is judged after this much more.
func (tc tqCase) legitimateWaits() time.Duration {
	limit := 10 * time.Second
	if tc.MaxDelay >= 0 {
		limit = time.Duration(tc.MaxDelay) * time.Second
	}
	var total time.Duration
	for k := 1; k <= tc.MaxRetries; k++ {
		d := 250 * time.Millisecond << uint(k)
		if d > limit {
			d = limit
		}
		total += d
	}
	for _, sc := range tc.Obj {
		for _, e := range sc {
			switch {
			case strings.HasSuffix(e, "later1"):
				total += time.Second
			case strings.HasSuffix(e, "later2"):
				total += 2 * time.Second
			case strings.HasSuffix(e, "later3"):
				total += 3 * time.Second
			}
		}
	}
	for _, cl := range tc.Calls {
		if strings.HasPrefix(cl, "429:") {
			total += 2 * time.Second
		}
	}
	return total
}

// tqChildMain: `lfsverif tqchild <workdir>`: one case per stdin line, one JSON observation per stdout line.
func tqChildMain(workdir string) {
	in := bufio.NewReaderSize(os.Stdin, 1<<20)
	out := bufio.NewWriter(os.Stdout)
	for {
		line, err := in.ReadString('\n')
		line = strings.TrimSpace(line)
		if line != "" {
			if tc, ok := decodeTqCase(line); ok {
				obs := runTqCase(tc, workdir)
				b, _ := json.Marshal(obs)
				out.Write(b)
				out.WriteString("\n")
				out.Flush()
			}
		}
		if err != nil {
			return
		}
	}
}

// runTqCases runs cases through child processes; a crash is attributed to the case in flight.
func runTqCases(c *Ctx, cases []tqCase) []*tqObs {
	res := make([]*tqObs, len(cases))
	nw := 8
	var wg sync.WaitGroup
	self, _ := os.Executable()
	chunk := (len(cases) + nw - 1) / nw
	for wk := 0; wk < nw; wk++ {
		lo, hi := wk*chunk, (wk+1)*chunk
		if lo >= len(cases) {
			break
		}
		if hi > len(cases) {
			hi = len(cases)
		}
		wg.Add(1)
		go func(wk, lo, hi int) {
			defer wg.Done()
			wd := filepath.Join(c.Work, fmt.Sprintf("tq%d", wk))
			os.MkdirAll(wd, 0o755)
			i := lo
			for i < hi {
				cmd := exec.Command(self, "tqchild", wd)
				cmd.Dir = wd
				var errb strings.Builder
				cmd.Stderr = &errb
				stdin, _ := cmd.StdinPipe()
				stdout, _ := cmd.StdoutPipe()
				if err := cmd.Start(); err != nil {
					return
				}
				go func(from int) {
					for k := from; k < hi; k++ {
						io.WriteString(stdin, cases[k].encode()+"\n")
					}
					stdin.Close()
				}(i)
				rd := bufio.NewReaderSize(stdout, 1<<22)
				for i < hi {
					l, err := rd.ReadString('\n')
					if strings.TrimSpace(l) != "" {
						var o tqObs
						if json.Unmarshal([]byte(l), &o) == nil {
							res[i] = &o
							i++
							continue
						}
					}
					if err != nil {
						break
					}
				}
				cmd.Process.Kill()
				cmd.Wait()
				if i < hi && res[i] == nil { // the child died while running case i
					msg := errb.String()
					if j := strings.Index(msg, "panic:"); j >= 0 {
						msg = msg[j:]
					} else if j := strings.Index(msg, "fatal error:"); j >= 0 {
						msg = msg[j:]
					}
					res[i] = &tqObs{Panic: clip(strings.SplitN(msg, "\n\n", 2)[0], 300)}
					if res[i].Panic == "" {
						res[i].Panic = "child process died"
					}
					i++
				}
			}
		}(wk, lo, hi)
	}
	wg.Wait()
	return res
}
