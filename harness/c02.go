// C02: a download that reports success left bytes hashing to the requested oid; a failed one left
// the final location untouched.  Real basic download adapter (tq.Manifest.NewDownloadAdapter) in
// process against a scripted storage server; one model call per adapter attempt.
package main

import (
	"bytes"
	"fmt"
	"net"
	"net/http"
	"net/http/httptest"
	"os"
	"path/filepath"
	"regexp"
	"strconv"
	"strings"
	"sync"
	"time"

	"github.com/git-lfs/git-lfs/v3/config"
	"github.com/git-lfs/git-lfs/v3/errors"
	"github.com/git-lfs/git-lfs/v3/lfsapi"
	"github.com/git-lfs/git-lfs/v3/tq"
)

type dlResp struct {
	NoResponse bool
	Status     int
	Range      string // Content-Range header value ("" = absent)
	Body       []byte
	Cut        bool // announce more than is sent, then close
	RetryAfter string
}

func (r dlResp) encode() string {
	nr, cut := "0", "0"
	if r.NoResponse {
		nr = "1"
	}
	if r.Cut {
		cut = "1"
	}
	return fmt.Sprintf("%s/%d/%s/%s/%s/%s", nr, r.Status, hx([]byte(r.Range)), hx(r.Body), cut, hx([]byte(r.RetryAfter)))
}
func decodeDlResp(s string) (dlResp, bool) {
	p := strings.Split(s, "/")
	if len(p) != 6 {
		return dlResp{}, false
	}
	st, _ := strconv.Atoi(p[1])
	return dlResp{NoResponse: p[0] == "1", Status: st, Range: string(unhx(p[2])), Body: unhx(p[3]), Cut: p[4] == "1", RetryAfter: string(unhx(p[5]))}, true
}

type dlCase struct {
	Content  []byte // the object (oid = sha256)
	Part     []byte // nil = absent
	HasPart  bool
	Final    []byte // pre-existing final file (nil = absent)
	HasFinal bool
	FinalDir bool // something that is not a file sits at the final path (an empty directory): the rename cannot succeed
	Script   []dlResp
	Attempts int
}

func (c dlCase) encode() string {
	var ss []string
	for _, r := range c.Script {
		ss = append(ss, r.encode())
	}
	part, fin := "none", "none"
	if c.HasPart {
		part = hx(c.Part)
	}
	if c.HasFinal {
		fin = hx(c.Final)
	}
	if c.FinalDir {
		fin = "dir"
	}
	return fmt.Sprintf("C02 case %s %s %s %d %s", hx(c.Content), part, fin, c.Attempts, strings.Join(ss, ","))
}
func decodeDlCase(s string) (dlCase, bool) {
	f := strings.Fields(s)
	if len(f) != 7 {
		return dlCase{}, false
	}
	c := dlCase{Content: unhx(f[2])}
	if f[3] != "none" {
		c.HasPart, c.Part = true, unhx(f[3])
	}
	if f[4] == "dir" {
		c.FinalDir = true
	} else if f[4] != "none" {
		c.HasFinal, c.Final = true, unhx(f[4])
	}
	c.Attempts, _ = strconv.Atoi(f[5])
	for _, rs := range strings.Split(f[6], ",") {
		if r, ok := decodeDlResp(rs); ok {
			c.Script = append(c.Script, r)
		}
	}
	return c, true
}

type dlServer struct {
	mu     sync.Mutex
	script map[string][]dlResp // by oid
	used   map[string]int
	srv    *httptest.Server
}

func newDlServer() *dlServer {
	s := &dlServer{script: map[string][]dlResp{}, used: map[string]int{}}
	s.srv = httptest.NewServer(http.HandlerFunc(func(w http.ResponseWriter, r *http.Request) {
		oid := strings.TrimPrefix(r.URL.Path, "/obj/")
		s.mu.Lock()
		var resp dlResp
		q := s.script[oid]
		if len(q) == 0 {
			resp = dlResp{Status: 404}
		} else {
			resp = q[0]
			s.script[oid] = q[1:]
		}
		s.used[oid]++
		s.mu.Unlock()
		if resp.NoResponse {
			if hj, ok := w.(http.Hijacker); ok {
				// a few bytes of a broken status line, then close: net/http's transport transparently
				// re-sends an idempotent request only when NOTHING was read from the server
				conn, _, _ := hj.Hijack()
				conn.Write([]byte("HTTP/1.1 2"))
				if tc, ok := conn.(*net.TCPConn); ok {
					tc.SetLinger(0)
				}
				conn.Close()
				return
			}
		}
		if resp.Range != "" {
			w.Header().Set("Content-Range", resp.Range)
		}
		if resp.RetryAfter != "" {
			w.Header().Set("Retry-After", resp.RetryAfter)
		}
		if resp.Cut {
			w.Header().Set("Content-Length", strconv.Itoa(len(resp.Body)+17))
			w.WriteHeader(resp.Status)
			w.Write(resp.Body)
			if fl, ok := w.(http.Flusher); ok {
				fl.Flush()
			}
			if hj, ok := w.(http.Hijacker); ok {
				conn, _, _ := hj.Hijack()
				conn.Close()
			}
			return
		}
		w.Header().Set("Content-Length", strconv.Itoa(len(resp.Body)))
		w.WriteHeader(resp.Status)
		w.Write(resp.Body)
	}))
	return s
}

type dlAdapterCfg struct {
	c *lfsapi.Client
}

func (a dlAdapterCfg) APIClient() *lfsapi.Client { return a.c }
func (a dlAdapterCfg) ConcurrentTransfers() int  { return 1 }
func (a dlAdapterCfg) Remote() string            { return "origin" }

var crRE = regexp.MustCompile(`bytes (\d+)\-.*`)

// rangeKind: the model's abstraction of the Content-Range header (see Dl.Resp.rangeStart)
func rangeKind(h string) string {
	if h == "" {
		return "none"
	}
	m := crRE.FindStringSubmatch(h)
	if m == nil {
		return "bad"
	}
	v, err := strconv.ParseInt(m[1], 10, 64)
	if err != nil {
		return "9223372036854775807"
	}
	return strconv.FormatInt(v, 10)
}

func readOpt(p string) ([]byte, bool) {
	b, err := os.ReadFile(p)
	if err != nil {
		return nil, false
	}
	return b, true
}
func optHex(b []byte, ok bool) string {
	if !ok {
		return "none"
	}
	return hx(b)
}

func genDlBody(r *Rng, content []byte, from int) ([]byte, string) {
	if from > len(content) {
		from = len(content)
	}
	switch r.Intn(9) {
	case 0, 1, 2:
		return content[from:], "exact-suffix"
	case 3:
		return content, "full"
	case 4:
		if len(content) > 0 {
			return content[:r.Intn(len(content))], "prefix"
		}
		return nil, "prefix"
	case 5:
		o := r.Intn(len(content) + 1)
		return content[o:], "wrong-offset-suffix"
	case 6:
		return append(append([]byte(nil), content[from:]...), r.Bytes(1+r.Intn(5))...), "extra"
	case 7:
		b := append([]byte(nil), content[from:]...)
		if len(b) > 0 {
			b[r.Intn(len(b))] ^= 1 << uint(r.Intn(8))
		}
		return b, "bitflip"
	default:
		return r.Bytes(len(content)), "other-object"
	}
}

func c02(c *Ctx) {
	r := NewRng(c.Seed ^ 0xC02)
	n := c.N(1500, 60000)
	c.R.Rule = "cases = object (sizes 0,1,2,3,small,1 KiB,64 KiB) x pre-existing .part {absent, valid prefix, garbage, longer} x final {absent, present} x script of <= 6 server answers per attempt x <= 4 attempts (status 200/206/416/404/403/500/503/429, body exact/full/prefix/wrong-offset/extra/bit-flip/other, Content-Range correct/wrong/missing/malformed/overflow, connection cut, no response); non-trivial = script with >= 1 non-exact body or a non-empty .part; distinct = different encoded case"
	var cases []dlCase
	for _, l := range corpusLines(c, "C02") {
		if dc, ok := decodeDlCase(l); ok {
			cases = append(cases, dc)
		}
	}
	if c.Replay != "" {
		cases = nil
		if dc, ok := decodeDlCase(replayCase(c)); ok {
			cases = append(cases, dc)
		}
		n = 0
	}
	for i := 0; i < n; i++ {
		var dc dlCase
		size := Pick(r, []int{1, 1, 2, 3, 4, 7, 64, 300, 1024, 5000}) // the empty object has no storage location (ObjectPath = os.DevNull)
		if r.Chance(3) {
			size = 65536
		}
		dc.Content = r.Bytes(size)
		switch r.Intn(6) {
		case 0, 1:
		case 2, 3:
			dc.HasPart = true
			if size > 0 {
				dc.Part = append([]byte(nil), dc.Content[:Pick(r, []int{1 % (size + 1), size / 2, max(size-2, 0), max(size-1, 0), size})]...)
			}
		case 4:
			dc.HasPart, dc.Part = true, r.Bytes(1+r.Intn(size+2))
		default:
			dc.HasPart, dc.Part = true, append(append([]byte(nil), dc.Content...), r.Bytes(1+r.Intn(4))...)
		}
		switch r.Intn(20) {
		case 0:
			dc.HasFinal, dc.Final = true, dc.Content
		case 1: // a corrupt file of exactly the right length already sits at the final path (bit flip)
			bad := append([]byte(nil), dc.Content...)
			bad[r.Intn(len(bad))] ^= 0x20
			dc.HasFinal, dc.Final = true, bad
		case 2: // … or some other object's bytes, same or different length
			dc.HasFinal, dc.Final = true, r.Bytes(Pick(r, []int{size, size, size + 1, max(size-1, 1)}))
		case 3: // … or a directory (left by a crashed tool, a confused script): renaming onto it fails
			dc.FinalDir = true
		}
		dc.Attempts = 1 + r.Intn(4)
		nresp := 1 + r.Intn(6)
		from := len(dc.Part)
		for k := 0; k < nresp; k++ {
			var resp dlResp
			switch r.Intn(16) {
			case 0:
				resp.NoResponse = true
			case 1:
				resp.Status = 416
			case 2:
				resp.Status = Pick(r, []int{404, 403, 500, 503})
			case 3:
				resp.Status = 429
				resp.RetryAfter = Pick(r, []string{"", "1", "garbage", "Wed, 21 Oct 2065 07:28:00 GMT"})
			case 4, 5, 6, 7:
				resp.Status = 206
				resp.Range = Pick(r, []string{
					fmt.Sprintf("bytes %d-%d/%d", from, size-1, size), fmt.Sprintf("bytes %d-%d/%d", from, size-1, size), fmt.Sprintf("bytes %d-%d/%d", from, size-1, size),
					fmt.Sprintf("bytes %d-%d/%d", from+1, size-1, size), "bytes 0-", "", "bytes abc-def/5", "xbytes " + strconv.Itoa(from) + "-", "bytes 99999999999999999999-5/7", fmt.Sprintf("bytes=%d-", from)})
			default:
				resp.Status = 200
			}
			if resp.Status == 200 || resp.Status == 206 {
				f := from
				if resp.Status == 200 {
					f = 0
				}
				resp.Body, _ = genDlBody(r, dc.Content, f)
				resp.Cut = r.Chance(8)
			}
			dc.Script = append(dc.Script, resp)
		}
		cases = append(cases, dc)
	}
	srv := newDlServer()
	defer srv.srv.Close()
	repo := filepath.Join(c.Work, "dlrepo")
	if err := gitInit(repo); err != nil {
		c.R.Add(Finding{Kind: "diff", What: err.Error(), Broken: "corr.C02.download"})
		return
	}
	oldwd, _ := os.Getwd()
	os.Chdir(repo)
	defer os.Chdir(oldwd)
	cfg := config.NewIn(repo, "")
	client, err := lfsapi.NewClient(cfg)
	if err != nil {
		c.R.Add(Finding{Kind: "diff", What: err.Error(), Broken: "corr.C02.download"})
		return
	}
	manifest := tq.NewManifest(cfg.Filesystem(), client, "download", "origin")
	fsys := cfg.Filesystem()
	incomplete := filepath.Join(fsys.LFSStorageDir, "incomplete")
	os.MkdirAll(incomplete, 0o755)
	var mlines []string
	var mimpl []string
	var mcase []string
	for ci, dc := range cases {
		oid := sha(dc.Content)
		final, _ := fsys.ObjectPath(oid)
		part := filepath.Join(incomplete, oid+".part")
		if !strings.HasPrefix(final, repo) {
			// the empty object's "path" is os.DevNull: never touch anything outside the scratch repository
			continue
		}
		os.RemoveAll(final)
		os.Remove(part)
		if dc.FinalDir {
			os.MkdirAll(final, 0o755)
			c.R.Count("final.is-a-directory")
		}
		if dc.HasPart {
			os.WriteFile(part, dc.Part, 0o644)
		}
		if dc.HasFinal {
			os.MkdirAll(filepath.Dir(final), 0o755)
			os.WriteFile(final, dc.Final, 0o644)
		}
		srv.mu.Lock()
		srv.script[oid] = append([]dlResp(nil), dc.Script...)
		srv.used[oid] = 0
		srv.mu.Unlock()
		enc := dc.encode()
		nontrivial := (dc.HasPart && len(dc.Part) > 0) || (dc.HasFinal && !bytes.Equal(dc.Final, dc.Content))
		if dc.HasFinal && !bytes.Equal(dc.Final, dc.Content) {
			c.R.Count("final.corrupt-preexisting")
		}
		for _, rs := range dc.Script {
			if (rs.Status == 200 || rs.Status == 206) && !bytes.Equal(rs.Body, dc.Content) {
				nontrivial = true
			}
		}
		c.R.Eval(enc, nontrivial)
		for at := 0; at < dc.Attempts; at++ {
			srv.mu.Lock()
			remaining := append([]dlResp(nil), srv.script[oid]...)
			srv.mu.Unlock()
			preFinal, hadFinal := readOpt(final)
			prePart, hadPart := readOpt(part)
			ad := manifest.NewDownloadAdapter("basic")
			if err := ad.Begin(dlAdapterCfg{client}, nil); err != nil {
				c.R.Add(Finding{Kind: "diff", What: "adapter Begin: " + err.Error(), Broken: "corr.C02.download"})
				return
			}
			t := &tq.Transfer{Name: "f", Oid: oid, Size: int64(len(dc.Content)), Path: final, Authenticated: true,
				Actions: tq.ActionSet{"download": &tq.Action{Href: srv.srv.URL + "/obj/" + oid}}}
			var res tq.TransferResult
			select {
			case res = <-ad.Add(t):
			case <-time.After(20 * time.Second):
				c.R.Add(Finding{Kind: "oracle", What: "download attempt did not return within the deadline", Case: enc})
			}
			ad.End()
			postFinal, hasFinal := readOpt(final)
			postPart, hasPart := readOpt(part)
			outcome := "ok"
			if res.Error != nil {
				if os.Getenv("VERIF_DEBUG") != "" {
					fmt.Fprintln(os.Stderr, "attempt error:", res.Error)
				}
				outcome = "fail"
				if errors.IsRetriableError(res.Error) {
					outcome = "fail-retriable"
				}
				if _, later := errors.IsRetriableLaterError(res.Error); later {
					outcome = "fail-later"
				}
			}
			c.R.Count("attempt." + outcome)
			// ---- the property, on the implementation alone
			if res.Error == nil {
				if !hasFinal || sha(postFinal) != oid {
					c.R.Add(Finding{Kind: "oracle", What: "download reported success but the object file does not hash to the requested oid", Case: enc,
						Impl: fmt.Sprintf("attempt=%d final=%s", at, optHex(postFinal, hasFinal)[:min(80, len(optHex(postFinal, hasFinal)))])})
				}
			} else {
				if hasFinal != hadFinal || !bytes.Equal(postFinal, preFinal) {
					c.R.Add(Finding{Kind: "oracle", What: "download reported failure but a file was created or replaced at the object's final location", Case: enc,
						Impl: fmt.Sprintf("attempt=%d before=%v after=%v", at, hadFinal, hasFinal)})
				}
			}
			// ---- model line for this attempt
			var ss []string
			for _, rs := range remaining {
				nr, cut, ra := "0", "0", "0"
				if rs.NoResponse {
					nr = "1"
				}
				if rs.Cut {
					cut = "1"
				}
				if rs.Status == 429 && errors.NewRetriableLaterError(fmt.Errorf("x"), rs.RetryAfter) != nil {
					ra = "1"
				}
				ss = append(ss, fmt.Sprintf("%s/%d/%s/%s/%s/%s", nr, rs.Status, rangeKind(rs.Range), hx(rs.Body), cut, ra))
			}
			sc := "-"
			if len(ss) > 0 {
				sc = strings.Join(ss, ",")
			}
			if !dc.FinalDir { // the model's file system has files only
				mlines = append(mlines, fmt.Sprintf("C02 dl %s %d %s %s %s", oid, len(dc.Content), optHex(prePart, hadPart), optHex(preFinal, hadFinal), sc))
				mimpl = append(mimpl, fmt.Sprintf("%s part=%s final=%s", outcome, shaOpt(postPart, hasPart), shaOpt(postFinal, hasFinal)))
				mcase = append(mcase, enc)
			}
			if res.Error == nil {
				break
			}
		}
		if ci%(len(cases)/5+1) == 0 {
			c.R.Sample(map[string]interface{}{"size": len(dc.Content), "part_len": len(dc.Part), "has_part": dc.HasPart, "script_len": len(dc.Script), "attempts": dc.Attempts, "first_status": dc.Script[0].Status})
		}
	}
	model, err := c.Or.Ask(mlines)
	if err != nil {
		c.R.Add(Finding{Kind: "diff", What: "oracle process failed: " + err.Error(), Broken: "corr.C02.download"})
		return
	}
	for i := range mlines {
		if model[i] != mimpl[i] {
			c.R.Add(Finding{Kind: "diff", What: "download attempt: model and implementation disagree", Case: mcase[i], Impl: mimpl[i], Model: model[i] + "   <= " + clip(mlines[i], 300), Broken: "corr.C02.download"})
		}
	}
	if c.Replay == "" {
		os.Chdir(oldwd)
		c02Custom(c, r)
		c02SSH(c, r)
		c02Concurrent(c, r)
		c06Real(c, NewRng(c.Seed^0xC02A), "C02")
	}
}

func shaOpt(b []byte, ok bool) string {
	if !ok {
		return "none"
	}
	if len(b) == 0 {
		return "empty"
	}
	return sha(b)
}

func init() { campaigns["C02"] = c02 }
