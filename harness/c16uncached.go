package main

import (
	"fmt"
	"os"
	"path/filepath"
	"strings"
)

// c16UnlockUncached: the current user's OWN lock that this clone's lock cache does not know — taken from
// another clone, through the server's web interface, or the cache file was lost — on a file that may have
// uncommitted changes here.  `git lfs unlock <path>` and `git lfs unlock --id <id>` without --force must not
// release the lock of a modified file; with --force, or with the file unmodified, the lock goes.
func c16UnlockUncached(c *Ctx, r *Rng) {
	n := c.N(16, 200)
	for i := 0; i < n; i++ {
		base := filepath.Join(c.Work, fmt.Sprintf("c16u-%d", i))
		os.MkdirAll(base, 0o755)
		srv := newLfsServer()
		w, err := newScenRepo(c, filepath.Join(base, "w"), srv)
		if err != nil {
			srv.srv.Close()
			os.RemoveAll(base)
			continue
		}
		w.write(".gitattributes", []byte("*.dat filter=lfs -text lockable\n*.txt lockable\n"))
		files := []string{"a.dat", "dir/c.dat", "t.txt"}
		for _, f := range files {
			w.write(f, r.Bytes(40))
		}
		w.git("add", "-A")
		w.git("commit", "-qm", "base")
		f := Pick(r, files)
		how := Pick(r, []string{"elsewhere", "elsewhere", "cache-lost"})
		id := ""
		if how == "cache-lost" {
			srv.mu.Lock()
			srv.user = "alice"
			srv.mu.Unlock()
			w.runLfs("lock", f)
			os.RemoveAll(filepath.Join(w.dir, ".git", "lfs", "cache", "locks"))
			matches, _ := filepath.Glob(filepath.Join(w.dir, ".git", "lfs", "lockcache.db"))
			for _, m := range matches {
				os.Remove(m)
			}
			srv.mu.Lock()
			for _, l := range srv.locks {
				if l.Path == f {
					id = l.ID
				}
			}
			srv.mu.Unlock()
		} else {
			srv.mu.Lock()
			srv.user = "alice"
			srv.nextLock++
			id = fmt.Sprintf("L%d", srv.nextLock)
			srv.locks = append(srv.locks, lfsLock{ID: id, Path: f, Owner: "alice"})
			srv.mu.Unlock()
		}
		mod := Pick(r, []string{"edited", "edited", "staged", "clean"})
		os.Chmod(filepath.Join(w.dir, f), 0o644)
		switch mod {
		case "edited":
			w.write(f, r.Bytes(41))
		case "staged":
			w.write(f, r.Bytes(42))
			w.git("add", f)
		}
		byID := r.Chance(60)
		force := r.Chance(20)
		args := []string{"unlock", f}
		if byID {
			args = []string{"unlock", "--id", id}
		}
		if force {
			args = append(args, "--force")
		}
		out, code := w.runLfs(args...)
		held := false
		srv.mu.Lock()
		for _, l := range srv.locks {
			if l.Path == f {
				held = true
			}
		}
		srv.mu.Unlock()
		enc := fmt.Sprintf("C16 uncached-own-lock seed=%d idx=%d lock=%s file=%s state=%s cmd=%s -> %d", c.Seed, i, how, f, mod, strings.Join(args, " "), code)
		c.R.Eval(enc, mod != "clean" && !force)
		c.R.Count("uncached." + how + "." + mod)
		switch {
		case id == "":
			// the lock could not be set up
		case mod != "clean" && !force && !held:
			c.R.Add(Finding{Kind: "oracle", What: "`git lfs unlock" + map[bool]string{true: " --id", false: ""}[byID] + "` without --force released the lock of a file with uncommitted changes (the user's own lock, not in this clone's lock cache)", Case: enc, Impl: clip(out, 300)})
		case (mod == "clean" || force) && held:
			c.R.Add(Finding{Kind: "oracle", What: "`git lfs unlock` of the user's own lock on an unmodified file (or with --force) did not release it (lock not in this clone's lock cache)", Case: enc, Impl: clip(out, 300)})
		}
		srv.srv.Close()
		os.RemoveAll(base)
		os.Remove(filepath.Join(base, "w.gitconfig"))
	}
}
