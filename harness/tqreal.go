// C06/C15 with the REAL transfer adapter: the queue campaigns of c06.go drive the queue through a scripted
// adapter; here the queue runs with tq's own basic download adapter (adapterBase: worker start-up, the
// authentication gate, End) against a scripted batch + storage server, one case per child process.
// Judged: Add and Wait return; every object is delivered once with a valid file, or covered by an error.
package main

import (
	"encoding/json"
	"fmt"
	"io"
	"net/http"
	"net/http/httptest"
	"os"
	"os/exec"
	"path/filepath"
	"strings"
	"sync"
	"time"

	"github.com/git-lfs/git-lfs/v3/config"
	"github.com/git-lfs/git-lfs/v3/lfsapi"
	"github.com/git-lfs/git-lfs/v3/tq"
)

type tqRealCase struct {
	Sizes         []int      `json:"sizes"`                     // one object per entry (batches are sorted by descending size)
	Scripts       [][]string `json:"scripts"`                   // per object, per storage request: ok | 503 | 500 | 404 | 429 | cut
	Workers       int        `json:"workers"`                   // lfs.concurrenttransfers
	Batch         int        `json:"batch"`                     // batch size
	Retries       int        `json:"retries"`                   // lfs.transfer.maxretries
	Authenticated bool       `json:"authenticated,omitempty"`   // the batch answer marks its objects `authenticated: true` (no credentials are to be added)
	ExpiresIn     int        `json:"expires_in,omitempty"`      // every action is advertised with this expires_in (seconds); 0 = none
	SlowMs        int        `json:"slow_ms,omitempty"`         // every storage answer takes this long
	Foreign       bool       `json:"foreign_members,omitempty"` // the batch answer\'s objects carry members that are the CLIENT\'s business (path, name, missing): they must not steer it
	BatchScript   []string   `json:"batch_script,omitempty"`    // per batch request: ok | 401 (the last entry repeats); a credential helper that always answers is configured
	Contents      [][]byte   `json:"-"`
}

type tqRealObs struct {
	AddReturned  bool            `json:"add_returned"`
	WaitReturned bool            `json:"wait_returned"`
	Delivered    map[string]int  `json:"delivered"`
	Errors       []string        `json:"errors"`
	Valid        map[string]bool `json:"valid"`
	Gets         map[string]int  `json:"gets"`
	ExpiredUse   []string        `json:"expired_use,omitempty"` // storage requests that used an action after its advertised expiry
	Stray        int             `json:"stray,omitempty"`       // files found where a `path` member of the batch answer pointed
	Batches      int             `json:"batches,omitempty"`     // batch API requests received
	Panic        string          `json:"panic,omitempty"`
}

func tqRealContent(i, size int) []byte {
	b := make([]byte, size)
	for k := range b {
		b[k] = byte(i*31 + k*7 + 1)
	}
	return b
}

// tqRealChildMain: `lfsverif tqreal <workdir> <json case>`
func tqRealChildMain(workdir, js string) {
	var tc tqRealCase
	obs := tqRealObs{Delivered: map[string]int{}, Valid: map[string]bool{}, Gets: map[string]int{}}
	defer func() {
		if x := recover(); x != nil {
			obs.Panic = fmt.Sprint(x)
		}
		b, _ := json.Marshal(obs)
		fmt.Println(string(b))
	}()
	if json.Unmarshal([]byte(js), &tc) != nil {
		obs.Panic = "bad case"
		return
	}
	contents := map[string][]byte{}
	idx := map[string]int{}
	var oids []string
	for i, sz := range tc.Sizes {
		b := tqRealContent(i, sz)
		o := sha(b)
		contents[o], idx[o] = b, i
		oids = append(oids, o)
	}
	var mu sync.Mutex
	var srv *httptest.Server
	srv = httptest.NewServer(http.HandlerFunc(func(rw http.ResponseWriter, r *http.Request) {
		body, _ := io.ReadAll(r.Body)
		if strings.HasSuffix(r.URL.Path, "/objects/batch") {
			var req struct {
				Objects []struct {
					Oid  string `json:"oid"`
					Size int64  `json:"size"`
				} `json:"objects"`
			}
			json.Unmarshal(body, &req)
			mu.Lock()
			nb := obs.Batches
			obs.Batches++
			mu.Unlock()
			if len(tc.BatchScript) > 0 {
				if nb >= len(tc.BatchScript) {
					nb = len(tc.BatchScript) - 1
				}
				if tc.BatchScript[nb] == "401" {
					rw.Header().Set("WWW-Authenticate", "Basic realm=\"lfs\"")
					rw.Header().Set("Content-Type", "application/vnd.git-lfs+json")
					rw.WriteHeader(401)
					rw.Write([]byte(`{"message":"credentials needed"}`))
					return
				}
			}
			type act struct {
				Href      string `json:"href"`
				ExpiresIn int    `json:"expires_in,omitempty"`
			}
			type obj struct {
				Oid           string         `json:"oid"`
				Size          int64          `json:"size"`
				Authenticated bool           `json:"authenticated,omitempty"`
				Actions       map[string]act `json:"actions"`
			}
			out := struct {
				Transfer string `json:"transfer"`
				Objects  []obj  `json:"objects"`
			}{Transfer: "basic"}
			for _, o := range req.Objects {
				out.Objects = append(out.Objects, obj{o.Oid, o.Size, tc.Authenticated, map[string]act{"download": {fmt.Sprintf("%s/storage/%s?issued=%d", srv.URL, o.Oid, time.Now().UnixNano()), tc.ExpiresIn}}})
			}
			rw.Header().Set("Content-Type", "application/vnd.git-lfs+json")
			if tc.Foreign {
				// re-encode with extra members per object
				raw, _ := json.Marshal(out)
				var generic map[string]interface{}
				json.Unmarshal(raw, &generic)
				if objs, ok := generic["objects"].([]interface{}); ok {
					for _, o := range objs {
						if m, ok := o.(map[string]interface{}); ok {
							m["path"] = filepath.Join(workdir, "elsewhere", fmt.Sprint(m["oid"]))
							m["name"] = "named-by-the-server"
							m["missing"] = true
						}
					}
				}
				os.MkdirAll(filepath.Join(workdir, "elsewhere"), 0o755)
				json.NewEncoder(rw).Encode(generic)
				return
			}
			json.NewEncoder(rw).Encode(out)
			return
		}
		oid := strings.TrimPrefix(r.URL.Path, "/storage/")
		mu.Lock()
		k := obs.Gets[oid]
		obs.Gets[oid]++
		if tc.ExpiresIn > 0 {
			var issued int64
			fmt.Sscan(r.URL.Query().Get("issued"), &issued)
			if age := time.Since(time.Unix(0, issued)); issued > 0 && age > time.Duration(tc.ExpiresIn)*time.Second {
				obs.ExpiredUse = append(obs.ExpiredUse, fmt.Sprintf("%s used %.1fs after it was issued with expires_in=%d", oid[:12], age.Seconds(), tc.ExpiresIn))
			}
		}
		mu.Unlock()
		if tc.SlowMs > 0 {
			time.Sleep(time.Duration(tc.SlowMs) * time.Millisecond)
		}
		sc := []string{"ok"}
		if i, ok := idx[oid]; ok && i < len(tc.Scripts) && len(tc.Scripts[i]) > 0 {
			sc = tc.Scripts[i]
		}
		if k >= len(sc) {
			k = len(sc) - 1
		}
		switch sc[k] {
		case "503", "500", "404", "401", "403":
			var code int
			fmt.Sscan(sc[k], &code)
			rw.WriteHeader(code)
		case "429":
			rw.Header().Set("Retry-After", "0")
			rw.WriteHeader(429)
		case "cut":
			rw.Header().Set("Content-Length", fmt.Sprint(len(contents[oid])+9))
			rw.WriteHeader(200)
			rw.Write(contents[oid][:len(contents[oid])/2])
			if hj, ok := rw.(http.Hijacker); ok {
				conn, _, _ := hj.Hijack()
				conn.Close()
			}
		default:
			rw.Write(contents[oid])
		}
	}))
	defer srv.Close()
	repo := filepath.Join(workdir, "repo")
	os.RemoveAll(repo)
	if err := gitInit(repo); err != nil {
		obs.Panic = err.Error()
		return
	}
	runIn(repo, nil, "git", "config", "lfs.url", srv.URL)
	runIn(repo, nil, "git", "config", "lfs.concurrenttransfers", fmt.Sprint(tc.Workers))
	runIn(repo, nil, "git", "config", "lfs.transfer.maxretries", fmt.Sprint(tc.Retries))
	runIn(repo, nil, "git", "config", "lfs.transfer.maxretrydelay", "0")
	if len(tc.BatchScript) > 0 {
		// a helper that hands out the same credentials every time, whatever was rejected before
		runIn(repo, nil, "git", "config", "credential.helper", "!f() { test \"$1\" = get && echo username=u && echo password=p; }; f")
	}
	os.Chdir(repo)
	cfg := config.NewIn(repo, "")
	client, err := lfsapi.NewClient(cfg)
	if err != nil {
		obs.Panic = err.Error()
		return
	}
	m := tq.NewManifest(cfg.Filesystem(), client, "download", "origin")
	q := tq.NewTransferQueue(tq.Download, m, "origin", tq.WithBatchSize(tc.Batch))
	watch := q.Watch()
	watchDone := make(chan struct{})
	go func() {
		for t := range watch {
			mu.Lock()
			obs.Delivered[t.Oid]++
			mu.Unlock()
		}
		close(watchDone)
	}()
	fsys := cfg.Filesystem()
	added := make(chan struct{})
	go func() {
		for i, o := range oids {
			p, _ := fsys.ObjectPath(o)
			q.Add(fmt.Sprintf("f%d", i), p, o, int64(tc.Sizes[i]), false, nil)
		}
		close(added)
	}()
	select {
	case <-added:
		obs.AddReturned = true
	case <-time.After(8 * time.Second):
		return
	}
	waited := make(chan struct{})
	go func() { q.Wait(); close(waited) }()
	select {
	case <-waited:
		obs.WaitReturned = true
		<-watchDone
	case <-time.After(10*time.Second + time.Duration(tc.SlowMs*len(tc.Sizes)*3)*time.Millisecond):
		return
	}
	for _, e := range q.Errors() {
		obs.Errors = append(obs.Errors, e.Error())
	}
	for _, o := range oids {
		p, _ := fsys.ObjectPath(o)
		if b, err := os.ReadFile(p); err == nil && sha(b) == o {
			obs.Valid[o] = true
		}
	}
	if ents, _ := os.ReadDir(filepath.Join(workdir, "elsewhere")); len(ents) > 0 {
		obs.Stray = len(ents)
	}
}

func c06Real(c *Ctx, r *Rng, prop string) {
	n := c.N(48, 1200)
	if prop == "C02" {
		n = c.N(16, 300)
	}
	self, _ := os.Executable()
	type res struct {
		tc  tqRealCase
		obs tqRealObs
		raw string
	}
	results := make([]res, n)
	var wg sync.WaitGroup
	sem := make(chan struct{}, 8)
	for i := 0; i < n; i++ {
		tc := tqRealCase{Workers: Pick(r, []int{1, 2, 3, 8}), Batch: Pick(r, []int{1, 2, 100}), Retries: Pick(r, []int{1, 2, 3})}
		nobj := 1 + r.Intn(5)
		for k := 0; k < nobj; k++ {
			tc.Sizes = append(tc.Sizes, 10+r.Intn(4000))
			var sc []string
			for a := 0; a < r.Intn(3); a++ {
				sc = append(sc, Pick(r, []string{"503", "503", "500", "429", "cut", "404"}))
			}
			if r.Chance(85) {
				sc = append(sc, "ok")
			} else {
				sc = append(sc, "404")
			}
			tc.Scripts = append(tc.Scripts, sc)
		}
		if r.Chance(12) {
			// directed: the storage host refuses the request for want of credentials although the batch answer
			// said none are needed (a pre-signed URL that has been revoked): a plain failure of that object
			tc.Authenticated = r.Chance(70)
			tc.Scripts[r.Intn(nobj)] = []string{Pick(r, []string{"401", "401", "403"})}
		}
		if r.Chance(35) {
			// directed: the FIRST transfer a worker picks up (the largest object of the first batch) fails
			// before anything was received, several workers are configured
			big := 0
			for k := range tc.Sizes {
				if tc.Sizes[k] > tc.Sizes[big] {
					big = k
				}
			}
			tc.Scripts[big] = []string{Pick(r, []string{"503", "500", "429", "404"}), "ok"}
			tc.Workers = Pick(r, []int{2, 3, 8})
		}
		if r.Chance(22) {
			// directed: the batch API itself asks for credentials — once, twice, or every time, with a credential
			// helper that keeps handing out what was just rejected
			tc.BatchScript = Pick(r, [][]string{{"401"}, {"401", "ok"}, {"401", "401", "ok"}, {"ok", "401"}, {"401", "401", "401", "401", "401", "ok"}})
			if r.Chance(60) { // nothing else happens: the number of batch requests is the model's, exactly
				for k := range tc.Scripts {
					tc.Scripts[k] = []string{"ok"}
				}
			}
		}
		if r.Chance(10) || (prop == "C02" && i%2 == 0) {
			tc.Foreign = true
		}
		if prop == "C15" && i%16 == 5 {
			// directed: actions valid when the answer arrives run out while the objects wait for the only worker
			tc = tqRealCase{Workers: 1, Batch: 100, Retries: 3, ExpiresIn: 6, SlowMs: 2300}
			for k := 0; k < 4; k++ {
				tc.Sizes = append(tc.Sizes, 100+k)
				tc.Scripts = append(tc.Scripts, []string{"ok"})
			}
		}
		results[i].tc = tc
		wg.Add(1)
		sem <- struct{}{}
		go func(i int, tc tqRealCase) {
			defer wg.Done()
			defer func() { <-sem }()
			wd := filepath.Join(c.Work, fmt.Sprintf("tqreal-%d", i))
			os.MkdirAll(wd, 0o755)
			defer os.RemoveAll(wd)
			js, _ := json.Marshal(tc)
			cmd := exec.Command(self, "tqreal", wd, string(js))
			cmd.Env = append(os.Environ(), "GIT_TERMINAL_PROMPT=0")
			done := make(chan []byte, 1)
			go func() { b, _ := cmd.Output(); done <- b }()
			select {
			case b := <-done:
				results[i].raw = string(b)
				lines := strings.Split(strings.TrimSpace(string(b)), "\n")
				json.Unmarshal([]byte(lines[len(lines)-1]), &results[i].obs)
			case <-time.After(40*time.Second + time.Duration(tc.SlowMs*12)*time.Millisecond):
				if cmd.Process != nil {
					cmd.Process.Kill()
				}
				results[i].raw = "killed"
			}
		}(i, tc)
	}
	wg.Wait()
	for i := range results {
		tc, o := results[i].tc, results[i].obs
		js, _ := json.Marshal(tc)
		enc := prop + " real-adapter " + string(js)
		c.R.Eval(enc, true)
		c.R.Count("real-adapter")
		fail := func(what, impl string) {
			c.R.Add(Finding{Kind: "oracle", What: what, Case: enc, Impl: clip(impl, 400)})
		}
		if o.Panic != "" {
			fail("the queue with the real basic adapter panicked / could not be set up", o.Panic)
			continue
		}
		if !o.AddReturned {
			fail("Add did not return (queue with the real basic adapter)", results[i].raw)
			continue
		}
		for _, e := range o.ExpiredUse {
			fail("an action was used after its advertised expiry had passed instead of being re-requested (real basic adapter)", e)
		}
		if !o.WaitReturned {
			fail("Wait never returned (queue with the real basic adapter, every object had a terminal outcome)", fmt.Sprintf("delivered=%v gets=%v", o.Delivered, o.Gets))
			continue
		}
		c.R.Count("real-adapter.wait-returned")
		if tc.Foreign {
			c.R.Count("real-adapter.foreign-members")
		}
		if o.Stray > 0 {
			fail("the client wrote downloaded bytes to a place that the SERVER named in its batch answer (`path` member of an object)", fmt.Sprintf("%d files", o.Stray))
		}
		if len(tc.BatchScript) > 0 {
			c.R.Count("real-adapter.batch-401")
			// every batch request of the queue (at most one per object and attempt) is sent at most 1 + 3 times
			// exact, against the model AuthLoop.submissions, when ONE batch request covers every object: the first
			// submission carries no credentials (the access mode is not known yet), every answer 401 is such an
			// error as long as the helper answers, an `ok` ends it; an authentication failure is not retried by the queue
			oneRound := true // no object is sent back for another batch request
			for _, sc := range tc.Scripts {
				if len(sc) != 1 || sc[0] != "ok" { // any storage failure may send the object back for another batch request
					oneRound = false
				}
			}
			if oneRound && tc.ExpiresIn == 0 && tc.Batch >= len(tc.Sizes) && !strings.Contains(strings.Join(tc.BatchScript, ","), "ok,401") {
				bits := ""
				for _, e := range tc.BatchScript {
					if e == "401" {
						bits += "1"
					} else {
						bits += "0"
					}
				}
				if ans, err := c.Or.Ask([]string{"C15 authsub " + bits}); err == nil && len(ans) == 1 {
					var want int
					fmt.Sscanf(ans[0], "submissions %d", &want)
					c.R.Count("real-adapter.batch-401.exact")
					if want != o.Batches {
						c.R.Add(Finding{Kind: "diff", What: "the number of submissions of a batch request answered with 401: model (AuthLoop.submissions) and implementation disagree", Case: enc,
							Impl: fmt.Sprintf("%d batch requests", o.Batches), Model: ans[0] + " <= C15 authsub " + bits, Broken: "corr." + prop + ".authloop"})
					}
				}
			}
			if bound := len(tc.Sizes) * (1 + tc.Retries) * 4; o.Batches > bound {
				fail("the batch API was asked more often than the attempts of the objects and the bounded re-authentication allow (real basic adapter)", fmt.Sprintf("%d batch requests, bound %d", o.Batches, bound))
			}
		}
		errs := strings.Join(o.Errors, " | ")
		for k, sz := range tc.Sizes {
			oid := sha(tqRealContent(k, sz))
			d := o.Delivered[oid]
			covered := strings.Contains(errs, oid) || (len(o.Errors) > 0 && !strings.Contains(errs, "["))
			switch {
			case d > 1:
				fail("an object was delivered more than once (real basic adapter)", oid[:12])
			case d == 1 && !o.Valid[oid]:
				fail("an object was delivered but its file is missing or invalid (real basic adapter)", oid[:12])
			case d == 0 && !covered:
				fail("an object was neither delivered nor covered by an error (real basic adapter)", fmt.Sprintf("%s errors=%s", oid[:12], clip(errs, 200)))
			}
			// an attempt refused for want of credentials is sent again a bounded number of times WITHIN the
			// attempt (tq.maxAuthResubmissions = 3: the refusal may have taught the access mode, multi-stage schemes)
			bound := 1 + tc.Retries + 1
			for _, e := range tc.Scripts[k] {
				if e == "401" {
					bound = (1 + tc.Retries) * 4
				}
			}
			if prop == "C15" && o.Gets[oid] > bound {
				fail("an object was requested from storage more often than 1 + maxretries allows (real basic adapter)", fmt.Sprintf("%s: %d GETs, maxretries %d", oid[:12], o.Gets[oid], tc.Retries))
			}
		}
	}
}

// c06Concat: tq's batch.Concat (through the verif-only export) against TQConcat.concat: which objects go
// into the next batch, which have to wait — ready times clearly before / after now, sizes around the counts.
func c06Concat(c *Ctx, r *Rng) {
	n := c.N(400, 10000)
	var lines, impl []string
	for i := 0; i < n; i++ {
		mk := func(k int) []int64 {
			var o []int64
			for j := 0; j < k; j++ {
				o = append(o, Pick(r, []int64{-5000, -5000, -900, 900, 4000, 60000}))
			}
			return o
		}
		b, other := mk(r.Intn(5)), mk(r.Intn(6))
		size := Pick(r, []int{0, 1, 2, 3, 100})
		l, rt := tq.VerifConcat(b, other, size)
		item := func(base int, offs []int64) string {
			var t []string
			for j, o := range offs {
				t = append(t, fmt.Sprintf("%d:%d", base+j, o))
			}
			return joinOrDash(t)
		}
		sh := func(x []int) string {
			var t []string
			for _, v := range x {
				t = append(t, fmt.Sprint(v))
			}
			return joinOrDash(t)
		}
		line := fmt.Sprintf("C06 concat 0 %d %s %s", size, item(0, b), item(len(b), other))
		lines = append(lines, line)
		impl = append(impl, sh(l)+"|"+sh(rt))
		c.R.Eval(line, len(b)+len(other) > size)
		c.R.Count("concat")
		// the property's side, on the implementation alone: nothing lost, nothing twice
		seen := map[int]int{}
		for _, v := range append(append([]int(nil), l...), rt...) {
			seen[v]++
		}
		for j := 0; j < len(b)+len(other); j++ {
			if seen[j] != 1 {
				c.R.Add(Finding{Kind: "oracle", What: "batch.Concat lost or duplicated an object between the next batch and the remainder", Case: line, Impl: sh(l) + "|" + sh(rt)})
				break
			}
		}
	}
	ans, err := c.Or.Ask(lines)
	if err != nil {
		c.R.Add(Finding{Kind: "diff", What: "oracle process failed: " + err.Error(), Broken: "corr.C06.concat"})
		return
	}
	for i := range lines {
		if ans[i] != impl[i] {
			c.R.Add(Finding{Kind: "diff", What: "batch.Concat: model and implementation disagree", Case: lines[i], Impl: impl[i], Model: ans[i], Broken: "corr.C06.concat"})
		}
	}
}
