package main

import (
	"os"
	"path/filepath"
	"sort"
	"strings"
)

// corpusLines returns the non-comment lines of every file under <corpus>/<prop>/ (run first).
func corpusLines(c *Ctx, prop string) []string {
	if c.Corpus == "" {
		return nil
	}
	fs, _ := filepath.Glob(filepath.Join(c.Corpus, prop, "*.txt"))
	sort.Strings(fs)
	var out []string
	for _, f := range fs {
		b, err := os.ReadFile(f)
		if err != nil {
			continue
		}
		for _, l := range strings.Split(string(b), "\n") {
			l = strings.TrimSpace(l)
			if l != "" && !strings.HasPrefix(l, "#") {
				out = append(out, l)
			}
		}
	}
	return out
}
