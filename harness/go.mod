module lfsverif

go 1.23.0

require (
	github.com/git-lfs/git-lfs/v3 v3.0.0
	github.com/xeipuuv/gojsonschema v0.0.0-20170210233622-6b67b3fab74d
)

require (
	github.com/dpotapov/go-spnego v0.0.0-20210315154721-298b63a54430 // indirect
	github.com/git-lfs/gitobj/v2 v2.1.1 // indirect
	github.com/git-lfs/go-netrc v0.0.0-20250218165306-ba0029b43d11 // indirect
	github.com/git-lfs/pktline v0.0.0-20210330133718-06e9096e2825 // indirect
	github.com/git-lfs/wildmatch/v2 v2.0.1 // indirect
	github.com/hashicorp/go-uuid v1.0.2 // indirect
	github.com/jcmturner/aescts/v2 v2.0.0 // indirect
	github.com/jcmturner/dnsutils/v2 v2.0.0 // indirect
	github.com/jcmturner/gofork v1.0.0 // indirect
	github.com/jcmturner/goidentity/v6 v6.0.1 // indirect
	github.com/jcmturner/gokrb5/v8 v8.4.2 // indirect
	github.com/jcmturner/rpc/v2 v2.0.3 // indirect
	github.com/jmhodges/clock v1.2.0 // indirect
	github.com/leonelquinteros/gotext v1.5.0 // indirect
	github.com/mattn/go-isatty v0.0.4 // indirect
	github.com/olekukonko/ts v0.0.0-20171002115256-78ecb04241c0 // indirect
	github.com/pkg/errors v0.0.0-20170505043639-c605e284fe17 // indirect
	github.com/rubyist/tracerx v0.0.0-20170927163412-787959303086 // indirect
	github.com/spf13/cobra v1.7.0 // indirect
	github.com/spf13/pflag v1.0.5 // indirect
	github.com/ssgelm/cookiejarparser v1.0.1 // indirect
	github.com/xeipuuv/gojsonpointer v0.0.0-20180127040702-4e3ac2762d5f // indirect
	github.com/xeipuuv/gojsonreference v0.0.0-20180127040603-bd5ef7bd5415 // indirect
	golang.org/x/crypto v0.36.0 // indirect
	golang.org/x/net v0.38.0 // indirect
	golang.org/x/sync v0.12.0 // indirect
	golang.org/x/sys v0.31.0 // indirect
	golang.org/x/text v0.23.0 // indirect
)

replace github.com/git-lfs/git-lfs/v3 => /repo
