// C02, the other adapters of the quantifier and the concurrent-process dimension:
//   - custom transfer agents: the real customAdapter in process against a scripted agent (this binary in
//     `custom-agent` mode), one model call (DlAlt.customRun) per transfer;
//   - pure SSH transfer: the real SSHAdapter in process against a scripted git-lfs-transfer server (this
//     binary in `ssh-server` mode, reached through GIT_SSH_COMMAND), one model call (DlAlt.sshRun) per transfer;
//   - 2-3 real git-lfs processes fetching the same objects at the same time from a slow, connection-cutting
//     storage server: the final path is polled all the while (DlConc: absent or valid in every state).
package main

import (
	"bufio"
	"bytes"
	"encoding/json"
	"fmt"
	"io"
	"net"
	"net/http"
	"os"
	"os/exec"
	"path/filepath"
	"strconv"
	"strings"
	"sync"
	"sync/atomic"
	"time"

	"github.com/git-lfs/git-lfs/v3/config"
	"github.com/git-lfs/git-lfs/v3/lfsapi"
	"github.com/git-lfs/git-lfs/v3/subprocess"
	"github.com/git-lfs/git-lfs/v3/tq"
)

// endAdapter: End() waits for the worker; a worker stuck on a silent agent must not stall the campaign
func endAdapter(ad tq.Adapter) {
	done := make(chan struct{})
	go func() { ad.End(); close(done) }()
	select {
	case <-done:
	case <-time.After(5 * time.Second):
	}
}

// ---------------------------------------------------------------- scripted custom transfer agent

// agentMain: `lfsverif custom-agent`. VERIF_AGENT_SCRIPT names a file whose first line is the comma
// separated list of messages to answer the (single) download request with:
//
//	p/<oidok>              progress
//	c/<oidok>/<err>/<path> complete (path "none": a path that does not exist)
//	o                      a message with another event name
//	u                      a line that is not JSON
//	e                      exit without a word
func agentMain() {
	in := bufio.NewReader(os.Stdin)
	out := bufio.NewWriter(os.Stdout)
	say := func(v interface{}) {
		b, _ := json.Marshal(v)
		out.Write(append(b, '\n'))
		out.Flush()
	}
	if m := os.Getenv("VERIF_AGENT_FAIL_FIRST"); m != "" {
		// the first start of the agent fails (a transient spawn / connect problem); later starts work
		if _, err := os.Stat(m); err != nil {
			os.WriteFile(m, []byte("x"), 0o644)
			os.Exit(3)
		}
	}
	script := "e"
	if b, err := os.ReadFile(os.Getenv("VERIF_AGENT_SCRIPT")); err == nil && strings.TrimSpace(string(b)) != "" {
		script = strings.TrimSpace(string(b))
	}
	for {
		line, err := in.ReadString('\n')
		if err != nil {
			return
		}
		var req struct {
			Event string `json:"event"`
			Oid   string `json:"oid"`
		}
		json.Unmarshal([]byte(line), &req)
		switch req.Event {
		case "init":
			say(map[string]interface{}{})
		case "terminate":
			return
		case "download":
			for _, m := range strings.Split(script, ",") {
				f := strings.Split(m, "/")
				oid := req.Oid
				if len(f) > 1 && f[1] == "0" {
					oid = strings.Repeat("ab", 32)
				}
				switch f[0] {
				case "p":
					say(map[string]interface{}{"event": "progress", "oid": oid, "bytesSoFar": 1, "bytesSinceLast": 1})
				case "c":
					msg := map[string]interface{}{"event": "complete", "oid": oid}
					if f[2] == "1" {
						msg["error"] = map[string]interface{}{"code": 2, "message": "scripted agent error"}
					}
					p := strings.Join(f[3:], "/")
					if p == "none" {
						p = filepath.Join(os.TempDir(), "verif-agent-no-such-file-"+strconv.Itoa(os.Getpid()))
					}
					msg["path"] = p
					say(msg)
				case "x":
					// x/<store dir>|<scratch dir>: copy <store>/<oid> into the scratch directory (possibly on
					// another file system) and hand that file over
					dirs := strings.SplitN(strings.Join(f[1:], "/"), "|", 2)
					msg := map[string]interface{}{"event": "complete", "oid": req.Oid}
					if len(dirs) == 2 {
						b, err := os.ReadFile(filepath.Join(dirs[0], req.Oid))
						dst := filepath.Join(dirs[1], fmt.Sprintf("%s.%d", req.Oid, os.Getpid()))
						if err == nil {
							err = os.WriteFile(dst, b, 0o644)
						}
						if err != nil {
							msg["error"] = map[string]interface{}{"code": 2, "message": err.Error()}
						} else {
							msg["path"] = dst
						}
					}
					say(msg)
				case "o":
					say(map[string]interface{}{"event": "surprise", "oid": oid})
				case "u":
					out.WriteString("this is not json\n")
					out.Flush()
				case "e":
					return
				}
			}
			if os.Getenv("VERIF_AGENT_REPEAT") == "" {
				script = "e" // one request per process
			}
		}
	}
}

// ---------------------------------------------------------------- scripted git-lfs-transfer (pure SSH) server

func pktWrite(w io.Writer, data []byte) {
	fmt.Fprintf(w, "%04x", len(data)+4)
	w.Write(data)
}

// reads one request: lines up to the flush packet
func pktReadRequest(r *bufio.Reader) ([]string, error) {
	var lines []string
	for {
		hdr := make([]byte, 4)
		if _, err := io.ReadFull(r, hdr); err != nil {
			return nil, err
		}
		n, err := strconv.ParseInt(string(hdr), 16, 32)
		if err != nil {
			return nil, err
		}
		if n == 0 {
			return lines, nil
		}
		if n == 1 {
			lines = append(lines, "\x01delim")
			continue
		}
		buf := make([]byte, n-4)
		if _, err := io.ReadFull(r, buf); err != nil {
			return nil, err
		}
		lines = append(lines, strings.TrimSuffix(string(buf), "\n"))
	}
}

// sshServerMain: `lfsverif ssh-server <ssh args...>`. VERIF_SSH_SCRIPT names a file with one line
//
//	<conn 0|1> <status> <size args: comma list of numbers or `bad`, or -> <data file or -> <readerr 0|1>
//
// that answers the first get-object request.
func sshServerMain() {
	in := bufio.NewReader(os.Stdin)
	out := bufio.NewWriter(os.Stdout)
	go func() { // never outlive the harness by much
		time.Sleep(60 * time.Second)
		os.Exit(0)
	}()
	pktWrite(out, []byte("version=1\n"))
	out.WriteString("0000")
	out.Flush()
	script := strings.Fields("0 404 - - 0")
	if b, err := os.ReadFile(os.Getenv("VERIF_SSH_SCRIPT")); err == nil {
		if f := strings.Fields(string(b)); len(f) == 5 {
			script = f
		}
	}
	served := false
	for {
		req, err := pktReadRequest(in)
		if err != nil || len(req) == 0 {
			return
		}
		switch {
		case strings.HasPrefix(req[0], "version "):
			pktWrite(out, []byte("status 200\n"))
			out.WriteString("0000")
			out.Flush()
		case req[0] == "quit":
			pktWrite(out, []byte("status 200\n"))
			out.WriteString("0000")
			out.Flush()
			return
		case strings.HasPrefix(req[0], "get-object "):
			if served {
				pktWrite(out, []byte("status 404\n"))
				out.WriteString("0001")
				out.WriteString("0000")
				out.Flush()
				continue
			}
			served = true
			if script[0] == "1" {
				return // the connection dies
			}
			pktWrite(out, []byte("status "+script[1]+"\n"))
			if script[2] != "-" {
				for _, a := range strings.Split(script[2], ",") {
					if a == "bad" {
						a = "12x"
					}
					pktWrite(out, []byte("size="+a+"\n"))
				}
			}
			out.WriteString("0001")
			var data []byte
			if script[3] != "-" {
				data, _ = os.ReadFile(script[3])
			}
			for len(data) > 0 {
				n := len(data)
				if n > 30000 {
					n = 30000
				}
				pktWrite(out, data[:n])
				data = data[n:]
			}
			if script[4] == "1" {
				out.Flush()
				return // the stream ends at a packet boundary, without its flush packet
			}
			if script[4] == "2" {
				out.WriteString("0400abc") // a packet that announces 1020 bytes and delivers three
				out.Flush()
				return
			}
			out.WriteString("0000")
			out.Flush()
		default:
			pktWrite(out, []byte("status 400\n"))
			out.WriteString("0000")
			out.Flush()
		}
	}
}

// ---------------------------------------------------------------- campaigns

type altFile struct {
	kind string
	data []byte // nil: no file
}

func altVariants(r *Rng, content []byte) []altFile {
	flip := append([]byte(nil), content...)
	flip[r.Intn(len(flip))] ^= 1 << uint(r.Intn(8))
	return []altFile{
		{"exact", content}, {"exact", content}, {"exact", content},
		{"prefix", content[:r.Intn(len(content))]},
		{"padded", append(append([]byte(nil), content...), r.Bytes(1+r.Intn(30))...)},
		{"bitflip", flip},
		{"other", r.Bytes(len(content))},
		{"empty", []byte{}},
		{"missing", nil},
	}
}

func c02Custom(c *Ctx, r *Rng) {
	n := c.N(250, 6000)
	self, err := os.Executable()
	if err != nil {
		return
	}
	repo := filepath.Join(c.Work, "dlrepo-custom")
	if gitInit(repo) != nil {
		return
	}
	runIn(repo, nil, "git", "config", "lfs.customtransfer.verifagent.path", self)
	runIn(repo, nil, "git", "config", "lfs.customtransfer.verifagent.args", "custom-agent")
	runIn(repo, nil, "git", "config", "lfs.customtransfer.verifagent.concurrent", "false")
	runIn(repo, nil, "git", "config", "lfs.url", "http://127.0.0.1:9/never-contacted")
	oldwd, _ := os.Getwd()
	os.Chdir(repo)
	defer os.Chdir(oldwd)
	cfg := config.NewIn(repo, "")
	client, err := lfsapi.NewClient(cfg)
	if err != nil {
		c.R.Add(Finding{Kind: "diff", What: err.Error(), Broken: "corr.C02.custom"})
		return
	}
	manifest := tq.NewManifest(cfg.Filesystem(), client, "download", "origin")
	fsys := cfg.Filesystem()
	scratch := filepath.Join(c.Work, "agent-files")
	os.MkdirAll(scratch, 0o755)
	scriptFile := filepath.Join(c.Work, "agent-script")
	os.Setenv("VERIF_AGENT_SCRIPT", scriptFile)
	subprocess.ResetEnvironment() // git-lfs starts its children with a cached copy of the environment
	var mlines, mimpl, mcase []string
	for i := 0; i < n; i++ {
		content := r.Bytes(Pick(r, []int{1, 3, 64, 300, 1024, 4800, 70000}))
		oid := sha(content)
		final, _ := fsys.ObjectPath(oid)
		os.Remove(final)
		var pre []byte
		hasPre := false
		switch r.Intn(8) {
		case 0:
			pre, hasPre = content, true
		case 1:
			pre, hasPre = r.Bytes(len(content)), true
		}
		if hasPre {
			os.MkdirAll(filepath.Dir(final), 0o755)
			os.WriteFile(final, pre, 0o644)
		}
		// the agent's script and the model's view of it
		var toks, mtoks []string
		for k := 0; k < r.Intn(3); k++ {
			ok := "1"
			if r.Chance(10) {
				ok = "0"
			}
			toks = append(toks, "p/"+ok)
			mtoks = append(mtoks, "p/"+ok)
		}
		switch r.Intn(12) {
		case 0:
			toks, mtoks = append(toks, "u"), append(mtoks, "u")
		case 1:
			toks, mtoks = append(toks, "e"), append(mtoks, "u")
		case 2:
			toks, mtoks = append(toks, "o"), append(mtoks, "o")
		default:
			v := Pick(r, altVariants(r, content))
			ok, er := "1", "0"
			if r.Chance(7) {
				ok = "0"
			}
			if r.Chance(7) {
				er = "1"
			}
			path, mfile := "none", "none"
			if v.data != nil {
				path = filepath.Join(scratch, fmt.Sprintf("f%d", i))
				os.WriteFile(path, v.data, 0o644)
				mfile = hx(v.data)
			}
			toks = append(toks, fmt.Sprintf("c/%s/%s/%s", ok, er, path))
			mtoks = append(mtoks, fmt.Sprintf("c/%s/%s/%s", ok, er, mfile))
			c.R.Count("custom.file." + v.kind)
		}
		os.WriteFile(scriptFile, []byte(strings.Join(toks, ",")+"\n"), 0o644)
		enc := fmt.Sprintf("C02 custom %s %s %s", oid, optHex(pre, hasPre), strings.Join(mtoks, ","))
		c.R.Eval(clip(enc, 4000), true)
		if os.Getenv("VERIF_DEBUG") != "" {
			fmt.Fprintln(os.Stderr, "custom attempt", i, strings.Join(toks, ","))
		}
		ad := manifest.NewDownloadAdapter("verifagent")
		if ad.Name() != "verifagent" {
			c.R.Add(Finding{Kind: "diff", What: "the custom adapter was not configured: got " + ad.Name(), Broken: "corr.C02.custom"})
			return
		}
		if err := ad.Begin(dlAdapterCfg{client}, nil); err != nil {
			c.R.Add(Finding{Kind: "diff", What: "custom adapter Begin: " + err.Error(), Broken: "corr.C02.custom"})
			return
		}
		t := &tq.Transfer{Name: "f", Oid: oid, Size: int64(len(content)), Path: final, Authenticated: true,
			Actions: tq.ActionSet{"download": &tq.Action{Href: "http://127.0.0.1:9/" + oid}}}
		var res tq.TransferResult
		got := false
		select {
		case res = <-ad.Add(t):
			got = true
		case <-time.After(20 * time.Second):
			c.R.Add(Finding{Kind: "oracle", What: "custom-adapter download did not return within the deadline", Case: clip(enc, 2000)})
		}
		endAdapter(ad)
		if !got {
			continue
		}
		post, has := readOpt(final)
		outcome := "ok"
		if res.Error != nil {
			outcome = "fail"
		}
		c.R.Count("custom.attempt." + outcome)
		if res.Error == nil {
			if !has || sha(post) != oid {
				c.R.Add(Finding{Kind: "oracle", What: "download through a custom transfer agent reported success but the object file does not hash to the requested oid", Case: clip(enc, 3000),
					Impl: fmt.Sprintf("stored %d bytes sha %s", len(post), shaOpt(post, has))})
			}
		} else if has != hasPre || !bytes.Equal(post, pre) {
			c.R.Add(Finding{Kind: "oracle", What: "download through a custom transfer agent reported failure but the object's final location changed", Case: clip(enc, 3000)})
		}
		mlines = append(mlines, enc)
		mimpl = append(mimpl, fmt.Sprintf("%s final=%s", outcome, shaOpt(post, has)))
		mcase = append(mcase, clip(enc, 3000))
	}
	os.Unsetenv("VERIF_AGENT_SCRIPT")
	subprocess.ResetEnvironment()
	model, err := c.Or.Ask(mlines)
	if err != nil {
		c.R.Add(Finding{Kind: "diff", What: "oracle process failed: " + err.Error(), Broken: "corr.C02.custom"})
		return
	}
	for i := range mlines {
		if model[i] != mimpl[i] {
			c.R.Add(Finding{Kind: "diff", What: "custom-adapter download: model and implementation disagree", Case: mcase[i], Impl: mimpl[i], Model: model[i], Broken: "corr.C02.custom"})
		}
	}
}

func c02SSH(c *Ctx, r *Rng) {
	n := c.N(120, 3000)
	self, err := os.Executable()
	if err != nil {
		return
	}
	repo := filepath.Join(c.Work, "dlrepo-ssh")
	if gitInit(repo) != nil {
		return
	}
	runIn(repo, nil, "git", "remote", "add", "origin", "ssh://git@verif.invalid/repo.git")
	runIn(repo, nil, "git", "config", "lfs.ssh.automultiplex", "false")
	oldwd, _ := os.Getwd()
	os.Chdir(repo)
	defer os.Chdir(oldwd)
	scratch := filepath.Join(c.Work, "ssh-files")
	os.MkdirAll(scratch, 0o755)
	scriptFile := filepath.Join(c.Work, "ssh-script")
	os.Setenv("VERIF_SSH_SCRIPT", scriptFile)
	os.Setenv("GIT_SSH_COMMAND", self+" ssh-server")
	subprocess.ResetEnvironment()
	defer func() {
		os.Unsetenv("GIT_SSH_COMMAND")
		os.Unsetenv("VERIF_SSH_SCRIPT")
		subprocess.ResetEnvironment()
	}()
	var mlines, mimpl, mcase []string
	for i := 0; i < n; i++ {
		content := r.Bytes(Pick(r, []int{1, 3, 64, 300, 1024, 4800, 70000}))
		oid := sha(content)
		var data []byte
		kind := "none"
		v := Pick(r, altVariants(r, content))
		if v.data != nil {
			data, kind = v.data, v.kind
		}
		conn, status, rerr := "0", "200", "0"
		if r.Chance(6) {
			conn = "1"
		}
		if r.Chance(12) {
			status = Pick(r, []string{"404", "500", "403", "199", "300", "299", "201"})
		}
		if r.Chance(12) {
			rerr = Pick(r, []string{"1", "2"})
		}
		sizes := fmt.Sprint(len(content))
		if r.Chance(25) {
			sizes = Pick(r, []string{"-", "bad", "-1", "0", fmt.Sprintf("%d,%d", len(content), len(content)), "7", "bad,5", fmt.Sprint(len(content) + 3)})
		}
		dataFile := "-"
		if len(data) > 0 {
			dataFile = filepath.Join(scratch, fmt.Sprintf("d%d", i))
			os.WriteFile(dataFile, data, 0o644)
		}
		os.WriteFile(scriptFile, []byte(strings.Join([]string{conn, status, sizes, dataFile, rerr}, " ")+"\n"), 0o644)
		cfg := config.NewIn(repo, "")
		client, err := lfsapi.NewClient(cfg)
		if err != nil {
			c.R.Add(Finding{Kind: "diff", What: err.Error(), Broken: "corr.C02.ssh"})
			return
		}
		manifest := tq.NewManifest(cfg.Filesystem(), client, "download", "origin")
		fsys := cfg.Filesystem()
		final, _ := fsys.ObjectPath(oid)
		os.Remove(final)
		var pre []byte
		hasPre := false
		if r.Chance(15) {
			pre, hasPre = r.Bytes(len(content)), true
			os.MkdirAll(filepath.Dir(final), 0o755)
			os.WriteFile(final, pre, 0o644)
		}
		enc := fmt.Sprintf("C02 ssh %s %s %s %s %s %s %s", oid, optHex(pre, hasPre), conn, status, sizes, hexOrDash(string(data)), rerr)
		c.R.Eval(clip(enc, 4000), true)
		ad := manifest.NewDownloadAdapter("ssh")
		if ad.Name() != "ssh" {
			if i == 0 {
				c.R.Add(Finding{Kind: "diff", What: "the pure SSH adapter is not available in process (connection to the scripted server failed): got " + ad.Name(), Broken: "corr.C02.ssh"})
			}
			return
		}
		if err := ad.Begin(dlAdapterCfg{client}, nil); err != nil {
			c.R.Add(Finding{Kind: "diff", What: "ssh adapter Begin: " + err.Error(), Broken: "corr.C02.ssh"})
			return
		}
		t := &tq.Transfer{Name: "f", Oid: oid, Size: int64(len(content)), Path: final, Authenticated: true,
			Actions: tq.ActionSet{"download": &tq.Action{Id: "id"}}}
		var res tq.TransferResult
		got := false
		select {
		case res = <-ad.Add(t):
			got = true
		case <-time.After(20 * time.Second):
			c.R.Add(Finding{Kind: "oracle", What: "ssh download did not return within the deadline", Case: clip(enc, 2000)})
		}
		endAdapter(ad)
		if !got {
			continue
		}
		post, has := readOpt(final)
		outcome := "ok"
		if res.Error != nil {
			outcome = "fail"
			if strings.Contains(res.Error.Error(), "got status") {
				outcome = "fail-retriable"
			}
		}
		c.R.Count("ssh.attempt." + outcome)
		c.R.Count("ssh.data." + kind)
		if res.Error == nil {
			if !has || sha(post) != oid {
				c.R.Add(Finding{Kind: "oracle", What: "download over the pure SSH protocol reported success but the object file does not hash to the requested oid", Case: clip(enc, 3000),
					Impl: fmt.Sprintf("stored %d bytes sha %s", len(post), shaOpt(post, has))})
			}
		} else if has != hasPre || !bytes.Equal(post, pre) {
			c.R.Add(Finding{Kind: "oracle", What: "download over the pure SSH protocol reported failure but the object's final location changed", Case: clip(enc, 3000)})
		}
		mlines = append(mlines, enc)
		mimpl = append(mimpl, fmt.Sprintf("%s final=%s", outcome, shaOpt(post, has)))
		mcase = append(mcase, clip(enc, 3000))
	}
	model, err := c.Or.Ask(mlines)
	if err != nil {
		c.R.Add(Finding{Kind: "diff", What: "oracle process failed: " + err.Error(), Broken: "corr.C02.ssh"})
		return
	}
	for i := range mlines {
		if model[i] != mimpl[i] {
			c.R.Add(Finding{Kind: "diff", What: "ssh download: model and implementation disagree", Case: mcase[i], Impl: mimpl[i], Model: model[i], Broken: "corr.C02.ssh"})
		}
	}
}

// c02Concurrent: several real git-lfs processes fetch the same objects at once.
func c02Concurrent(c *Ctx, r *Rng) {
	n := c.N(20, 250)
	for i := 0; i < n; i++ {
		c02ConcurrentOne(c, r.Fork(), i)
	}
}

func c02ConcurrentOne(c *Ctx, r *Rng, idx int) {
	base := filepath.Join(c.Work, fmt.Sprintf("c02c-%d", idx))
	defer os.RemoveAll(base)
	os.MkdirAll(base, 0o755)
	srv := newLfsServer()
	defer srv.srv.Close()
	w, err := newScenRepo(c, filepath.Join(base, "w"), srv)
	if err != nil {
		return
	}
	w.git("config", "lfs.transfer.maxretries", fmt.Sprint(Pick(r, []int{1, 3, 8})))
	w.write(".gitattributes", []byte("*.bin filter=lfs -text\n"))
	nobj := 1 + r.Intn(2)
	oids := map[string][]byte{}
	for k := 0; k < nobj; k++ {
		b := r.Bytes(Pick(r, []int{3000, 40000, 200000}))
		w.write(fmt.Sprintf("f%d.bin", k), b)
		oids[sha(b)] = b
	}
	w.git("add", "-A")
	w.git("commit", "-qm", "c")
	// objects only on the server
	for oid, b := range oids {
		srv.mu.Lock()
		srv.objs[oid] = b
		srv.mu.Unlock()
		os.Remove(w.objectPath(oid))
	}
	var gets int64
	cutFirst := int64(r.Intn(4)) // that many storage GETs are cut half way
	stall := time.Duration(Pick(r, []int{0, 1, 3})) * time.Millisecond
	// staged: the first storage GET delivers half of the object and then waits until another GET (of a
	// process started meanwhile) has come and gone; that other answer may ignore the Range header and be cut
	// after a few bytes — whatever the later process does to files it found must not reach the earlier one's
	staged := nobj == 1 && r.Chance(75)
	rangeMode := Pick(r, []string{"honour", "honour", "ignore"})
	cutEarlyOthers := staged && r.Chance(60)
	firstHalf := make(chan struct{})
	otherDone := make(chan struct{})
	var onceHalf, onceOther sync.Once
	srv.slowGet = func(rw http.ResponseWriter, rq *http.Request, b []byte) {
		k := atomic.AddInt64(&gets, 1)
		if k > 1 {
			defer onceOther.Do(func() { close(otherDone) })
		}
		from := 0
		if rg := rq.Header.Get("Range"); strings.HasPrefix(rg, "bytes=") {
			fmt.Sscanf(rg, "bytes=%d-", &from)
		}
		if from > len(b) || rangeMode == "ignore" {
			from = 0
		}
		body := b[from:]
		if from > 0 {
			rw.Header().Set("Content-Range", fmt.Sprintf("bytes %d-%d/%d", from, len(b)-1, len(b)))
		}
		rw.Header().Set("Content-Length", strconv.Itoa(len(body)))
		if from > 0 {
			rw.WriteHeader(206)
		} else {
			rw.WriteHeader(200)
		}
		fl, _ := rw.(http.Flusher)
		step := len(body)/8 + 1
		for off := 0; off < len(body); off += step {
			end := off + step
			if end > len(body) {
				end = len(body)
			}
			if staged && k == 1 && off >= len(body)/2 {
				onceHalf.Do(func() { close(firstHalf) })
				select {
				case <-otherDone:
				case <-time.After(1500 * time.Millisecond):
				}
			}
			if (k <= cutFirst && off >= len(body)/2 && !(staged && k == 1)) || (cutEarlyOthers && k == 2 && off > 0) {
				if hj, ok := rw.(http.Hijacker); ok {
					conn, _, _ := hj.Hijack()
					if tc, ok := conn.(*net.TCPConn); ok {
						tc.SetLinger(0)
					}
					conn.Close()
					return
				}
			}
			rw.Write(body[off:end])
			if fl != nil {
				fl.Flush()
			}
			time.Sleep(stall)
		}
	}
	// the watcher: whenever an object file exists it must be complete and valid
	stop := make(chan struct{})
	var bad []string
	var bmu sync.Mutex
	var wgw sync.WaitGroup
	wgw.Add(1)
	go func() {
		defer wgw.Done()
		for {
			select {
			case <-stop:
				return
			default:
			}
			for oid := range oids {
				if b, err := os.ReadFile(w.objectPath(oid)); err == nil && sha(b) != oid {
					bmu.Lock()
					bad = append(bad, fmt.Sprintf("%s: %d bytes at the final path do not hash to it", oid[:12], len(b)))
					bmu.Unlock()
				}
			}
			time.Sleep(300 * time.Microsecond)
		}
	}()
	nproc := 2 + r.Intn(2)
	cmds := make([][]string, nproc)
	for p := range cmds {
		cmds[p] = Pick(r, [][]string{{"fetch"}, {"fetch", "--refetch"}, {"pull"}, {"fetch", "--all"}})
	}
	codes := make([]int, nproc)
	outs := make([]string, nproc)
	delays := make([]int, nproc)
	for p := range delays {
		delays[p] = r.Intn(3) // drawn here: the processes' goroutines must not share the generator
	}
	var wg sync.WaitGroup
	for p := 0; p < nproc; p++ {
		wg.Add(1)
		go func(p int) {
			defer wg.Done()
			time.Sleep(time.Duration(delays[p]) * time.Millisecond)
			if staged && p > 0 {
				select {
				case <-firstHalf:
				case <-time.After(2 * time.Second):
				}
			}
			cmd := exec.Command(w.lfs, cmds[p]...)
			cmd.Dir = w.dir
			cmd.Env = append(os.Environ(), w.env...)
			var ob bytes.Buffer
			cmd.Stdout, cmd.Stderr = &ob, &ob
			done := make(chan error, 1)
			if err := cmd.Start(); err != nil {
				codes[p] = -1
				return
			}
			go func() { done <- cmd.Wait() }()
			select {
			case err := <-done:
				if err != nil {
					codes[p] = 1
				}
			case <-time.After(60 * time.Second):
				cmd.Process.Kill()
				codes[p] = -2
			}
			outs[p] = ob.String()
		}(p)
	}
	wg.Wait()
	close(stop)
	wgw.Wait()
	var cl []string
	for p := range cmds {
		cl = append(cl, fmt.Sprintf("%s->%d", strings.Join(cmds[p], " "), codes[p]))
	}
	enc := fmt.Sprintf("C02 concurrent seed=%d idx=%d objects=%d cut-first=%d stall=%v staged=%v range=%s cut-early-others=%v procs=[%s]", c.Seed, idx, nobj, cutFirst, stall, staged, rangeMode, cutEarlyOthers, strings.Join(cl, "; "))
	if staged {
		c.R.Count("concurrent.staged." + rangeMode)
	}
	c.R.Eval(enc, true)
	c.R.Count(fmt.Sprintf("concurrent.procs.%d", nproc))
	if len(bad) > 0 {
		c.R.Add(Finding{Kind: "oracle", What: "while several git-lfs processes were fetching the same object, an invalid file was visible at the object's final location", Case: enc, Impl: clip(strings.Join(bad, "; "), 400)})
	}
	for p := range cmds {
		if codes[p] == -2 {
			c.R.Add(Finding{Kind: "oracle", What: "a git-lfs process fetching concurrently with another did not finish within the deadline", Case: enc, Impl: clip(outs[p], 300)})
		}
		if codes[p] == 0 {
			c.R.Count("concurrent.exit0")
			for oid := range oids {
				b, err := os.ReadFile(w.objectPath(oid))
				if err != nil || sha(b) != oid {
					c.R.Add(Finding{Kind: "oracle", What: "a git-lfs process that fetched concurrently with another exited 0 but an object it was to download is missing or invalid", Case: enc,
						Impl: fmt.Sprintf("%s: %v", oid[:12], err)})
				}
			}
		} else {
			c.R.Count("concurrent.exit-nonzero")
		}
	}
	c.R.Count(fmt.Sprintf("concurrent.gets.%d", minInt(int(atomic.LoadInt64(&gets)), 9)))
}

func minInt(a, b int) int {
	if a < b {
		return a
	}
	return b
}
