// Scenario engine: real repositories driven with the real git and the git-lfs binary built from
// /repo, a fake LFS server (batch, storage, verify, locks) with full request capture, and read-back
// of repositories through plumbing only.
package main

import (
	"bytes"
	"encoding/json"
	"fmt"
	"io"
	"net/http"
	"net/http/httptest"
	"os"
	"os/exec"
	"path/filepath"
	"sort"
	"strings"
	"sync"
	"time"
)

type capturedReq struct {
	Method string            `json:"method"`
	Path   string            `json:"path"`
	Query  string            `json:"query,omitempty"`
	Header map[string]string `json:"header"`
	Body   string            `json:"body,omitempty"`
	Kind   string            `json:"kind"` // batch | storage-get | storage-put | verify | lock-create | lock-list | lock-verify | lock-delete
}

type lfsLock struct {
	ID    string `json:"id"`
	Path  string `json:"path"`
	Owner string `json:"owner"`
}

type lfsServer struct {
	mu               sync.Mutex
	objs             map[string][]byte
	reqs             []capturedReq
	srv              *httptest.Server
	putFail          map[string]int  // oid -> status for PUT (e.g. 422, 500)
	putLose          map[string]bool // oid -> the PUT is acknowledged with 200 but the data is not stored (a faulty object store)
	noVerify         bool
	locks            []lfsLock
	nextLock         int
	user             string // who the requests are from (set by the harness before each command)
	lockMode         string // ok | 404 | 501 | 500 | 403
	unlockMode       string // "" / ok, or the status with which the NEXT unlock request is refused (one shot; the lock stays)
	lastUploadAction map[string]string
	pageSize         int    // > 0: lock lists and lock verification are paginated (next_cursor = offset of the next page)
	hashAlgo         string // != "": `hash_algo` of every batch response (from the hashAlgoFrom-th one on)
	hashAlgoFrom     int    // the first hashAlgoFrom batch responses do not carry it
	batchAnswers     int
	taintedAt        map[string]int                              // oid -> index into reqs at which a batch response naming hashAlgo offered it
	mutate           func(kind string, v map[string]interface{}) // corrupt a response just before it is sent (C18)
	cursorsHanded    map[string]bool
	pickAdvertised   bool                                                   // answer with the first transfer adapter the client advertises that is not a built-in one
	slowGet          func(w http.ResponseWriter, r *http.Request, b []byte) // serves a storage GET outside the server lock (C02 concurrency)
	hdrStyle         int                                                    // how the server spells the header NAMES of the actions it offers: 0 canonical, 1 lower, 2 upper, 3 mixed
	offerExtra       bool                                                   // offered actions also carry Authorization (and, for uploads, Content-Type)
	lapseUploads     bool                                                   // the FIRST upload action offered for an object has already expired (a cached pre-signed URL): the client has to ask again
	lapsedOnce       map[string]bool
	transferPlan     []string // C18: `transfer` of the i-th answer to an UPLOAD batch ("tus" only when the client advertised it; "" = member left out = basic; the last entry repeats)
	uploadAnswers    int
	answerLog        []string          // `transfer` of the answers to upload batches since the harness last cleared it ("-" = member left out)
	offeredHist      map[string]string // oid -> answerLog, comma-joined, up to and including the answer that offered its upload action
	availTus         bool
	noAction         map[string]bool // oid -> download batch entries for it carry neither actions nor an error
	movedTo          string          // "" or a path prefix: POST and PUT requests outside it are answered 307 to the same path below it
	redirected       int
	failOnce         map[string]int    // oid -> status with which the storage refuses the FIRST request for the object (401/403: the offered token is not valid yet, or no longer)
	offeredAs        map[string]string // oid -> the transfer the latest batch response offering its upload action named
}

// actHeader is the header set of an offered action. HTTP header names are case-insensitive, so the
// spelling the server happens to use must not change what reaches the storage endpoint.
func (s *lfsServer) actHeader(kind, oid string) map[string]string {
	sp := func(n string) string {
		switch s.hdrStyle {
		case 1:
			return strings.ToLower(n)
		case 2:
			return strings.ToUpper(n)
		case 3:
			return strings.ToLower(n[:1]) + n[1:len(n)-1] + strings.ToUpper(n[len(n)-1:])
		}
		return n
	}
	h := map[string]string{sp("X-Verif-Action"): kind + "-" + oid[:8]}
	if s.offerExtra {
		h[sp("Authorization")] = "Token verif-" + kind + "-" + oid[:6]
		if kind == "upload" {
			h[sp("Content-Type")] = "application/x-verif-" + oid[:4]
		}
	}
	return h
}

func newLfsServer() *lfsServer {
	s := &lfsServer{objs: map[string][]byte{}, putFail: map[string]int{}, putLose: map[string]bool{}, user: "alice", lockMode: "ok", lastUploadAction: map[string]string{}}
	s.srv = httptest.NewServer(http.HandlerFunc(s.handle))
	return s
}

func (s *lfsServer) capture(r *http.Request, body []byte, kind string) {
	h := map[string]string{}
	for _, k := range []string{"Accept", "Content-Type", "Authorization", "Content-Length", "Transfer-Encoding"} {
		if v := r.Header.Values(k); len(v) > 0 {
			h[k] = strings.Join(v, " || ") // a header sent twice shows as "a || b"
		}
	}
	for k, v := range r.Header {
		if strings.HasPrefix(k, "X-Verif-") {
			h[k] = strings.Join(v, " || ")
		}
	}
	h["~escaped-path"] = r.URL.EscapedPath()
	b := string(body)
	if kind == "storage-put" {
		b = fmt.Sprintf("<%d bytes sha256:%s>", len(body), sha(body))
	}
	s.reqs = append(s.reqs, capturedReq{Method: r.Method, Path: r.URL.Path, Query: r.URL.RawQuery, Header: h, Body: b, Kind: kind})
}

func (s *lfsServer) noteHist(oid string) {
	if h, ok := s.offeredHist[oid]; ok && h != "" {
		rq := &s.reqs[len(s.reqs)-1]
		rq.Header["~answers"] = h
		rq.Header["~avail"] = "basic"
		if s.availTus {
			rq.Header["~avail"] = "basic,tus"
		}
	}
}

func (s *lfsServer) handle(w http.ResponseWriter, r *http.Request) {
	body, _ := io.ReadAll(r.Body)
	s.mu.Lock()
	defer s.mu.Unlock()
	// a front end that hands every POST and PUT over to another location (a renamed repository, a storage bucket):
	// the request that arrives THERE is the one that is judged — method, body and headers as the API prescribes
	if s.movedTo != "" {
		if !strings.HasPrefix(r.URL.Path, s.movedTo) {
			if r.Method == "POST" || r.Method == "PUT" {
				loc := s.movedTo + r.URL.Path
				if r.URL.RawQuery != "" {
					loc += "?" + r.URL.RawQuery
				}
				w.Header().Set("Location", loc)
				w.WriteHeader(307)
				s.redirected++
				return
			}
		} else {
			r.URL.Path = strings.TrimPrefix(r.URL.Path, s.movedTo)
			if r.URL.RawPath != "" {
				r.URL.RawPath = strings.TrimPrefix(r.URL.RawPath, s.movedTo)
			}
		}
	}
	p := r.URL.Path
	kindOf := ""
	jsonOut := func(code int, v interface{}) {
		w.Header().Set("Content-Type", "application/vnd.git-lfs+json")
		w.WriteHeader(code)
		taint := false
		if s.hashAlgo != "" && kindOf == "batch" {
			taint = s.batchAnswers >= s.hashAlgoFrom
			s.batchAnswers++
		}
		if s.mutate != nil || taint {
			b, _ := json.Marshal(v)
			var m map[string]interface{}
			if json.Unmarshal(b, &m) == nil {
				if taint {
					m["hash_algo"] = s.hashAlgo
					if s.taintedAt == nil {
						s.taintedAt = map[string]int{}
					}
					if objs, ok := m["objects"].([]interface{}); ok {
						for _, o := range objs {
							if om, ok := o.(map[string]interface{}); ok {
								if oid, ok := om["oid"].(string); ok {
									if _, seen := s.taintedAt[oid]; !seen {
										s.taintedAt[oid] = len(s.reqs)
									}
								}
							}
						}
					}
				}
				if s.mutate != nil {
					s.mutate(kindOf, m)
				}
				json.NewEncoder(w).Encode(m)
				return
			}
		}
		json.NewEncoder(w).Encode(v)
	}
	// page: the slice [cursor, cursor+limit) and the next cursor ("" at the end)
	page := func(n int, cursor string, limit int) (lo, hi int, next string) {
		fmt.Sscan(cursor, &lo)
		if lo > n {
			lo = n
		}
		sz := s.pageSize
		if limit > 0 && (sz == 0 || limit < sz) {
			sz = limit
		}
		hi = n
		if sz > 0 && lo+sz < n {
			hi = lo + sz
			next = fmt.Sprint(hi)
			if s.cursorsHanded == nil {
				s.cursorsHanded = map[string]bool{}
			}
			s.cursorsHanded[next] = true
		}
		return
	}
	switch {
	case strings.HasSuffix(p, "/objects/batch"):
		s.capture(r, body, "batch")
		kindOf = "batch"
		var req struct {
			Operation string   `json:"operation"`
			Transfers []string `json:"transfers"`
			Objects   []struct {
				Oid  string `json:"oid"`
				Size int64  `json:"size"`
			} `json:"objects"`
		}
		json.Unmarshal(body, &req)
		type act struct {
			Href      string            `json:"href"`
			Header    map[string]string `json:"header,omitempty"`
			ExpiresAt string            `json:"expires_at,omitempty"`
			ExpiresIn int               `json:"expires_in,omitempty"`
		}
		type oerr struct {
			Code    int    `json:"code"`
			Message string `json:"message"`
		}
		type obj struct {
			Oid     string         `json:"oid"`
			Size    int64          `json:"size"`
			Actions map[string]act `json:"actions,omitempty"`
			Error   *oerr          `json:"error,omitempty"`
		}
		out := struct {
			Transfer string `json:"transfer,omitempty"`
			Objects  []obj  `json:"objects"`
		}{Transfer: "basic", Objects: []obj{}}
		if len(s.transferPlan) > 0 && req.Operation == "upload" {
			i := s.uploadAnswers
			if i >= len(s.transferPlan) {
				i = len(s.transferPlan) - 1
			}
			s.uploadAnswers++
			out.Transfer = s.transferPlan[i]
			adv := false
			for _, t := range req.Transfers {
				if t == "tus" {
					adv = true
				}
			}
			s.availTus = adv
			if out.Transfer == "tus" && !adv {
				out.Transfer = "basic"
			}
			if out.Transfer == "" {
				s.answerLog = append(s.answerLog, "-")
			} else {
				s.answerLog = append(s.answerLog, out.Transfer)
			}
		}
		if s.pickAdvertised {
			for _, t := range req.Transfers {
				if t != "basic" && t != "ssh" && t != "tus" && t != "lfs-standalone-file" {
					out.Transfer = t
					break
				}
			}
		}
		for _, o := range req.Objects {
			ob := obj{Oid: o.Oid, Size: o.Size}
			_, have := s.objs[o.Oid]
			if req.Operation == "upload" {
				if !have {
					hdr := s.actHeader("upload", o.Oid)
					up := act{Href: s.srv.URL + "/storage/" + o.Oid, Header: hdr}
					if s.lapseUploads && !s.lapsedOnce[o.Oid] {
						if s.lapsedOnce == nil {
							s.lapsedOnce = map[string]bool{}
						}
						s.lapsedOnce[o.Oid] = true
						if len(o.Oid) > 0 && o.Oid[0]%2 == 0 {
							up.ExpiresAt = time.Now().Add(-time.Minute).UTC().Format(time.RFC3339)
						} else {
							up.ExpiresIn = 2 // inside the client's 5 s safety margin
						}
					}
					ob.Actions = map[string]act{"upload": up}
					if !s.noVerify {
						ob.Actions["verify"] = act{Href: s.srv.URL + "/verify", Header: s.actHeader("verify", o.Oid)}
					}
					s.lastUploadAction[o.Oid] = "upload-" + o.Oid[:8]
					if s.offeredAs == nil {
						s.offeredAs = map[string]string{}
					}
					s.offeredAs[o.Oid] = out.Transfer
					if len(s.transferPlan) > 0 {
						if s.offeredHist == nil {
							s.offeredHist = map[string]string{}
						}
						s.offeredHist[o.Oid] = strings.Join(s.answerLog, ",")
					}
				}
			} else {
				if have && s.noAction[o.Oid] {
					// a server that answers a download with neither an action nor an error
				} else if have {
					ob.Actions = map[string]act{"download": {Href: s.srv.URL + "/storage/" + o.Oid, Header: s.actHeader("download", o.Oid)}}
				} else {
					ob.Error = &oerr{404, "object not found"}
				}
			}
			out.Objects = append(out.Objects, ob)
		}
		jsonOut(200, out)
	case strings.HasPrefix(p, "/storage/"):
		oid := strings.TrimPrefix(p, "/storage/")
		if (r.Method == "HEAD" || r.Method == "PATCH") && len(s.transferPlan) > 0 {
			// the tus.io core protocol as tq/tus_upload.go speaks it: HEAD -> Upload-Offset, PATCH -> the bytes
			s.capture(r, body, "storage-tus")
			s.reqs[len(s.reqs)-1].Header["~offered-as"] = s.offeredAs[oid]
			s.reqs[len(s.reqs)-1].Header["~tus-resumable"] = r.Header.Get("Tus-Resumable")
			s.noteHist(oid)
			if s.offeredAs[oid] != "tus" {
				w.WriteHeader(405) // a basic store knows neither method
				return
			}
			w.Header().Set("Tus-Resumable", "1.0.0")
			if r.Method == "HEAD" {
				w.Header().Set("Upload-Offset", "0")
				w.WriteHeader(200)
				return
			}
			if len(oid) == 64 && sha(body) != oid {
				w.WriteHeader(422)
				return
			}
			s.objs[oid] = body
			w.Header().Set("Upload-Offset", fmt.Sprint(len(body)))
			w.WriteHeader(204)
			return
		}
		if r.Method == "PUT" {
			s.capture(r, body, "storage-put")
			s.reqs[len(s.reqs)-1].Header["~offered-as"] = s.offeredAs[oid]
			s.noteHist(oid)
			if st, ok := s.failOnce[oid]; ok {
				delete(s.failOnce, oid)
				if st == 401 {
					w.Header().Set("WWW-Authenticate", "Basic realm=\"storage\"")
				}
				w.WriteHeader(st)
				return
			}
			if st, ok := s.putFail[oid]; ok {
				w.WriteHeader(st)
				return
			}
			if len(oid) == 64 && sha(body) != oid {
				// like a real LFS server: content that does not hash to the id it is stored under is refused
				w.WriteHeader(422)
				return
			}
			if s.putLose[oid] {
				w.WriteHeader(200) // acknowledged, lost: only the verify call-back can tell
				return
			}
			s.objs[oid] = body
			w.WriteHeader(200)
			return
		}
		s.capture(r, nil, "storage-get")
		if st, ok := s.failOnce[oid]; ok {
			delete(s.failOnce, oid)
			if st == 401 {
				w.Header().Set("WWW-Authenticate", "Basic realm=\"storage\"")
			}
			w.WriteHeader(st)
			return
		}
		if b, ok := s.objs[oid]; ok && s.slowGet != nil {
			hook := s.slowGet
			s.mu.Unlock()
			hook(w, r, b)
			s.mu.Lock()
			return
		}
		if b, ok := s.objs[oid]; ok {
			w.Write(b)
		} else {
			w.WriteHeader(404)
		}
	case p == "/verify":
		s.capture(r, body, "verify")
		var v struct {
			Oid  string `json:"oid"`
			Size int64  `json:"size"`
		}
		json.Unmarshal(body, &v)
		if b, ok := s.objs[v.Oid]; ok && int64(len(b)) == v.Size {
			w.WriteHeader(200)
		} else {
			w.WriteHeader(404)
		}
	case strings.HasSuffix(p, "/locks/verify"):
		s.capture(r, body, "lock-verify")
		if s.lockMode != "ok" {
			w.WriteHeader(map[string]int{"404": 404, "501": 501, "500": 500, "403": 403}[s.lockMode])
			return
		}
		type lk struct {
			ID       string            `json:"id"`
			Path     string            `json:"path"`
			LockedAt string            `json:"locked_at"`
			Owner    map[string]string `json:"owner"`
		}
		kindOf = "lock-verify"
		var vreq struct {
			Cursor string `json:"cursor"`
			Limit  int    `json:"limit"`
		}
		json.Unmarshal(body, &vreq)
		out := struct {
			Ours   []lk   `json:"ours"`
			Theirs []lk   `json:"theirs"`
			Next   string `json:"next_cursor,omitempty"`
		}{Ours: []lk{}, Theirs: []lk{}}
		lo, hi, next := page(len(s.locks), vreq.Cursor, vreq.Limit)
		out.Next = next
		for _, l := range s.locks[lo:hi] {
			e := lk{l.ID, l.Path, "2020-01-01T00:00:00Z", map[string]string{"name": l.Owner}}
			if l.Owner == s.user {
				out.Ours = append(out.Ours, e)
			} else {
				out.Theirs = append(out.Theirs, e)
			}
		}
		jsonOut(200, out)
	case strings.HasSuffix(p, "/unlock"):
		s.capture(r, body, "lock-delete")
		kindOf = "lock-delete"
		id := strings.TrimSuffix(strings.TrimPrefix(p[strings.Index(p, "/locks/")+7:], ""), "/unlock")
		var req struct {
			Force bool `json:"force"`
		}
		json.Unmarshal(body, &req)
		if s.unlockMode != "" && s.unlockMode != "ok" {
			st := map[string]int{"404": 404, "501": 501, "500": 500, "403": 403}[s.unlockMode]
			s.unlockMode = ""
			w.WriteHeader(st) // refused: nothing is released
			return
		}
		for i, l := range s.locks {
			if l.ID == id {
				if l.Owner != s.user && !req.Force {
					jsonOut(403, map[string]string{"message": "lock owned by " + l.Owner})
					return
				}
				s.locks = append(s.locks[:i], s.locks[i+1:]...)
				jsonOut(200, map[string]interface{}{"lock": map[string]interface{}{"id": l.ID, "path": l.Path, "locked_at": "2020-01-01T00:00:00Z", "owner": map[string]string{"name": l.Owner}}})
				return
			}
		}
		jsonOut(404, map[string]string{"message": "no such lock"})
	case strings.HasSuffix(p, "/locks"):
		if r.Method == "POST" {
			s.capture(r, body, "lock-create")
			kindOf = "lock-create"
			if s.lockMode != "ok" {
				w.WriteHeader(map[string]int{"404": 404, "501": 501, "500": 500, "403": 403}[s.lockMode])
				return
			}
			var req struct {
				Path string `json:"path"`
			}
			json.Unmarshal(body, &req)
			for _, l := range s.locks {
				if l.Path == req.Path {
					jsonOut(409, map[string]interface{}{"message": "already created lock", "lock": map[string]interface{}{"id": l.ID, "path": l.Path, "locked_at": "2020-01-01T00:00:00Z", "owner": map[string]string{"name": l.Owner}}})
					return
				}
			}
			s.nextLock++
			l := lfsLock{ID: fmt.Sprintf("L%d", s.nextLock), Path: req.Path, Owner: s.user}
			s.locks = append(s.locks, l)
			jsonOut(201, map[string]interface{}{"lock": map[string]interface{}{"id": l.ID, "path": l.Path, "locked_at": "2020-01-01T00:00:00Z", "owner": map[string]string{"name": l.Owner}}})
			return
		}
		s.capture(r, nil, "lock-list")
		type lk struct {
			ID       string            `json:"id"`
			Path     string            `json:"path"`
			LockedAt string            `json:"locked_at"`
			Owner    map[string]string `json:"owner"`
		}
		kindOf = "lock-list"
		out := struct {
			Locks []lk   `json:"locks"`
			Next  string `json:"next_cursor,omitempty"`
		}{Locks: []lk{}}
		q := r.URL.Query()
		var sel []lfsLock
		for _, l := range s.locks {
			if (q.Get("path") == "" || q.Get("path") == l.Path) && (q.Get("id") == "" || q.Get("id") == l.ID) {
				sel = append(sel, l)
			}
		}
		lim := 0
		fmt.Sscan(q.Get("limit"), &lim)
		lo, hi, next := page(len(sel), q.Get("cursor"), lim)
		out.Next = next
		for _, l := range sel[lo:hi] {
			out.Locks = append(out.Locks, lk{l.ID, l.Path, "2020-01-01T00:00:00Z", map[string]string{"name": l.Owner}})
		}
		jsonOut(200, out)
	default:
		s.capture(r, body, "unknown")
		w.WriteHeader(404)
	}
}

// scenRepo: one working repository
type scenRepo struct {
	dir string
	env []string
	lfs string
}

func newScenRepo(c *Ctx, dir string, srv *lfsServer) (*scenRepo, error) {
	if err := gitInit(dir); err != nil {
		return nil, err
	}
	cfgFile := dir + ".gitconfig"
	os.WriteFile(cfgFile, []byte("[user]\n\tname = Verif Harness\n\temail = verif@example.invalid\n[protocol \"file\"]\n\tallow = always\n[advice]\n\tdetachedHead = false\n[init]\n\tdefaultBranch = master\n"), 0o644)
	r := &scenRepo{dir: dir, lfs: c.Lfs, env: []string{"GIT_CONFIG_GLOBAL=" + cfgFile, "PATH=" + filepath.Dir(c.Lfs) + ":" + os.Getenv("PATH"),
		"GIT_AUTHOR_DATE=2024-01-01T00:00:00Z", "GIT_COMMITTER_DATE=2024-01-01T00:00:00Z", "GIT_TERMINAL_PROMPT=0"}}
	if out, code := r.runLfs("install", "--local"); code != 0 {
		return nil, fmt.Errorf("git lfs install --local: %s", out)
	}
	if srv != nil {
		r.git("config", "lfs.url", srv.srv.URL)
	}
	r.git("config", "lfs.transfer.maxretries", "1")
	r.git("config", "lfs.transfer.maxretrydelay", "0")
	return r, nil
}

func (r *scenRepo) git(args ...string) (string, int)    { return runIn(r.dir, r.env, "git", args...) }
func (r *scenRepo) runLfs(args ...string) (string, int) { return runIn(r.dir, r.env, r.lfs, args...) }
func (r *scenRepo) gitEnv(extra []string, args ...string) (string, int) {
	return runIn(r.dir, append(append([]string(nil), r.env...), extra...), "git", args...)
}
func (r *scenRepo) must(args ...string) string {
	out, code := r.git(args...)
	if code != 0 {
		panic(fmt.Sprintf("git %v: %s", args, out))
	}
	return strings.TrimSpace(out)
}
func (r *scenRepo) write(path string, b []byte) {
	p := filepath.Join(r.dir, path)
	os.MkdirAll(filepath.Dir(p), 0o755)
	os.WriteFile(p, b, 0o644)
}
func (r *scenRepo) localObjects() map[string]int64 {
	out := map[string]int64{}
	gd := filepath.Join(r.dir, ".git")
	if fi, err := os.Stat(gd); err != nil || !fi.IsDir() {
		gd = r.dir // bare
	}
	filepath.Walk(filepath.Join(gd, "lfs", "objects"), func(p string, fi os.FileInfo, err error) error {
		if err == nil && !fi.IsDir() && len(filepath.Base(p)) == 64 {
			out[filepath.Base(p)] = fi.Size()
		}
		return nil
	})
	return out
}
func (r *scenRepo) objectPath(oid string) string {
	return filepath.Join(r.dir, ".git", "lfs", "objects", oid[0:2], oid[2:4], oid)
}

type treePointer struct {
	Path string
	Oid  string
	Size int64
	Blob string
}

// pointersAt reads the pointer blobs of a commit's tree through plumbing (ls-tree + cat-file).
func pointersAt(gitDir string, env []string, commit string) []treePointer {
	out, code := runIn(gitDir, env, "git", "ls-tree", "-r", "-l", "-z", commit)
	if code != 0 {
		return nil
	}
	var res []treePointer
	for _, ent := range strings.Split(out, "\x00") {
		tab := strings.SplitN(ent, "\t", 2)
		if len(tab) != 2 {
			continue
		}
		f := strings.Fields(tab[0])
		if len(f) < 4 || f[1] != "blob" {
			continue
		}
		var size int64
		fmt.Sscan(f[3], &size)
		if size >= cutSpec || size == 0 {
			continue
		}
		cmd := exec.Command("git", "cat-file", "blob", f[2])
		cmd.Dir = gitDir
		cmd.Env = append(os.Environ(), env...)
		b, err := cmd.Output()
		if err != nil {
			continue
		}
		if p, ok := isPointerText(b); ok && p.Size > 0 {
			res = append(res, treePointer{Path: tab[1], Oid: p.Oid, Size: p.Size, Blob: f[2]})
		}
	}
	return res
}

func revList(gitDir string, env []string, args ...string) []string {
	out, code := runIn(gitDir, env, "git", append([]string{"rev-list"}, args...)...)
	if code != 0 {
		return nil
	}
	var res []string
	for _, l := range strings.Split(strings.TrimSpace(out), "\n") {
		if l != "" {
			res = append(res, l)
		}
	}
	return res
}

func sortedKeys(m map[string]bool) []string {
	var k []string
	for x := range m {
		k = append(k, x)
	}
	sort.Strings(k)
	return k
}

var _ = bytes.Equal
