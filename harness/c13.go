// C13: fsck reports exactly the damaged objects and pointers and only moves those.
// Scenarios with the real binary: histories whose tracked paths are committed as canonical pointers,
// non-canonical pointers or raw content (plumbing commits), local objects damaged by deletion,
// truncation, extension, bit flip or replacement, revision arguments none / commit / A..B, the check
// flags, --dry-run and lfs.fetchexclude.  Expected reports are computed from plumbing and
// `git check-attr`; the set-level outcome is compared with the Lean model.
package main

import (
	"bytes"
	"fmt"
	"os"
	"path"
	"path/filepath"
	"sort"
	"strings"
	"sync"
)

type c13File struct {
	path    string
	kind    string // canonical | noncanon | raw
	oid     string // object named by the pointer ("" for raw)
	size    int64
	content []byte
	blob    []byte // what is committed
}

func c13Snapshot(dir string) map[string]string {
	out := map[string]string{}
	root := filepath.Join(dir, ".git", "lfs")
	filepath.Walk(root, func(p string, fi os.FileInfo, err error) error {
		if err != nil || fi.IsDir() {
			return nil
		}
		rel, _ := filepath.Rel(root, p)
		if strings.HasPrefix(rel, "tmp") || strings.HasPrefix(rel, "cache") || strings.HasPrefix(rel, "logs") {
			return nil
		}
		b, _ := os.ReadFile(p)
		out[rel] = sha(b)
		return nil
	})
	return out
}

func c13Scenario(c *Ctx, idx int, r *Rng, extra func(l, m, cs string)) (mline, mimpl, mcase string) {
	base := filepath.Join(c.Work, fmt.Sprintf("c13-%d", idx))
	defer os.RemoveAll(base)
	os.MkdirAll(base, 0o755)
	w, err := newScenRepo(c, filepath.Join(base, "w"), nil)
	if err != nil {
		c.R.Add(Finding{Kind: "diff", What: "scenario setup: " + err.Error(), Broken: "corr.C13.scenario"})
		return
	}
	var steps []string
	log := func(f string, a ...interface{}) { steps = append(steps, fmt.Sprintf(f, a...)) }
	exclude := Pick(r, []string{"", "", "", "dir", "*.dat", "/dir", "/dir"})
	if exclude != "" {
		w.git("config", "lfs.fetchexclude", exclude)
	}
	// how the attributes are spelt.  nested: a slash-less pattern in sub/.gitattributes and a file two levels
	// below it (D70, repaired).  lockline: a later line that gives a tracked file the `lockable` attribute only
	// (D71, repaired).  override: a file taken out of LFS by one line and put back by a later one — Git lets the
	// LAST matching line decide, fsck's include/exclude lists let the exclusion win (D21, known)
	attrVariant := Pick(r, []string{"plain", "plain", "plain", "plain", "plain", "nested", "nested", "lockline", "override", "override", "padded", "padded", "reenable", "reenable"})
	nested, override := attrVariant == "nested" || attrVariant == "reenable", false // D21 is repaired: `override` files are judged like all others
	rootAttrs := "*.bin filter=lfs diff=lfs merge=lfs -text\n*.dat filter=lfs -text\n"
	switch attrVariant {
	case "lockline":
		rootAttrs += "d.dat lockable\ndir/*.bin lockable\n"
	case "override":
		rootAttrs += "f.bin -filter\nf.bin filter=lfs -text\n"
	case "reenable":
		// the root file takes a directory out of LFS, the directory's own attributes file puts one pattern back: the
		// deeper file's lines come after the root's, whatever the directory is called
		rootAttrs += "sub/** -filter\n"
	case "padded":
		// an attributes file of more than 1024 bytes (a commented one): it is no candidate for a pointer, but it is
		// still the attributes file
		rootAttrs = strings.Repeat("# this repository keeps its large files in Git LFS; see docs/large-files.md\n", 16) + rootAttrs
	}
	c.R.Count("fsck.attrs." + attrVariant)
	w.write(".gitattributes", []byte(rootAttrs))
	if nested {
		w.write("sub/.gitattributes", []byte("*.raw filter=lfs -text\n"))
	}
	w.git("add", "-A")
	w.git("commit", "-qm", "attrs")
	// deep/dir/g.bin: a directory with the excluded directory's name further down — excluded by `dir`, not by `/dir`
	// plain/notes.txt: a path NO attribute line tracks — whatever is committed there (a sample pointer in the
	// documentation, a file left over from before LFS) is no business of the pointer check
	names := []string{"a.bin", "b.bin", "dir/c.bin", "d.dat", "dir/e.dat", "f.bin", "deep/dir/g.bin", "plain/notes.txt"}
	untrackedPath := func(p string) bool { return p == "plain/notes.txt" }
	if nested {
		names = append(names, "sub/deep/x.raw")
	}
	store := func(b []byte) string {
		oid := sha(b)
		p := w.objectPath(oid)
		os.MkdirAll(filepath.Dir(p), 0o755)
		os.WriteFile(p, b, 0o644)
		return oid
	}
	// commits built with plumbing: every tracked path gets exactly the blob the scenario chooses
	var commits []string
	history := map[string]map[string]*c13File{} // commit -> path -> file
	cur := map[string]*c13File{}
	ncommits := 1 + r.Intn(3)
	for g := 0; g < ncommits; g++ {
		for _, nme := range names {
			if g > 0 && r.Chance(55) {
				continue
			}
			content := r.Bytes(Pick(r, []int{1, 40, 900, 1024, 3000}))
			f := &c13File{path: nme, content: content}
			switch k := r.Intn(10); {
			case k < 6:
				f.kind = "canonical"
				f.oid, f.size = store(content), int64(len(content))
				f.blob = canonicalPointer(f.oid, f.size)
			case k < 8:
				f.kind = "noncanon"
				f.oid, f.size = store(content), int64(len(content))
				cp := canonicalPointer(f.oid, f.size)
				switch r.Intn(4) {
				case 0:
					f.blob = bytes.ReplaceAll(cp, []byte("\n"), []byte("\r\n"))
				case 1:
					f.blob = append(append([]byte(nil), cp...), '\n')
				case 2:
					f.blob = bytes.Replace(cp, []byte("https://git-lfs.github.com/spec/v1"), []byte("https://hawser.github.com/spec/v1"), 1)
				default:
					f.blob = append([]byte("\n"), cp...)
				}
			default:
				f.kind = "raw"
				f.blob = content
				if r.Chance(30) {
					f.blob = append(canonicalPointer(sha(content), 5), bytes.Repeat([]byte("x"), 1100)...) // look-alike, too long
				}
			}
			if len(cur) > 0 && r.Chance(15) && nme != "sub/deep/x.raw" {
				// the SAME blob at a second path (a copied file): one pointer blob, two names — one of them
				// may be excluded by lfs.fetchexclude while the other is not
				var ks []string
				for k := range cur {
					ks = append(ks, k)
				}
				sort.Strings(ks)
				src := cur[ks[r.Intn(len(ks))]]
				if src.path != "sub/deep/x.raw" {
					cp := *src
					cp.path = nme
					f = &cp
					c.R.Count("fsck.shared-blob")
				}
			}
			if nme == "sub/deep/x.raw" {
				f.kind, f.blob, f.oid = "raw", content, ""
			}
			if f.kind != "raw" && r.Chance(6) {
				// an empty LFS file: the empty pointer, no object needed
				f.kind, f.content, f.blob, f.oid, f.size = "canonical", nil, []byte{}, "", 0
			}
			tmp := filepath.Join(base, "blob.tmp")
			os.WriteFile(tmp, f.blob, 0o644)
			h, code := w.git("hash-object", "-w", "--no-filters", tmp)
			if code != 0 {
				continue
			}
			w.git("update-index", "--add", "--cacheinfo", "100644,"+strings.TrimSpace(h)+","+nme)
			cur[nme] = f
		}
		w.git("commit", "-qm", fmt.Sprintf("c%d", g), "--allow-empty")
		cm := w.must("rev-parse", "HEAD")
		commits = append(commits, cm)
		snap := map[string]*c13File{}
		for k, v := range cur {
			snap[k] = v
		}
		history[cm] = snap
	}
	// working tree = committed blobs (no smudging), index stat information fresh
	runIn(w.dir, append(append([]string(nil), w.env...), "GIT_LFS_SKIP_SMUDGE=1"), "git", "checkout-index", "-f", "-a")
	// a staged, uncommitted pointer (only the no-argument form looks at the index)
	var staged *c13File
	if r.Chance(40) {
		content := r.Bytes(200)
		spath := "staged.bin"
		if r.Chance(60) {
			spath = Pick(r, []string{"a.bin", "b.bin", "dir/c.bin", "f.bin"}) // a NEW VERSION of a path that HEAD already has
		}
		staged = &c13File{path: spath, kind: "canonical", content: content}
		staged.oid, staged.size = store(content), int64(len(content))
		staged.blob = canonicalPointer(staged.oid, staged.size)
		tmp := filepath.Join(base, "blob.tmp")
		os.WriteFile(tmp, staged.blob, 0o644)
		h, _ := w.git("hash-object", "-w", "--no-filters", tmp)
		w.git("update-index", "--add", "--cacheinfo", "100644,"+strings.TrimSpace(h)+","+spath)
		w.write(spath, staged.blob)
		log("staged %s", spath)
	}
	// ---- damage
	objState := map[string]string{} // oid -> intact | corrupt | missing
	allOids := map[string][]byte{}
	for _, snap := range history {
		for _, f := range snap {
			if f.oid != "" {
				allOids[f.oid] = f.content
			}
		}
	}
	if staged != nil {
		allOids[staged.oid] = staged.content
	}
	var oidList []string
	for o := range allOids {
		oidList = append(oidList, o)
	}
	sort.Strings(oidList)
	for _, o := range oidList {
		objState[o] = "intact"
		if !(r.Chance(35) || (staged != nil && o == staged.oid && r.Chance(50))) {
			continue
		}
		p := w.objectPath(o)
		b := allOids[o]
		switch d := Pick(r, []string{"delete", "truncate", "extend", "bitflip", "replace"}); d {
		case "delete":
			os.Remove(p)
			objState[o] = "missing"
		case "truncate":
			os.WriteFile(p, b[:len(b)/2], 0o644)
			objState[o] = "corrupt"
		case "extend":
			os.WriteFile(p, append(append([]byte(nil), b...), []byte("extra")...), 0o644)
			objState[o] = "corrupt"
		case "bitflip":
			nb := append([]byte(nil), b...)
			nb[r.Intn(len(nb))] ^= 0x10
			os.WriteFile(p, nb, 0o644)
			objState[o] = "corrupt"
		case "replace":
			other := allOids[oidList[r.Intn(len(oidList))]]
			if bytes.Equal(other, b) {
				other = []byte("something else entirely")
			}
			os.WriteFile(p, other, 0o644)
			objState[o] = "corrupt"
		}
		log("%s %s", objState[o], o[:8])
	}
	// ---- the command
	revMode := Pick(r, []string{"none", "none", "commit", "range"})
	var revArgs []string
	var checkedCommits []string
	rangeNew := false
	switch revMode {
	case "none":
		checkedCommits = []string{commits[len(commits)-1]}
	case "commit":
		cm := Pick(r, commits)
		revArgs = []string{cm}
		checkedCommits = []string{cm}
	case "range":
		if len(commits) < 2 {
			revMode = "none"
			checkedCommits = []string{commits[len(commits)-1]}
		} else {
			i := r.Intn(len(commits) - 1)
			j := i + 1 + r.Intn(len(commits)-1-i)
			revArgs = []string{commits[i] + ".." + commits[j]}
			checkedCommits = commits[i+1 : j+1]
			rangeNew = true
		}
	}
	var flags []string
	objectsOn, pointersOn := true, true
	switch r.Intn(4) {
	case 0:
		flags = append(flags, "--objects")
		pointersOn = false
	case 1:
		flags = append(flags, "--pointers")
		objectsOn = false
	case 2:
		flags = append(flags, "--objects", "--pointers")
	}
	dry := r.Chance(35)
	if dry {
		flags = append(flags, "--dry-run")
	}
	// ---- expectations from plumbing
	type refExp struct {
		oid   string
		size  int64
		state string
	}
	var refs []refExp
	seenRef := map[string]bool{}
	// D49: rev-list names every blob once, by the first path it meets; a pointer blob that sits at an
	// excluded path AND at a path that is not excluded may be skipped altogether
	alsoExcluded := map[string]bool{}
	addRef := func(f *c13File) {
		if f.kind != "raw" && f.oid != "" && exclude != "" && c05Excluded(exclude, f.path) {
			alsoExcluded[f.oid] = true
		}
		if f.kind == "raw" || c05Excluded(exclude, f.path) {
			return
		}
		if f.oid == "" { // the empty pointer
			return
		}
		if !seenRef[f.oid] {
			seenRef[f.oid] = true
			refs = append(refs, refExp{f.oid, f.size, objState[f.oid]})
		}
	}
	type trExp struct {
		id   string // what the report names: lfs oid for non-canonical pointers, path for raw content
		kind string
	}
	var tracked []trExp
	seenTr := map[string]bool{}
	noncanonElsewhere := map[string]bool{} // non-canonical pointers found at a path other than f.bin (the D21 `override` path)
	untrackedNoncanon := map[string]bool{} // oids of non-canonical pointers committed at the untracked path
	baseSnap := map[string]*c13File{}
	if rangeNew {
		// A..B: objects = blobs reachable from B and not from A
		ai := 0
		for i, cm := range commits {
			if cm+".."+checkedCommits[len(checkedCommits)-1] == revArgs[0] {
				ai = i
			}
		}
		baseSnap = history[commits[ai]]
	}
	for _, cm := range checkedCommits {
		for _, nme := range names {
			f := history[cm][nme]
			if f == nil {
				continue
			}
			if rangeNew {
				// a blob already present anywhere in A's tree is not listed by rev-list A..B
				old := false
				for _, bf := range baseSnap {
					if bytes.Equal(bf.blob, f.blob) {
						old = true
					}
				}
				if !old {
					addRef(f)
				}
			} else {
				addRef(f)
			}
			if untrackedPath(f.path) {
				if f.kind == "noncanon" {
					untrackedNoncanon[f.oid] = true
				}
				continue
			}
			key := f.kind + ":" + f.path + ":" + f.oid
			if seenTr[key] {
				continue
			}
			seenTr[key] = true
			switch f.kind {
			case "canonical":
				tracked = append(tracked, trExp{f.oid, "c"})
			case "noncanon":
				tracked = append(tracked, trExp{f.oid, "n"})
				if f.path != "f.bin" {
					noncanonElsewhere[f.oid] = true
				}
			case "raw":
				tracked = append(tracked, trExp{f.path, "r"})
			}
		}
	}
	if revMode == "none" && staged != nil {
		addRef(staged)
	}
	before := c13Snapshot(w.dir)
	out, code := w.runLfs(append(append([]string{"fsck"}, flags...), revArgs...)...)
	after := c13Snapshot(w.dir)
	log("git lfs fsck %s %s -> %d", strings.Join(flags, " "), strings.Join(revArgs, " "), code)
	enc := fmt.Sprintf("C13 scen seed=%d idx=%d exclude=%s attrs=%s steps=%s", c.Seed, idx, exclude, attrVariant, strings.Join(steps, " ; "))
	c.R.Eval(enc, len(steps) > 1)
	c.R.Count("fsck." + revMode)
	fail := func(what, impl, sig string) {
		c.R.Add(Finding{Kind: "oracle", What: what, Case: clip(enc, 2500), Impl: clip(impl, 600), Sig: sig})
	}
	var objLines, ptrLines []string
	for _, l := range strings.Split(out, "\n") {
		if strings.HasPrefix(l, "objects: ") && !strings.HasPrefix(l, "objects: repair") {
			objLines = append(objLines, l)
		}
		if strings.HasPrefix(l, "pointer: ") {
			ptrLines = append(ptrLines, l)
		}
	}
	named := func(lines []string, id string) bool {
		for _, l := range lines {
			if strings.Contains(l, id) {
				return true
			}
		}
		return false
	}
	expectFail := false
	onlyNestedExpected := true // the only expected problem is the D21 path
	onlySharedExpected := true // the only expected problems are objects that D49 hides
	d49 := map[string]bool{}   // bad objects that fsck skipped because their blob's first path is excluded
	// objects
	if objectsOn {
		for _, rf := range refs {
			bad := rf.state != "intact" && !(rf.state == "missing" && rf.size == 0)
			if bad {
				expectFail = true
				onlyNestedExpected = false
				if !alsoExcluded[rf.oid] {
					onlySharedExpected = false
				}
				if !named(objLines, rf.oid) {
					sig := ""
					if alsoExcluded[rf.oid] {
						sig = "D49"
						d49[rf.oid] = true
					}
					fail("fsck did not name a "+rf.state+" object that the checked revisions reference", rf.oid[:12]+" | "+clip(out, 300), sig)
				}
			} else if named(objLines, rf.oid) {
				fail("fsck named an intact object as damaged", rf.oid[:12]+" | "+clip(out, 300), "")
			}
		}
	} else if len(objLines) > 0 {
		fail("fsck --pointers printed object findings", strings.Join(objLines, " / "), "")
	}
	// pointers
	if pointersOn {
		for _, t := range tracked {
			// the authority on "tracked": git's own attribute lookup
			path := t.id
			if t.kind != "r" {
				continue
			}
			attr := checkAttr(w.dir, []string{path})[path]
			if attr != "lfs" {
				c13AttrTie(c, enc, path, rootAttrs, nested, false, named(ptrLines, "\""+path+"\"") || named(ptrLines, path))
				continue
			}
			expectFail = true // lfs.fetchexclude excuses missing OBJECTS; a tracked path holding raw content is still reported
			c13AttrTie(c, enc, path, rootAttrs, nested, true, named(ptrLines, "\""+path+"\"") || named(ptrLines, path))
			onlySharedExpected = false
			if !(override && path == "f.bin") {
				onlyNestedExpected = false
			}
			if !named(ptrLines, "\""+path+"\"") && !named(ptrLines, path) {
				sig := ""
				if override && path == "f.bin" {
					sig = "D21"
				}
				fail("fsck --pointers did not name a tracked path that holds raw content instead of a pointer", path+" | "+clip(out, 300), sig)
			}
		}
		for _, t := range tracked {
			if t.kind == "n" {
				// find its path for the exclusion test
				expectFail = true
				d21 := override && !noncanonElsewhere[t.id]
				if !d21 {
					onlyNestedExpected = false
				}
				onlySharedExpected = false
				if !named(ptrLines, t.id) {
					sig := ""
					if d21 {
						sig = "D21"
					}
					fail("fsck --pointers did not name a non-canonical pointer", t.id[:12]+" | "+clip(out, 300), sig)
				}
			}
			if t.kind == "c" && t.id != "" && named(ptrLines, t.id) {
				// a canonical pointer may share its oid with a non-canonical one elsewhere
				shared := false
				for _, t2 := range tracked {
					if t2.kind == "n" && t2.id == t.id {
						shared = true
					}
				}
				if !shared {
					fail("fsck --pointers named a canonical pointer", t.id[:12]+" | "+clip(out, 300), "")
				}
			}
		}
	} else if len(ptrLines) > 0 {
		fail("fsck --objects printed pointer findings", strings.Join(ptrLines, " / "), "")
	}
	if pointersOn {
		for o := range untrackedNoncanon {
			shared := false
			for _, t := range tracked {
				if t.kind == "n" && t.id == o {
					shared = true
				}
			}
			if !shared && named(ptrLines, o) {
				fail("fsck --pointers named a file that no attribute line tracks", o[:12]+" (plain/notes.txt) | "+clip(out, 300), "")
			}
		}
		if named(ptrLines, "plain/notes.txt") {
			fail("fsck --pointers named a file that no attribute line tracks", "plain/notes.txt | "+clip(out, 300), "")
		}
	}
	if expectFail && code == 0 {
		sig := ""
		if override && onlyNestedExpected {
			sig = "D21"
		}
		if onlySharedExpected && len(d49) > 0 {
			sig = "D49"
		}
		fail("fsck exited 0 although the checked revisions have damaged objects or bad pointers", clip(out, 300), sig)
	}
	if !expectFail && code != 0 {
		fail("fsck failed although every referenced object is intact and every tracked file is a canonical pointer", clip(out, 400), "")
	}
	// moves and untouched objects
	for rel, h := range before {
		if !strings.HasPrefix(rel, "objects/") {
			continue
		}
		oid := filepath.Base(rel)
		h2, still := after[rel]
		if objState[oid] == "intact" || objState[oid] == "" {
			if !still || h2 != h {
				fail("fsck touched an intact object", oid[:12], "")
			}
			continue
		}
		// a corrupt object
		if dry || !objectsOn {
			if !still || h2 != h {
				fail("fsck --dry-run (or without --objects) changed local storage", oid[:12], "")
			}
			continue
		}
		checked := seenRef[oid]
		if checked && d49[oid] {
			continue // not reported (D49, judged above): nothing to move
		}
		if checked {
			if still {
				fail("a corrupt object that fsck reported is still in place after the repairing run", oid[:12], "")
			}
			if hb, ok := after["bad/"+oid]; !ok || hb != h {
				fail("a corrupt object was not moved aside to lfs/bad with its content (it was deleted or altered)", oid[:12], "")
			}
		} else if !still || h2 != h {
			fail("fsck moved or changed an object outside the checked revisions", oid[:12], "")
		}
	}
	if dry {
		for rel, h := range before {
			if h2, ok := after[rel]; !ok || h2 != h {
				fail("fsck --dry-run changed a file under .git/lfs", rel, "")
			}
		}
	}
	// ---- the scan behind the object check (model FsScan): for one commit's tree, in walk order, which
	// pointer blobs does fsck look at?  Observable on the damaged ones: named or not
	if objectsOn && revMode != "range" && exclude != "" && !nested {
		walk := []string{"a.bin", "b.bin", "d.dat", "deep/dir/g.bin", "dir/c.bin", "dir/e.dat", "f.bin", "plain/notes.txt"}
		blobIDs := map[string]int{}
		var ents []string
		oidOfBlob := map[int]string{}
		for k, nme := range walk {
			f := history[checkedCommits[0]][nme]
			if f == nil || f.kind == "raw" || f.oid == "" {
				continue
			}
			key := string(f.blob)
			if _, ok := blobIDs[key]; !ok {
				blobIDs[key] = len(blobIDs) + 1
			}
			oidOfBlob[blobIDs[key]] = f.oid
			ex := "0"
			if c05Excluded(exclude, nme) {
				ex = "1"
			}
			ents = append(ents, fmt.Sprintf("%d:%d:%s", k+1, blobIDs[key], ex))
		}
		stagedOid := ""
		if revMode == "none" && staged != nil {
			stagedOid = staged.oid // the index scan is separate and has its own name for the blob
		}
		if len(ents) > 0 {
			if ans, err := c.Or.Ask([]string{"C13 scan " + strings.Join(ents, ",")}); err == nil {
				scannedOids := map[string]bool{}
				if ans[0] != "-" {
					for _, t := range strings.Split(ans[0], ",") {
						var n int
						fmt.Sscan(t, &n)
						scannedOids[oidOfBlob[n]] = true
					}
				}
				for _, o := range oidOfBlob {
					if o == stagedOid {
						continue
					}
					bad := objState[o] == "corrupt" || (objState[o] == "missing" && len(allOids[o]) > 0)
					if !bad {
						continue
					}
					// an oid may be named by a second, different pointer blob (non-canonical spelling): scanned if any is
					if scannedOids[o] != named(objLines, o) {
						c.R.Add(Finding{Kind: "diff", What: "which pointers the object check looks at: model (first name per blob, then the exclusion) and implementation disagree", Case: clip(enc, 2500),
							Impl: fmt.Sprintf("%s named=%v", o[:12], named(objLines, o)), Model: fmt.Sprintf("scanned=%v <= C13 scan %s", scannedOids[o], strings.Join(ents, ",")), Broken: "corr.C13.scan"})
					}
				}
				c.R.Count("fsck.scan-model-compared")
			}
		}
	}
	// ---- a second damage of the same objects (a re-fetch that went wrong again): lfs/bad/<oid> already exists
	if !dry && objectsOn && r.Chance(60) {
		var again []string
		for _, o := range oidList {
			if objState[o] == "corrupt" && seenRef[o] {
				if _, ok := after["bad/"+o]; ok {
					again = append(again, o)
				}
			}
		}
		if len(again) > 0 {
			want := map[string]string{}
			for _, o := range again {
				nb := []byte("damaged a second time " + o[:16] + string(r.Bytes(1+r.Intn(30))))
				p := w.objectPath(o)
				os.MkdirAll(filepath.Dir(p), 0o755)
				os.WriteFile(p, nb, 0o644)
				want[o] = sha(nb)
			}
			out2, code2 := w.runLfs(append([]string{"fsck", "--objects"}, revArgs...)...)
			after2 := c13Snapshot(w.dir)
			c.R.Count("fsck.second-damage")
			var obj2 []string
			for _, l := range strings.Split(out2, "\n") {
				if strings.HasPrefix(l, "objects: ") && !strings.HasPrefix(l, "objects: repair") {
					obj2 = append(obj2, l)
				}
			}
			if code2 == 0 {
				fail("fsck exited 0 although the checked revisions have damaged objects or bad pointers", "second damage | "+clip(out2, 300), "")
			}
			for _, o := range again {
				if !named(obj2, o) {
					fail("fsck did not name a corrupt object that the checked revisions reference", "second damage "+o[:12]+" | "+clip(out2, 300), "")
				}
				if _, still := after2["objects/"+o[:2]+"/"+o[2:4]+"/"+o]; still {
					fail("a corrupt object that fsck reported is still in place after the repairing run", "second damage (lfs/bad/"+o[:12]+" existed already)", "")
					continue
				}
				kept := false
				for rel, h := range after2 {
					if strings.HasPrefix(rel, "bad/") && h == want[o] {
						kept = true
					}
				}
				if !kept {
					fail("a corrupt object was not moved aside to lfs/bad with its content (it was deleted or altered)", "second damage "+o[:12], "")
				}
			}
			// the second run in the model's vocabulary: the same model, whatever lfs/bad already holds
			sharedBad := false
			for _, rf := range refs {
				if alsoExcluded[rf.oid] && rf.state != "intact" {
					sharedBad = true
				}
			}
			if !override && !sharedBad {
				isAgain := map[string]bool{}
				for _, o := range again {
					isAgain[o] = true
				}
				var rp2, ro2, mv2 []string
				for i, rf := range refs {
					z, st := "n", "m"
					if rf.size == 0 {
						z = "z"
					}
					if isAgain[rf.oid] {
						st = "c"
					} else if rf.state == "intact" {
						st = "i"
					}
					rp2 = append(rp2, fmt.Sprintf("%d:%s:%s", i+1, z, st))
					if named(obj2, rf.oid) {
						ro2 = append(ro2, fmt.Sprint(i+1))
					}
					_, still := after2["objects/"+rf.oid[:2]+"/"+rf.oid[2:4]+"/"+rf.oid]
					if isAgain[rf.oid] && !still && after2["bad/"+rf.oid] == want[rf.oid] {
						mv2 = append(mv2, fmt.Sprint(i+1))
					}
				}
				sort.Strings(ro2)
				sort.Strings(mv2)
				ex2 := "ok"
				if code2 != 0 {
					ex2 = "fail"
				}
				extra(fmt.Sprintf("C13 fsck 100 %s -", joinOrDash(rp2)), fmt.Sprintf("%s objects=%s pointers=- moved=%s", ex2, joinOrDash(ro2), joinOrDash(mv2)), enc+" ; second damage")
			}
			for rel, h := range after {
				oid := filepath.Base(rel)
				if strings.HasPrefix(rel, "objects/") && objState[oid] == "intact" {
					if h2, ok := after2[rel]; !ok || h2 != h {
						fail("fsck touched an intact object", "second run "+oid[:12], "")
					}
				}
			}
		}
	}
	// ---- the model line
	ids := map[string]int{}
	id := func(s string) int {
		if _, ok := ids[s]; !ok {
			ids[s] = len(ids) + 1
		}
		return ids[s]
	}
	var rp, tp []string
	for _, rf := range refs {
		z := "n"
		if rf.size == 0 {
			z = "z"
		}
		rp = append(rp, fmt.Sprintf("%d:%s:%s", id(rf.oid), z, rf.state[:1]))
	}
	if override {
		return
	}
	for _, rf := range refs {
		if alsoExcluded[rf.oid] && rf.state != "intact" {
			// which of a blob's paths rev-list reports is outside the set-level model (D49): judged directly only
			c.R.Count("fsck.model-skipped-shared-excluded")
			return
		}
	}
	for _, t := range tracked {
		path := t.id
		if t.kind == "r" && checkAttr(w.dir, []string{path})[path] != "lfs" {
			continue
		}
		if t.id == "" {
			continue
		}
		tp = append(tp, fmt.Sprintf("%d:%s", id(t.id), t.kind))
	}
	b2 := func(b bool) string {
		if b {
			return "1"
		}
		return "0"
	}
	hasFlag := func(f string) bool {
		for _, x := range flags {
			if x == f {
				return true
			}
		}
		return false
	}
	fl := b2(hasFlag("--objects")) + b2(hasFlag("--pointers")) + b2(dry)
	mline = fmt.Sprintf("C13 fsck %s %s %s", fl, joinOrDash(rp), joinOrDash(tp))
	// observed outcome in the same vocabulary
	var ro, rpn, mv []string
	for s2, n := range ids {
		if len(s2) == 64 && named(objLines, s2) {
			ro = append(ro, fmt.Sprint(n))
		}
		if (len(s2) == 64 && named(ptrLines, s2)) || (len(s2) != 64 && named(ptrLines, s2)) {
			// a canonical pointer sharing the oid of a non-canonical one is named through the latter
			rpn = append(rpn, fmt.Sprint(n))
		}
		if _, ok := after["bad/"+s2]; ok {
			if _, was := before["bad/"+s2]; !was {
				mv = append(mv, fmt.Sprint(n))
			}
		}
	}
	sort.Strings(ro)
	sort.Strings(rpn)
	sort.Strings(mv)
	ex := "ok"
	if code != 0 {
		ex = "fail"
	}
	mimpl = fmt.Sprintf("%s objects=%s pointers=%s moved=%s", ex, joinOrDash(ro), joinOrDash(rpn), joinOrDash(mv))
	mcase = enc
	if idx%15 == 0 {
		c.R.Sample(map[string]interface{}{"steps": steps, "exit": code, "object_lines": len(objLines), "pointer_lines": len(ptrLines)})
	}
	return
}

func c13(c *Ctx) {
	r := NewRng(c.Seed ^ 0xC13)
	c.R.Rule = "cases = histories of 1-3 plumbing-built commits over 6 tracked paths, each committed as canonical pointer / non-canonical pointer (CRLF, extra line, legacy URL, leading blank) / raw content (incl. >=1024-byte look-alikes) / empty pointer, with a staged uncommitted pointer; local objects damaged by deletion, truncation, extension, bit flip, replacement; revisions none / commit / A..B; --objects, --pointers, both, none; --dry-run; lfs.fetchexclude; expected reports from plumbing + `git check-attr`, moves and untouched objects from a snapshot of .git/lfs, the set-level outcome compared with the model; non-trivial = scenario with >= 1 damage; distinct = different (seed, index)"
	n := c.N(120, 2500)
	var wg sync.WaitGroup
	sem := make(chan struct{}, 10)
	var mu sync.Mutex
	var lines, impl, cases []string
	for i := 0; i < n; i++ {
		rs := r.Fork()
		wg.Add(1)
		sem <- struct{}{}
		go func(i int, rs *Rng) {
			defer wg.Done()
			defer func() { <-sem }()
			defer func() {
				if x := recover(); x != nil {
					c.R.Add(Finding{Kind: "diff", What: fmt.Sprintf("scenario harness problem: %v", x), Broken: "corr.C13.scenario"})
				}
			}()
			l, m, cs := c13Scenario(c, i, rs, func(l, m, cs string) {
				mu.Lock()
				lines = append(lines, l)
				impl = append(impl, m)
				cases = append(cases, cs)
				mu.Unlock()
			})
			if l != "" {
				mu.Lock()
				lines = append(lines, l)
				impl = append(impl, m)
				cases = append(cases, cs)
				mu.Unlock()
			}
		}(i, rs)
	}
	wg.Wait()
	ans, err := c.Or.Ask(lines)
	if err != nil {
		c.R.Add(Finding{Kind: "diff", What: "oracle process failed: " + err.Error(), Broken: "corr.C13.fsck"})
		return
	}
	for i := range lines {
		if ans[i] != impl[i] {
			c.R.Add(Finding{Kind: "diff", What: "fsck outcome (exit, named objects, named pointers, moved objects): model and implementation disagree", Case: clip(cases[i], 2500), Impl: impl[i], Model: ans[i] + " <= " + lines[i], Broken: "corr.C13.fsck"})
		}
	}
}

func init() { campaigns["C13"] = c13 }

// c13AttrTie: the attribute lines of the scenario seen from ONE path holding raw content (model AttrFilter):
// does fsck name the path exactly when the model's fsckSays holds, and does the harness's reading of the lines
// (which line's pattern matches the path) give Git's own verdict (`git check-attr`) under the model's gitSays?
func c13AttrTie(c *Ctx, enc, p, rootAttrs string, nested, gitTracks, fsckNamed bool) {
	type src struct{ dir, text string }
	srcs := []src{{"", rootAttrs}}
	if nested {
		srcs = append(srcs, src{"sub/", "*.raw filter=lfs -text\n"})
	}
	var bits []string
	for _, sc := range srcs {
		if !strings.HasPrefix(p, sc.dir) {
			continue
		}
		rel := strings.TrimPrefix(p, sc.dir)
		for _, l := range strings.Split(strings.TrimSpace(sc.text), "\n") {
			f := strings.Fields(l)
			if len(f) < 2 || strings.HasPrefix(f[0], "#") {
				continue
			}
			pat := f[0]
			hit := false
			if strings.HasSuffix(pat, "/**") {
				hit = strings.HasPrefix(rel, strings.TrimSuffix(pat, "**"))
			} else if strings.Contains(pat, "/") {
				hit, _ = path.Match(pat, rel)
			} else {
				hit, _ = path.Match(pat, path.Base(rel))
			}
			hasFilter, isLfs := false, false
			for _, a := range f[1:] {
				switch {
				case a == "filter=lfs":
					hasFilter, isLfs = true, true
				case a == "-filter" || a == "!filter" || strings.HasPrefix(a, "filter="):
					hasFilter, isLfs = true, false
				}
			}
			b := func(x bool) string {
				if x {
					return "1"
				}
				return "0"
			}
			bits = append(bits, b(hit)+b(hasFilter)+b(isLfs))
		}
	}
	line := "C13 attr " + joinOrDash(bits)
	ans, err := c.Or.Ask([]string{line})
	if err != nil || len(ans) != 1 {
		return
	}
	c.R.Count("fsck.attr-tie")
	var mf, mg int
	if _, err := fmt.Sscanf(ans[0], "fsck=%d git=%d", &mf, &mg); err != nil {
		c.R.Add(Finding{Kind: "diff", What: "attribute model: unreadable answer", Case: enc, Model: ans[0] + " <= " + line, Broken: "corr.C13.attr"})
		return
	}
	if (mg == 1) != gitTracks {
		c.R.Add(Finding{Kind: "diff", What: "attribute model: Git's verdict on a path (git check-attr filter) differs from the model's last-matching-line rule on the harness's reading of the lines", Case: enc,
			Impl: fmt.Sprintf("%s: git tracks=%v", p, gitTracks), Model: ans[0] + " <= " + line, Broken: "corr.C13.attr"})
	}
	if (mf == 1) != fsckNamed {
		sig := ""
		if mg == 1 && mf == 0 {
			sig = "D21" // cannot happen: then the model agrees with fsck; kept for symmetry
		}
		c.R.Add(Finding{Kind: "diff", What: "fsck --pointers: a path holding raw content is named or not named differently from the model's include/exclude rule over the attribute lines", Case: enc,
			Impl: fmt.Sprintf("%s: named=%v", p, fsckNamed), Model: ans[0] + " <= " + line, Broken: "corr.C13.attr", Sig: sig})
	}
}
