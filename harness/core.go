// Shared plumbing of the correspondence harness: PRNG, oracle pipe, result file.
package main

import (
	"bufio"
	"crypto/sha256"
	"encoding/hex"
	"encoding/json"
	"fmt"
	"io"
	"os"
	"os/exec"
	"sort"
	"strings"
	"sync"
	"sync/atomic"
)

// splitmix64: every random choice of a campaign derives from one state.
type Rng struct{ s uint64 }

// NewRng: the seed goes through the output mixer first — with `seed*gamma` as the start state,
// consecutive seeds would yield the same stream shifted by one draw.
func NewRng(seed uint64) *Rng {
	z := seed + 0x632BE59BD9B4E019
	z = (z ^ (z >> 30)) * 0xBF58476D1CE4E5B9
	z = (z ^ (z >> 27)) * 0x94D049BB133111EB
	return &Rng{s: z ^ (z >> 31)}
}
func (r *Rng) U64() uint64 {
	r.s += 0x9E3779B97F4A7C15
	z := r.s
	z = (z ^ (z >> 30)) * 0xBF58476D1CE4E5B9
	z = (z ^ (z >> 27)) * 0x94D049BB133111EB
	return z ^ (z >> 31)
}
func (r *Rng) Intn(n int) int {
	if n <= 0 {
		return 0
	}
	return int(r.U64() % uint64(n))
}
func (r *Rng) Bool() bool        { return r.U64()&1 == 1 }
func (r *Rng) Chance(p int) bool { return r.Intn(100) < p }
func (r *Rng) Bytes(n int) []byte {
	b := make([]byte, n)
	for i := range b {
		b[i] = byte(r.U64())
	}
	return b
}
func (r *Rng) Fork() *Rng { return NewRng(r.U64()) }
func Pick[T any](r *Rng, xs []T) T { return xs[r.Intn(len(xs))] }

// Oracle is the compiled Lean model speaking the line protocol.
type Oracle struct {
	path string
}

// Ask runs the oracle once over all lines (one answer line per input line).
var oracleAsked int64

func (o *Oracle) Ask(lines []string) ([]string, error) {
	if len(lines) == 0 {
		return nil, nil
	}
	atomic.AddInt64(&oracleAsked, int64(len(lines)))
	nproc := 8
	if len(lines) < 64 {
		nproc = 1
	}
	out := make([]string, len(lines))
	var wg sync.WaitGroup
	var firstErr error
	var mu sync.Mutex
	chunk := (len(lines) + nproc - 1) / nproc
	for p := 0; p < nproc; p++ {
		lo, hi := p*chunk, (p+1)*chunk
		if lo >= len(lines) {
			break
		}
		if hi > len(lines) {
			hi = len(lines)
		}
		wg.Add(1)
		go func(lo, hi int) {
			defer wg.Done()
			cmd := exec.Command(o.path)
			cmd.Stdin = strings.NewReader(strings.Join(lines[lo:hi], "\n") + "\n")
			cmd.Stderr = os.Stderr
			pipe, _ := cmd.StdoutPipe()
			if err := cmd.Start(); err != nil {
				mu.Lock()
				firstErr = err
				mu.Unlock()
				return
			}
			sc := bufio.NewReaderSize(pipe, 1<<20)
			i := lo
			for {
				l, err := sc.ReadString('\n')
				if l != "" {
					if i < hi {
						out[i] = strings.TrimRight(l, "\n")
					}
					i++
				}
				if err != nil {
					break
				}
			}
			io.Copy(io.Discard, pipe)
			err := cmd.Wait()
			if err != nil || i != hi {
				mu.Lock()
				if firstErr == nil {
					firstErr = fmt.Errorf("oracle: %v, answered %d of %d lines", err, i-lo, hi-lo)
				}
				mu.Unlock()
			}
		}(lo, hi)
	}
	wg.Wait()
	return out, firstErr
}

func hx(b []byte) string {
	if len(b) == 0 {
		return "-"
	}
	return hex.EncodeToString(b)
}
func unhx(s string) []byte {
	if s == "-" {
		return nil
	}
	b, _ := hex.DecodeString(s)
	return b
}
func sha(b []byte) string { h := sha256.Sum256(b); return hex.EncodeToString(h[:]) }

// Finding: one disagreement (model vs implementation) or one oracle failure
// (the implementation's observed behaviour contradicts the property).
type Finding struct {
	Kind   string      `json:"kind"` // "diff" | "oracle"
	What   string      `json:"what"`
	Case   interface{} `json:"case"`
	Impl   string      `json:"impl,omitempty"`
	Model  string      `json:"model,omitempty"`
	Sig    string      `json:"signature,omitempty"` // known-finding signature this failure matches, if any
	Broken string      `json:"broken,omitempty"`    // correspondence / theorem name
}

type Result struct {
	Property    string         `json:"property"`
	Tier        string         `json:"tier"`
	Seed        uint64         `json:"seed"`
	Evaluations int            `json:"evaluations"`
	Nontrivial  int            `json:"distinct_nontrivial"`
	Rule        string         `json:"rule"`
	Samples     []interface{}  `json:"samples"`
	Dist        map[string]int `json:"distribution"`
	Findings    []Finding      `json:"findings"`
	Notes       []string       `json:"notes,omitempty"`
	mu          sync.Mutex
	seen        map[string]bool
}

func NewResult(p, tier string, seed uint64) *Result {
	return &Result{Property: p, Tier: tier, Seed: seed, Dist: map[string]int{}, seen: map[string]bool{}, Findings: []Finding{}}
}
func (r *Result) Count(k string) { r.mu.Lock(); r.Dist[k]++; r.mu.Unlock() }
func (r *Result) Eval(key string, nontrivial bool) {
	r.mu.Lock()
	r.Evaluations++
	if nontrivial && !r.seen[key] {
		r.seen[key] = true
		r.Nontrivial++
	}
	r.mu.Unlock()
}
func (r *Result) Sample(s interface{}) {
	r.mu.Lock()
	if len(r.Samples) < 6 {
		r.Samples = append(r.Samples, s)
	}
	r.mu.Unlock()
}
func (r *Result) Add(f Finding) {
	r.mu.Lock()
	// 200 per kind: a flood of model disagreements must not crowd out the property oracle's failing inputs
	if r.Dist["findings."+f.Kind] < 200 {
		r.Findings = append(r.Findings, f)
	}
	r.Dist["findings."+f.Kind]++
	r.mu.Unlock()
}
func (r *Result) Write(path string) {
	r.Dist["oracle.lines-compared"] = int(atomic.LoadInt64(&oracleAsked)) // how many cases actually went through the Lean model
	sort.SliceStable(r.Findings, func(i, j int) bool { return r.Findings[i].What < r.Findings[j].What })
	b, _ := json.MarshalIndent(r, "", " ")
	os.WriteFile(path, b, 0o644)
}

func clip(s string, n int) string {
	if len(s) > n {
		return s[:n] + "…"
	}
	return s
}

func jsonUnmarshal(b []byte, v interface{}) error { return json.Unmarshal(b, v) }
